theorem startOfYear_range (k : Nat) : 2 ≤ startOfYear k ∧ startOfYear k ≤ 7 := by
  unfold startOfYear; split <;> omega

theorem correction_range (b : Bool) (k : Nat) : -1 ≤ correction b k ∧ correction b k ≤ 1 := by
  unfold correction; split <;> (try split) <;> omega

theorem corr_range (y : Int) : corr y = -1 ∨ corr y = 0 ∨ corr y = 1 := by
  have := correction_range (isLeap y) (kevIndex y); unfold corr; omega

theorem yearLength_eq (y : Int) : yearLength y = baseLen (cycle y) + correction (cycle y = .leap) (kevIndex y) := by
  unfold yearLength baseLen corr isLeap
  by_cases h : cycle y = .leap <;> simp [h]

/-- **The keviyah tables agree with the molad arithmetic**: the new year after `y` comes exactly `yearLength y`
    days after the new year of `y` — for every year. -/
theorem newYearSpec_succ (y : Int) : newYearSpec (y + 1) = newYearSpec y + yearLength y := by
  have hs := cycle_step y
  have hm := monthsPreceding_succ y
  rw [yearLength_eq]
  unfold newYearSpec kevIndex weeks0 inWeek
  have hM : molad (y + 1) = molad y + lunations (cycle y) * 765433 := by
    unfold molad; rw [hm]; generalize monthsPreceding y = m; generalize lunations (cycle y) = l
    rw [Int.add_mul]; omega
  have a1 := Int.mul_ediv_add_emod (molad y) 181440
  have a2 := Int.mul_ediv_add_emod (molad (y + 1)) 181440
  have b1 := Int.emod_nonneg (molad y) (by decide : (181440 : Int) ≠ 0)
  have b2 := Int.emod_lt_of_pos (molad y) (by decide : (0 : Int) < 181440)
  have b3 := Int.emod_nonneg (molad (y + 1)) (by decide : (181440 : Int) ≠ 0)
  have b4 := Int.emod_lt_of_pos (molad (y + 1)) (by decide : (0 : Int) < 181440)
  have st := hs (molad y % 181440) (molad (y + 1) / 181440 - molad y / 181440) (molad (y + 1) % 181440) b1 b2 b3 b4
    (by rw [hM] at a2 ⊢; omega)
  omega

/-! ### The year estimate -/

theorem newYearSpec_bounds (y : Int) :
    179876755 * (y - 1) - 15860746 ≤ 492480 * (newYearSpec y - EPOCH) ∧
    492480 * (newYearSpec y - EPOCH) ≤ 179876755 * (y - 1) + 7274149 := by
  unfold newYearSpec weeks0 inWeek molad monthsPreceding EPOCH
  have hs := startOfYear_range (kevIndex y)
  generalize startOfYear (kevIndex y) = s at hs
  split <;> omega

theorem yearOfWith_spec (n : Int) :
    newYearSpec (yearOfWith newYearSpec n) ≤ n ∧ n < newYearSpec (yearOfWith newYearSpec n + 1) := by
  unfold yearOfWith
  simp only
  generalize ha : 1 + 98496 * (n - EPOCH) / 35975351 = a
  have h1 : 35975351 * (a - 1) ≤ 98496 * (n - EPOCH) ∧ 98496 * (n - EPOCH) < 35975351 * a := by omega
  have s0 := newYearSpec_succ a
  have s1 := newYearSpec_succ (a - 1)
  have s2 := newYearSpec_succ (a + 1)
  have bm := newYearSpec_bounds (a - 1)
  have bp := newYearSpec_bounds (a + 2)
  rw [show a - 1 + 1 = a by omega] at s1
  rw [show a + 1 + 1 = a + 2 by omega] at s2
  split
  · constructor
    · omega
    · rw [show a - 1 + 1 = a by omega]; omega
  · split
    · constructor
      · omega
      · rw [show a + 1 + 1 = a + 2 by omega]; omega
    · constructor <;> omega

/-! ### The calendar is lawful -/

theorem monthLen_range (y : Int) (m : Nat) : 29 ≤ monthLen y m ∧ monthLen y m ≤ 30 := by
  unfold monthLen
  simp only
  repeat' split
  all_goals omega

theorem hebrewSpec_diy (y : Int) : hebrewSpec.diy y = yearLength y := by
  rcases corr_range y with hc | hc | hc <;>
  cases hl : isLeap y <;>
  simp [ACal.diy, hebrewSpec, ACal.before, monthLen, yearLength, hl, hc]

theorem hebrewSpec_lawful : hebrewSpec.Lawful (fun _ => True) where
  months_pos := by intro y; simp only [hebrewSpec]; split <;> omega
  dim_pos := by intro y m _ _; have := monthLen_range y m; simp only [hebrewSpec]; omega
  year_len := by intro y; rw [hebrewSpec_diy]; exact newYearSpec_succ y
  yearOf_spec := by intro n _; exact yearOfWith_spec n

/-! ### The coded new year, and where it differs -/

theorem newYear_eq_spec (y : Int) (h : inWeek y ≠ 174960) : newYear y = newYearSpec y := by
  unfold newYear newYearSpec; split <;> split <;> omega

/-- A molad exactly at Saturday 18 h 0 p: the keviyah postpones the new year, the coded week count does not move
    on, and the coded new year is a week early. -/
theorem newYear_exceptional (y : Int) (h : inWeek y = 174960) : newYear y = newYearSpec y - 7 := by
  unfold newYear newYearSpec; rw [h]; simp only [gt_iff_lt, Int.lt_irrefl, if_false, ge_iff_le, Int.le_refl, if_true]
  omega

/-- the estimate `year_containing_rd` starts from -/
def est (n : Int) : Int := 1 + 98496 * (n - EPOCH) / 35975351

/-- No molad exactly at Saturday 18 h 0 p in the estimated year of day `n` or in its two neighbours. -/
def Good (n : Int) : Prop :=
  inWeek (est n - 1) ≠ 174960 ∧ inWeek (est n) ≠ 174960 ∧ inWeek (est n + 1) ≠ 174960

instance (n : Int) : Decidable (Good n) := by unfold Good; infer_instance

theorem yearOfWith_near (ny : Int → Int) (n : Int) :
    yearOfWith ny n = est n - 1 ∨ yearOfWith ny n = est n ∨ yearOfWith ny n = est n + 1 := by
  unfold yearOfWith est; simp only; split
  · exact Or.inl rfl
  · split
    · exact Or.inr (Or.inr rfl)
    · exact Or.inr (Or.inl rfl)

theorem yearOf_eq_spec (n : Int) (g : Good n) : yearOf n = yearOfWith newYearSpec n := by
  have e := newYear_eq_spec _ g.2.1
  unfold est at e
  unfold yearOf yearOfWith
  simp only [e]

theorem newYear_yearOf (n : Int) (g : Good n) :
    newYear (yearOfWith newYearSpec n) = newYearSpec (yearOfWith newYearSpec n) := by
  rcases yearOfWith_near newYearSpec n with e | e | e <;> rw [e]
  · exact newYear_eq_spec _ g.1
  · exact newYear_eq_spec _ g.2.1
  · exact newYear_eq_spec _ g.2.2

theorem hebrewSpec_dim (y : Int) (m : Nat) : hebrewSpec.dim y m = monthLen y m := rfl

/-- `month_day_for` finds the month a day of the year falls in. -/
theorem monthDayFor_unique (y : Int) :
    ∀ (f m : Nat), 1 ≤ m → ∀ (M : Nat) (d : Int), m ≤ M → M < m + f → M ≤ hebrewSpec.months y → 1 ≤ d →
      d ≤ monthLen y M →
      monthDayFor y f m (hebrewSpec.before y (M - 1) - hebrewSpec.before y (m - 1) + d) = (M, d) := by
  intro f
  induction f with
  | zero => intro m _ M d h1 h2; omega
  | succ f ih =>
    intro m hm M d h1 h2 h3 h4 h5
    unfold monthDayFor
    by_cases e : M = m
    · subst e
      have hr := monthLen_range y M
      have hc : hebrewSpec.before y (M - 1) - hebrewSpec.before y (M - 1) + d ≤ 255 ∧
          hebrewSpec.before y (M - 1) - hebrewSpec.before y (M - 1) + d ≤ monthLen y M := by omega
      rw [if_pos hc]; congr 1; omega
    · have hle := before_le hebrewSpec_lawful y (M - 1) m (by omega) (by omega)
      have hp := before_pred hebrewSpec y m hm
      rw [hebrewSpec_dim] at hp
      have hc : ¬ (hebrewSpec.before y (M - 1) - hebrewSpec.before y (m - 1) + d ≤ 255 ∧
          hebrewSpec.before y (M - 1) - hebrewSpec.before y (m - 1) + d ≤ monthLen y m) := by omega
      rw [if_neg hc]
      have := ih (m + 1) (by omega) M d (by omega) (by omega) h3 h4 h5
      rw [Nat.add_sub_cancel] at this
      have e2 : hebrewSpec.before y (M - 1) - hebrewSpec.before y (m - 1) + d - monthLen y m =
          hebrewSpec.before y (M - 1) - hebrewSpec.before y m + d := by omega
      rw [e2]; exact this

theorem yearLength_range (y : Int) : 353 ≤ yearLength y ∧ yearLength y ≤ 385 := by
  unfold yearLength; rcases corr_range y with h | h | h <;> rw [h] <;> split <;> omega

/-- **The coded day → date conversion is the calendar's**, away from a molad at Saturday 18 h 0 p. -/
theorem ofDay_eq_spec (n : Int) (g : Good n) : ofDay n = hebrewSpec.ofDay n := by
  obtain ⟨⟨h1, h2, h3, h4⟩, ht⟩ := ofDay_spec hebrewSpec_lawful n trivial
  have hny := newYear_yearOf n g
  have e1 : (hebrewSpec.ofDay n).1 = yearOfWith newYearSpec n := rfl
  unfold ofDay
  dsimp only
  rw [yearOf_eq_spec n g, hny, ← e1]
  generalize hebrewSpec.ofDay n = P at *
  obtain ⟨y, M, d⟩ := P
  simp only at h1 h2 h3 h4 ht ⊢
  have ht' : newYearSpec y + hebrewSpec.before y (M - 1) + (d - 1) = n := ht
  have hb := before_nonneg hebrewSpec_lawful y (M - 1) (by omega)
  have hle := before_le hebrewSpec_lawful y (hebrewSpec.months y) (M - 1) (by omega) (Nat.le_refl _)
  have hd := hebrewSpec_diy y
  unfold ACal.diy at hd
  have hyl := yearLength_range y
  have hml := monthLen_range y M
  rw [hebrewSpec_dim] at h4
  have hm13 : hebrewSpec.months y ≤ 13 := by simp only [hebrewSpec]; split <;> omega
  have hu := monthDayFor_unique y 13 1 (Nat.le_refl _) M d h1 (by omega) h2 h3 h4
  simp only [Nat.sub_self, ACal.before, Int.sub_zero] at hu
  have e0 : n - newYearSpec y + 1 = hebrewSpec.before y (M - 1) + d := by omega
  have hns : ¬ (hebrewSpec.before y (M - 1) + d < 0 ∨ hebrewSpec.before y (M - 1) + d > 65535) := by omega
  rw [e0, if_neg hns, hu]

/-- The closed form `date_to_iso` uses for the days before a month is the sum of the month lengths. -/
theorem daysPreceding_eq (y : Int) (m : Nat) (h1 : 1 ≤ m) (h2 : m ≤ hebrewSpec.months y) :
    daysPreceding y m = hebrewSpec.before y (m - 1) := by
  simp only [hebrewSpec] at h2
  rcases corr_range y with hc | hc | hc <;> cases hl : isLeap y <;>
    simp only [hl, Bool.false_eq_true, if_false, if_true] at h2
  all_goals
    have hm : m = 1 ∨ m = 2 ∨ m = 3 ∨ m = 4 ∨ m = 5 ∨ m = 6 ∨ m = 7 ∨ m = 8 ∨ m = 9 ∨ m = 10 ∨ m = 11 ∨ m = 12 ∨
        m = 13 := by omega
    rcases hm with rfl | rfl | rfl | rfl | rfl | rfl | rfl | rfl | rfl | rfl | rfl | rfl | rfl <;>
      first
        | omega
        | simp [daysPreceding, hebrewSpec, ACal.before, monthLen, hl, hc]

/-- Away from a molad at Saturday 18 h 0 p the library's debug assertion holds: no panic in any build. -/
theorem ofDayChecked_ok (n : Int) (g : Good n) : ofDayChecked n = .ok (ofDay n) := by
  obtain ⟨s1, s2⟩ := yearOfWith_spec n
  have hny := newYear_yearOf n g
  have hl := newYearSpec_succ (yearOfWith newYearSpec n)
  unfold ofDayChecked
  dsimp only
  rw [yearOf_eq_spec n g, hny]
  rw [if_neg (by omega)]

end Heb

open Heb

theorem hebrewFieldsChecked_ok (n : Int) (g : Good n) : hebrewFieldsChecked n = .ok (hebrewFields n) := by
  unfold hebrewFieldsChecked hebrewFields; rw [ofDayChecked_ok n g]

theorem hebrewFields_eq_spec (n : Int) (g : Good n) : hebrewFields n = hebrewFieldsSpec n := by
  unfold hebrewFields hebrewFieldsSpec; rw [ofDay_eq_spec n g]

/-! ### Month codes -/

theorem ordOf_codeOf (y : Int) (m : Nat) (h1 : 1 ≤ m) (h2 : m ≤ hebrewSpec.months y) :
    ordOf y (codeOf y m) = some m := by
  simp only [hebrewSpec] at h2
  cases hl : isLeap y <;> simp only [hl, Bool.false_eq_true, if_false, if_true] at h2
  · have hm : m = 1 ∨ m = 2 ∨ m = 3 ∨ m = 4 ∨ m = 5 ∨ m = 6 ∨ m = 7 ∨ m = 8 ∨ m = 9 ∨ m = 10 ∨ m = 11 ∨ m = 12 := by
      omega
    rcases hm with rfl | rfl | rfl | rfl | rfl | rfl | rfl | rfl | rfl | rfl | rfl | rfl <;> simp [ordOf, codeOf, hl]
  · have hm : m = 1 ∨ m = 2 ∨ m = 3 ∨ m = 4 ∨ m = 5 ∨ m = 6 ∨ m = 7 ∨ m = 8 ∨ m = 9 ∨ m = 10 ∨ m = 11 ∨ m = 12 ∨
        m = 13 := by omega
    rcases hm with rfl | rfl | rfl | rfl | rfl | rfl | rfl | rfl | rfl | rfl | rfl | rfl | rfl <;>
      simp [ordOf, codeOf, hl]

/-! ### Bounds and consecutive days -/

theorem hebrewFieldsSpec_ok (n : Int) : FieldsOk (hebrewFieldsSpec n) := by
  obtain ⟨⟨h1, h2, h3, h4⟩, _⟩ := ofDay_spec hebrewSpec_lawful n trivial
  have hb := before_nonneg hebrewSpec_lawful (hebrewSpec.ofDay n).1 ((hebrewSpec.ofDay n).2.1 - 1) (by omega)
  have hp := before_pred hebrewSpec (hebrewSpec.ofDay n).1 (hebrewSpec.ofDay n).2.1 h1
  have hle := before_le hebrewSpec_lawful (hebrewSpec.ofDay n).1 (hebrewSpec.months (hebrewSpec.ofDay n).1)
    (hebrewSpec.ofDay n).2.1 h2 (Nat.le_refl _)
  have hd := hebrewSpec_diy (hebrewSpec.ofDay n).1
  unfold ACal.diy at hd
  rw [hebrewSpec_dim] at h4 hp
  unfold FieldsOk hebrewFieldsSpec hebrewFieldsOf
  simp only
  generalize (hebrewSpec.ofDay n).1 = y at *
  generalize (hebrewSpec.ofDay n).2.1 = m at *
  generalize (hebrewSpec.ofDay n).2.2 = d at *
  refine ⟨h3, h4, by omega, by omega, by omega, by omega, by omega, ?_, ?_, by simp⟩
  · unfold codeOf; split
    · split
      · right; simp only; omega
      · split
        · right; simp only; omega
        · left; rfl
    · left; rfl
  · unfold codeOf; split
    · split
      · intro _; simp only; omega
      · split <;> (intro hh; cases hh)
    · intro hh; cases hh

theorem codeOf_succ_ne (y : Int) (m : Nat) (h1 : 1 ≤ m) : codeOf y (m + 1) ≠ codeOf y m := by
  unfold codeOf
  split
  · by_cases a : m + 1 = 6
    · have : m = 5 := by omega
      subst this; simp
    · by_cases b : m = 6
      · subst b; simp
      · rw [if_neg a, if_neg b]
        by_cases c : m > 6
        · rw [if_pos (by omega), if_pos c]; intro hh; injection hh with hh _; omega
        · rw [if_neg (by omega), if_neg c]; intro hh; injection hh with hh _; omega
  · intro hh; injection hh with hh _; omega

theorem hebrewFieldsSpec_consecutive (n : Int) :
    Consecutive (hebrewFieldsSpec n) (hebrewFieldsSpec (n + 1)) := by
  obtain ⟨⟨h1, h2, h3, h4⟩, _⟩ := ofDay_spec hebrewSpec_lawful n trivial
  have hs := ofDay_succ hebrewSpec_lawful n trivial trivial
  have hp := before_pred hebrewSpec (hebrewSpec.ofDay n).1 (hebrewSpec.ofDay n).2.1 h1
  have hd := hebrewSpec_diy (hebrewSpec.ofDay n).1
  unfold ACal.diy at hd
  rw [hebrewSpec_dim] at h4 hp
  unfold Consecutive
  rw [eraStep_iff]
  unfold hebrewFieldsSpec hebrewFieldsOf
  simp only [hs]
  generalize (hebrewSpec.ofDay n).1 = y at *
  generalize (hebrewSpec.ofDay n).2.1 = m at *
  generalize (hebrewSpec.ofDay n).2.2 = d at *
  unfold ACal.next
  rw [hebrewSpec_dim]
  split
  · refine ⟨?_, Or.inl ?_⟩
    · simp [EraStepRaw]
    · dsimp only
      refine ⟨?_, ?_, ?_, ?_, ?_, ?_, ?_, ?_, ?_⟩ <;> first | trivial | rfl | omega
  · split
    · refine ⟨?_, Or.inr (Or.inl ?_)⟩
      · simp [EraStepRaw]
      · simp only [Nat.add_sub_cancel]
        refine ⟨?_, ?_, codeOf_succ_ne y m h1, ?_, ?_, ?_, ?_, ?_, ?_⟩ <;> first | trivial | rfl | omega
    · refine ⟨?_, Or.inr (Or.inr ?_)⟩
      · simp [EraStepRaw]
      · have hm : m = hebrewSpec.months y := by omega
        simp only [Nat.sub_self, ACal.before]
        subst hm
        refine ⟨?_, ?_, ?_, ?_, ?_, ?_, ?_⟩ <;> first | trivial | rfl | omega

end Cal
end TemporalModel
