#!/usr/bin/env python3
"""run_harmless.py [id ...]: applies each behaviour-preserving refactoring (seeded/harmless/<id>/patch.diff, written by a
sub-agent that saw only /repo) to /repo, runs EVERY property's quick check, undoes the change, and records in
seeded/HARMLESS.json whether any check raised an alarm (it must not: the properties still hold).  A reported
violation is then examined by hand: either the refactoring was not equivalent after all (then the alarm is right and
the patch is moved to seeded/ as a breaking change), or the check is wrong and is corrected."""
import glob, json, os, re, subprocess, sys
ROOT = os.path.dirname(os.path.dirname(os.path.abspath(__file__)))
ALL = ["C%02d" % i for i in range(1, 21)]


def sh(cmd, cwd=None, env=None):
    return subprocess.run(cmd, cwd=cwd, capture_output=True, text=True, env=env)


def main():
    ids = sys.argv[1:] or sorted(os.path.basename(d) for d in glob.glob(os.path.join(ROOT, "seeded", "harmless", "H*")))
    pth = os.path.join(ROOT, "seeded", "HARMLESS.json")
    res = json.load(open(pth)) if os.path.exists(pth) else {}
    if sh(["git", "-C", "/repo", "status", "--porcelain", "--untracked-files=no"]).stdout.strip():
        print("/repo has uncommitted changes; refusing")
        return 2
    env = dict(os.environ, VERIF_EVIDENCE_DIR=os.path.join(ROOT, "seeded", ".evidence"))
    for hid in ids:
        patch = os.path.join(ROOT, "seeded", "harmless", hid, "patch.diff")
        a = sh(["git", "-C", "/repo", "apply", patch])
        if a.returncode != 0:
            res[hid] = {"verdict": "patch-failed", "alarms": []}
            continue
        alarms = []
        try:
            for prop in ALL:
                r = sh([sys.executable, os.path.join(ROOT, "tools", "check.py"), prop, "--tier", "quick"], cwd=ROOT, env=env)
                m = re.search(r"VIOLATION property=(\S+) replay=(\S+)( no-failing-input-found)?", r.stdout + r.stderr)
                if m:
                    d = {"property": prop, "replay": m.group(2), "no_input": bool(m.group(3))}
                    try:
                        rj = json.load(open(m.group(2)))
                        d.update({"kind": rj.get("kind"), "op": (rj.get("ops") or [""])[0], "impl": (rj.get("impl") or [""])[0][:160],
                                  "model": (rj.get("model") or [""])[0][:160]})
                    except Exception:
                        pass
                    alarms.append(d)
        finally:
            sh(["git", "-C", "/repo", "checkout", "--", "."])
        res[hid] = {"verdict": "quiet" if not alarms else "ALARM", "alarms": alarms}
        print(hid, res[hid]["verdict"], json.dumps(alarms)[:400])
        json.dump(res, open(pth, "w"), indent=1, ensure_ascii=False)
    json.dump(res, open(pth, "w"), indent=1, ensure_ascii=False)
    return 0


if __name__ == "__main__":
    sys.exit(main())
