"""Per-property configuration of the checks (which Lean modules carry the theorems, which
harness suites tie them to /repo, what a difference means)."""

HOOK_COMMITS = ["6ca0a80"]
NOT_YET = {}

PROPS = {
    "C07": {
        "level_text": "Proof: C07_round_eq_spec (Lean 4, all integers x, all increments > 0 odd or even, all nine modes) shows the "
                      "coded integer rounder equals RoundNumberToIncrement; corollaries give neighbour/bracket/tie/negation facts. "
                      "The model is tied to /repo by an exhaustive small-space run through the hook plus boundary-biased runs through "
                      "Instant::round and PlainTime::round.",
        "level_note": "Trusted: Lean kernel (+propext, Classical.choice, Quot.sound), the hand model of rounding.rs/IsoTime::round/"
                      "round_instant, the harness and diff. The f64 instantiation of the rounder is not covered by this check.",
        "lean_modules": ["TemporalModel.Props.C07"],
        "suites": ["c07"],
        "why_difference_is_violation":
            "Theorem C07_round_eq_spec proves model = RoundNumberToIncrement (roundSpec) for all inputs; "
            "the model output on this line is therefore the unique value the property allows, and the "
            "implementation returned something else.",
        "exhaustive_quick": False,
        "trusted_base": ["i128/u128 ranges are not modelled: callers keep |value| < 2^100 (generator respects this)"],
        "assumptions": ["the exhaustive part covers x in [-300,300] x inc in [1,30] x 9 modes through the verif_hooks rounder"],
    },
}
