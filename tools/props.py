"""Per-property configuration of the checks (which Lean modules carry the theorems, which
harness suites tie them to /repo, what a difference means)."""

HOOK_COMMITS = ["6ca0a80", "c45c892", "db9ce46", "364358b", "52bce3f"]
NOT_YET = {}

def _c01_weight(line):
    t = line.split(" ")
    if t[0] == "blk":
        return int(t[2]) - int(t[1]) + 1
    return 1


PROPS = {
    "C01": {
        "lean_modules": ["TemporalModel.Props.C01"],
        "suites": ["c01", "c11"],
        "weight": _c01_weight,
        "level_text": "Proof: the Gregorian day line is characterised by C01_anchor + C01_succ (all years, unbounded); C01_toDays / "
                      "C01_fromDays / C01_inverse prove the two coded Neri-Schneider kernels compute it and are mutually inverse on "
                      "|year| <= 10^6, |day| <= 3*10^8 (a window strictly containing Temporal's range); C01_order gives order "
                      "preservation and injectivity; C01_balance, C01_days_in_month, C01_limits cover BalanceISODate, the leap-year "
                      "chain and the limits. The tie is an exhaustive block-checksum walk of every day of the range (thorough; quick: "
                      "~5.7e6 days around 1970, both limits and random blocks) comparing kernel outputs and all ISO getters of "
                      "PlainDate with the model, plus day arithmetic and epoch-nanosecond conversions.",
        "level_note": "Trusted: Lean kernel (+propext, Classical.choice, Quot.sound; `decide +kernel` for the 366-row month table), the "
                      "hand model of neri_schneider.rs/utils.rs/iso.rs (u32/u64 intermediates modelled as integers; exactness inside the "
                      "window is part of the theorems' hypotheses), Spec/Gregorian.lean as the reading of the Gregorian/ISO-8601 week "
                      "rules, harness + diff. icu_calendar's ISO arithmetic is compared as a black box.",
        "why_difference_is_violation":
            "C01_* theorems prove the model kernels are the unique order-preserving bijection between Gregorian dates and days, and "
            "the model getters are the Gregorian/ISO-8601 rule; the implementation disagrees with that rule on this input "
            "(for `blk lo hi` lines: somewhere inside the block; the replay op re-runs the block).",
        "exhaustive_thorough": True,
        "rule": "blk lines are FNV checksums over 65536 consecutive days each (per day: y,m,d, day number back, day-of-week, "
                "day-of-year, ISO week, year-of-week, days-in-month, days-in-year, leap flag); evaluations counts days inside blocks "
                "plus single ops; distinct = distinct op line with outcome ok",
    },
    "C07": {
        "level_text": "Proof: C07_round_eq_spec (Lean 4, all integers x, all increments > 0 odd or even, all nine modes) shows the "
                      "coded integer rounder equals RoundNumberToIncrement; corollaries give neighbour/bracket/tie/negation facts. "
                      "The model is tied to /repo by an exhaustive small-space run through the hook plus boundary-biased runs through "
                      "Instant::round and PlainTime::round, and until / since of PlainTime, Instant and PlainDateTime with a smallest "
                      "unit for every mode in both directions (since() applies the mode as if negated) on differences on, next to "
                      "and between ties.",
        "level_note": "Trusted: Lean kernel (+propext, Classical.choice, Quot.sound), the hand model of rounding.rs/IsoTime::round/"
                      "round_instant, the harness and diff. The f64 instantiation of the rounder is not covered by this check.",
        "lean_modules": ["TemporalModel.Props.C07"],
        "suites": ["c07", "c05", "c11"],
        "spec_ops": {"pt_round": "pt_round_spec"},
        "why_difference_is_violation":
            "Theorem C07_round_eq_spec proves model = RoundNumberToIncrement (roundSpec) for all inputs; "
            "the model output on this line is therefore the unique value the property allows, and the "
            "implementation returned something else.",
        "exhaustive_quick": False,
        "trusted_base": ["i128/u128 ranges are not modelled (unbounded integers): callers keep |value| < 2^100 (generator respects this), except EpochNanoseconds::try_from, whose model takes the mathematical value of the argument and whose lines go up to the type limits"],
        "assumptions": ["the exhaustive part covers x in [-300,300] x inc in [1,30] x 9 modes through the verif_hooks rounder"],
    },
    "C10": {
        "lean_modules": ["TemporalModel.Props.C10"],
        "suites": ["c10"],
        "level_text": "Proof: C10_diff_settings / C10_duration_round / C10_datetime_round / C10_instant_round / C10_to_string show, for "
                      "every unit group, every largest/smallest unit or absence, every mode or absence and a symbolic increment (any "
                      "integer >= 1), that the coded resolvers accept exactly the combinations the table oracle allows, resolve to the "
                      "specified defaults, and reject with RangeError only (C10_never_panics). The tie runs the full option matrix through "
                      "the crate's own resolvers (hook) and the accept/reject matrix through every public operation.",
        "level_note": "Trusted: Lean kernel (+propext, Classical.choice, Quot.sound); the hand model of options.rs/increment.rs; the table "
                      "oracle Spec/Options.lean as the reading of 'what Temporal allows'; harness and diff. Public operations are compared "
                      "on accept/reject only (fixed operands).",
        "why_difference_is_violation":
            "C10_* theorems prove the model resolver equals the allowed-combination table for all inputs; the implementation "
            "accepted/rejected (or resolved) this option cell differently from the table.",
        "exhaustive_quick": True,
        "rule": "full matrix {6 caller parameter sets} x {since,until} x 12 largest x 12 smallest x 30 increments x modes through the hook "
                "resolvers, plus duration/datetime/instant/toString resolvers, plus 16 public operations x 12 x 12 x 13 increments; "
                "distinct = distinct op line, non-trivial = accepted cell (outcome ok)",
    },
    "C06": {
        "lean_modules": ["TemporalModel.Props.C06"],
        "suites": ["c06"],
        "level_text": "Proof: C06_time_add_mod / C06_time_subtract (PlainTime add/subtract = exact integer addition of the duration's "
                      "total nanoseconds modulo 24 h, any magnitude), C06_instant_add / _subtract (exact addition, range-checked, date "
                      "units refused), C06_epoch_ms_floor, C06_from_ms_roundtrip, C06_time_until_exact / C06_instant_until_exact (the "
                      "balanced fields recombine to the exact difference for a largest unit of seconds or above). Tie: generated "
                      "times/instants/durations (fields up to 9e24 ns, limits +-1) through the public PlainTime / Instant API.",
        "level_note": "Trusted: Lean kernel (+propext, Classical.choice, Quot.sound); hand model of time.rs/instant.rs/"
                      "duration/normalized.rs/duration/time.rs with integral-double fields as exact integers and f64::from_i128 as "
                      "round-to-nearest-even (F64.ofInt); for largest units below seconds the top field is a rounded double: modelled and "
                      "compared exactly, stated in the theorems as the k >= 3 side condition. Harness + diff.",
        "why_difference_is_violation":
            "C06_* theorems prove the model is exact integer arithmetic mod 24 h / on the epoch line; the implementation returned a "
            "different value or error kind on this input.",
    },
    "C09": {
        "lean_modules": ["TemporalModel.Props.C09"],
        "suites": ["c09", "api"],
        "level_text": "Proof: C09_valid_iff (a duration exists iff sign-uniform, |y|,|mo|,|w| < 2^32, exact total < 2^53 s), "
                      "C09_negated / C09_abs, C09_compare_total (compare = order of exact totals), C09_add_exact / C09_add_comm, "
                      "C09_round_total_time / _day (round without relativeTo = RoundNumberToIncrement of the exact 24-hour-day total), "
                      "C09_round_neg, C09_increment_divides_day, C09_total_exact, C09_noop_shortcut_sound (whenever the 'nothing to do' "
                      "shortcut of round applies, the general path - exact total, rounded, re-balanced - returns the same duration: "
                      "its thresholds |hours| < 24, |minutes|, |seconds| < 60, sub-second < 1000 are exactly those under which "
                      "re-balancing is the identity; Lemmas/SplitLemmas.lean). Tie: all ten fields from boundary pools (0, +-1, 2^31, "
                      "2^32-1, 2^32, 2^53-bounds +-1, random) in valid and invalid combinations, pairs for add/compare, all units and "
                      "admissible increments for round/total; `total` is compared bit-exactly through a dyadic model of the f64 steps.",
        "level_note": "Trusted: Lean kernel (+propext, Classical.choice, Quot.sound); hand model of duration.rs (+time.rs, normalized.rs); "
                      "integral doubles as exact integers; IEEE-754 +, / and int->double conversion correctly rounded (model F64.lean); "
                      "the theorem for `total` covers the exact quotient/remainder decomposition, the final double rounding is modelled "
                      "and compared, not proved. Harness + diff.",
        "why_difference_is_violation":
            "C09_* theorems prove the model equals the signed-quantity semantics the property states; the implementation returned a "
            "different value or error kind on this input.",
    },
    "C04": {
        "lean_modules": ["TemporalModel.Props.C04"],
        "suites": ["c04"],
        "level_text": "Proof: C04_constructor (constructed dates are exactly the valid in-range days), C04_add_spec (AddISODate = years/"
                      "months first with the day regulated per overflow, then weeks/days; failures are RangeErrors), C04_add_on_timeline, "
                      "C04_add_huge_fields, C04_until_day (largestUnit day = timeline distance), C04_add_until (the inverse law "
                      "start.add(start.until(end,U)) = end for all four largest units, all pairs of in-range dates), C04_since_subtract. "
                      "Tie: add/subtract/until/since through the public PlainDate API on month-end/leap-day/limit-biased dates, i32-edge "
                      "duration fields, both overflow modes, all largest units; plus the inverse law probed on the implementation itself.",
        "level_note": "Trusted: Lean kernel (+propext, Classical.choice, Quot.sound); hand model of iso.rs add_date_duration/diff_iso_date "
                      "(loops with fuel 8/16: fuel sufficiency is checked by the correspondence run, not proved: C04_add_until is "
                      "conditional on the difference returning a value), date.rs, calendar.rs ISO branch; until/since with a rounding "
                      "smallestUnit/increment is C08's machinery and not covered here. Balancedness/uniqueness of until are compared "
                      "against the model, not proved. Harness + diff.",
        "why_difference_is_violation":
            "C04_* theorems prove the model implements Temporal's AddISODate/DifferenceISODate and the inverse law; the implementation "
            "returned a different date/duration/error kind (or, for pd_law_inv, broke start.add(start.until(end)) = end) on this input.",
    },
    "C05": {
        "lean_modules": ["TemporalModel.Props.C05"],
        "suites": ["c05", "api"],
        "spec_ops": {"pdt_round": "pdt_round_spec"},
        "level_text": "Proof: C05_time_add_exact (AddTime is nanosecond-exact with carry into whole days), C05_add_compose (AddDateTime "
                      "= exact time part + C04 date part + limit check -> RangeError), C05_carry_no_wrap / C05_add_huge_time, "
                      "C05_round_hour (RoundTime to hours = RoundNumberToIncrement from midnight with carry), C05_round_shift (rounding "
                      "commutes with whole increments: the law behind the sub-hour units) and the kernel-decided counterexample "
                      "C05_round_halfEven_counterexample (known finding). Tie: add/subtract/until/since/round through the public "
                      "PlainDateTime API (opposite time-of-day order, times within one increment of midnight, month-end carries, "
                      "limits); the inverse law start.add(start.until(end,U)) is computed on both sides; round is additionally "
                      "compared with the property-level oracle 'multiple counted from midnight' (pdt_round_spec).",
        "level_note": "Trusted: Lean kernel (+propext, Classical.choice, Quot.sound); hand model of IsoDateTime add/diff/round; the "
                      "until/since results (sign-uniformity, |time| < 1 day, the inverse law for fields below 2^53) are compared "
                      "line by line against the model and probed on the implementation, not proved; rounding until/since (smallestUnit "
                      "/ increment) is C08's machinery. Known finding C05-halfeven-container-parity is excluded by its region only.",
        "why_difference_is_violation":
            "C05_* theorems prove the model composes exact time arithmetic with C04's date arithmetic and rounds from midnight; the "
            "implementation returned a different value/error kind on this input (for spec-disagreement: a different multiple than "
            "the one the rounding mode prescribes counted from midnight).",
    },
    "C11": {
        "lean_modules": ["TemporalModel.Props.C11"],
        "suites": ["c11", "api"],
        "level_text": "Proof (writers and canonical readers on character lists, Model/Format.lean): C11_digits_roundtrip (a zero-"
                      "padded field of any width reads back as the number), C11_year_shape / C11_year_roundtrip (four digits for "
                      "0..9999, a sign and six digits otherwise; every such year reads back), C11_date_roundtrip (every date text "
                      "reads back as the date, whatever follows it), C11_fraction_exact_digits (n requested digits are exactly the "
                      "leading n of the nine), C11_fraction_minimal (auto precision: no trailing zero, nothing lost, the value is "
                      "recovered), C11_offset_shape (+-HH:MM), C11_calendar_last / C11_calendar_shown (annotation order and "
                      "presence). Tie: the model's text is compared character by character with to_ixdtf_string / "
                      "as_temporal_string of PlainDate, PlainTime, PlainDateTime, PlainYearMonth, PlainMonthDay, Instant (Z and "
                      "fixed offsets), ZonedDateTime (fixed-offset zones, every display option) and Duration over every precision "
                      "(auto, minute, 0-9 digits), smallest unit and rounding mode, including rounding carries into the next day and "
                      "year; and the round trip parse(format(v)) = v, format(parse(format(v))) = format(v) is evaluated on the "
                      "implementation for every type, every option enum (Display/FromStr), month codes, UTC offsets, every zone id "
                      "and calendar id.",
        "level_note": "Trusted: Lean kernel (+propext, Classical.choice, Quot.sound); the hand model of parsers.rs writers and of "
                      "the to-string operations (option resolution is C10's model, rounding C05/C07's). The round trip through the "
                      "*implementation's* parser is checked on samples (it is C12's grammar that the parser is compared against); "
                      "the theorems prove the round trip for the model's canonical readers. Named-zone ZonedDateTime text is "
                      "covered by rt_zdt only for fixed offsets (named zones: C13/C15 + the C03 sweep).",
        "why_difference_is_violation":
            "The model writes the canonical text proved round-trippable in C11_*; the implementation wrote a different text, or "
            "parsing its own output did not give the value back (rt_* lines: expected 1).",
    },
    "C12": {
        "lean_modules": ["TemporalModel.Props.C12"],
        "suites": ["c12"],
        "level_text": "The Temporal / RFC 9557 grammar is written as a deterministic reader (Spec/Grammar.lean: years incl. "
                      "-000000, extended/basic dates, times with 1-9 fraction digits and second 60, offsets with and without "
                      "sub-minute precision, Z, time-zone and key=value annotations, critical flags; Spec/GrammarOps.lean: the rules "
                      "of each type - no Z for plain types, offset or Z required for instants, ISO-only short year-month/month-day "
                      "forms, the designator-less time ambiguity rule, month codes, offset identifiers, durations with cascading "
                      "fractions). Proof over that reader, for every string: C12_no_negative_zero_year, C12_fraction_at_most_nine "
                      "(1..9 digits, a tenth digit makes the fraction unreadable, value < 1 s), C12_values_wellformed (every "
                      "accepted date / date-time / instant / duration is in range and valid), C12_plain_rejects_Z, "
                      "C12_instant_requires, C12_annotation_rules (unknown critical key, critical duplicate calendars, first "
                      "calendar wins), C12_digitsN, C12_month_code_zero, C12_short_forms, C12_zone_offset_exact / "
                      "C12_zone_annotation_decides (a time-zone string names its zone by the annotation, else Z, else an offset "
                      "that is exactly the one written - an offset with seconds names no zone), C12_zoned_requires_annotation / "
                      "C12_relative_plain_refuses_Z / C12_unparsable_is_range (zoned and relativeTo strings: "
                      "Spec/GrammarZoned.lean reads them with the grammar and resolves them with the C13 wall-clock rules). "
                      "Tie: grammar-generated strings in "
                      "every syntactic variant, 1-2 character mutations and cross-type strings (~30k/run) through FromStr of "
                      "PlainDate, PlainDateTime, PlainTime, PlainYearMonth, PlainMonthDay, Instant, Duration, UtcOffset, MonthCode "
                      "TimeZone::try_from_str, Calendar::from_str, and - for zones given as offsets or UTC - ZonedDateTime::from_str "
                      "(4 disambiguations x 4 offset options) and RelativeTo::try_from_str: verdict AND value compared with the "
                      "reader.",
        "level_note": "Trusted: Lean kernel (+propext, Classical.choice, Quot.sound); Spec/Grammar*.lean as my reading of the "
                      "grammar (U+2212 is accepted as a minus sign, as in the grammar version the crate's parser follows; the "
                      "crate's own UtcOffset reader is ASCII-only). The implementation's parser is the `ixdtf` 0.4.0 dependency plus "
                      "temporal_rs' rules: six leniencies/strictnesses of ixdtf are recorded as known findings by region. "
                      "ZonedDateTime / RelativeTo strings are exercised in C13 (tz_str, tz_rel) and the C03 sweep; Calendar::from_str "
                      "reuses the same readers (C16 cal_id; swept in C03).",
        "why_difference_is_violation":
            "The reader is the grammar (C12_* theorems state its type rules); the implementation accepted a string outside the "
            "grammar, rejected one inside it, or assigned a different value.",
    },
    "C13": {
        "lean_modules": ["TemporalModel.Props.C13"],
        "suites": ["c13", "c15s"],
        "needs_zones": True,
        "spec_ops": {"tz_inst": "tz_inst_spec", "tz_wall": "tz_wall_spec"},
        "level_text": "Proof, over arbitrary transition tables (Zone = initial offset + list of (instant, new offset)): "
                      "C13_possible_iff / C13_possible_sorted (the instants of a wall-clock reading are exactly the solutions of "
                      "`instant + offset at that instant = reading`, ascending), C13_wall_exact (the date-time computed for an instant "
                      "is a real calendar day with a valid time and reads back as instant + offset, for every instant of the range "
                      "and every offset up to two days), C13_disambiguate_matches (unique / earlier / later / reject), "
                      "C13_gap_any_size (a skipped reading in a one-transition zone: the one-day probes read the offsets before and "
                      "after, and the re-resolved instants are reading - old offset (compatible, later) and reading - new offset "
                      "(earlier), for every gap from one second to almost two days), C13_exact_offset / C13_ignore_offset / "
                      "C13_prefer_reject (Z and `use` denote the exact instant, `ignore` the wall clock, `prefer`/`reject` match "
                      "exactly or to the minute). Tie: fixed offsets and random synthetic zones (0-6 transitions, changes from one "
                      "second to more than a day, spacing from seconds to years) served by a provider written in the harness, plus a "
                      "slice of forty real zones through FsTzdbProvider (local readings incl. the era before the first transition, "
                      "offsets, zoned strings) against the model over the dumped zone tables; "
                      "instants and readings concentrated on transitions; getters, PlainDateTime/PlainDate -> ZonedDateTime (the date "
                      "alone and with an explicit time of day, midnight included, on the midnights next to every transition's local "
                      "images), "
                      "from_partial, from_str with offsets/Z x 4 disambiguations x 4 offset options, RelativeTo::try_from_str (zoned "
                      "strings with offsets/Z, plain strings). The implementation is compared "
                      "both with the as-coded model and with the specification function Spec/Zone.lean (spec_ops).",
        "level_note": "Trusted: Lean kernel (+propext, Classical.choice, Quot.sound); hand model of timezone.rs / "
                      "zoneddatetime.rs (interpret_isodatetime_offset, disambiguate, start of day); the synthetic provider (harness) "
                      "and Zone.lookup/possible (model) as the meaning of 'the zone's rules'; multi-transition gaps are covered by the "
                      "spec-level comparison, not by a theorem. Real IANA data through the bundled provider is C15.",
        "why_difference_is_violation":
            "The model resolves wall-clock readings as proved in C13_* (and the specification function states the property "
            "directly); the implementation returned a different instant, reading or error for this zone and input.",
    },
    "C14": {
        "lean_modules": ["TemporalModel.Props.C14"],
        "suites": ["c14", "c13"],
        "spec_ops": {"zdt_law": "zdt_law_spec", "zdt_sod": "zdt_sod_spec", "zdt_hid": "zdt_hid_spec", "du_zlaw": "du_zlaw_spec"},
        "level_text": "Proof: C14_until_across_zones (the other value in another zone: a RangeError with a date largest unit whatever the instants, the exact instant difference with a time largest unit, option errors first), C14_add_time_exact (no date units: exact instant addition, range-checked), C14_add_wall_then_exact "
                      "(date units: date part on the wall-clock date, time of day kept, re-resolved with `compatible`, then the time "
                      "part on the exact timeline), C14_until_exact_elapsed (largest unit hours..seconds: the exact elapsed time, zone "
                      "irrelevant), C14_start_of_day_first (first instant reading midnight) and C14_start_of_day_gap (skipped "
                      "midnight, any gap size: the transition instant, equal to the specification's first instant of the day), "
                      "C14_hours_in_day, C14_add_until_inverse (a.add(a.until(b, any largest unit)) = b, from C04's inverse law, the "
                      "day-correction loop's invariant and the exactness of time balancing); for rounding relative to a zoned date-time C14_until_rounded_reaches_other (end to end: the date "
                      "part DifferenceZonedDateTime returns leads, by add, to the start of the local-day bracket, its time part reaches "
                      "the other instant exactly from there, and the rounded result leads to an instant less than two steps - one on "
                      "whole-step days - from the other instant) on top of C14_zoned_time_rounding, C14_zoned_calendar_nudge (calendar units "
                      "and days: the bracket ends are the wall-clock dates resolved in the zone, the position between them is the exact "
                      "rational rounding of C08, the result is one of the ends) (NudgeToZonedTime: the time "
                      "part is a multiple of the step, a day is added exactly when the rounded time reaches the end of the real local "
                      "day - 23, 24, 25 h ... - and then only the excess over that day is rounded again; the reported instant is the "
                      "bracket end plus the time part and lies within one step, or two on a day that is not a whole number of steps, of "
                      "the exact destination), C14_compare_zoned_orders_destinations, and C14_relative_without_zone (the zone-"
                      "parametrised RoundRelativeDuration / TotalRelativeDuration are literally the C08 functions when no zone is given, "
                      "so the C08 theorems about the shared exact bracket rounding carry over). Tie: add/subtract/until/since (all "
                      "largest units, with and without rounding, calendar / day / time smallest units)/start_of_day/hours_in_day/"
                      "with_plain_time and Duration::round / total / compare relative to a ZonedDateTime over fixed offsets and random "
                      "synthetic zones with instants within a day of transitions; the inverse law a.add(a.until(b, date unit)) = b, "
                      "the first-instant-of-day and real-day-length specifications are compared with the implementation directly "
                      "(spec_ops).",
        "level_note": "Trusted: as C13. The inverse law add(until) = other is proved (C14_add_until_inverse) for a non-zero "
                      "date part or a receiver that is the compatible resolution of its own reading, and an intermediate date-time "
                      "inside the limits; the excluded case (the later copy of a repeated reading with a zero date difference) is the "
                      "recorded finding, and the law is also compared directly (zdt_law, du_zlaw). The zoned calendar-unit nudge and bubbling are "
                      "modelled and compared (Model/RelativeZoned.lean); what is proved about them is the shared rounding core (C08) "
                      "and the time-unit step (C14_zoned_time_rounding).",
        "why_difference_is_violation":
            "The model performs date arithmetic on the wall clock and time arithmetic on the timeline as proved in C14_*; the "
            "implementation returned a different instant, duration, start of day or day length.",
    },
    "C15": {
        "lean_modules": ["TemporalModel.Props.C15"],
        "suites": ["c15"],
        "needs_zones": True,
        "level_text": "Proof (about the reading of a TZif file, Model/Tzif.lean): C15_table_before_first (time type 0 before the "
                      "first transition), C15_table_lookup (the type of the last transition at or before t, the transition second "
                      "included), C15_offset_cases (table before the last transition, footer rule from it on), C15_rule_day_mwd "
                      "(for every year the Mm.w.d day lies in the month, has the weekday, is the w-th / the last such day), "
                      "C15_rule_day_julian (Jn never counts February 29, n does), C15_rule_transitions (start on the standard clock, "
                      "end on the daylight clock), C15_possible_iff (the instants listed for a local date-time are exactly those "
                      "that read as it; ascending), C15_cache_history_independent (with any history of earlier queries the caching "
                      "provider answers what a fresh read gives). Tie: an independent TZif reader in the harness dumps every zone of "
                      "/usr/share/zoneinfo (types, 64-bit transition table, footer text); the Lean model parses the footer and "
                      "answers offset and local-time queries, compared with FsTzdbProvider at every listed transition (-1 day .. +1 "
                      "day, the second itself, +-1 s), before the first transition, years 1..9999, around the rule-based transitions "
                      "of 2038..9998 (located to the second by bisecting the provider's own daily offsets, then probed at that second "
                      "and its neighbours), instants with a sub-second part next to transitions (also before 1970, where floor and "
                      "truncation differ), the local images of those instants, warm-vs-fresh provider, histories of 40-130 distinct "
                      "zones on one provider re-queried against fresh providers, check_identifier on every name in mixed case "
                      "plus non-names, and - through the provider - the default string, the wall-clock fields and the offset of a "
                      "ZonedDateTime and the zoned string of an Instant at those instants (sub-second parts included).",
        "level_note": "Trusted: Lean kernel (+propext, Classical.choice, Quot.sound); the harness's TZif reader and the model's "
                      "POSIX-TZ parser (two independent readers against the crate's tzif/combine parsers); Spec/Gregorian.lean for "
                      "dates; 'IANA names' = the TZif files of the zoneinfo tree minus localtime, posixrules, Factory. Leap-second "
                      "records are ignored (as the crate does). ZonedDateTime-level behaviour on real zones follows from C13/C14 "
                      "(any rule set) + this property (the rule set served is the file's).",
        "why_difference_is_violation":
            "The model answers from the TZif data as proved in C15_*; the provider returned a different offset, a different set "
            "of instants, accepted/rejected an identifier differently, or its answer depended on earlier queries.",
    },
    "C19": {
        "lean_modules": ["TemporalModel.Props.C19"],
        "suites": ["c19"],
        "translator": "tools/translate_wrappers.py",
        "level_text": "Proof over a table REGENERATED FROM /repo ON EVERY RUN (tools/translate_wrappers.py reads "
                      "src/builtins/compiled/*.rs and temporal_capi/src/*.rs: one row per wrapper = name, parameters, the inner "
                      "method called, the parameter each call argument is built from; plus FFI-vs-core enum variant lists and the "
                      "field maps of the FFI value structs): C19_wrappers_thin (each of the 232 wrappers calls the method of its own "
                      "name with its own parameters in order, plus the provider / minus the output sink, or is one of ten exactly "
                      "matched audited rows), C19_compiled_all_thin (no convenience wrapper is exempt), "
                      "C19_compiled_callees_distinct (no two accessors share a twin), C19_enums_same_variants, "
                      "C19_fields_same_name, C19_tables_nonempty - all by kernel evaluation of the generated table. Tie (second): "
                      "every convenience method is called next to its *_with_provider twin on a fresh provider (12 zones, instants "
                      "with distinct sub-second fields near DST changes and whole-second receivers; all 30 accessors, "
                      "add/subtract/until/since - also with a smallest unit under each of the nine rounding modes and increments -/"
                      "with_plain_time/"
                      "to_ixdtf_string/from_str, Duration round/total/compare relative to a zoned date-time, Instant and "
                      "PlainDateTime conversions, RelativeTo parsing) and a slice of the FFI layer is called from Rust next to the "
                      "core (Instant words, PlainDate in every calendar, PlainTime, Duration).",
        "level_note": "Trusted: Lean kernel (+propext); the translator's reading of a method body as 'the first call on self / "
                      "self.0 / a type path and the identifiers in its arguments' (a wrapper it cannot read fails the theorem); "
                      "`enum_convert` converting by variant name (diplomat); Now::* read the system clock: their rows admit three "
                      "to five statements, and `w19_now` checks that a wrapper's answer lies between the core's answers for clock "
                      "readings taken just before and just after it (explicit zone only: the system zone is not reachable from "
                      "outside the crate). The differential run compares Debug renderings.",
        "why_difference_is_violation":
            "A thin wrapper returns what the wrapped method returns; this wrapper returned something else for the same receiver "
            "and arguments (or the regenerated wrapper table no longer satisfies the thinness theorems).",
    },
    "C20": {
        "lean_modules": ["TemporalModel.Props.C20"],
        "suites": ["c20"],
        "level_text": "Proof over the lock-and-cache state machine (Model/Shared.lean: a call locks the provider, looks zones up "
                      "through the cache, answers from what it got, unlocks; a call may panic while it holds the lock; an "
                      "execution is an interleaving of the threads' call sequences): C20_history_independent (after ANY history - "
                      "other threads' calls in any order, cold or warm cache, failed and panicking calls - every call observes what "
                      "it would observe alone on a fresh provider), C20_interleaving_independent (two interleavings of the same "
                      "per-thread sequences give every thread the same observations), C20_progress (one lock, taken once per call: "
                      "every history runs to its end), C20_survives_panic, and C20_strict_lock_fails_after_panic (the behaviour of "
                      "the plain Mutex before the fix, for the record). Tie: 2-16 real threads released by a barrier issue mixed "
                      "convenience calls over 16 zones, each result compared with the *_with_provider twin on a fresh provider; "
                      "histories with an unknown zone, an out-of-range value and a panic injected while the provider lock is held "
                      "(verif_hooks::panic_holding_tz_provider), followed by ordinary calls; histories in which 40-140 distinct zones "
                      "pass through the shared provider from four threads and are then queried again (the cache holds them all; "
                      "each answer compared with a fresh provider); the whole suite runs under a watchdog "
                      "(a deadlock shows as `timeout`).",
        "level_note": "Trusted: Lean kernel (+propext, Classical.choice, Quot.sound); the state-machine abstraction: atomicity of a "
                      "call under std::sync::Mutex and the absence of data races are Rust's guarantees (the provider is !Sync and "
                      "only reachable through the mutex), not modelled; thread schedules are whatever the OS produces in the run "
                      "(the theorem, not the run, covers all interleavings).",
        "why_difference_is_violation":
            "Every call on the shared provider must observe what the same call observes alone (C20_history_independent); this "
            "concurrent or post-failure call returned something else, panicked, or never returned.",
    },
    "C17": {
        "lean_modules": ["TemporalModel.Props.C17"],
        "suites": ["c17", "api", "c18"],
        "level_text": "Proof: C17_date_with_spec (PlainDate::with = the reference merge for every receiver, all 2^k subsets of "
                      "supplied fields, every field value, both overflow modes: supplied field else receiver's; month/monthCode "
                      "agreement; clamp under constrain, RangeError under reject), C17_time_with_spec, C17_date_with_self / "
                      "C17_time_with_self (identity law), C17_year_untouched, C17_empty_is_type, C17_missing_is_type. Tie: exhaustive "
                      "product of boundary pools (12 years x 10 months x 10 month codes x 11 days, '-' included so every subset occurs) "
                      "for PlainDate from_partial/with, random products for PlainTime/PlainDateTime with/from_partial and the "
                      "constructors, identity-law lines.",
        "level_note": "Trusted: Lean kernel (+propext, Classical.choice, Quot.sound); hand model of the fallback-merge macro, "
                      "ResolvedCalendarFields / resolve_iso_month / MonthCode (ISO calendar only), IsoTime::new/with; "
                      "PlainDateTime/PlainYearMonth with/from_partial are modelled and compared, their merge theorems follow the "
                      "PlainDate/PlainTime ones by composition and are not separately stated. ZonedDateTime::with is unimplemented in the "
                      "crate (not claimed). Harness + diff.",
        "why_difference_is_violation":
            "C17_* theorems prove the model equals the reference merge; the implementation produced a different value or error kind "
            "for this partial record.",
        "exhaustive_quick": False,
    },
    "C16": {
        "lean_modules": ["TemporalModel.Props.C16", "TemporalModel.Props.C16Hebrew"],
        "suites": ["c16"],
        "spec_ops": {"cal_rt": "cal_rt_spec", "cal_withid": "cal_withid_spec"},
        "feed_ops": {"cal_law": "cal_law_chk"},
        "level_text": "Proof, for the calendars whose rules are arithmetic (gregory, buddhist, roc, japanese, coptic, ethiopic, "
                      "ethioaa, indian, islamic-civil, islamic-tbla, persian) and EVERY date of Temporal's range: C16_daycount_inverse (day "
                      "<-> (year, month, day) are mutually inverse and every produced date exists; one generic theorem for any "
                      "calendar given by year starts and month lengths, instantiated six times - the Persian 33-year rule with its "
                      "78 table corrections included), C16_fields_bounds (day <= "
                      "days-in-month, month <= months-in-year, day-of-year <= days-in-year, month code agrees with month), "
                      "C16_consecutive_days (the next ISO day is the next calendar day; era year follows the year or a new era starts "
                      "at 1 - including the five Japanese era changes), C16_rebuild_from_year_code / _year_month / _era (from_partial "
                      "through the crate's era table, month-code validation and the library's date_from_codes returns the original "
                      "ISO date from each of the three field sets, both overflow modes; every reported year passes the crate's year "
                      "guard), C16_with_own_fields_identity (with() merges into the receiver's own year, month code and day and "
                      "returns the receiver when given its own day), C16_with_own_era_identity / C16_with_own_year_or_code_identity "
                      "(likewise when given back its own era and era year - every date, no exception -, its own year, or its own "
                      "month code), C16_year_month_first_of_month (whenever to_plain_year_month "
                      "succeeds the stored reference date is day 1 of the date's own calendar year and month), "
                      "C16_japanese_nonpositive_year (the one exception, proved as a fact of the code), C16_year_guard (years "
                      "beyond +-300000 are RangeErrors before the library is asked), C16_with_calendar_keeps_iso / _keeps_datetime / "
                      "_keeps_instant (with_calendar of a date, a date-time, a zoned date-time rebuilds the same value). For ALL calendars: "
                      "C16_era_names_accepted (every era name handed to the library is a code that calendar accepts), "
                      "C16_reported_eras_accepted, C16_alias_unambiguous / C16_alias_resolves, C16_identifier_case_insensitive / "
                      "_lower_idem / _canonical / _roundtrip. HEBREW (Props/C16Hebrew.lean; the library's molad arithmetic, "
                      "four gate tables and fourteen keviyot are modelled from its source): C16_hebrew_year_lengths (for EVERY "
                      "year and every position of the molad in the week, the next new year comes exactly the keviyah's year length "
                      "later - by the calendar's rules, i.e. with the week count moving on exactly when the keviyah postpones), "
                      "C16_hebrew_daycount_inverse / _rules_bounds / _rules_consecutive (every day, no range restriction), "
                      "C16_hebrew_month_codes (M05L / M06 in leap years; the closed form `days_preceding` of date_to_iso equals the sum "
                      "of the month lengths: Lemmas daysPreceding_eq), C16_hebrew_coded_is_calendar (the code as written equals "
                      "the rules wherever no molad falls exactly on Saturday 18 h 0 p in the estimated year or its neighbours, and "
                      "is a week early exactly there), C16_hebrew_fields_bounds_partial / _consecutive_days_partial / "
                      "_rebuild_partial / _from_partial_partial / _no_assertion_partial (the C16 clauses and the absence of the "
                      "library's debug-assertion panic for the code as written, under that hypothesis), C16_hebrew_exceptional_years "
                      "(in Temporal's range exactly the Hebrew years -114910, 75795 and 193152 have such a molad - 765433 is "
                      "invertible modulo 181440 - and every day outside three windows of three years each meets the hypothesis), "
                      "C16_hebrew_in_range (so: the clauses for every ISO date of Temporal's range outside those windows), "
                      "C16_hebrew_gate_defect "
                      "(the excluded case is real: Hebrew year 75795 - known finding C16-hebrew-molad-at-gate). "
                      "Tie: every getter, the consecutive-day pair, the three rebuild routes, "
                      "from_partial on random field subsets and on every (calendar, era alias, era year around each bound) cell, "
                      "PlainDate::with / PlainDateTime::with / PlainYearMonth::with on random field subsets, to_plain_year_month, the "
                      "year-month getters and PlainYearMonth::from_partial, the "
                      "resolved library arguments (hook) and identifier parsing are compared with the model for the modelled "
                      "calendars and - fields, consecutive days, the three rebuild routes, from_partial on (era / year, month / "
                      "month code, day) - for hebrew, including every day of the windows around the three defective new years and "
                      "the days where the library's floating-point year estimate is a whole number; changing the calendar "
                      "(with_calendar of PlainDate, PlainDateTime, ZonedDateTime, every ordered pair of calendars) keeps the ISO "
                      "fields / the instant; for chinese, dangi, hebrew, islamic, islamic-umalqura, japanext the crate's own resolution "
                      "is compared exactly, and the fields the implementation reports are handed to the driver, which evaluates "
                      "the same Lean law predicates (FieldsOk, Consecutive) on them; the rebuild law, the with-own-fields identity and "
                      "the first-of-month law of to_plain_year_month are compared with their specification constants for every "
                      "calendar.",
        "level_note": "Trusted: Lean kernel (+propext, Classical.choice, Quot.sound); hand model of calendar.rs (getters, "
                      "date_from_partial, get_era_info, from_utf8), calendar/types.rs (EraYear, MonthCode::validate, "
                      "month_to_month_code), calendar/era.rs; the calendrical library (icu_calendar 2.0.0-beta2, "
                      "calendrical_calculations 0.1.3) is MODELLED, not verified: its arithmetic calendars, the Japanese era table and "
                      "the era codes date_from_codes accepts (libraryAccepts) were read off its source and are tied by the "
                      "correspondence run only (the Hebrew year estimate is modelled with exact rationals where the library uses f64; "
                      "the correction step makes the result independent of that, and the whole-number days are probed). "
                      "Astronomical calendars (chinese, dangi, islamic, islamic-umalqura) and japanext's historic eras are not modelled: for them the theorems cover "
                      "the crate's glue, and the laws are evaluated (Lean predicates) on sampled dates, which is a search, not a proof. "
                      "Calendar::from_str on annotated strings is modelled for the date-time form only (the grammar is C12).",
        "why_difference_is_violation":
            "The model's fields are proved to describe the ISO day (bounds, consecutive days, three rebuild routes, C16_* theorems) "
            "and its era/identifier tables are proved coherent; the implementation reported other fields, rebuilt another date, "
            "resolved an era or month code differently, or reported fields that break the consecutive-day law on this input.",
    },
    "C02": {
        "lean_modules": ["TemporalModel.Props.C02"],
        "suites": ["c02", "c04", "c05", "c06", "c09", "c17", "c18", "api"],
        "spec_ops": {"pdt_from_pd": "pdt_from_pd_spec"},
        "extra_profiles": ["release"],
        "level_text": "Proof: C02_date_results / C02_date_time_results / C02_instant_results / C02_time_results / "
                      "C02_duration_results / C02_year_month_results show that every value a modelled constructor, add, subtract, "
                      "round, with, from_partial, until or since returns is well-formed and inside the range (InRange, "
                      "isoDtWithinValidLimits, |ns| <= 8.64e21, IsoTime.isValid, Dur.ValidSpec, year-month limits), for all "
                      "arguments; C02_*_boundary place every boundary exactly (last representable value accepted, next one a "
                      "RangeError, both overflow modes); C02_epoch_ns_conversions (EpochNanoseconds::try_from of an i128, a u128 - any value "
                      "up to 2^128-1, nothing wraps into range - and an integral double is the value itself or a RangeError); "
                      "C02_instant_add_exact (with C04/C05/C06/C09's exact-arithmetic theorems) "
                      "says a result is the exact value or a RangeError, never clamped or wrapped. Tie: a boundary suite (c02: every "
                      "type, operands within a few units of each limit and far beyond) plus the arithmetic suites, on a build with "
                      "overflow checks AND on a release build without them (wrapping arithmetic).",
        "level_note": "Trusted: Lean kernel (+propext, Classical.choice, Quot.sound); hand model; returned values are observed "
                      "through their getters (the canonical outcome text), so equality with a model value that is proved well-formed "
                      "is well-formedness of the returned value. ZonedDateTime and non-ISO calendar results are C13/C14/C16.",
        "why_difference_is_violation":
            "The model returns only well-formed in-range values and places the boundaries exactly (C02_* theorems); the "
            "implementation returned a different value, accepted an out-of-range result or rejected a representable one.",
    },
    "C03": {
        "lean_modules": ["TemporalModel.Props.C03"],
        "suites": ["c03", "c04", "c05", "c06", "c08", "c09", "c10", "c17", "c18", "c13", "c14"],
        "extra_profiles": ["release"],
        "level_text": "Proof: every panic site of the modelled code (unreachable!/assert!/temporal_assert!/unchecked index or unwrap/"
                      "unbounded loop) is an explicit `.panic` or `.err .assert` outcome of the model, and C03_constructors, "
                      "C03_option_resolvers, C03_time_instant, C03_duration, C03_plain_date, C03_plain_date_time, "
                      "C03_plain_time_partial, C03_year_month, C03_duration_relative prove `Out.Safe` (neither) for every modelled "
                      "public operation and ALL arguments (receivers only need a month in 1..12, which C03_receivers_have_months "
                      "shows every constructed value has). C03_diff_loops_terminate proves the two unbounded search loops of "
                      "diff_iso_date exit within 3 / 13 iterations. The tie: all arithmetic suites are re-run (a panicking "
                      "implementation differs from a model that provably never panics; the harness is built with overflow checks "
                      "and debug assertions and wraps every call in catch_unwind), plus a surface sweep (suite c03) over the "
                      "functions that are not modelled: every parser on seeds, mutations and symbol soups including multi-byte "
                      "text, every calendar on extreme/boundary/random dates and partial records, every zone of the zoneinfo "
                      "directory at extreme and random instants through the ZonedDateTime API and durations relative to it.",
        "level_note": "Trusted: Lean kernel (+propext, Classical.choice, Quot.sound); the hand model's placement of panic sites "
                      "(a panic site missing from the model is only caught by the differential run); integer widths are modelled as "
                      "unbounded integers with the explicit range guards of the code, so an overflow inside a modelled operation is "
                      "caught by the run with overflow checks, not by the theorems. For the swept (unmodelled) surface the theorems "
                      "say nothing; the sweep is a search, and C11-C16, C19, C20 model those parts.",
        "why_difference_is_violation":
            "The model never panics (C03_* theorems) and the sweep's expected outcome is `safe`; the implementation panicked, "
            "overflowed or returned an internal-assertion error on this input (sweep lines name the panic site). Where the "
            "as-coded model of an operation outside those theorems predicts the same panic / assertion outcome, the line is "
            "reported all the same: the outcome itself is what the property forbids.",
        "rule": "suites c03 (surface sweep: outcome reduced to safe / panic@site / assert:call) + c04,c05,c06,c08,c09,c10,c17,c18 "
                "(outcomes compared with the model); distinct = distinct op line; non-trivial = a value was computed (ok) or the "
                "sweep line completed all its calls (safe)",
    },
    "C08": {
        "lean_modules": ["TemporalModel.Props.C08"],
        "suites": ["c08"],
        "level_text": "Proof: C08_calendar_nudge_exact (the calendar-unit nudge rounds the exact rational position r1 + step*num/den "
                      "between the two bracket dates to a multiple of the increment per RoundNumberToIncrement, all nine modes, any "
                      "bracket length), C08_calendar_nudge_bracket (the result is one of the two bracket ends whenever the destination "
                      "lies inside the bracket), C08_calendar_nudge_tie (ties are exactly 2*num = den), C08_day_time_nudge (the "
                      "day-or-time nudge rounds the exact nanosecond total, splits it into whole days plus a same-signed remainder "
                      "below one day, leaves calendar fields alone, moves the instant by the rounding difference), "
                      "C08_total_time_units, C08_compare_orders_destinations (compare = order of the destination instants). The "
                      "add and re-measure steps are the C04/C05 models (their theorems). Bubbling, the week bracket and the "
                      "composition round = add -> until -> nudge -> bubble -> balance are modelled and tied by correspondence only: "
                      "Duration round/total/compare relative to random and month-end reference dates, and PlainDate / PlainDateTime / "
                      "PlainYearMonth until/since with calendar smallest units and increments.",
        "level_note": "Trusted: Lean kernel (+propext, Classical.choice, Quot.sound); hand model of normalized.rs (nudge/bubble/round/"
                      "total_relative_duration), datetime.rs diff_dt_with_rounding/diff_dt_with_total, duration.rs round/total/compare "
                      "with RelativeTo::PlainDate, date.rs DateDuration::days; the total's two float roundings (progress, then sum) are "
                      "modelled with the dyadic F64 model and compared bit-for-bit, not proved exact (the property's 'exact rational' "
                      "is proved for the numerator/denominator the float is taken of). ZonedDateTime-relative paths are C13/C14.",
        "why_difference_is_violation":
            "The model's nudge is proved to round the exact rational position per RoundNumberToIncrement and its add/re-measure "
            "steps are the proved C04/C05 models; the implementation returned a different duration, total or ordering on this input.",
    },
    "C18": {
        "lean_modules": ["TemporalModel.Props.C18"],
        "suites": ["c18", "c11"],
        "level_text": "Proof: C18_canonical_from_fields / C18_canonical_routes (every non-constructor route - fields, with, from a date, "
                      "arithmetic - yields hidden day 1), C18_add_from_first_of_month (add of whole years and months is plain-date "
                      "addition from day 1 of the receiver's month, whatever hidden day it carries, then the year and month of the "
                      "result), C18_canonical_month_day (reference year 1972), C18_rejects_weeks_days, "
                      "C18_limits (accepted iff -271821-04 <= (y,m) <= 275760-09), C18_month_day_feb29. Tie: every month of boundary "
                      "years through every route (constructor with/without reference, partial with/without day, strings with/without "
                      "day/time/annotation/basic form, from a date), all 14x33 month-day cells in both modes, year-month "
                      "add/subtract/until/since/compare/with on random and limit year-months.",
        "level_note": "Trusted: Lean kernel (+propext, Classical.choice, Quot.sound); hand model of year_month.rs / month_day.rs / "
                      "calendar.rs *_from_partial; the string routes use a small reader for the generated forms (the grammar itself is "
                      "C12); the hidden day is observed through to_ixdtf_string(DisplayCalendar::Always); year-month until/since with "
                      "rounding options is C08's machinery. Harness + diff.",
        "why_difference_is_violation":
            "C18_* theorems prove the model's year-months/month-days are canonical and count whole months; the implementation "
            "returned a different (hidden) field, duration or error kind on this input.",
    },
}
