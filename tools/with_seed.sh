#!/bin/bash
# with_seed.sh <seed-id> <property>...: apply seeded/<id>/patch.diff to /repo, run the quick checks, undo.
SID=$1; shift
cd /repo || exit 2
if [ -n "$(git status --porcelain --untracked-files=no)" ]; then echo "/repo has uncommitted changes; refusing"; exit 2; fi
if ! git apply /verif/seeded/$SID/patch.diff 2>/dev/null; then
  if ! patch -p1 --no-backup-if-mismatch -s < /verif/seeded/$SID/patch.diff; then echo "PATCH-FAILED $SID"; git checkout -- .; exit 3; fi
fi
cd /verif
for P in "$@"; do
  echo "== $SID vs $P"
  python3 tools/check.py $P | tail -2
done
git -C /repo checkout -- .
git -C /repo status --porcelain --untracked-files=no | head -3
