#!/usr/bin/env python3
"""Orchestrator: check.py <Cxx> [--tier quick|thorough] [--replay file] [--seed N]

For one property:
  1. build the Lean theorems of the property (lake build) and audit `#print axioms`;
  2. rebuild the Rust harness against /repo's *current working tree* (hooks on);
  3. run corpus + generated operation lines on the implementation (harness) and on the
     executable Lean model (compiled driver), diff canonical outcomes;
  4. classify differences against KNOWN_FINDINGS.json, shrink, write replay + evidence.
Exit 0 = held on everything explored; exit 1 + `VIOLATION property=<id> replay=<path>` otherwise.
"""
import concurrent.futures
import json
import os
import re
import subprocess
import sys
import time

ROOT = os.path.dirname(os.path.dirname(os.path.abspath(__file__)))
LEAN = os.path.join(ROOT, "lean")
HARNESS = os.path.join(ROOT, "harness")
DRIVER = os.path.join(LEAN, ".lake", "build", "bin", "driver")
# the self-test with seeded changes (tools/run_seeds.py) redirects its evidence so that the committed evidence files
# always describe the unchanged tree
EVID = os.environ.get("VERIF_EVIDENCE_DIR") or os.path.join(ROOT, "evidence")
REPLAYS = os.path.join(EVID, "replays")
ALLOWED_AXIOMS = {"propext", "Classical.choice", "Quot.sound"}
FORBIDDEN = re.compile(r"\b(sorry|admit|native_decide|bv_decide|implemented_by|unsafe)\b|^axiom |maxHeartbeats 0")

sys.path.insert(0, os.path.join(ROOT, "tools"))
import props as P  # noqa: E402
import regions as R  # noqa: E402


def sh(cmd, cwd=None, env=None, timeout=None, input=None):
    e = dict(os.environ)
    e["CARGO_NET_OFFLINE"] = "true"
    if env:
        e.update(env)
    return subprocess.run(cmd, cwd=cwd, env=e, shell=isinstance(cmd, str), capture_output=True,
                          text=True, timeout=timeout, input=input)


# ---------------------------------------------------------------- Lean side
def strip_comments(src):
    src = re.sub(r"/-.*?-/", "", src, flags=re.S)
    return "\n".join(l.split("--")[0] for l in src.splitlines())


def audit_sources():
    bad = []
    for d, _, fs in os.walk(LEAN):
        if ".lake" in d:
            continue
        for f in fs:
            if f.endswith(".lean"):
                p = os.path.join(d, f)
                for n, l in enumerate(strip_comments(open(p).read()).splitlines(), 1):
                    if FORBIDDEN.search(l):
                        bad.append(f"{os.path.relpath(p, ROOT)}:{n}: {l.strip()[:80]}")
    return bad


def lake_build(targets):
    """Returns (ok, theorems: {name: [axioms]}, log). Forces the Props modules to be re-elaborated
    only when sources changed (lake's own cache); axioms are read from the module's build log,
    which lake replays from its cache."""
    r = sh(["lake", "build"] + targets + ["driver"], cwd=LEAN, timeout=3000)
    log = r.stdout + r.stderr
    thms = {}
    for m in re.finditer(r"'([\w.']+)' depends on axioms: \[([^\]]*)\]", log):
        thms[m.group(1)] = [a.strip() for a in m.group(2).split(",") if a.strip()]
    for m in re.finditer(r"'([\w.']+)' does not depend on any axioms", log):
        thms[m.group(1)] = []
    return r.returncode == 0, thms, log


def theorem_axioms(modules):
    """`#print axioms` output is only shown by lake when a module is (re)built or has cached
    log; to be robust we re-run lean on the Props file directly (fast: imports are compiled)."""
    thms = {}
    ok = True
    logs = []
    for mod in modules:
        path = mod.replace(".", "/") + ".lean"
        r = sh(["lake", "env", "lean", path], cwd=LEAN, timeout=3000)
        log = r.stdout + r.stderr
        logs.append(log)
        if r.returncode != 0:
            ok = False
        for m in re.finditer(r"'([\w.']+)' depends on axioms: \[([^\]]*)\]", log, flags=re.S):
            thms[m.group(1)] = [a.strip() for a in m.group(2).replace("\n", " ").split(",") if a.strip()]
        for m in re.finditer(r"'([\w.']+)' does not depend on any axioms", log):
            thms[m.group(1)] = []
    return ok, thms, "\n".join(logs)


# ---------------------------------------------------------------- Rust side
def build_harness(profile="dev"):
    cmd = ["cargo", "build", "--offline", "-q"]
    if profile == "release":
        cmd.append("--release")
    r = sh(cmd, cwd=HARNESS, timeout=3000)
    exe = os.path.join(HARNESS, "target", "release" if profile == "release" else "debug", "harness")
    return r.returncode == 0, exe, r.stdout + r.stderr


def harness_gen(exe, suite, tier, seed):
    r = sh([exe, "gen", suite, tier, str(seed)], timeout=3000)
    if r.returncode != 0:
        raise RuntimeError(f"harness gen {suite} failed: {r.stderr[-2000:]}")
    return split_tsv(r.stdout)


def harness_eval(exe, lines):
    if not lines:
        return []
    r = sh([exe, "eval"], input="\n".join(lines) + "\n", timeout=3000)
    if r.returncode != 0:
        raise RuntimeError(f"harness eval failed: {r.stderr[-2000:]}")
    return [o for _, o in split_tsv(r.stdout)]


def split_tsv(text):
    out = []
    for l in text.splitlines():
        if not l:
            continue
        a, _, b = l.partition("\t")
        out.append((a, b))
    return out


ZONES_ENV = {}


def dump_zones(exe):
    """`harness zones` -> the TZif tables the Lean driver reads (C15)."""
    path = os.path.join(HARNESS, "target", "zones.tsv")
    r = sh([exe, "zones"], timeout=600)
    if r.returncode != 0:
        raise RuntimeError("harness zones failed: " + r.stderr[-2000:])
    open(path, "w").write(r.stdout)
    ZONES_ENV["TEMPORAL_ZONES"] = path


def run_driver(lines):
    if not lines:
        return []
    n = len(lines)
    nproc = 1 if n < 20000 else min(16, os.cpu_count() or 4)
    chunk = (n + nproc - 1) // nproc
    chunks = [lines[i:i + chunk] for i in range(0, n, chunk)]

    def one(ch):
        r = sh([DRIVER], input="\n".join(ch) + "\n", timeout=3000, env=ZONES_ENV)
        if r.returncode != 0:
            raise RuntimeError("driver failed: " + r.stderr[-2000:])
        res = r.stdout.splitlines()
        if len(res) != len(ch):
            raise RuntimeError(f"driver returned {len(res)} lines for {len(ch)} ops")
        return res

    with concurrent.futures.ThreadPoolExecutor(max_workers=nproc) as ex:
        parts = list(ex.map(one, chunks))
    return [x for p in parts for x in p]


# ---------------------------------------------------------------- shrinking
INT = re.compile(r"^-?\d+$")


def shrink(exe, line, still_bad, rounds=40):
    """Greedy numeric shrinking of one op line; `still_bad(line, impl, model) -> bool`."""
    cur = line
    for _ in range(rounds):
        toks = cur.split(" ")
        cands = []
        for i, t in enumerate(toks):
            if i == 0 or not INT.match(t):
                continue
            v = int(t)
            for nv in {0, v // 2, v - (1 if v > 0 else -1 if v < 0 else 0), -v if v < 0 else v}:
                if nv != v and abs(nv) <= abs(v):
                    c = toks[:]
                    c[i] = str(nv)
                    cands.append(" ".join(c))
        if not cands:
            break
        cands = list(dict.fromkeys(cands))
        try:
            impl = harness_eval(exe, cands)
            model = run_driver(cands)
        except Exception:
            break
        nxt = None
        for c, a, b in zip(cands, impl, model):
            if still_bad(c, a, b):
                nxt = c
                break
        if nxt is None:
            break
        cur = nxt
    return cur


# ---------------------------------------------------------------- main
def load_findings(prop):
    p = os.path.join(ROOT, "KNOWN_FINDINGS.json")
    if not os.path.exists(p):
        return []
    return [f for f in json.load(open(p))["findings"] if f["property"] == prop]


def main():
    args = sys.argv[1:]
    if not args:
        print(__doc__)
        return 2
    prop = args[0]
    tier = os.environ.get("VERIF_TIER", "quick")
    seed = int(os.environ.get("VERIF_SEED", "1"))
    replay = None
    i = 1
    while i < len(args):
        if args[i] == "--tier":
            tier = args[i + 1]; i += 2
        elif args[i] == "--seed":
            seed = int(args[i + 1]); i += 2
        elif args[i] == "--replay":
            replay = args[i + 1]; i += 2
        else:
            i += 1
    if tier not in ("quick", "thorough"):
        tier = "quick"
    spec = P.PROPS[prop]
    t0 = time.time()
    os.makedirs(REPLAYS, exist_ok=True)
    violations = []   # (kind, detail dict)
    notes = []

    # 0. translator tie: regenerate the model tables from /repo's working tree
    if spec.get("translator"):
        r = sh([sys.executable, os.path.join(ROOT, spec["translator"])], timeout=600)
        if r.returncode != 0:
            rp = write_replay(prop, seed, "translator", {"log": (r.stdout + r.stderr)[-4000:],
                              "broken": "the translator no longer reads /repo (model not regenerated)"})
            print(f"VIOLATION property={prop} replay={rp} no-failing-input-found")
            return 1
        notes.append("translator: " + r.stdout.strip().splitlines()[-1])

    # 1. Lean
    forbidden = audit_sources()
    ok_build, _, build_log = lake_build(spec["lean_modules"])
    ok_ax, thms, ax_log = theorem_axioms(spec["lean_modules"])
    bad_thms = {n: a for n, a in thms.items() if not set(a) <= ALLOWED_AXIOMS}
    lean_ok = ok_build and ok_ax and not bad_thms and not forbidden and len(thms) > 0
    if tier == "thorough" and lean_ok:
        for mod in spec["lean_modules"]:
            r = sh(["lake", "env", "leanchecker", mod], cwd=LEAN, timeout=3000)
            if r.returncode != 0:
                lean_ok = False
                build_log += "\nleanchecker failed for " + mod + "\n" + r.stdout + r.stderr

    # 2. harness
    ok_h, exe, hlog = build_harness("dev")
    if not ok_h:
        rp = write_replay(prop, seed, "harness-build", {"log": hlog[-4000:],
                          "broken": "harness no longer builds against /repo (correspondence broken)"})
        print(f"VIOLATION property={prop} replay={rp} no-failing-input-found")
        write_evidence(prop, tier, seed, spec, thms, bad_thms, lean_ok, [], [], [], t0, 1, notes)
        return 1
    if not os.path.exists(DRIVER):
        rp = write_replay(prop, seed, "driver-build", {"log": build_log[-4000:]})
        print(f"VIOLATION property={prop} replay={rp} no-failing-input-found")
        return 1

    if spec.get("needs_zones"):
        dump_zones(exe)

    if replay:
        rj = json.load(open(replay))
        lines = rj.get("ops", [])
        impl = harness_eval(exe, lines)
        model = run_driver(lines)
        bad = 0
        for l, a, b in zip(lines, impl, model):
            same = R.compare(prop, l, a, b) is True
            st = "AGREE" if same else "DIFFER"
            bad += not same
            print(f"{st}\t{l}\timpl={a}\tmodel={b}")
        return 1 if bad else 0

    # 3. corpus + generated
    pairs = []
    corpus_dir = os.path.join(ROOT, "corpus", prop)
    corpus_lines = []
    if os.path.isdir(corpus_dir):
        for f in sorted(os.listdir(corpus_dir)):
            if f.endswith(".ops"):
                corpus_lines += [l.strip() for l in open(os.path.join(corpus_dir, f)) if l.strip() and not l.startswith("#")]
    findings = load_findings(prop)
    for f in findings:
        if f.get("witness"):
            corpus_lines.append(f["witness"])
    if corpus_lines:
        pairs += list(zip(corpus_lines, harness_eval(exe, corpus_lines)))
    for suite in spec["suites"]:
        pairs += harness_gen(exe, suite, tier, seed)
    extra = spec.get("extra_checks")
    lines = [l for l, _ in pairs]
    impl = [o for _, o in pairs]
    model = run_driver(lines)
    # the same lines on a build WITHOUT overflow checks / debug assertions (wrapping arithmetic): the outcomes must
    # still be the model's (quick: the property's own first suite; thorough: all its suites)
    profile_runs = []
    for prof in spec.get("extra_profiles", []):
        ok_p, exe_p, plog = build_harness(prof)
        if not ok_p:
            rp = write_replay(prop, seed, "harness-build", {"log": plog[-4000:], "profile": prof,
                              "broken": "harness no longer builds against /repo (correspondence broken)"})
            print(f"VIOLATION property={prop} replay={rp} no-failing-input-found")
            return 1
        psuites = spec["suites"] if tier == "thorough" else spec["suites"][:1]
        plines = [l for l in lines if True]
        if tier != "thorough":
            n0 = len(corpus_lines)
            first = harness_gen(exe_p, psuites[0], tier, seed)
            plines = corpus_lines + [l for l, _ in first]
            pimpl = (harness_eval(exe_p, corpus_lines) if corpus_lines else []) + [o for _, o in first]
            pmodel = model[:n0 + len(first)]
        else:
            pimpl = harness_eval(exe_p, plines)
            pmodel = model
        profile_runs.append((prof, plines, pimpl, pmodel))

    # 4. classify
    open_f = [f for f in findings if f["status"] == "open"]
    seen_findings = {}
    diffs = []
    badops = 0
    for l, a, b in zip(lines, impl, model):
        if b.startswith("?") or a.startswith("?"):
            badops += 1
            diffs.append((l, a, b, "protocol"))
            continue
        verdict = R.compare(prop, l, a, b)
        if verdict is True:
            continue
        hit = None
        # a line that is a finding's own witness is counted for that finding (several regions may cover it);
        # findings that concern the specification only (applies_to=spec) excuse nothing here: the model is as coded
        for f in sorted((f for f in open_f if f.get("applies_to") != "spec"), key=lambda f: f.get("witness") != l):
            if R.in_region(f["region"], l, a, b):
                hit = f
                break
        if hit:
            seen_findings.setdefault(hit["id"], (hit, l, a, b))
        else:
            diffs.append((l, a, b, "disagreement"))

    for prof, plines, pimpl, pmodel in profile_runs:
        for l, a, b in zip(plines, pimpl, pmodel):
            if a == b or R.compare(prop, l, a, b) is True:
                continue
            if any(R.in_region(f["region"], l, a, b) for f in open_f if f.get("applies_to") != "spec"):
                continue
            diffs.append((l, a + f" [profile {prof}]", b, "disagreement-" + prof))
        notes.append(f"profile {prof} (no overflow checks, no debug assertions): {len(plines)} lines re-evaluated")

    # witnesses of open findings must still fail (else: note, not an alarm)
    for f in open_f:
        if f["id"] not in seen_findings:
            notes.append(f"known finding {f['id']} no longer reproduces on this tree")
    # property-level oracle ops: for ops listed in spec_ops the driver also evaluates the *specification*
    # function (not the as-coded model); the implementation is compared with it directly.
    spec_ops = spec.get("spec_ops", {})
    n_spec = 0
    if spec_ops:
        idx = [i for i, l in enumerate(lines) if l.split(" ", 1)[0] in spec_ops]
        slines = [spec_ops[lines[i].split(" ", 1)[0]] + " " + lines[i].split(" ", 1)[1] for i in idx]
        souts = run_driver(slines)
        n_spec = len(slines)
        for i, sl, so in zip(idx, slines, souts):
            if so.startswith("?"):
                diffs.append((sl, impl[i], so, "protocol"))
                continue
            if impl[i] == so:
                continue
            hit = None
            for f in open_f:
                if R.in_region(f["region"], lines[i], impl[i], so):
                    hit = f
                    break
            if hit:
                seen_findings.setdefault(hit["id"], (hit, lines[i], impl[i], so))
            else:
                diffs.append((lines[i], impl[i], so, "spec-disagreement"))
        # re-evaluate "no longer reproduces" notes now that spec findings are known
        notes[:] = [n for n in notes if not any(fid in n for fid in seen_findings)]

    # law ops: for ops listed in feed_ops the implementation's outcome is handed to the driver, which evaluates the
    # specification's law predicates (Lean, Spec/…) on it and answers `ok` or `bad <which law>`.
    feed_ops = spec.get("feed_ops", {})
    n_fed = 0
    if feed_ops:
        idx = [i for i, l in enumerate(lines) if l.split(" ", 1)[0] in feed_ops]
        flines = [feed_ops[lines[i].split(" ", 1)[0]] + " " + lines[i].split(" ", 1)[1] + " | " + impl[i] for i in idx]
        fouts = run_driver(flines)
        n_fed = len(flines)
        for i, fl, fo in zip(idx, flines, fouts):
            if fo == "ok":
                continue
            if fo.startswith("?"):
                diffs.append((fl, impl[i], fo, "protocol"))
                continue
            hit = None
            for f in open_f:
                if R.in_region(f["region"], lines[i], impl[i], fo):
                    hit = f
                    break
            if hit:
                seen_findings.setdefault(hit["id"], (hit, lines[i], impl[i], fo))
            else:
                diffs.append((lines[i], impl[i], "law: " + fo, "law-violation"))
        notes.append(f"law ops: {n_fed} reported outcomes checked against the Lean law predicates")
        notes[:] = [n for n in notes if not any(fid in n for fid in seen_findings)]

    # extra (property-level predicates evaluated directly on implementation outputs)
    if extra:
        for v in extra(prop, lines, impl, model, open_f):
            diffs.append(v)

    for fid, (f, l, a, b) in seen_findings.items():
        print(f"KNOWN-FINDING: property={prop} {f['what']} [e.g. `{l}` impl={a} expected={b}]")

    rc = 0
    if diffs:
        # choose the smallest, shrink, report
        diffs.sort(key=lambda d: (sum(len(t) for t in d[0].split(" ")), d[0]))
        l, a, b, kind = diffs[0]
        if kind == "disagreement":
            def still_bad(c, ia, mb):
                if ia.startswith("?") or mb.startswith("?"):
                    return False
                if R.compare(prop, c, ia, mb) is True:
                    return False
                return not any(R.in_region(f["region"], c, ia, mb) for f in open_f)
            l2 = shrink(exe, l, still_bad)
            a2 = harness_eval(exe, [l2])[0]
            b2 = run_driver([l2])[0]
            l, a, b = l2, a2, b2
        rp = write_replay(prop, seed, kind, {
            "ops": [l], "impl": [a], "model": [b],
            "explanation": spec["why_difference_is_violation"],
            "other_examples": [{"op": d[0], "impl": d[1], "model": d[2]} for d in diffs[1:6]],
            "n_differences": len(diffs),
            "replay_cmd": f"python3 tools/check.py {prop} --replay <this file>"})
        print(f"VIOLATION property={prop} replay={rp}")
        rc = 1
    elif not lean_ok:
        # proofs/build broke but no failing input in the standard run: search harder
        found = None
        for s2 in range(seed + 1, seed + 6):
            sp = []
            for suite in spec["suites"]:
                sp += harness_gen(exe, suite, tier, s2 * 7919)
            ls = [l for l, _ in sp]
            ms = run_driver(ls)
            for (l, a), b in zip(sp, ms):
                if R.compare(prop, l, a, b) is not True and not any(R.in_region(f["region"], l, a, b) for f in open_f):
                    found = (l, a, b)
                    break
            if found:
                break
        detail = {"broken_theorems": bad_thms, "forbidden_tokens": forbidden,
                  "lean_log_tail": (build_log + ax_log)[-3000:],
                  "theorem_or_correspondence": "lake build / #print axioms of " + ",".join(spec["lean_modules"])}
        if found:
            detail.update({"ops": [found[0]], "impl": [found[1]], "model": [found[2]]})
            rp = write_replay(prop, seed, "proof-broken-with-input", detail)
            print(f"VIOLATION property={prop} replay={rp}")
        else:
            rp = write_replay(prop, seed, "proof-broken", detail)
            print(f"VIOLATION property={prop} replay={rp} no-failing-input-found")
        rc = 1

    write_evidence(prop, tier, seed, spec, thms, bad_thms, lean_ok, lines, impl, model, t0,
                   len(diffs) + (0 if lean_ok else 1), notes, seen_findings, badops)
    for n in notes:
        print("NOTE:", n)
    print(f"{prop} {tier}: theorems={len(thms)} ok={lean_ok} ops={len(lines)} diffs={len(diffs)} "
          f"known={len(seen_findings)} wall={time.time() - t0:.1f}s")
    return rc


def write_replay(prop, seed, kind, detail):
    os.makedirs(REPLAYS, exist_ok=True)
    n = 0
    while True:
        p = os.path.join(REPLAYS, f"{prop}-{seed}-{n}.json")
        if not os.path.exists(p):
            break
        n += 1
    d = {"property": prop, "seed": seed, "kind": kind}
    d.update(detail)
    json.dump(d, open(p, "w"), indent=1)
    return p


def write_evidence(prop, tier, seed, spec, thms, bad_thms, lean_ok, lines, impl, model, t0, nviol,
                   notes, seen_findings=None, badops=0):
    os.makedirs(EVID, exist_ok=True)
    seen_findings = seen_findings or {}
    ops_hist = {}
    kinds = {}
    nontrivial = set()
    for l, a in zip(lines, impl):
        op = l.split(" ", 1)[0]
        ops_hist[op] = ops_hist.get(op, 0) + 1
        k = " ".join(a.split(" ")[:2]) if not a.startswith("ok") else "ok"
        kinds[op + ":" + k] = kinds.get(op + ":" + k, 0) + 1
        if a.startswith("ok") or a == "safe":
            nontrivial.add(l)
    step = max(1, len(lines) // 12)
    samples = [{"op": lines[i], "impl": impl[i], "model": model[i]} for i in range(0, len(lines), step)][:14]
    full = sorted(n for n in thms if n not in bad_thms and "_partial" not in n)
    partial = sorted(n for n in thms if "_partial" in n)
    discharged = len([n for n in thms if n not in bad_thms]) if lean_ok else 0
    ev = {
        "property_id": prop,
        "tier": tier,
        "seed": seed,
        "level": spec.get("level", "proof"),
        "coverage": {
            "obligations": max(len(thms), 1),
            "discharged": discharged,
            "checker_cmd": "cd lean && lake build " + " ".join(spec["lean_modules"]) + " driver && lake env lean <Props file> (#print axioms)"
                           + (" && lake env leanchecker <module>" if tier == "thorough" else ""),
            "trusted_base": [
                "Lean 4.33 kernel; axioms used: " + ", ".join(sorted({a for v in thms.values() for a in v})),
                "hand-written Lean model tied to /repo by the differential run below (tools/check.py, harness/)",
                "Lean compiler/runtime for the compiled driver; rustc; the harness generators and canonicaliser",
            ] + spec.get("trusted_base", []),
            "theorems_full_strength": full,
            "theorems_partial": partial,
            "evaluations": sum(spec["weight"](l) for l in lines) if spec.get("weight") else len(lines),
            "distinct_nontrivial": len(nontrivial),
            "rule": spec.get("rule", "op lines from harness generators (suites " + ",".join(spec["suites"]) +
                             ") + corpus; distinct = distinct op line, non-trivial = the implementation computed a value (outcome ok)"),
            "samples": samples,
            "ops_histogram": ops_hist,
            "outcome_histogram": kinds,
            "exhaustive": bool(spec.get("exhaustive_" + tier, False)),
            "protocol_errors": badops,
            "known_findings_reconfirmed": sorted(seen_findings.keys()),
            "notes": notes,
        },
        "assumptions": spec.get("assumptions", []),
        "wall_s": round(time.time() - t0, 2),
        "violations": nviol,
    }
    json.dump(ev, open(os.path.join(EVID, prop + ".json"), "w"), indent=1)


if __name__ == "__main__":
    sys.exit(main())
