#!/usr/bin/env python3
"""Translator T3 (property C19): reads the convenience layer (src/builtins/compiled/*.rs) and the FFI layer
(temporal_capi/src/*.rs) of /repo's *current working tree* and regenerates
lean/TemporalModel/Generated/Wrappers.lean — one row per wrapper method:

    layer, type, name, parameter names, the inner method it calls, the parameter each call argument is built from

plus the enum tables (FFI enum variants vs. core enum variants) and the field maps of the FFI option structs.
Props/C19.lean proves, over the generated tables, that every wrapper is thin.  A wrapper whose body the translator
cannot read as "one call of the inner layer" is emitted with callee "?" and fails the theorem.

Also writes harness/src/gen/c19_table.rs? No: the differential part (each wrapper against its twin) is hand-written
in harness/src/gen/c19.rs; the translator's row list is compared with the set of wrappers exercised there.
"""
import os
import re
import sys

REPO = os.environ.get("TEMPORAL_REPO", "/repo")
ROOT = os.path.dirname(os.path.dirname(os.path.abspath(__file__)))
OUT = os.path.join(ROOT, "lean", "TemporalModel", "Generated", "Wrappers.lean")


def strip_comments(src):
    src = re.sub(r"/\*.*?\*/", "", src, flags=re.S)
    return "\n".join(l.split("//")[0] for l in src.splitlines())


def match_brace(s, i, open_ch="{", close_ch="}"):
    """index of the bracket matching s[i]"""
    depth = 0
    for k in range(i, len(s)):
        if s[k] == open_ch:
            depth += 1
        elif s[k] == close_ch:
            depth -= 1
            if depth == 0:
                return k
    raise ValueError("unbalanced")


def split_top(s, sep=","):
    out, depth, cur = [], 0, ""
    for ch in s:
        if ch in "([{<":
            depth += 1
        elif ch in ")]}>":
            depth -= 1
        if ch == sep and depth == 0:
            out.append(cur)
            cur = ""
        else:
            cur += ch
    if cur.strip():
        out.append(cur)
    return [x.strip() for x in out if x.strip()]


IDENT = re.compile(r"[A-Za-z_][A-Za-z_0-9]*")
NOISE = {"self", "Some", "None", "Ok", "Err", "Into", "into", "map", "as_ref", "as_str", "try_into", "unwrap_or",
         "unwrap_or_default", "transpose", "Box", "new", "clone", "to_string", "ok", "and_then", "x", "as", "u8", "u16",
         "i32", "i64", "f64", "usize", "u32", "i128", "into_iter", "collect", "Default", "default", "from", "From",
         "mut", "ref", "true", "false", "core", "str", "from_utf8", "map_err", "temporal_rs", "as_i128", "is_some",
         "then", "then_some", "copied", "cloned", "get", "try_from", "TryFrom", "bytes", "as_bytes", "iso", "b", "c", "s"}


def local_defs(body):
    """`let <name>[: T] = <expr>;` bindings of a body (simple names only; tuple / struct patterns are not resolved)"""
    out = {}
    for st in split_top(body, ";"):
        m = re.match(r"^let\s+(?:mut\s+)?([a-z_][a-z_0-9]*)\s*(?::[^=]+)?=(?!=)\s*(.*)$", st.strip(), flags=re.S)
        if m:
            out.setdefault(m.group(1), m.group(2))
    return out


def arg_source(expr, params, locals_=None, provider="provider"):
    """the parameter an argument expression is built from ('self' for the receiver, '?' if none / several).  A local
    of the wrapper stands for the parameters its defining expression mentions (same level of abstraction as an
    inline conversion `f(param)`)."""
    e = expr.strip()
    if e in ("&*" + provider, "&" + provider, provider):
        return "provider"
    ids = [m.group(0) for m in IDENT.finditer(e)]
    if locals_ and len(ids) >= 1 and not any(p in ids for p in params):
        # one level of resolution: the argument is (built from) a local
        extra = []
        for x in ids:
            if x in locals_ and x not in params:
                extra += [m.group(0) for m in IDENT.finditer(locals_[x])]
        if extra and any(p in extra for p in params):
            ids = extra
    hits = [p for p in params if p in ids]
    if len(hits) == 1:
        return hits[0]
    if not hits and ("self" in ids):
        return "self"
    if not hits:
        # a local of the wrapper (its name is the author's choice) or a literal expression
        if re.fullmatch(r"[a-z_][a-z_0-9]*", e):
            return "lit:local"
        return "lit:" + re.sub(r"\s+", "", e)[:40]
    return "?" + "+".join(hits)


def parse_fns(src, type_hint=None):
    """yield (type, fn name, params, body) for every `pub fn` inside an `impl Type {` block"""
    src = strip_comments(src)
    for m in re.finditer(r"\bimpl(?:\s*<[^>]*>)?\s+(?:[\w:]+\s+for\s+)?([\w:]+)\s*\{", src):
        ty = m.group(1).split("::")[-1]
        start = m.end() - 1
        end = match_brace(src, start)
        block = src[start + 1:end]
        for f in re.finditer(r"\bpub\s+fn\s+(\w+)\s*(?:<[^>]*>)?\s*\(", block):
            name = f.group(1)
            p0 = f.end() - 1
            p1 = match_brace(block, p0, "(", ")")
            params_src = block[p0 + 1:p1]
            b0 = block.find("{", p1)
            semi = block.find(";", p1)
            if b0 < 0 or (0 <= semi < b0):
                continue
            b1 = match_brace(block, b0)
            body = block[b0 + 1:b1]
            params = []
            has_self = False
            for p in split_top(params_src):
                if re.match(r"^&?\s*(mut\s+)?self$", p):
                    has_self = True
                    continue
                pm = re.match(r"^(?:mut\s+)?(\w+)\s*:", p)
                if pm:
                    params.append(pm.group(1))
            yield ty, name, params, has_self, body


CALL = re.compile(r"(?:\bself(?:\.0|\.iso)?|\b(?:temporal_rs::)?(?:[A-Z]\w*)(?:::[A-Z]\w*)*)\s*(?:\.|::)\s*(\w+)\s*\(")


def first_inner_call(body, with_provider_only=False):
    """(callee, [arg expressions]) of the call that does the work: the first call on self / self.0 / a type path"""
    for m in CALL.finditer(body):
        callee = m.group(1)
        if with_provider_only and "provider" not in callee:
            continue
        recv0 = body[m.start():m.end()]
        if not with_provider_only and (callee in ("lock", "map_err", "general", "from", "into", "as_ref", "clone", "default")
                                       or re.match(r"^(Box|Some|Ok|Err|String|Vec|Self)\b", recv0)):
            continue   # plumbing
        p0 = m.end() - 1
        p1 = match_brace(body, p0, "(", ")")
        args = split_top(body[p0 + 1:p1])
        recv = body[m.start():m.end()]
        return callee, args, recv
    return "?", [], ""


def lock_aliases(cdir):
    """names of argument-less helper functions of the convenience layer whose body is exactly
    `TZ_PROVIDER.lock().map_err(|_| TemporalError::general("…"))` - taking the lock, nothing else"""
    out = []
    for root, _, files in os.walk(cdir):
        for f in files:
            if not f.endswith(".rs"):
                continue
            src = strip_comments(open(os.path.join(root, f)).read())
            for m in re.finditer(r"\bfn\s+(\w+)\s*\(\s*\)\s*->[^{;]*\{", src):
                b0 = m.end() - 1
                body = re.sub(r"\s+", "", src[b0 + 1:match_brace(src, b0)])
                # `TZ_PROVIDER.lock().map_err(|_| TemporalError::general("…"))`, or the same as a `match` on the
                # lock result: nothing is called but the lock, the error constructor and Ok / Err
                if body.count("TZ_PROVIDER.lock()") != 1:
                    continue
                calls = set(re.findall(r"(\w+)\(", body))
                if calls <= {"lock", "map_err", "Ok", "Err", "general"} and "?" not in body and "unwrap" not in body:
                    out.append(m.group(1))
    return out


def provider_runners(cdir, aliases):
    """names of helpers of the convenience layer that run a closure with the locked provider and do nothing else:
    `fn name<..>(f: impl FnOnce(&P) -> R) -> R { let g = <lock alias>()?; f(&g) }` (or with the lock expression)"""
    out = []
    for root, _, files in os.walk(cdir):
        for f in files:
            if not f.endswith(".rs"):
                continue
            src = strip_comments(open(os.path.join(root, f)).read())
            for m in re.finditer(r"\bfn\s+(\w+)\s*(?:<[^>]*>)?\s*\(\s*(\w+)\s*:[^{;]*\{", src):
                b0 = m.end() - 1
                try:
                    body = re.sub(r"\s+", "", src[b0 + 1:match_brace(src, b0)])
                except ValueError:
                    continue
                fn = m.group(2)
                lock = r"(?:" + "|".join([re.escape(a) + r"\(\)" for a in aliases] +
                                         [r'TZ_PROVIDER\.lock\(\)\.map_err\(\|_\|TemporalError::general\("[^"]*"\)\)']) + r")"
                if re.fullmatch(r"let(\w+)=" + lock + r"\?;" + re.escape(fn) + r"\(&\*?\1\)", body):
                    out.append(m.group(1))
    return out


def tail_call(last, callee):
    """`last` is exactly one forwarding call `recv.callee(args)` / `Type::callee(args)` - nothing before or after"""
    m = re.match(r"^(?:self(?:\.0|\.iso)?|(?:[A-Z]\w*)(?:::[A-Z]\w*)*)\s*(?:\.|::)\s*" + re.escape(callee) + r"\s*\(", last)
    if not m:
        return False
    p0 = m.end() - 1
    try:
        return match_brace(last, p0, "(", ")") == len(last) - 1
    except ValueError:
        return False


def body_shape(body, callee):
    """number of statements of a wrapper body when the forwarding call is its result (else 99).  The result may be
    written as the tail call itself, as `Ok(call?)`, or bound to a local that is then returned."""
    stmts = [x.strip() for x in split_top(body, ";")]
    if not stmts:
        return 99
    # a block statement needs no `;`: control flow at the top level of a wrapper (an early return, a branch, a loop)
    # is never part of "take the lock; forward"
    if any(re.match(r"^(if|match|for|while|loop|return|unsafe)\b", st) for st in stmts):
        return 99
    n = len(stmts)
    last = stmts[-1]
    m = re.match(r"^Ok\s*\((.*)\?\s*\)$", last, flags=re.S)
    mo = re.fullmatch(r"Ok\s*\(\s*([a-z_][a-z_0-9]*)\s*\)", last)
    if m:
        last = m.group(1).strip()
    elif mo and n >= 2:
        # `let r = call?; Ok(r)`
        m2 = re.match(r"^let\s+" + re.escape(mo.group(1)) + r"\s*(?::[^=]+)?=(?!=)\s*(.*)\?$", stmts[-2], flags=re.S)
        if m2:
            last = m2.group(1).strip()
            n -= 1
    elif re.fullmatch(r"[a-z_][a-z_0-9]*", last) and n >= 2:
        # `let r = call; r`
        m2 = re.match(r"^let\s+" + re.escape(last) + r"\s*(?::[^=]+)?=(?!=)\s*(.*)$", stmts[-2], flags=re.S)
        if m2:
            last = m2.group(1).strip()
            n -= 1
    return n if tail_call(last, callee) else 99


def lean_str(s):
    return '"' + s.replace("\\", "\\\\").replace('"', '\\"') + '"'


def lean_list(xs):
    return "[" + ", ".join(lean_str(x) for x in xs) + "]"


def main():
    rows = []
    # ---- convenience layer
    cdir = os.path.join(REPO, "src", "builtins", "compiled")
    # only the files that are modules of the crate (`mod x;` in compiled/mod.rs) are part of the build
    declared = set(re.findall(r"\bmod\s+(\w+)\s*;", strip_comments(open(os.path.join(cdir, "mod.rs")).read())))
    aliases = lock_aliases(cdir)
    runners = provider_runners(cdir, aliases)
    for root, _, files in os.walk(cdir):
        for f in sorted(files):
            if not f.endswith(".rs") or f == "tests.rs":
                continue
            if root == cdir and f != "mod.rs" and f[:-3] not in declared:
                continue
            src = open(os.path.join(root, f)).read()
            src = src.split("\nmod tests {")[0]
            for ty, name, params, has_self, body in parse_fns(src):
                # the wrapper takes the shared provider: directly, or through a helper of this layer whose whole
                # body is the lock expression (checked in lock_aliases)
                runner = re.fullmatch(r"\s*(\w+)\s*\(\s*\|\s*(\w+)\s*\|\s*(.*)\)\s*", body, flags=re.S)
                if runner and runner.group(1) in runners:
                    # `with_provider(|p| call(.., p))`: the helper takes the lock and runs the closure (checked in
                    # provider_runners); the closure body is the forwarding call
                    inner, pname = runner.group(3).strip(), runner.group(2)
                    if inner.startswith("{") and inner.endswith("}"):
                        inner = inner[1:-1].strip()
                    callee, args, _ = first_inner_call(inner, with_provider_only=True)
                    srcs = [arg_source(a, params, None, pname) for a in args]
                    rows.append(("compiled", ty, name, (["self"] if has_self else []) + params, callee,
                                 (["self"] if has_self else []) + srcs, 2 if tail_call(inner, callee) else 99))
                    continue
                if "TZ_PROVIDER" not in body and not any(re.search(r"\b" + a + r"\s*\(\s*\)", body) for a in aliases):
                    continue
                callee, args, _ = first_inner_call(body, with_provider_only=True)
                srcs = [arg_source(a, params, local_defs(body)) for a in args]
                # shape of the body: number of top-level statements (lock; forwarding call — anything more touches
                # the arguments or the result), and whether the forwarding call is the result
                rows.append(("compiled", ty, name, (["self"] if has_self else []) + params, callee,
                             (["self"] if has_self else []) + srcs, body_shape(body, callee)))
    # ---- FFI layer
    fdir = os.path.join(REPO, "temporal_capi", "src")
    enums = []
    for f in sorted(os.listdir(fdir)):
        if not f.endswith(".rs"):
            continue
        src = open(os.path.join(fdir, f)).read()
        for ty, name, params, has_self, body in parse_fns(src):
            callee, args, recv = first_inner_call(body)
            srcs = [arg_source(a, params, local_defs(body)) for a in args]
            rows.append(("capi", ty, name, (["self"] if has_self else []) + params, callee,
                         (["self"] if has_self and recv.startswith("self") else []) + srcs, 0))
        clean = strip_comments(src)
        for m in re.finditer(r"enum_convert\(([\w:]+)(?:,[^)]*)?\)\]\s*pub\s+enum\s+(\w+)\s*\{([^}]*)\}", clean):
            core, ffi, body = m.group(1), m.group(2), m.group(3)
            variants = [v.split("=")[0].strip() for v in body.split(",") if v.strip()]
            enums.append((ffi, core.split("::")[-1], variants))
    # ---- field maps of the FFI value structs: `impl (Try)From<ffi::X> for core::Y`
    fields = []
    for f in sorted(os.listdir(fdir)):
        if not f.endswith(".rs"):
            continue
        clean = strip_comments(open(os.path.join(fdir, f)).read())
        for m in re.finditer(r"impl\s+(?:Try)?From<ffi::(\w+)(?:<[^>]*>)?>\s+for\s+([\w:]+)\s*\{", clean):
            ffi = m.group(1)
            b0 = m.end() - 1
            body = clean[b0:match_brace(clean, b0) + 1]
            seen = set()
            # `field: other.src…`  (struct literal; whitespace and line breaks allowed after `other`)
            for fm in re.finditer(r"(?<!:)\b(\w+)\s*:(?!:)\s*(?:[\w:]+\s*\(\s*)*other\s*\.\s*(\w+)", body):
                if fm.group(1) not in ("Error",):
                    fields.append((ffi, fm.group(1), fm.group(2))); seen.add(fm.group(1))
            # `<local>.field = … other.src …` (any receiver name; helper calls such as `convert(other.src)?` allowed)
            for fm in re.finditer(r"\b(?!other\b)(\w+)\s*\.\s*(\w+)\s*=(?!=)[^;]*?\bother\s*\.\s*(\w+)", body):
                if fm.group(2) not in seen:
                    fields.append((ffi, fm.group(2), fm.group(3))); seen.add(fm.group(2))
            # locals bound from a field: `let x = … other.src …;` and `if let Some(x) = … other.src … {`
            local = {}
            for fm in re.finditer(r"\blet\s+(?:mut\s+)?(?:Some\(\s*)?(\w+)\s*\)?\s*(?::[^=;]+)?=(?!=)([^;{]*?\bother\s*\.\s*(\w+)[^;{]*)[;{]", body):
                local.setdefault(fm.group(1), fm.group(3))
            # `let ffi::X { a, b: c, .. } = other;` binds locals to the fields of the same (or the given) name
            for dm in re.finditer(r"\blet\s+(?:ffi::)?\w+\s*\{([^}]*)\}\s*=\s*other\s*;", body):
                for part in split_top(dm.group(1)):
                    pm = re.match(r"^(\w+)\s*(?::\s*(?:mut\s+)?(\w+))?$", part)
                    if pm and pm.group(1) != "..":
                        local.setdefault(pm.group(2) or pm.group(1), pm.group(1))
            # … used by the shorthand `Self { x, … }`, by `field: x` or by `<local>.field = … x …`
            for x, src in local.items():
                for fm in re.finditer(r"[{,]\s*%s\s*(?=[,}])" % re.escape(x), body):
                    if x not in seen:
                        fields.append((ffi, x, src)); seen.add(x)
                for fm in re.finditer(r"\b(\w+)\s*:\s*(?:Some\(\s*)?%s\b" % re.escape(x), body):
                    if fm.group(1) not in seen and fm.group(1) not in ("Error",):
                        fields.append((ffi, fm.group(1), src)); seen.add(fm.group(1))
                for fm in re.finditer(r"\b(?!other\b)(\w+)\s*\.\s*(\w+)\s*=(?!=)[^;]*?\b%s\b" % re.escape(x), body):
                    if fm.group(2) not in seen:
                        fields.append((ffi, fm.group(2), src)); seen.add(fm.group(2))
    # core enum variants
    core_src = ""
    for root, _, files in os.walk(os.path.join(REPO, "src")):
        for f in sorted(files):
            if f.endswith(".rs"):
                core_src += strip_comments(open(os.path.join(root, f)).read()) + "\n"
    # the calendar kinds come from icu_calendar (the version /repo's lock file pins)
    import glob
    for icu in sorted(glob.glob(os.path.expanduser("~/.cargo/registry/src/*/icu_calendar-*/src/any_calendar.rs"))):
        core_src += strip_comments(open(icu).read()) + "\n"
    core_enums = {}
    for m in re.finditer(r"pub\s+enum\s+(\w+)\s*\{([^}]*)\}", core_src):
        vs = []
        for v in m.group(2).split(","):
            v = re.sub(r"#\[[^\]]*\]", "", v).strip()
            if v:
                vs.append(v.split("=")[0].split("(")[0].strip())
        core_enums[m.group(1)] = vs
    other = strip_comments(open(os.path.join(REPO, "src", "rounding.rs")).read()) if os.path.exists(os.path.join(REPO, "src", "rounding.rs")) else ""
    for m in re.finditer(r"pub(?:\(crate\))?\s+enum\s+(\w+)\s*\{([^}]*)\}", other):
        core_enums.setdefault(m.group(1), [v.strip().split("=")[0].strip() for v in m.group(2).split(",") if v.strip()])

    os.makedirs(os.path.dirname(OUT), exist_ok=True)
    with open(OUT, "w") as o:
        o.write("/-\n  GENERATED by tools/translate_wrappers.py from /repo's working tree — do not edit.\n"
                "  One row per wrapper method of the convenience layer (src/builtins/compiled) and of the FFI layer\n"
                "  (temporal_capi/src): what it is called, what it takes, what it calls and with what.\n-/\n")
        o.write("namespace TemporalModel.Generated\n\n")
        o.write("structure Wrapper where\n  layer : String\n  type : String\n  name : String\n  params : List String\n"
                "  callee : String\n  args : List String\n  /-- convenience layer: top-level statements of the body (99: the call is not the tail) -/\n  stmts : Nat\n  deriving Repr, DecidableEq\n\n")
        o.write("def wrappers : List Wrapper := [\n")
        o.write(",\n".join(
            f"  ⟨{lean_str(l)}, {lean_str(t)}, {lean_str(n)}, {lean_list(p)}, {lean_str(c)}, {lean_list(a)}, {k}⟩"
            for l, t, n, p, c, a, k in rows))
        o.write("\n]\n\n")
        o.write("structure EnumMap where\n  ffi : String\n  core : String\n  ffiVariants : List String\n  coreVariants : List String\n"
                "  deriving Repr, DecidableEq\n\n")
        o.write("def enumMaps : List EnumMap := [\n")
        o.write(",\n".join(
            f"  ⟨{lean_str(f)}, {lean_str(c)}, {lean_list(v)}, {lean_list(core_enums.get(c, ['?missing']))}⟩"
            for f, c, v in enums))
        o.write("\n]\n\n")
        o.write("structure FieldMap where\n  struct : String\n  field : String\n  source : String\n  deriving Repr, DecidableEq\n\n")
        o.write("def fieldMaps : List FieldMap := [\n")
        o.write(",\n".join(f"  ⟨{lean_str(a)}, {lean_str(b)}, {lean_str(c)}⟩" for a, b, c in fields))
        o.write("\n]\n\nend TemporalModel.Generated\n")
    print(f"wrote {OUT}: {len(rows)} wrappers, {len(enums)} enum maps, {len(fields)} field maps")


if __name__ == "__main__":
    sys.exit(main())
