#!/bin/bash
# confirm_seed.sh <worktree> <PID> <seed-id>: re-confirm a sub-agent's seeded change in its scratch worktree and
# store it as /verif/seeded/<seed-id>/ {patch.diff, demo_<PID>.rs, meta.json, confirm.log}
set -u
WT=$1; PID=$2; SID=$3
OUT=/verif/seeded/$SID
mkdir -p $OUT
cp $WT/OUT/patch.diff $OUT/patch.diff
cp $WT/OUT/demo_$PID.rs $OUT/ 2>/dev/null
cp $WT/OUT/meta.json $OUT/agent_meta.json 2>/dev/null
export CARGO_NET_OFFLINE=true
cd $WT
LOG=$OUT/confirm.log; : > $LOG
git checkout -q -- src provider temporal_capi 2>/dev/null
mkdir -p tests; cp $OUT/demo_$PID.rs tests/demo_$PID.rs
echo "== original: demo must pass" >> $LOG
cargo test --offline --features compiled_data --test demo_$PID >> $LOG 2>&1; R_ORIG=$?
git apply $OUT/patch.diff >> $LOG 2>&1; R_APPLY=$?
echo "== mutated: demo must fail" >> $LOG
cargo test --offline --features compiled_data --test demo_$PID >> $LOG 2>&1; R_MUT=$?
echo "== mutated: existing suite must pass" >> $LOG
mv tests/demo_$PID.rs /tmp/demo_$PID.rs.$$
cargo test --workspace --no-fail-fast --offline >> $LOG 2>&1; R_SUITE=$?
mv /tmp/demo_$PID.rs.$$ tests/demo_$PID.rs
echo "RESULT orig_demo_rc=$R_ORIG apply_rc=$R_APPLY mutated_demo_rc=$R_MUT suite_rc=$R_SUITE" | tee -a $LOG
if [ $R_ORIG -eq 0 ] && [ $R_APPLY -eq 0 ] && [ $R_MUT -ne 0 ] && [ $R_SUITE -eq 0 ]; then echo CONFIRMED | tee -a $LOG; else echo NOT-CONFIRMED | tee -a $LOG; fi
