#!/usr/bin/env python3
"""mk_mutant_prompts.py <suffix> PID...: creates scratch worktrees /tmp/mut/<PID><suffix> and prompt files
for independent sub-agents (they get only the property text + the worktree; nothing from /verif)."""
import json, subprocess, sys, os
props = {json.loads(l)['id']: json.loads(l) for l in open('/verif/properties.jsonl')}
tmpl = open('/verif/tools/mutant_prompt.tmpl').read()
suffix = sys.argv[1]
os.makedirs('/tmp/mut', exist_ok=True)
for pid in sys.argv[2:]:
    wt = f'/tmp/mut/{pid}{suffix}'
    subprocess.run(['git', '-C', '/repo', 'worktree', 'add', '--detach', wt, 'HEAD'], capture_output=True)
    p = props[pid]
    extra = ''
    if len(sys.argv) > 2 and os.path.exists(f'/tmp/mut/hint_{pid}{suffix}.txt'):
        extra = open(f'/tmp/mut/hint_{pid}{suffix}.txt').read()
    open(f'/tmp/mut/prompt_{pid}{suffix}.txt', 'w').write(
        tmpl.format(wt=wt, title=p['title'], statement=p['statement'], q=p['quantifier']['text'], pid=pid, extra=extra))
    print(wt)
