#!/usr/bin/env python3
"""Writes MANIFEST.json from tools/props.py (single source of truth)."""
import json, os, sys
ROOT = os.path.dirname(os.path.dirname(os.path.abspath(__file__)))
sys.path.insert(0, os.path.join(ROOT, "tools"))
import props as P

ALL = ["C%02d" % i for i in range(1, 21)]
checks = []
for pid in ALL:
    if pid not in P.PROPS:
        continue
    s = P.PROPS[pid]
    checks.append({
        "property_id": pid,
        "quick_cmd": f"python3 tools/check.py {pid} --tier quick",
        "thorough_cmd": f"python3 tools/check.py {pid} --tier thorough",
        "evidence_file": f"/verif/evidence/{pid}.json",
        "replay_cmd_template": f"python3 tools/check.py {pid} --replay {{path}}",
        "engine": "lean4-model+correspondence",
        "level_claimed": {
            "category": s.get("level", "proof"),
            "text": s["level_text"],
            "design_ref": s.get("design_ref", "DESIGN.md §4 " + pid),
        },
        "level_note": s["level_note"],
        "technique": s.get("technique", "Lean 4 theorems about an executable model + differential correspondence run against /repo"),
    })
na = [{"property_id": pid, "reason": P.NOT_YET.get(pid, "check not built yet in this session (no technique switch); see DESIGN.md §9")}
      for pid in ALL if pid not in P.PROPS]
m = {
    "version": 1,
    "setup_cmd": "python3 /verif/tools/translate_wrappers.py && cd /verif/lean && lake build TemporalModel driver && cd /verif/harness && cargo build --offline && cargo build --offline --release",
    "hooks": {
        "guard": "cargo feature `verif_hooks` (temporal_rs)",
        "enable": "harness/Cargo.toml depends on /repo with features [compiled_data, verif_hooks]",
        "baseline_off_cmd": "cd /repo && cargo test --workspace --no-fail-fast --offline",
        "source_commits": P.HOOK_COMMITS,
        "add_only": True,
    },
    "engines": [{
        "name": "lean4-model+correspondence",
        "path": "/verif/lean, /verif/harness, /verif/tools/check.py",
        "serves_properties": [c["property_id"] for c in checks],
        "kind_free_text": "Lean 4 model + theorems (lake build, #print axioms audit); compiled Lean driver vs Rust harness linking /repo in-process; diff of canonical outcomes; known-findings regions",
    }],
    "checks": checks,
    "not_applicable": na,
    "notes": "Properties are decided by machine-checked Lean 4 theorems about a hand-written executable model; the model is tied to /repo on every run by the correspondence check. See DESIGN.md.",
}
json.dump(m, open(os.path.join(ROOT, "MANIFEST.json"), "w"), indent=1)
print("wrote MANIFEST.json with", len(checks), "checks,", len(na), "not yet claimed")
