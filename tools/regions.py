"""Outcome comparison and named region predicates of KNOWN_FINDINGS.json.

compare(prop, line, impl, model) -> True when the implementation outcome is acceptable w.r.t. the
model outcome on this op line (default: string equality)."""


def compare(prop, line, impl, model):
    return impl == model


REGIONS = {}


def region(name):
    def deco(f):
        REGIONS[name] = f
        return f
    return deco


def in_region(name, line, impl, model):
    f = REGIONS.get(name)
    if f is None:
        return False
    try:
        return bool(f(line.split(" "), impl, model))
    except Exception:
        return False
