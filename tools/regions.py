"""Outcome comparison and named region predicates of KNOWN_FINDINGS.json.

compare(prop, line, impl, model) -> True when the implementation outcome is acceptable w.r.t. the
model outcome on this op line (default: string equality)."""


def compare(prop, line, impl, model):
    return impl == model


REGIONS = {}


def region(name):
    def deco(f):
        REGIONS[name] = f
        return f
    return deco


def in_region(name, line, impl, model):
    if name.startswith("panic-site:"):
        # a known finding identified by its call site: the surface sweep reports `panic@<crate>/src/<file>:<line>`
        return impl == "panic@" + name[len("panic-site:"):]
    if name.startswith("sweep-timeout:"):
        # a call that did not return within the watchdog limit, identified by the calendar it was made in
        t = line.split(" ")
        return impl.startswith("timeout") and t[0] in ("sw_cal", "sw_calp") and t[1] == name[len("sweep-timeout:"):]
    f = REGIONS.get(name)
    if f is None:
        return False
    try:
        return bool(f(line.split(" "), impl, model))
    except Exception:
        return False


UNIT_NS = {"hour": 3600 * 10**9, "minute": 60 * 10**9, "second": 10**9, "millisecond": 10**6, "microsecond": 10**3,
           "nanosecond": 1}
CONTAINER = {"minute": 3600 * 10**9, "second": 60 * 10**9, "millisecond": 10**9, "microsecond": 10**6,
             "nanosecond": 10**3}


@region("halfeven-container-parity")
def _halfeven_container_parity(t, impl, expected):
    """pt_round / pdt_round with mode halfEven on a sub-hour unit, the time of day exactly on a tie of the
    increment, and an odd number of increments between midnight and the start of the unit's container
    (hour for minutes, minute for seconds, ...): RoundTime counts the quantity from the container, the property
    counts multiples from midnight, so the 'even multiple' differs."""
    if t[0] == "pt_round":
        tod, unit, inc, mode = t[1:7], t[7], int(t[8]), t[9]
    elif t[0] == "pdt_round":
        tod, unit, inc, mode = t[4:10], t[10], int(t[11]), t[12]
    else:
        return False
    if mode != "halfEven" or unit not in CONTAINER:
        return False
    h, mi, s, ms, us, ns = [int(x) for x in tod]
    total = ((((h * 60 + mi) * 60 + s) * 1000 + ms) * 1000 + us) * 1000 + ns
    q = inc * UNIT_NS[unit]
    cont = CONTAINER[unit]
    if cont % q != 0:
        return False
    base = total - total % cont          # start of the container
    if (total % q) * 2 != q:             # not an exact tie
        return False
    return (base // q) % 2 == 1
