"""Outcome comparison and named region predicates of KNOWN_FINDINGS.json.

compare(prop, line, impl, model) -> True when the implementation outcome is acceptable w.r.t. the
model outcome on this op line (default: string equality)."""


def compare(prop, line, impl, model):
    # C16: `cal_law` lines carry the implementation's reported fields to the driver (feed_ops in check.py); the
    # plain model pass answers `fed` for them
    if line.startswith("cal_law ") and model == "fed":
        return True
    # C03: a panic or an internal-assertion error is the violation itself; that the as-coded model predicts it
    # (the model mirrors the code, assertion sites included) does not make it acceptable
    if prop == "C03" and impl == model and (impl == "err assert" or impl.startswith("panic")):
        return False
    return impl == model


REGIONS = {}


def region(name):
    def deco(f):
        REGIONS[name] = f
        return f
    return deco


def in_region(name, line, impl, model):
    if name.startswith("panic-site:"):
        # a known finding identified by its call site: the surface sweep reports `panic@<crate>/src/<file>:<line>`
        return impl == "panic@" + name[len("panic-site:"):]
    if name.startswith("sweep-timeout:"):
        # a call that did not return within the watchdog limit, identified by the calendar it was made in
        t = line.split(" ")
        return impl.startswith("timeout") and t[0] in ("sw_cal", "sw_calp") and t[1] == name[len("sweep-timeout:"):]
    f = REGIONS.get(name)
    if f is None:
        return False
    try:
        return bool(f(line.split(" "), impl, model))
    except Exception:
        return False


UNIT_NS = {"hour": 3600 * 10**9, "minute": 60 * 10**9, "second": 10**9, "millisecond": 10**6, "microsecond": 10**3,
           "nanosecond": 1}
CONTAINER = {"minute": 3600 * 10**9, "second": 60 * 10**9, "millisecond": 10**9, "microsecond": 10**6,
             "nanosecond": 10**3}


@region("halfeven-container-parity")
def _halfeven_container_parity(t, impl, expected):
    """pt_round / pdt_round with mode halfEven on a sub-hour unit, the time of day exactly on a tie of the
    increment, and an odd number of increments between midnight and the start of the unit's container
    (hour for minutes, minute for seconds, ...): RoundTime counts the quantity from the container, the property
    counts multiples from midnight, so the 'even multiple' differs."""
    if t[0] == "pt_round":
        tod, unit, inc, mode = t[1:7], t[7], int(t[8]), t[9]
    elif t[0] == "pdt_round":
        tod, unit, inc, mode = t[4:10], t[10], int(t[11]), t[12]
    else:
        return False
    if mode != "halfEven" or unit not in CONTAINER:
        return False
    h, mi, s, ms, us, ns = [int(x) for x in tod]
    total = ((((h * 60 + mi) * 60 + s) * 1000 + ms) * 1000 + us) * 1000 + ns
    q = inc * UNIT_NS[unit]
    cont = CONTAINER[unit]
    if cont % q != 0:
        return False
    base = total - total % cont          # start of the container
    if (total % q) * 2 != q:             # not an exact tie
        return False
    return (base // q) % 2 == 1


# ---------------------------------------------------------------- time zones (C13 / C14)
def _zone(zs):
    """`z:<init>;<T>,<off>;...` -> (initial, [(T, off)]); fixed offsets `o:<minutes>` -> (minutes*60, [])."""
    if zs.startswith("o:"):
        return int(zs[2:]) * 60, []
    parts = zs[2:].split(";")
    return int(parts[0]), [tuple(int(x) for x in p.split(",")) for p in parts[1:] if p]


def _lookup(z, t):
    off = z[0]
    for tt, o in z[1]:
        if tt <= t:
            off = o
    return off


def _possible(z, local_ns):
    out = []
    for o in dict.fromkeys([z[0]] + [o for _, o in z[1]]):
        t = local_ns - o * 10**9
        if _lookup(z, t // 10**9) == o:
            out.append(t)
    return sorted(out)


@region("zone-transitions-within-two-days")
def _close_transitions(t, impl, expected):
    """Zone ops on a rule set with two transitions less than two days apart: the one-day probes of
    DisambiguatePossibleEpochNanoseconds / GetStartOfDay (the provider API offers no transition enumeration) can
    read the offset of the neighbouring transition."""
    if not (t[0].startswith("tz_") or t[0].startswith("zdt_") or t[0] in ("du_round_z", "du_total_z", "du_cmp_z", "du_zlaw")) or not t[1].startswith("z:"):
        return False
    ts = [x for x, _ in _zone(t[1])[1]]
    return any(b - a < 172800 for a, b in zip(ts, ts[1:]))


@region("until-from-later-copy-of-repeated-reading")
def _later_copy(t, impl, expected):
    """a.until(b, date largest unit) when the receiver is the later of two instants with the same wall-clock reading
    and the date difference is zero: DifferenceZonedDateTime measures the time part from the *compatible* (earlier)
    resolution of the receiver's own reading, and add() of a duration without date part is exact instant addition,
    so add(until) overshoots by the length of the overlap. Specified behaviour (ECMAScript Temporal)."""
    if t[0] not in ("zdt_law", "du_zlaw") or not t[1].startswith("z:"):
        return False
    z = _zone(t[1])
    a = int(t[2])
    p = _possible(z, a + _lookup(z, a // 10**9) * 10**9)
    return len(p) >= 2 and p[0] != a


@region("day-length-not-whole-hours")
def _fractional_day(t, impl, expected):
    """hours_in_day returns a u8: a local day whose length is not a whole number of hours is truncated."""
    return t[0] == "zdt_hid" and "+" in expected


@region("capi-i128-sign-lost")
def _capi_sign(t, impl, expected):
    """temporal_capi's I128Nanoseconds is sign-and-magnitude with the sign carried by the *high* word only: a negative
    instant whose magnitude is below 2^64 ns (every instant between 1385 and 1970) has high = -0 = 0 and reads back
    positive. Changing the encoding is an FFI ABI change."""
    if t[0] != "w19_capi_instant" or not (-(2**64) < int(t[1]) < 0):
        return False
    # exactly this failure: the same magnitude comes back with the sign lost (and the milliseconds of that value)
    m = _re.match(r"^ok differ 0 (\d+) ms=(\d+) value=(\d+) \| 0 (\d+) ms=-\d+ value=-(\d+)$", impl)
    return m is not None and m.group(1) == m.group(4) and m.group(3) == m.group(5) and int(m.group(3)) == -int(t[1])


# ---------------------------------------------------------------- parsers (C12): quirks of the `ixdtf` 0.4.0 dependency
import re as _re


def _p_string(t):
    # (Calendar::from_str reads the same strings: `cal_id <hex>`)
    if not (t[0].startswith("p_") or t[0] == "cal_id") or len(t) < 2:
        return None
    try:
        return bytes.fromhex(t[1]).decode("utf8") if t[1] != "-" else ""
    except Exception:
        return None


_STRICT_ANN = _re.compile(r"^!?[a-z_][a-z0-9_-]*=[A-Za-z0-9]+(-[A-Za-z0-9]+)*$")


def _groups(s):
    return _re.findall(r"\[([^\]]*)\]", s)


@region("ixdtf-single-character-annotation-value")
def _r_single(t, impl, expected):
    """A key=value annotation whose key is one character long or whose value has a one-character component (`[f=bar]`,
    `[x=a]`, `[k=a-b-c]`) is rejected although RFC 9557 allows it."""
    s = _p_string(t)
    if s is None or not (impl.startswith("err") and expected.startswith("ok")):
        return False
    return any("=" in g and (len(g.split("=", 1)[0].lstrip("!")) == 1 or any(len(c) == 1 for c in g.split("=", 1)[1].split("-")))
               for g in _groups(s))


@region("ixdtf-offset-mixed-separators")
def _r_mixed(t, impl, expected):
    """A UTC offset that mixes the extended and the basic form (`+07:4421`, `-0800:30`) or ends in a dangling
    separator (`+02:13:`) is accepted."""
    s = _p_string(t)
    if s is None or not (impl.startswith("ok") and expected.startswith("err")):
        return False
    return _re.search(r"[+\-\u2212]\d\d:\d\d\d\d|[+\-\u2212]\d\d\d\d:\d\d|[+\-\u2212]\d\d:\d\d:(?!\d)", s) is not None


@region("ixdtf-lenient-annotation")
def _r_lenient(t, impl, expected):
    """A bracket group that contains `=` but is not a well-formed key=value annotation (a second `=`, a `!` inside, a
    key with other characters), a second group without `=`, or text after the groups (`[+01:00][u-ca]=x]`) is
    accepted: the annotation section is not required to be well-formed up to the end of the string."""
    s = _p_string(t)
    if s is None or not (impl.startswith("ok") and expected.startswith("err")):
        return False
    if any("=" in g and not _STRICT_ANN.match(g) for g in _groups(s)):
        return True
    # the annotation section as a whole: an optional time-zone group, then key=value groups, then the end
    k = s.find("[")
    if k < 0:
        return False
    return _re.match(r"^(\[!?[^\]=\[]+\])?(\[!?[a-z_][a-z0-9_-]*=[A-Za-z0-9]+(-[A-Za-z0-9]+)*\])*$", s[k:]) is None


@region("ixdtf-short-form-trailing-text")
def _r_trailing(t, impl, expected):
    """The short year-month / month-day readers do not require the annotation section to end the string: text after
    (or a malformed group inside) the annotations of `2020-04[u-ca=iso8601]x` / `--04-27[...]x` is ignored."""
    s = _p_string(t)
    if s is None or t[0] not in ("p_monthday", "p_yearmonth") or not (impl.startswith("ok") and expected.startswith("err")):
        return False
    if "[" not in s:
        return False
    # only the SHORT forms take this route: a year-month (`2020-04`, `202004`, `+002020-04`) or a month-day
    # (`04-27`, `--04-27`, `0427`) in front of the first bracket - never a full date or date-time string
    head = s.split("[", 1)[0]
    return (_re.match(r"^\d{4}-?\d{2}$", head) is not None or _re.match(r"^[+\-\u2212]\d{6}-?\d{2}$", head) is not None
            or _re.match(r"^(--)?\d{2}-?\d{2}$", head) is not None)


@region("ixdtf-lowercase-zone-annotation")
def _r_lower(t, impl, expected):
    """A time-zone annotation whose name starts with a lower-case letter (`[utc]`, `[a-b]`) is taken for a key=value
    annotation and rejected for its missing `=`."""
    s = _p_string(t)
    if s is None or not (impl.startswith("err") and expected.startswith("ok")):
        return False
    g = _groups(s)
    return bool(g) and "=" not in g[0] and _re.match(r"^!?[a-z_]", g[0]) is not None


@region("ixdtf-duration-duplicate-designator")
def _r_dup(t, impl, expected):
    """A duration that repeats a designator (`P1Y1Y`, `PT1H1H`) is accepted; the last value wins."""
    s = _p_string(t)
    if s is None or t[0] != "p_duration" or not (impl.startswith("ok") and expected.startswith("err")):
        return False
    m = _re.match(r"^[+\-\u2212]?[Pp]([^Tt]*)(?:[Tt](.*))?$", s)
    if not m:
        return False
    for part in (m.group(1) or "", m.group(2) or ""):
        letters = [c.upper() for c in part if c.isalpha()]
        if len(letters) != len(set(letters)):
            return True
    return False


@region("ixdtf-offset-second-60")
def _r_off60(t, impl, expected):
    """A UTC offset with 60 in its seconds field (`-13:52:60`, `-135260`) is accepted."""
    s = _p_string(t)
    if s is None or not (impl.startswith("ok") and expected.startswith("err")):
        return False
    return _re.search(r"[+\-\u2212]\d\d:?\d\d:?60", s) is not None


@region("tz-lone-z")
def _r_tz_lone_z(t, impl, expected):
    """`TimeZone::try_from_str("Z")`: an explicit special case returns +00:00 for the lone letter."""
    return t[0] == "p_tz" and len(t) == 2 and t[1].lower() == "5a" and impl == "ok offset +00:00"


@region("ixdtf-lenient-zone-name")
def _r_zone_name(t, impl, expected):
    """A time-zone annotation whose name has an empty component or a component that does not start with a letter,
    `.` or `_`, or contains other characters (`[America/New_Yor/]`, `[Europe/+X]`, `[UTC[]`) is accepted."""
    s = _p_string(t)
    if s is None or not (impl.startswith("ok") and expected.startswith("err")):
        return False
    g = _groups(s)
    if not g or "=" in g[0]:
        return False
    name = g[0].lstrip("!")
    if name[:1] in "+-\u2212":
        return False
    return any((c == "" or not _re.match(r"^[A-Za-z._][A-Za-z0-9._+\-]*$", c)) for c in name.split("/"))


# ---------------------------------------------------------------- C16
LUNISOLAR = ("hebrew", "chinese", "dangi")


def _rt_parts(out):
    m = _re.match(r"^ok code=(\S+) month=(\S+) era=(\S+) iso=(\S+)$", out)
    return m.groups() if m else None


@region("cal-ordinal-month-after-leap-month")
def _r_ordinal_month(t, impl, expected):
    """hebrew / chinese / dangi: building a date from (year, ordinal month, day) turns the ordinal month into the
    month code of the same number, so in a year with a leap month every date at or after the leap month (where the
    ordinal month differs from the month code's number) is rebuilt as another day or refused; the other routes are
    right."""
    if t[0] == "cal_rt" and t[1] in LUNISOLAR:
        a, e = _rt_parts(impl), _rt_parts(expected)
        if not a or not e:
            return False
        return a[0] == e[0] and a[2] == e[2] and a[3] == e[3] and _re.match(r"^(0|range)@shift(@y<=0)?$", a[1]) is not None
    if t[0] == "cal_fromc" and t[1] in LUNISOLAR:
        # month given without a month code: the date that comes back reports another ordinal month
        # (also when a month code of the same number accompanies it: the two "agree" by number only)
        return t[5] != "-" and expected == "lib" and _re.match(r"^INCONSISTENT month \d+!=\d+$", impl) is not None
    return False


@region("cal-japanese-nonpositive-year")
def _r_japanese_year(t, impl, expected):
    """japanese / japanext: Calendar::year() reports years <= 0 for dates before 1 CE, but the calendrical library
    refuses a non-positive year given without an era (it reads it in the `ce` era), so such a date cannot be rebuilt
    from its own year; rebuilding from era and era year works."""
    if t[0] in ("cal_withid", "cal_toymc") and t[1] in ("japanese", "japanext"):
        # with() and to_plain_year_month() carry the receiver's year as its calendar year
        return _re.match(r"^err range@y<=0(@historic)?$", impl) is not None and expected.startswith("ok ")
    if t[0] != "cal_rt" or t[1] not in ("japanese", "japanext"):
        return False
    a, e = _rt_parts(impl), _rt_parts(expected)
    if not a or not e:
        return False
    return a[0] == "range@y<=0" and a[1] == "range@y<=0" and a[2] == e[2] and a[3] == e[3]


@region("cal-japanext-historic-eras")
def _r_japanext(t, impl, expected):
    """japanext: the eras before Meiji that Calendar::era() reports (`keio-1865`, `taika-645`, ...) are not in the
    crate's era table, so a date in one of them cannot be rebuilt from its era and era year."""
    if t[0] == "cal_withid" and t[1] == "japanext" and len(t) > 5 and "e" in t[5]:
        # the date given back its own era and era year
        return _re.match(r"^err range(@y<=0)?@historic$", impl) is not None and expected.startswith("ok ")
    if t[0] != "cal_rt" or t[1] != "japanext":
        return False
    a, e = _rt_parts(impl), _rt_parts(expected)
    if not a or not e:
        return False
    return a[0] == e[0] and a[1] == e[1] and a[2] == "range@historic" and a[3] == e[3]


@region("cal-islamic-day-zero")
def _r_islamic_day0(t, impl, expected):
    """islamic (observational) and islamic-umalqura: at some month starts the library reports day 0 of the new month
    (its month-length data and its new-moon computation disagree by one day): the day is below 1, the consecutive-day
    law breaks on both sides of it and the date cannot be rebuilt from its own fields."""
    if t[1] not in ("islamic", "islamic-umalqura"):
        return False
    if t[0] == "cal_law":
        m = _re.match(r"^ok (.*) \| (.*)$", impl)
        if not m:
            return False
        a, b = m.group(1).split(" "), m.group(2).split(" ")
        return len(a) == 11 and len(b) == 11 and (a[5] == "0" or b[5] == "0") and expected.startswith("bad ")
    if t[0] == "cal_rt":
        a, e = _rt_parts(impl), _rt_parts(expected)
        if not a or not e:
            return False
        return a[0] == "range@day0" and a[1] == "range@day0" and a[2] == "range@day0" and a[3] == e[3]
    if t[0] in ("cal_withid", "cal_toymc"):
        return impl.endswith("@day0") and expected.startswith("ok ")
    if t[0] == "cal_fromc":
        # the other side of it: the last day of the month before is accepted and reads back as day 0 of the next
        # (asked for by ordinal month or by month code)
        return expected == "lib" and _re.match(r"^INCONSISTENT (month \d+!=\d+|code M\d+L?!=M\d+L?),day 0!=\d+$", impl) is not None
    return False


def _days_from_civil(y, m, d):
    y -= m <= 2
    era = y // 400
    yoe = y - era * 400
    doy = (153 * (m + (-3 if m > 2 else 9)) + 2) // 5 + d - 1
    doe = yoe * 365 + yoe // 4 - yoe // 100 + doy
    return era * 146097 + doe - 719468


# Hebrew years of Temporal's range whose molad of Tishrei falls exactly on Saturday 18 h 0 p: (coded new year as an
# epoch day, year length by the keviyah).  The coded new year is a week early, so the seven days before the true new
# year are reported as days 1-7 of the year and the last seven days of the (coded) year belong to no year.
_HEBREW_GATE_YEARS = [(25590919, 353), (68455167, 383), (-44063484, 353)]


def _in_hebrew_gate_window(n):
    for nyc, ln in _HEBREW_GATE_YEARS:
        if nyc - 2 <= n <= nyc + 8 or nyc + ln - 2 <= n <= nyc + ln + 9:
            return True
    return False


@region("cal-hebrew-molad-at-gate")
def _r_hebrew_gate(t, impl, expected):
    """hebrew: in -114910, 75795 and 193152 AM the molad of Tishrei falls exactly on Saturday 18 h 0 p; the library's
    keviyah postpones the new year (`>=`) but its week count does not move on (`>`), so its new year is a week early:
    around the (coded) start and end of those years days are skipped, repeated or numbered 0, dates do not rebuild,
    and a build with debug assertions panics (calendrical_calculations hebrew_keviyah.rs:281)."""
    if len(t) < 5 or t[1] != "hebrew" or t[0] not in ("cal_law", "cal_rt", "cal_withid", "cal_toymc", "cal_next", "cal_fields"):
        return False
    try:
        n = _days_from_civil(int(t[2]), int(t[3]), int(t[4]))
    except ValueError:
        return False
    return _in_hebrew_gate_window(n)


@region("pdt-from-first-representable-date")
def _r_pdt_from_first(t, impl, expected):
    """`PlainDateTime::from(PlainDate)` for the first representable date: midnight of that day is outside the
    date-time range; the conversion cannot fail, so it returns the out-of-range value."""
    return (t[0] == "pdt_from_pd" and t[1:4] == ["-271821", "4", "19"] and impl == "ok -271821 4 19 0 0 0 0 0 0 valid=0"
            and expected == "ok -271821 4 19 0 0 0 0 0 0 valid=1")


def _dur_fields_valid(f):
    """IsValidDuration on a list of ten Python floats (exact: integral doubles are converted to ints)."""
    if any(x != x or x in (float("inf"), float("-inf")) or x != int(x) for x in f):
        return False
    n = [int(x) for x in f]
    if any(x > 0 for x in n) and any(x < 0 for x in n):
        return False
    if any(abs(x) >= 2 ** 32 for x in n[:3]):
        return False
    total = (abs(n[3]) * 86400 + abs(n[4]) * 3600 + abs(n[5]) * 60 + abs(n[6])) * 10 ** 9 + abs(n[7]) * 10 ** 6 \
        + abs(n[8]) * 10 ** 3 + abs(n[9])
    return total < 2 ** 53 * 10 ** 9


@region("duration-record-unvalidated")
def _r_duration_record_unvalidated(t, impl, expected):
    """A Duration assembled from the public records without validation (`Duration::from(TimeDuration)`,
    `Duration::from(DateDuration)`, `Duration::from_day_and_time`, whose fields are public) that is NOT a valid
    duration: the i128 normalisation of its time part overflows or trips its debug assertion, or the 64-bit day
    arithmetic of the duration code overflows (any panic site inside the duration module, for such a record only)."""
    if t[0] != "sw_durraw" or len(t) != 11:
        return False
    if not impl.startswith("panic@repo/src/builtins/core/duration"):   # duration.rs and duration/*.rs
        return False
    try:
        f = [float(x) for x in t[1:]]
    except ValueError:
        return False
    z = [0.0] * 10
    date_only = f[:4] + z[4:]
    time_only = z[:4] + f[4:]
    day_time = z[:3] + f[3:]
    return not all(_dur_fields_valid(x) for x in (date_only, time_only, day_time))


def _iso_date_in_limits(y, m, d):
    if not (1 <= m <= 12):
        return False
    leap = y % 4 == 0 and (y % 100 != 0 or y % 400 == 0)
    dim = [31, 29 if leap else 28, 31, 30, 31, 30, 31, 31, 30, 31, 30, 31][m - 1]
    if not (1 <= d <= dim):
        return False
    return (-271821, 4, 19) <= (y, m, d) <= (275760, 9, 13)


@region("iso-date-record-unvalidated")
def _r_iso_date_record_unvalidated(t, impl, expected):
    """An `IsoDate` whose public fields were written directly (through `PlainMonthDay::iso`, or handed to the public
    `Calendar` getters / `date_add` / `date_until`, which take a `&IsoDate`) and that is NOT a valid ISO date inside
    Temporal's range: the conversion to the calendrical library's date unwraps (`IsoDate::to_icu4x`), or the library
    itself overflows on the year."""
    if t[0] not in ("sw_mdraw", "sw_calraw") or len(t) != 5 or not impl.startswith("panic@"):
        return False
    try:
        y, m, d = int(t[2]), int(t[3]), int(t[4])
    except ValueError:
        return False
    return not _iso_date_in_limits(y, m, d)
