"""Outcome comparison and named region predicates of KNOWN_FINDINGS.json.

compare(prop, line, impl, model) -> True when the implementation outcome is acceptable w.r.t. the
model outcome on this op line (default: string equality)."""


def compare(prop, line, impl, model):
    return impl == model


REGIONS = {}


def region(name):
    def deco(f):
        REGIONS[name] = f
        return f
    return deco


def in_region(name, line, impl, model):
    if name.startswith("panic-site:"):
        # a known finding identified by its call site: the surface sweep reports `panic@<crate>/src/<file>:<line>`
        return impl == "panic@" + name[len("panic-site:"):]
    if name.startswith("sweep-timeout:"):
        # a call that did not return within the watchdog limit, identified by the calendar it was made in
        t = line.split(" ")
        return impl.startswith("timeout") and t[0] in ("sw_cal", "sw_calp") and t[1] == name[len("sweep-timeout:"):]
    f = REGIONS.get(name)
    if f is None:
        return False
    try:
        return bool(f(line.split(" "), impl, model))
    except Exception:
        return False


UNIT_NS = {"hour": 3600 * 10**9, "minute": 60 * 10**9, "second": 10**9, "millisecond": 10**6, "microsecond": 10**3,
           "nanosecond": 1}
CONTAINER = {"minute": 3600 * 10**9, "second": 60 * 10**9, "millisecond": 10**9, "microsecond": 10**6,
             "nanosecond": 10**3}


@region("halfeven-container-parity")
def _halfeven_container_parity(t, impl, expected):
    """pt_round / pdt_round with mode halfEven on a sub-hour unit, the time of day exactly on a tie of the
    increment, and an odd number of increments between midnight and the start of the unit's container
    (hour for minutes, minute for seconds, ...): RoundTime counts the quantity from the container, the property
    counts multiples from midnight, so the 'even multiple' differs."""
    if t[0] == "pt_round":
        tod, unit, inc, mode = t[1:7], t[7], int(t[8]), t[9]
    elif t[0] == "pdt_round":
        tod, unit, inc, mode = t[4:10], t[10], int(t[11]), t[12]
    else:
        return False
    if mode != "halfEven" or unit not in CONTAINER:
        return False
    h, mi, s, ms, us, ns = [int(x) for x in tod]
    total = ((((h * 60 + mi) * 60 + s) * 1000 + ms) * 1000 + us) * 1000 + ns
    q = inc * UNIT_NS[unit]
    cont = CONTAINER[unit]
    if cont % q != 0:
        return False
    base = total - total % cont          # start of the container
    if (total % q) * 2 != q:             # not an exact tie
        return False
    return (base // q) % 2 == 1


# ---------------------------------------------------------------- time zones (C13 / C14)
def _zone(zs):
    """`z:<init>;<T>,<off>;...` -> (initial, [(T, off)]); fixed offsets `o:<minutes>` -> (minutes*60, [])."""
    if zs.startswith("o:"):
        return int(zs[2:]) * 60, []
    parts = zs[2:].split(";")
    return int(parts[0]), [tuple(int(x) for x in p.split(",")) for p in parts[1:] if p]


def _lookup(z, t):
    off = z[0]
    for tt, o in z[1]:
        if tt <= t:
            off = o
    return off


def _possible(z, local_ns):
    out = []
    for o in dict.fromkeys([z[0]] + [o for _, o in z[1]]):
        t = local_ns - o * 10**9
        if _lookup(z, t // 10**9) == o:
            out.append(t)
    return sorted(out)


@region("zone-transitions-within-two-days")
def _close_transitions(t, impl, expected):
    """Zone ops on a rule set with two transitions less than two days apart: the one-day probes of
    DisambiguatePossibleEpochNanoseconds / GetStartOfDay (the provider API offers no transition enumeration) can
    read the offset of the neighbouring transition."""
    if not (t[0].startswith("tz_") or t[0].startswith("zdt_")) or not t[1].startswith("z:"):
        return False
    ts = [x for x, _ in _zone(t[1])[1]]
    return any(b - a < 172800 for a, b in zip(ts, ts[1:]))


@region("until-from-later-copy-of-repeated-reading")
def _later_copy(t, impl, expected):
    """a.until(b, date largest unit) when the receiver is the later of two instants with the same wall-clock reading
    and the date difference is zero: DifferenceZonedDateTime measures the time part from the *compatible* (earlier)
    resolution of the receiver's own reading, and add() of a duration without date part is exact instant addition,
    so add(until) overshoots by the length of the overlap. Specified behaviour (ECMAScript Temporal)."""
    if t[0] not in ("zdt_law",) or not t[1].startswith("z:"):
        return False
    z = _zone(t[1])
    a = int(t[2])
    p = _possible(z, a + _lookup(z, a // 10**9) * 10**9)
    return len(p) >= 2 and p[0] != a


@region("day-length-not-whole-hours")
def _fractional_day(t, impl, expected):
    """hours_in_day returns a u8: a local day whose length is not a whole number of hours is truncated."""
    return t[0] == "zdt_hid" and "+" in expected


@region("capi-i128-sign-lost")
def _capi_sign(t, impl, expected):
    """temporal_capi's I128Nanoseconds is sign-and-magnitude with the sign carried by the *high* word only: a negative
    instant whose magnitude is below 2^64 ns (every instant between 1385 and 1970) has high = -0 = 0 and reads back
    positive. Changing the encoding is an FFI ABI change."""
    return t[0] == "w19_capi_instant" and -(2**64) < int(t[1]) < 0
