#!/bin/bash
# cov_gaps.sh [suite ...]: builds the harness with coverage instrumentation (nightly + llvm-tools), runs the given suites
# (default: every suite whose outcomes are compared with the model, i.e. all but the c03 surface sweep) and prints, per
# source file of /repo, the line ranges that no op line executed.  A supporting measurement for the generators - it
# decides nothing.
set -u
T=~/.rustup/toolchains/nightly-x86_64-unknown-linux-gnu/lib/rustlib/x86_64-unknown-linux-gnu/bin
OUT=${COV_DIR:-/var/tmp/verif-cov}
mkdir -p $OUT; rm -f $OUT/*.profraw
cd /verif/harness
RUSTFLAGS="-C instrument-coverage" CARGO_TARGET_DIR=/verif/harness/target-cov cargo +nightly build --offline -q 2>/dev/null || exit 2
export LLVM_PROFILE_FILE=$OUT/h-%p-%m.profraw
SUITES=${@:-c01 c02 c04 c05 c06 c07 c08 c09 c10 c11 c12 c13 c14 c15 c16 c17 c18 c19 c20}
for s in $SUITES; do ./target-cov/debug/harness gen $s quick 1 > /dev/null 2>&1; done
$T/llvm-profdata merge -sparse --failure-mode=all $OUT/*.profraw -o $OUT/all.profdata 2>/dev/null
$T/llvm-cov report ./target-cov/debug/harness -instr-profile=$OUT/all.profdata --ignore-filename-regex='(registry|rustc|harness/src|rustup)' 2>/dev/null \
  | awk 'NR>2 && $1 !~ /^-/ {printf "%-52s functions %4s missed %4s   lines %5s missed %5s (%s)\n", $1, $5, $6, $8, $9, $10}'
$T/llvm-cov show ./target-cov/debug/harness -instr-profile=$OUT/all.profdata --ignore-filename-regex='(registry|rustc|harness/src|rustup)' 2>/dev/null > $OUT/show.txt
python3 - "$OUT/show.txt" <<'PY'
import re,sys
cur=None; gaps={}
for line in open(sys.argv[1], errors='replace'):
    m=re.match(r'^(/\S+\.rs):$', line.strip())
    if m: cur=m.group(1); gaps[cur]=[]; continue
    m=re.match(r'^\s*(\d+)\|\s*([0-9.kMG]+)?\|(.*)$', line)
    if m and cur:
        n=int(m.group(1)); cnt=m.group(2); src=m.group(3)
        if cnt=='0' and src.strip() not in ('}', '{', ''):
            gaps[cur].append(n)
for f,ls in gaps.items():
    if not ls: continue
    rs=[]; a=b=ls[0]
    for n in ls[1:]:
        if n<=b+2: b=n
        else: rs.append((a,b)); a=b=n
    rs.append((a,b))
    print(f.replace('/repo/',''), ' '.join(f"{a}-{b}" if a!=b else str(a) for a,b in rs))
PY
# instrumented children started with another working directory leave default_*.profraw files behind
find /repo /verif/harness -maxdepth 2 -name 'default_*.profraw' -delete
