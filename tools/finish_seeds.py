#!/usr/bin/env python3
"""finish_seeds.py <base_commit> SID:PID ... — writes seeded/<SID>/meta.json from the agent's meta + confirm.log and
removes the scratch worktree /tmp/mut/<PID><suffix> (suffix = SID minus 'PID-')."""
import json, os, subprocess, sys
base = sys.argv[1]
for arg in sys.argv[2:]:
    sid, wt = arg.split(":")
    pid = sid.split("-")[0]
    d = f"/verif/seeded/{sid}"
    am = json.load(open(d + "/agent_meta.json")) if os.path.exists(d + "/agent_meta.json") else {}
    log = open(d + "/confirm.log").read().strip().splitlines()[-2:]
    if log[-1] != "CONFIRMED":
        print("NOT CONFIRMED", sid, log)
        continue
    meta = {"id": sid, "property": pid, "breaks": am.get("summary"), "needs": am.get("needs"), "files": am.get("files"),
            "source": "independent sub-agent given only the property text and a scratch worktree",
            "confirmed_by": "tools/confirm_seed.sh in the scratch worktree: demo passes on original, patch applies, demo fails "
                            "with patch, `cargo test --workspace --no-fail-fast --offline` passes with patch",
            "confirm_result": log, "base_commit": base}
    json.dump(meta, open(d + "/meta.json", "w"), indent=1)
    if os.path.exists(d + "/agent_meta.json"):
        os.remove(d + "/agent_meta.json")
    subprocess.run(["git", "-C", "/repo", "worktree", "remove", "--force", wt])
    print("ok", sid)
