#!/usr/bin/env python3
"""Writes DESIGN.md: the hand-written text in tools/design_text.md with the generated blocks filled in from the
sources of truth — tools/props.py (levels, ties), lean/TemporalModel/Props/*.lean (theorem names and their doc
comments), KNOWN_FINDINGS.json (fix: commits and open findings), seeded/*/meta.json + seeded/RESULTS.json (which
check catches which seeded change), /repo's git log (hook and fix commits).  Run after any of them changes."""
import glob, json, os, re, subprocess, sys
ROOT = os.path.dirname(os.path.dirname(os.path.abspath(__file__)))
sys.path.insert(0, os.path.join(ROOT, "tools"))
import props as P

PROPS = {json.loads(l)["id"]: json.loads(l) for l in open(os.path.join(ROOT, "properties.jsonl"))}
KF = json.load(open(os.path.join(ROOT, "KNOWN_FINDINGS.json")))["findings"]
ALL = ["C%02d" % i for i in range(1, 21)]


def theorems(pid):
    out = []
    for mod in P.PROPS[pid]["lean_modules"]:
        path = os.path.join(ROOT, "lean", mod.replace(".", "/") + ".lean")
        s = open(path).read()
        names = [n.split(".")[-1] for n in re.findall(r"#print axioms (\S+)", s)]
        docs = {}
        for d, n in re.findall(r"/--((?:(?!-/).)*?)-/\s*theorem\s+(\S+)", s, flags=re.S):
            docs[n] = " ".join(d.split())
        for n in names:
            out.append((n, docs.get(n, "")))
    return out


def wrap(text, width=100, indent=""):
    words, lines, cur = text.split(), [], indent
    for w in words:
        if len(cur) + len(w) + 1 > width and cur.strip():
            lines.append(cur.rstrip())
            cur = indent + w + " "
        else:
            cur += w + " "
    if cur.strip():
        lines.append(cur.rstrip())
    return "\n".join(lines)


def per_property():
    res = json.load(open(os.path.join(ROOT, "seeded", "RESULTS.json"))) if os.path.exists(os.path.join(ROOT, "seeded", "RESULTS.json")) else {}
    out = []
    for pid in ALL:
        p, s = PROPS[pid], P.PROPS[pid]
        out.append(f"### {pid} — {p['title']}\n")
        out.append(wrap("*Statement (given, fixed).* " + p["statement"]) + "\n")
        out.append(wrap("*What is proved and how it is tied.* " + s["level_text"]) + "\n")
        ths = theorems(pid)
        out.append(f"*Theorems* (`lean/{s['lean_modules'][0].replace('.', '/')}.lean`, {len(ths)}; each followed by `#print axioms`):\n")
        for n, d in ths:
            d1 = d if len(d) < 400 else d[:397] + "..."
            out.append(wrap(f"* `{n}` — {d1}" if d1 else f"* `{n}`", indent="") )
        out.append("")
        ties = [f"suites `{', '.join(s['suites'])}`"]
        if s.get("spec_ops"):
            ties.append("specification ops " + ", ".join(f"`{a}`→`{b}`" for a, b in s["spec_ops"].items()))
        if s.get("feed_ops"):
            ties.append("law ops fed with the implementation's output " + ", ".join(f"`{a}`→`{b}`" for a, b in s["feed_ops"].items()))
        if s.get("extra_profiles"):
            ties.append("re-run on profile(s) " + ", ".join(s["extra_profiles"]) + " (no overflow checks, no debug assertions)")
        if s.get("translator"):
            ties.append(f"translator `{s['translator']}` regenerates the model tables from /repo on every run")
        if s.get("needs_zones"):
            ties.append("zone table dumped from the zoneinfo tree on every run")
        out.append(wrap("*Tie.* " + "; ".join(ties) + ".") + "\n")
        out.append(wrap("*Trusted / modelled, not verified.* " + s["level_note"]) + "\n")
        fx = [f for f in KF if f["property"] == pid and f["status"] == "fixed"]
        op = [f for f in KF if f["property"] == pid and f["status"] == "open"]
        if fx:
            out.append("*Defects found by this check and repaired (`fix:` commits in /repo):*\n")
            for f in fx:
                w = re.sub(r"^fixed: property=\S+ \S+ ", "", f["what"])
                out.append(wrap(f"* `{f['commit']}` — {w} (witness `{f['witness'][:70]}`)"))
            out.append("")
        if op:
            out.append("*Open known findings (printed as `KNOWN-FINDING`, identified by region, exit 0):*\n")
            for f in op:
                out.append(wrap(f"* `{f['id']}` (region `{f['region']}`) — {f['what']}"))
            out.append("")
        seeds = sorted(k for k in res if k.split("-")[0] == pid)
        if seeds:
            out.append("*Seeded changes aimed at this property:* " + "; ".join(f"`{k}`: {res[k]['verdict']}" for k in seeds) + " (details §9).\n")
    return "\n".join(out)


def fix_table():
    rows = ["| property | commit | what was wrong (witness op line in KNOWN_FINDINGS.json) |", "|---|---|---|"]
    for f in KF:
        if f["status"] == "fixed":
            w = re.sub(r"^fixed: property=\S+ \S+ ", "", f["what"]).replace("|", "\\|")
            rows.append(f"| {f['property']} | `{f['commit']}` | {w} |")
    return "\n".join(rows)


def open_table():
    rows = ["| id | region | why it is recorded and not repaired |", "|---|---|---|"]
    for f in KF:
        if f["status"] == "open":
            rows.append(f"| {f['id']} | `{f['region']}` | " + f["what"].replace("|", "\\|") + " |")
    return "\n".join(rows)


def seed_table():
    pth = os.path.join(ROOT, "seeded", "RESULTS.json")
    if not os.path.exists(pth):
        return "(seeded/RESULTS.json not written yet)"
    res = json.load(open(pth))
    notes = {}
    if os.path.exists(os.path.join(ROOT, "seeded", "NOTES.json")):
        notes = json.load(open(os.path.join(ROOT, "seeded", "NOTES.json")))
    rows = ["| seed | origin | what it changes | result |", "|---|---|---|---|"]
    for k in sorted(res):
        m = {}
        mp = os.path.join(ROOT, "seeded", k, "meta.json")
        if os.path.exists(mp):
            m = json.load(open(mp))
        origin = "sub-agent" if "sub-agent" in m.get("source", "") else ("revert of a fix" if "reverse" in m.get("source", "") else m.get("source", "own")[:20])
        what = (m.get("breaks") or "").replace("|", "\\|")
        det = res[k].get("detail", "").replace("|", "\\|")
        note = (" — " + notes[k]) if k in notes else ""
        rows.append(f"| {k} | {origin} | {what} | **{res[k]['verdict']}**: {det}{note} |")
    return "\n".join(rows)


def harmless_table():
    pth = os.path.join(ROOT, "seeded", "HARMLESS.json")
    if not os.path.exists(pth):
        return "(seeded/HARMLESS.json not written yet)"
    res = json.load(open(pth))
    rows = ["| id | what was refactored (sub-agent's summary) | files | result of all 20 quick checks |", "|---|---|---|---|"]
    for k in sorted(res):
        m = {}
        mp = os.path.join(ROOT, "seeded", "harmless", k, "meta.json")
        if os.path.exists(mp):
            m = json.load(open(mp))
        summ = m.get("summary", "")
        if isinstance(summ, list):
            summ = " ".join(summ)
        summ = (summ[:420] + "...") if len(summ) > 420 else summ
        n = 0
        pp = os.path.join(ROOT, "seeded", "harmless", k, "patch.diff")
        if os.path.exists(pp):
            n = sum(1 for l in open(pp) if (l.startswith("+") or l.startswith("-")) and not l.startswith("+++") and not l.startswith("---"))
        al = res[k]["alarms"]
        verdict = "**quiet**" if not al else "**ALARM**: " + "; ".join(f"{a['property']} {a.get('op', '')}" for a in al)
        rows.append(f"| {k} | {summ.replace('|', chr(92) + '|')} ({n} changed lines) | {', '.join(m.get('files', []))} | {verdict} |")
    return "\n".join(rows)


def hooks():
    out = []
    for c in P.HOOK_COMMITS:
        r = subprocess.run(["git", "-C", "/repo", "log", "-1", "--format=%h %s", c], capture_output=True, text=True)
        out.append("* `" + r.stdout.strip() + "`")
    return "\n".join(out)


def counts():
    nfix = len([f for f in KF if f["status"] == "fixed"])
    nopen = len([f for f in KF if f["status"] == "open"])
    r = subprocess.run(["git", "-C", "/repo", "log", "--format=%h", "--grep=^fix:"], capture_output=True, text=True)
    nth = sum(len(theorems(p)) for p in ALL)
    return {"NFIXED": str(nfix), "NOPEN": str(nopen), "NFIXCOMMITS": str(len(r.stdout.split())), "NTHEOREMS": str(nth)}


def lean_sizes():
    tot = {}
    for d in ("Model", "Spec", "Lemmas", "Props", "Generated"):
        n = 0
        for f in glob.glob(os.path.join(ROOT, "lean", "TemporalModel", d, "*.lean")):
            n += sum(1 for _ in open(f))
        tot[d] = n
    n = sum(sum(1 for _ in open(f)) for f in glob.glob(os.path.join(ROOT, "lean", "Driver", "*.lean")))
    tot["Driver"] = n
    return ", ".join(f"{k} {v}" for k, v in tot.items())


def main():
    text = open(os.path.join(ROOT, "tools", "design_text.md")).read()
    blocks = {"PER_PROPERTY": per_property(), "FIX_TABLE": fix_table(), "OPEN_TABLE": open_table(),
              "SEED_TABLE": seed_table(), "HARMLESS_TABLE": harmless_table(), "HOOKS": hooks(), "LEAN_SIZES": lean_sizes()}
    blocks.update(counts())
    for k, v in blocks.items():
        text = text.replace("{{" + k + "}}", v)
    left = re.findall(r"\{\{[A-Z_]+\}\}", text)
    if left:
        print("unfilled blocks:", left)
        return 1
    open(os.path.join(ROOT, "DESIGN.md"), "w").write(text)
    print("wrote DESIGN.md,", len(text.splitlines()), "lines")
    return 0


if __name__ == "__main__":
    sys.exit(main())
