#!/usr/bin/env python3
"""run_seeds.py [seed-id ...]: applies each seeded change (seeded/<id>/patch.diff) to /repo, runs the owning property's
quick check (plus the extra properties listed in EXTRA), undoes the change, and records the outcome in
seeded/RESULTS.json: which check caught it, with which op line, or MISSED.  /repo must be clean; it is clean again after
every seed (git checkout -- .)."""
import glob, json, os, re, subprocess, sys
ROOT = os.path.dirname(os.path.dirname(os.path.abspath(__file__)))
# other properties whose check is expected to notice a seed aimed elsewhere (shared code)
EXTRA = {"C03-a": ["C10"], "C18-a": ["C08"], "C13-b": ["C15"], "C15-a": ["C15"], "C20-c": ["C15"], "C20-b": ["C15"]}


def sh(cmd, cwd=None):
    return subprocess.run(cmd, cwd=cwd, capture_output=True, text=True)


def clean():
    return sh(["git", "-C", "/repo", "status", "--porcelain", "--untracked-files=no"]).stdout.strip() == ""


def run_check(prop):
    env = dict(os.environ, VERIF_EVIDENCE_DIR=os.path.join(ROOT, "seeded", ".evidence"))
    r = subprocess.run([sys.executable, os.path.join(ROOT, "tools", "check.py"), prop, "--tier", "quick"], cwd=ROOT,
                       capture_output=True, text=True, env=env)
    out = r.stdout + r.stderr
    m = re.search(r"VIOLATION property=(\S+) replay=(\S+)( no-failing-input-found)?", out)
    if not m:
        return None
    detail = {"replay": m.group(2), "no_input": bool(m.group(3))}
    try:
        rj = json.load(open(m.group(2)))
        detail["kind"] = rj.get("kind")
        if rj.get("ops"):
            detail["op"] = rj["ops"][0]
            detail["impl"] = (rj.get("impl") or [""])[0][:120]
            detail["model"] = (rj.get("model") or [""])[0][:120]
    except Exception:
        pass
    return detail


def main():
    seeds = sys.argv[1:] or sorted(os.path.basename(d) for d in glob.glob(os.path.join(ROOT, "seeded", "C*")))
    pth = os.path.join(ROOT, "seeded", "RESULTS.json")
    res = json.load(open(pth)) if os.path.exists(pth) else {}
    if not clean():
        print("/repo has uncommitted changes; refusing")
        return 2
    head = sh(["git", "-C", "/repo", "rev-parse", "--short", "HEAD"]).stdout.strip()
    for sid in seeds:
        pid = sid.split("-")[0]
        patch = os.path.join(ROOT, "seeded", sid, "patch.diff")
        a = sh(["git", "-C", "/repo", "apply", patch])
        if a.returncode != 0:
            a = sh(["patch", "-p1", "--no-backup-if-mismatch", "-s", "-i", patch], cwd="/repo")
        if a.returncode != 0:
            sh(["git", "-C", "/repo", "checkout", "--", "."])
            for rej in glob.glob("/repo/**/*.rej", recursive=True):
                os.remove(rej)
            res[sid] = {"verdict": "obsolete", "detail": "the patch no longer applies: a later fix: commit rewrote the lines it changes", "repo_head": head}
            print(sid, "PATCH-FAILED")
            continue
        caught = []
        try:
            for prop in [pid] + EXTRA.get(sid, []):
                d = run_check(prop)
                if d:
                    caught.append((prop, d))
        finally:
            sh(["git", "-C", "/repo", "checkout", "--", "."])
        if caught:
            parts = []
            for prop, d in caught:
                if d.get("op"):
                    parts.append(f"{prop} on `{d['op']}` (impl `{d.get('impl', '')}`, expected `{d.get('model', '')}`)")
                elif d["no_input"]:
                    parts.append(f"{prop}: {d.get('kind', 'broken tie')}, no-failing-input-found")
                else:
                    parts.append(f"{prop} ({d.get('kind')})")
            res[sid] = {"verdict": "caught", "detail": "; ".join(parts), "by": [p for p, _ in caught], "repo_head": head}
        else:
            mp = os.path.join(ROOT, "seeded", sid, "meta.json")
            m = json.load(open(mp)) if os.path.exists(mp) else {}
            if m.get("obsolete"):
                # the change no longer violates the property on the repaired tree (its own demonstration passes):
                # staying quiet is the required behaviour
                res[sid] = {"verdict": "quiet (no longer a violation)", "detail": m["obsolete"], "repo_head": head}
            else:
                res[sid] = {"verdict": "MISSED", "detail": "no check reported it", "repo_head": head}
        print(sid, res[sid]["verdict"], res[sid]["detail"][:160])
        json.dump(res, open(pth, "w"), indent=1, ensure_ascii=False)
    json.dump(res, open(pth, "w"), indent=1, ensure_ascii=False)
    assert clean()
    return 0


if __name__ == "__main__":
    sys.exit(main())
