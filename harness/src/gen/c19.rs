//! C19 differential part: every convenience-layer method against its `*_with_provider` twin on a fresh
//! `FsTzdbProvider`, and a representative slice of the FFI layer (called from Rust) against the core methods.
//! Outcome: `ok same`, or `ok differ <wrapper result> | <core result>`. The expected outcome is always `ok same`.
//! (The *structure* of all 233 wrappers is covered by the translator + Props/C19.lean.)
use crate::common::*;
use std::fmt::Debug;
use std::str::FromStr;
use temporal_rs::options::{
    RoundingMode, ArithmeticOverflow, DifferenceSettings, Disambiguation, DisplayCalendar, DisplayOffset, DisplayTimeZone,
    OffsetDisambiguation, RelativeTo, RoundingIncrement, RoundingOptions, ToStringRoundingOptions, Unit,
};
use temporal_rs::provider::TransitionDirection;
use temporal_rs::tzdb::FsTzdbProvider;
use temporal_rs::{Calendar, Instant, PlainDate, PlainDateTime, PlainTime, TemporalError, TimeZone, ZonedDateTime};

const ZONES: [&str; 14] = [
    "UTC", "America/New_York", "Europe/London", "Australia/Lord_Howe", "Asia/Kolkata", "Pacific/Apia", "Africa/Monrovia",
    "America/St_Johns", "Asia/Tehran", "Europe/Dublin", "+05:30", "-08:00", "America/Havana", "America/Sao_Paulo",
];
pub const ZDT_GETTERS: [&str; 30] = [
    "year", "month", "month_code", "day", "hour", "minute", "second", "millisecond", "microsecond", "nanosecond", "offset",
    "offset_nanoseconds", "era", "era_year", "day_of_week", "day_of_year", "week_of_year", "year_of_week", "days_in_week",
    "days_in_month", "days_in_year", "months_in_year", "in_leap_year", "hours_in_day", "start_of_day", "to_plain_date",
    "to_plain_time", "to_plain_datetime", "to_string", "transition",
];

pub fn generate(rng: &mut Rng, thorough: bool) -> Vec<String> {
    let mut v = Vec::new();
    // receivers a wrapper could be tempted to special-case: whole seconds, exact local midnights - unique, repeated
    // (Havana's and Sao Paulo's clocks fall back to 00:00) and skipped -, the epoch, the first and last instants
    for z in ZONES {
        let mut exact: Vec<i128> = vec![0, -8_640_000_000_000_000_000_000, 8_640_000_000_000_000_000_000, 86_400, 1_700_000_000];
        // every whole hour of the days around the 2023 / 2017 changes of clocks
        for base in [1_699_142_400i128, 1_678_579_200, 1_487_469_600, 1_508_036_400, 1_509_854_400] {
            for h in -30..=30i128 {
                if thorough || h % 2 == 0 || (-6..=6).contains(&h) { exact.push(base + h * 3600); }
            }
        }
        for sec in exact {
            let ns = if sec.abs() > 8_000_000_000_000_000_000 { sec } else { sec * 1_000_000_000 };
            for g in ZDT_GETTERS {
                // (every accessor at the epoch and at the first and last instants; the others on a subset in the quick tier)
                if thorough || sec == 0 || sec.abs() > 8_000_000_000_000_000_000 || matches!(g, "start_of_day" | "hours_in_day" | "hour" | "offset" | "to_plain_datetime" | "to_string" | "day" | "day_of_week") {
                    v.push(format!("w19_zdt_get {z} {ns} {g}"));
                }
            }
        }
    }
    let n = if thorough { 4000 } else { 400 };
    for _ in 0..n {
        let z = *rng.pick(&ZONES);
        // instants with distinct sub-second fields, near DST changes of 2017/2021 and anywhere
        let base = *rng.pick(&[1_489_302_000i128, 1_509_861_600, 1_616_893_200, 1_635_642_000, 0, -1_000_000_000, 4_102_444_800, 1_325_239_200]);
        let ns = (base + rng.range(-90_000, 90_000)) * 1_000_000_000 + rng.range(1, 999) * 1_000_000 + rng.range(1, 999) * 1000 + rng.range(1, 999);
        for g in ZDT_GETTERS {
            v.push(format!("w19_zdt_get {z} {ns} {g}"));
        }
        let ns2 = ns + rng.range(-400, 400) * 86_400_000_000_000 + rng.range(0, 86_399_999_999_999);
        let du = format!("{} {} 0 {} {} {} 0 0 0 {}", rng.range(0, 2), rng.range(0, 14), rng.range(0, 40), rng.range(0, 30), rng.range(0, 90), rng.range(0, 999));
        let ov = rng.pick(&["constrain", "reject"]);
        v.push(format!("w19_zdt_add {z} {ns} {du} {ov}"));
        v.push(format!("w19_zdt_sub {z} {ns} {du} {ov}"));
        for l in ["year", "day", "hour", "-"] {
            v.push(format!("w19_zdt_until {z} {ns} {ns2} {l}"));
            v.push(format!("w19_zdt_since {z} {ns} {ns2} {l}"));
        }
        // differences with a smallest unit, every rounding mode (since() negates the mode before rounding) and increments
        for _ in 0..2 {
            let ns3 = ns + rng.range(-3, 3) * 86_400_000_000_000 + rng.range(-86_399_999_999_999, 86_399_999_999_999);
            let (l, sm) = *rng.pick(&[("hour", "hour"), ("-", "hour"), ("day", "hour"), ("hour", "minute"), ("year", "day"), ("month", "day"), ("-", "second"), ("day", "day"), ("week", "day")]);
            let inc = *rng.pick(&[1i128, 1, 2, 3, 5, 6, 10, 15]);
            let md = *rng.pick(&MODES);
            v.push(format!("w19_zdt_diff {z} {ns} {ns3} until {l} {sm} {md} {inc}"));
            v.push(format!("w19_zdt_diff {z} {ns} {ns3} since {l} {sm} {md} {inc}"));
        }
        if rng.chance(1, 4) {
            v.push(format!("w19_now {z} {}", rng.pick(&["datetime", "date", "time"])));
        }
        v.push(format!("w19_zdt_wpt {z} {ns} {} {} {}", rng.range(0, 23), rng.range(0, 59), rng.range(0, 59)));
        v.push(format!("w19_zdt_ixdtf {z} {ns} {} {} {} {}", rng.pick(&["auto", "never"]), rng.pick(&["auto", "never", "critical"]), rng.pick(&["auto", "always", "never", "critical"]), rng.pick(&["-", "minute", "second", "millisecond"])));
        v.push(format!("w19_zdt_parse {z} {ns} {} {}", rng.pick(&["compatible", "earlier", "later", "reject"]), rng.pick(&["use", "prefer", "ignore", "reject"])));
        v.push(format!("w19_pdt_to_zdt {z} {ns} {}", rng.pick(&["compatible", "earlier", "later", "reject"])));
        v.push(format!("w19_inst_str {z} {ns}"));
        v.push(format!("w19_dur_rel {z} {ns} {du} {}", rng.pick(&["round", "total", "compare"])));
        // durations without calendar units relative to a zoned date-time (day lengths depend on the zone)
        let du_days = format!("0 0 0 {} {} {} 0 0 0 0", rng.range(0, 3), rng.range(0, 30), rng.range(0, 90));
        v.push(format!("w19_dur_rel {z} {ns} {du_days} {}", rng.pick(&["round", "total", "total_hour", "compare"])));
        v.push(format!("w19_relto {z} {ns}"));
        // Duration::total / round / compare without a reference point: the zero duration and small ones, every unit -
        // the wrapper must fail exactly where the core fails
        let du0 = match rng.below(4) { 0 => "0 0 0 0 0 0 0 0 0 0".to_string(), 1 => format!("0 0 0 0 {} 0 0 0 0 0", rng.range(0, 30)), 2 => format!("0 0 0 {} 0 0 0 0 0 0", rng.range(0, 3)), _ => format!("0 {} 0 0 0 0 0 0 0 0", rng.range(0, 2)) };
        v.push(format!("w19_dur_none {du0} total {}", rng.pick(&UNITS)));
        v.push(format!("w19_dur_none {du0} round {}", rng.pick(&UNITS)));
        // ... and with a largest unit given (auto counts as given) while the smallest is absent, and the reverse
        let du1 = format!("0 0 0 0 {} {} {} 0 0 0", rng.range(0, 30), rng.range(0, 200), rng.range(0, 200));
        let lu = *rng.pick(&["auto", "-", "hour", "minute", "second", "day"]);
        let su = *rng.pick(&["-", "-", "second", "minute", "millisecond"]);
        v.push(format!("w19_dur_opts {du1} {lu} {su}"));
        v.push(format!("w19_dur_opts {du0} {lu} {su}"));
        // FFI slice
        v.push(format!("w19_capi_instant {ns}"));
        v.push(format!("w19_capi_instant {}", -ns));
        let (y, m, d) = (rng.range(-3000, 5000), rng.range(1, 12), rng.range(1, 28));
        v.push(format!("w19_capi_date {y} {m} {d} {}", rng.pick(&super::c03::CALENDARS)));
        v.push(format!("w19_capi_time {} {} {} {} {} {}", rng.range(0, 23), rng.range(0, 59), rng.range(0, 59), rng.range(0, 999), rng.range(0, 999), rng.range(0, 999)));
        v.push(format!("w19_capi_dur {du}"));
        // FFI option records: every shape of the precision record, units and modes by name, increments
        let unit = |rng: &mut Rng| if rng.chance(1, 4) { "-".to_string() } else { rng.pick(&UNITS).to_string() };
        let mode = |rng: &mut Rng| if rng.chance(1, 4) { "-".to_string() } else { rng.pick(&MODES).to_string() };
        let digit = if rng.chance(1, 3) { "-".to_string() } else { rng.range(0, 10).to_string() };
        v.push(format!("w19_capi_tostr {} {} {} {} {} {} {} {digit} {} {}", rng.range(0, 23), rng.range(0, 59), rng.range(0, 59), rng.range(0, 999), rng.range(0, 999), rng.range(0, 999), rng.below(2), unit(rng), mode(rng)));
        let inc = if rng.chance(1, 3) { "-".to_string() } else { rng.pick(&[0i128, 1, 2, 5, 7, 15, 24, 30, 60, 100, 1000, 1_000_000_000, 1_000_000_001, 4_294_967_295]).to_string() };
        v.push(format!("w19_capi_settings {} {} {} {inc} {} {} {} {} {} {}", unit(rng), unit(rng), mode(rng), rng.range(0, 23), rng.range(0, 59), rng.range(0, 59), rng.range(0, 23), rng.range(0, 59), rng.range(0, 59)));
    }
    v
}

fn cmp<T: Debug, U: Debug>(a: Result<T, TemporalError>, b: Result<U, TemporalError>) -> String {
    let fa = match &a { Ok(v) => format!("{v:?}"), Err(e) => format!("err {}", err_kind(e)) };
    let fb = match &b { Ok(v) => format!("{v:?}"), Err(e) => format!("err {}", err_kind(e)) };
    if fa == fb { "ok same".to_string() } else { format!("ok differ {fa} | {fb}") }
}
fn unit_to_ffi(u: Unit) -> temporal_capi::options::ffi::Unit {
    use temporal_capi::options::ffi::Unit as F;
    match u {
        Unit::Auto => F::Auto, Unit::Nanosecond => F::Nanosecond, Unit::Microsecond => F::Microsecond, Unit::Millisecond => F::Millisecond,
        Unit::Second => F::Second, Unit::Minute => F::Minute, Unit::Hour => F::Hour, Unit::Day => F::Day, Unit::Week => F::Week,
        Unit::Month => F::Month, Unit::Year => F::Year,
    }
}
fn mode_to_ffi(m: RoundingMode) -> temporal_capi::options::ffi::RoundingMode {
    use temporal_capi::options::ffi::RoundingMode as F;
    match m {
        RoundingMode::Ceil => F::Ceil, RoundingMode::Floor => F::Floor, RoundingMode::Expand => F::Expand, RoundingMode::Trunc => F::Trunc,
        RoundingMode::HalfCeil => F::HalfCeil, RoundingMode::HalfFloor => F::HalfFloor, RoundingMode::HalfExpand => F::HalfExpand,
        RoundingMode::HalfTrunc => F::HalfTrunc, RoundingMode::HalfEven => F::HalfEven,
    }
}

fn cmps(a: String, b: String) -> String {
    if a == b { "ok same".to_string() } else { format!("ok differ {a} | {b}") }
}

fn tz(s: &str) -> TimeZone {
    TimeZone::try_from_str(s).unwrap()
}
fn settings(l: &str) -> DifferenceSettings {
    let mut o = DifferenceSettings::default();
    o.largest_unit = opt_unit(l);
    o
}

pub fn eval(t: &[&str]) -> Option<String> {
    if !t[0].starts_with("w19_") {
        return None;
    }
    let p = FsTzdbProvider::default();
    Some(match t[0] {
        "w19_zdt_get" => {
            let z = match ZonedDateTime::try_new(i(t[2]), Calendar::default(), tz(t[1])) { Ok(z) => z, Err(e) => return Some(format!("err {}", err_kind(&e))) };
            macro_rules! g {
                ($m:ident, $mp:ident) => { cmp(z.$m(), z.$mp(&p)) };
            }
            match t[3] {
                "year" => g!(year, year_with_provider),
                "month" => g!(month, month_with_provider),
                "month_code" => g!(month_code, month_code_with_provider),
                "day" => g!(day, day_with_provider),
                "hour" => g!(hour, hour_with_provider),
                "minute" => g!(minute, minute_with_provider),
                "second" => g!(second, second_with_provider),
                "millisecond" => g!(millisecond, millisecond_with_provider),
                "microsecond" => g!(microsecond, microsecond_with_provider),
                "nanosecond" => g!(nanosecond, nanosecond_with_provider),
                "offset" => g!(offset, offset_with_provider),
                "offset_nanoseconds" => g!(offset_nanoseconds, offset_nanoseconds_with_provider),
                "era" => g!(era, era_with_provider),
                "era_year" => g!(era_year, era_year_with_provider),
                "day_of_week" => g!(day_of_week, day_of_week_with_provider),
                "day_of_year" => g!(day_of_year, day_of_year_with_provider),
                "week_of_year" => g!(week_of_year, week_of_year_with_provider),
                "year_of_week" => g!(year_of_week, year_of_week_with_provider),
                "days_in_week" => g!(days_in_week, days_in_week_with_provider),
                "days_in_month" => g!(days_in_month, days_in_month_with_provider),
                "days_in_year" => g!(days_in_year, days_in_year_with_provider),
                "months_in_year" => g!(months_in_year, months_in_year_with_provider),
                "in_leap_year" => g!(in_leap_year, in_leap_year_with_provider),
                "hours_in_day" => g!(hours_in_day, hours_in_day_with_provider),
                "start_of_day" => g!(start_of_day, start_of_day_with_provider),
                "to_plain_date" => g!(to_plain_date, to_plain_date_with_provider),
                "to_plain_time" => g!(to_plain_time, to_plain_time_with_provider),
                "to_plain_datetime" => g!(to_plain_datetime, to_plain_datetime_with_provider),
                "to_string" => cmps(z.to_string(), z.to_string_with_provider(&p).unwrap_or_else(|e| format!("err {}", err_kind(&e)))),
                "transition" => cmp(z.get_time_zone_transition(TransitionDirection::Next), z.get_time_zone_transition_with_provider(TransitionDirection::Next, &p)),
                _ => return Some("?bad-getter".into()),
            }
        }
        "w19_zdt_add" | "w19_zdt_sub" => {
            let z = ZonedDateTime::try_new(i(t[2]), Calendar::default(), tz(t[1])).ok()?;
            let du = duration_from(&t[3..13]).ok()?;
            let ov = Some(overflow(t[13]));
            if t[0] == "w19_zdt_add" { cmp(z.add(&du, ov), z.add_with_provider(&du, ov, &p)) } else { cmp(z.subtract(&du, ov), z.subtract_with_provider(&du, ov, &p)) }
        }
        "w19_zdt_until" | "w19_zdt_since" => {
            let a = ZonedDateTime::try_new(i(t[2]), Calendar::default(), tz(t[1])).ok()?;
            let b = ZonedDateTime::try_new(i(t[3]).clamp(-8_640_000_000_000_000_000_000, 8_640_000_000_000_000_000_000), Calendar::default(), tz(t[1])).ok()?;
            if t[0] == "w19_zdt_until" { cmp(a.until(&b, settings(t[4])), a.until_with_provider(&b, settings(t[4]), &p)) } else { cmp(a.since(&b, settings(t[4])), a.since_with_provider(&b, settings(t[4]), &p)) }
        }
        "w19_zdt_diff" => {
            let a = ZonedDateTime::try_new(i(t[2]), Calendar::default(), tz(t[1])).ok()?;
            let b = ZonedDateTime::try_new(i(t[3]).clamp(-8_640_000_000_000_000_000_000, 8_640_000_000_000_000_000_000), Calendar::default(), tz(t[1])).ok()?;
            let mk = || {
                let mut o = DifferenceSettings::default();
                o.largest_unit = opt_unit(t[5]);
                o.smallest_unit = opt_unit(t[6]);
                o.rounding_mode = opt_mode(t[7]);
                o.increment = RoundingIncrement::try_new(i(t[8]) as u32).ok();
                o
            };
            if t[4] == "until" { cmp(a.until(&b, mk()), a.until_with_provider(&b, mk(), &p)) } else { cmp(a.since(&b, mk()), a.since_with_provider(&b, mk(), &p)) }
        }
        "w19_now" => {
            // the wrapper reads the clock itself: its answer must lie between the core's answers for clock readings
            // taken just before and just after the call
            use temporal_rs::time::EpochNanoseconds;
            use temporal_rs::Now;
            let clock = || std::time::SystemTime::now().duration_since(std::time::UNIX_EPOCH).map(|d| d.as_nanos() as i128).unwrap_or(0);
            let zone = tz(t[1]);
            let en = |x: i128| EpochNanoseconds::try_from(x).ok();
            match t[2] {
                "datetime" => {
                    let t0 = clock();
                    let w = Now::plain_datetime_iso(Some(zone.clone()));
                    let t1 = clock();
                    let lo = Now::plain_datetime_iso_with_provider_and_system_info(en(t0)?, zone.clone(), &p);
                    let hi = Now::plain_datetime_iso_with_provider_and_system_info(en(t1)?, zone.clone(), &p);
                    match (w, lo, hi) {
                        (Ok(w), Ok(lo), Ok(hi)) => if lo.compare_iso(&w) != std::cmp::Ordering::Greater && w.compare_iso(&hi) != std::cmp::Ordering::Greater { "ok same".into() } else { format!("ok differ {w:?} | {lo:?} .. {hi:?}") },
                        (w, lo, _) => cmp(w, lo),
                    }
                }
                "date" => {
                    let t0 = clock();
                    let w = Now::plain_date_iso(Some(zone.clone()));
                    let t1 = clock();
                    let lo = Now::plain_date_iso_with_provider_and_system_info(en(t0)?, zone.clone(), &p);
                    let hi = Now::plain_date_iso_with_provider_and_system_info(en(t1)?, zone.clone(), &p);
                    match (w, lo, hi) {
                        (Ok(w), Ok(lo), Ok(hi)) => if lo.compare_iso(&w) != std::cmp::Ordering::Greater && w.compare_iso(&hi) != std::cmp::Ordering::Greater { "ok same".into() } else { format!("ok differ {w:?} | {lo:?} .. {hi:?}") },
                        (w, lo, _) => cmp(w, lo),
                    }
                }
                _ => {
                    let key = |x: &PlainTime| (x.hour(), x.minute(), x.second(), x.millisecond(), x.microsecond(), x.nanosecond());
                    let t0 = clock();
                    let w = Now::plain_time_iso(Some(zone.clone()));
                    let t1 = clock();
                    let lo = Now::plain_time_iso_with_provider_and_system_info(en(t0)?, zone.clone(), &p);
                    let hi = Now::plain_time_iso_with_provider_and_system_info(en(t1)?, zone.clone(), &p);
                    match (w, lo, hi) {
                        (Ok(w), Ok(lo), Ok(hi)) => {
                            let (a, x, b) = (key(&lo), key(&w), key(&hi));
                            let inside = if a <= b { a <= x && x <= b } else { x >= a || x <= b };
                            if inside { "ok same".into() } else { format!("ok differ {w:?} | {lo:?} .. {hi:?}") }
                        }
                        (w, lo, _) => cmp(w, lo),
                    }
                }
            }
        }
        "w19_zdt_wpt" => {
            let z = ZonedDateTime::try_new(i(t[2]), Calendar::default(), tz(t[1])).ok()?;
            let pt = PlainTime::try_new(i(t[3]) as u8, i(t[4]) as u8, i(t[5]) as u8, 0, 0, 0).ok()?;
            cmp(z.with_plain_time(pt), z.with_plain_time_and_provider(pt, &p))
        }
        "w19_zdt_ixdtf" => {
            let z = ZonedDateTime::try_new(i(t[2]), Calendar::default(), tz(t[1])).ok()?;
            let dof = DisplayOffset::from_str(t[3]).ok()?;
            let dtz = DisplayTimeZone::from_str(t[4]).ok()?;
            let dc = DisplayCalendar::from_str(t[5]).ok()?;
            let mk = || { let mut o = ToStringRoundingOptions::default(); o.smallest_unit = opt_unit(t[6]); o };
            cmp(z.to_ixdtf_string(dof, dtz, dc, mk()), z.to_ixdtf_string_with_provider(dof, dtz, dc, mk(), &p))
        }
        "w19_zdt_parse" => {
            let z = ZonedDateTime::try_new(i(t[2]), Calendar::default(), tz(t[1])).ok()?;
            let s = z.to_string_with_provider(&p).ok()?;
            let d = super::zone::disamb(t[3]);
            let o = super::zone::offopt(t[4]);
            cmp(ZonedDateTime::from_str(&s, d, o), ZonedDateTime::from_str_with_provider(&s, d, o, &p))
        }
        "w19_pdt_to_zdt" => {
            let z = ZonedDateTime::try_new(i(t[2]), Calendar::default(), tz(t[1])).ok()?;
            let dt = z.to_plain_datetime_with_provider(&p).ok()?;
            let d = super::zone::disamb(t[3]);
            cmp(dt.to_zoned_date_time(&tz(t[1]), d), dt.to_zoned_date_time_with_provider(&tz(t[1]), d, &p))
        }
        "w19_inst_str" => {
            let ins = Instant::try_new(i(t[2])).ok()?;
            let zone = tz(t[1]);
            cmp(ins.to_ixdtf_string(Some(&zone), ToStringRoundingOptions::default()), ins.to_ixdtf_string_with_provider(Some(&zone), ToStringRoundingOptions::default(), &p))
        }
        "w19_dur_rel" => {
            let z = ZonedDateTime::try_new(i(t[2]), Calendar::default(), tz(t[1])).ok()?;
            let du = duration_from(&t[3..13]).ok()?;
            let rel = || Some(RelativeTo::ZonedDateTime(z.clone()));
            match t[13] {
                "round" => {
                    let mk = || { let mut o = RoundingOptions::default(); o.largest_unit = Some(Unit::Year); o.smallest_unit = Some(Unit::Hour); o.increment = RoundingIncrement::try_new(1).ok(); o };
                    cmp(du.round(mk(), rel()), du.round_with_provider(mk(), rel(), &p))
                }
                "total" => cmp(du.total(Unit::Day, rel()), du.total_with_provider(Unit::Day, rel(), &p)),
                "total_hour" => cmp(du.total(Unit::Hour, rel()), du.total_with_provider(Unit::Hour, rel(), &p)),
                _ => cmp(du.compare(&du.negated(), rel()), du.compare_with_provider(&du.negated(), rel(), &p)),
            }
        }
        "w19_dur_opts" => {
            let du = duration_from(&t[1..11]).ok()?;
            let mk = || { let mut o = RoundingOptions::default(); o.largest_unit = opt_unit(t[11]); o.smallest_unit = opt_unit(t[12]); o };
            cmp(du.round(mk(), None), du.round_with_provider(mk(), None, &p))
        }
        "w19_dur_none" => {
            let du = duration_from(&t[1..11]).ok()?;
            match t[11] {
                "total" => { let u = opt_unit(t[12])?; cmp(du.total(u, None), du.total_with_provider(u, None, &p)) }
                _ => {
                    let mk = || { let mut o = RoundingOptions::default(); o.smallest_unit = opt_unit(t[12]); o };
                    cmp(du.round(mk(), None), du.round_with_provider(mk(), None, &p))
                }
            }
        }
        "w19_relto" => {
            let z = ZonedDateTime::try_new(i(t[2]), Calendar::default(), tz(t[1])).ok()?;
            let s = z.to_string_with_provider(&p).ok()?;
            let show = |r: Result<RelativeTo, TemporalError>| r.map(|x| match x { RelativeTo::ZonedDateTime(z) => format!("zdt {}", z.epoch_nanoseconds().as_i128()), RelativeTo::PlainDate(d) => format!("pd {d:?}") });
            cmp(show(RelativeTo::try_from_str(&s)), show(RelativeTo::try_from_str_with_provider(&s, &p)))
        }
        // ---- FFI slice (called from Rust)
        "w19_capi_instant" => {
            use temporal_capi::instant::ffi as f;
            let ns = i(t[1]).clamp(-8_640_000_000_000_000_000_000, 8_640_000_000_000_000_000_000);
            let core = Instant::try_new(ns);
            let mag = ns.unsigned_abs();
            let high = (mag >> 64) as i64;
            let words = f::I128Nanoseconds { high: if ns < 0 { -high } else { high }, low: (mag & u64::MAX as u128) as u64 };
            let ffi = f::Instant::try_new(words);
            let a = match &ffi { Ok(x) => { let w = x.epoch_nanoseconds(); format!("{} {} ms={}", w.high, w.low, x.epoch_milliseconds()) } Err(_) => "err".to_string() };
            let b = match &core { Ok(x) => { let v = x.as_i128(); let m = v.unsigned_abs(); let h = (m >> 64) as i64; format!("{} {} ms={}", if v < 0 { -h } else { h }, (m & u64::MAX as u128) as u64, x.epoch_milliseconds()) } Err(_) => "err".to_string() };
            // the value itself must survive the trip through the two words
            let back = match &ffi { Ok(x) => { let w = x.epoch_nanoseconds(); let m = ((w.high.unsigned_abs() as u128) << 64) + w.low as u128; (if w.high < 0 { -(m as i128) } else { m as i128 }).to_string() } Err(_) => "err".into() };
            cmps(format!("{a} value={back}"), format!("{b} value={}", core.map(|x| x.as_i128().to_string()).unwrap_or("err".into())))
        }
        "w19_capi_date" => {
            use temporal_capi::calendar::ffi as fc;
            use temporal_capi::plain_date::ffi as f;
            let cal = Calendar::from_str(t[4]).ok()?;
            let (y, m, d) = (i(t[1]) as i32, i(t[2]) as u8, i(t[3]) as u8);
            let core = PlainDate::new_with_overflow(y, m, d, Calendar::default(), ArithmeticOverflow::Constrain).and_then(|x| x.with_calendar(cal.clone()));
            let ffi = fc::Calendar::from_utf8(t[4].as_bytes().into()).map_err(|_| ()).and_then(|c| {
                f::PlainDate::create_with_overflow(y, m, d, &fc::Calendar::create(fc::AnyCalendarKind::Iso), temporal_capi::options::ffi::ArithmeticOverflow::Constrain)
                    .map_err(|_| ())
                    .and_then(|x| x.with_calendar(&c).map_err(|_| ()))
            });
            let a = match &ffi { Ok(x) => format!("{} {} {} {} {} {} {} {} {} {} {:?} | iso {} {} {}", x.year(), x.month(), x.day(), x.day_of_week(), x.day_of_year(), x.days_in_month(), x.days_in_year(), x.months_in_year(), x.in_leap_year(), x.is_valid(), x.era_year(), x.iso_year(), x.iso_month(), x.iso_day()), Err(_) => "err".into() };
            let b = match &core { Ok(x) => format!("{} {} {} {} {} {} {} {} {} {} {:?} | iso {} {} {}", x.year(), x.month(), x.day(), x.day_of_week(), x.day_of_year(), x.days_in_month(), x.days_in_year(), x.months_in_year(), x.in_leap_year(), x.is_valid(), x.era_year(), x.iso_year(), x.iso_month(), x.iso_day()), Err(_) => "err".into() };
            cmps(a, b)
        }
        "w19_capi_time" => {
            use temporal_capi::plain_time::ffi as f;
            let (h, mi, s, ms, us, ns) = (i(t[1]) as u8, i(t[2]) as u8, i(t[3]) as u8, i(t[4]) as u16, i(t[5]) as u16, i(t[6]) as u16);
            let core = PlainTime::try_new(h, mi, s, ms, us, ns);
            let ffi = f::PlainTime::try_create(h, mi, s, ms, us, ns);
            let a = match &ffi { Ok(x) => format!("{} {} {} {} {} {}", x.hour(), x.minute(), x.second(), x.millisecond(), x.microsecond(), x.nanosecond()), Err(_) => "err".into() };
            let b = match &core { Ok(x) => format!("{} {} {} {} {} {}", x.hour(), x.minute(), x.second(), x.millisecond(), x.microsecond(), x.nanosecond()), Err(_) => "err".into() };
            cmps(a, b)
        }
        "w19_capi_tostr" => {
            use temporal_capi::options::ffi as o;
            let time = PlainTime::try_new(i(t[1]) as u8, i(t[2]) as u8, i(t[3]) as u8, i(t[4]) as u16, i(t[5]) as u16, i(t[6]) as u16).ok()?;
            let is_minute = t[7] == "1";
            let digit: Option<u8> = if t[8] == "-" { None } else { Some(i(t[8]) as u8) };
            let funit = |s: &str| -> Option<o::Unit> { opt_unit(s).map(|u| unit_to_ffi(u)) };
            let fmode = |s: &str| -> Option<o::RoundingMode> { opt_mode(s).map(|m| mode_to_ffi(m)) };
            let ffi_opts = o::ToStringRoundingOptions { precision: o::Precision { is_minute, precision: digit.into() }, smallest_unit: funit(t[9]).into(), rounding_mode: fmode(t[10]).into() };
            // what the record means: `is_minute` wins over a digit count; no digits = automatic
            let want = temporal_rs::parsers::Precision::from(o::Precision { is_minute: false, precision: None.into() });
            let _ = want;
            let precision = if is_minute { temporal_rs::parsers::Precision::Minute } else if let Some(d) = digit { temporal_rs::parsers::Precision::Digit(d) } else { temporal_rs::parsers::Precision::Auto };
            let core_opts = ToStringRoundingOptions { precision, smallest_unit: opt_unit(t[9]), rounding_mode: opt_mode(t[10]) };
            cmp(time.to_ixdtf_string(ffi_opts.into()), time.to_ixdtf_string(core_opts))
        }
        "w19_capi_settings" => {
            use temporal_capi::options::ffi as o;
            let funit = |s: &str| -> Option<o::Unit> { opt_unit(s).map(|u| unit_to_ffi(u)) };
            let fmode = |s: &str| -> Option<o::RoundingMode> { opt_mode(s).map(|m| mode_to_ffi(m)) };
            let inc: Option<u32> = if t[4] == "-" { None } else { Some(i(t[4]) as u32) };
            let a = PlainTime::try_new(i(t[5]) as u8, i(t[6]) as u8, i(t[7]) as u8, 0, 0, 0).ok()?;
            let b = PlainTime::try_new(i(t[8]) as u8, i(t[9]) as u8, i(t[10]) as u8, 0, 0, 0).ok()?;
            let ffi_set = o::DifferenceSettings { largest_unit: funit(t[1]).into(), smallest_unit: funit(t[2]).into(), rounding_mode: fmode(t[3]).into(), increment: inc.into() };
            let ffi_round = o::RoundingOptions { largest_unit: funit(t[1]).into(), smallest_unit: funit(t[2]).into(), rounding_mode: fmode(t[3]).into(), increment: inc.into() };
            let mk_set = || -> Result<DifferenceSettings, TemporalError> {
                let mut s = DifferenceSettings::default();
                s.largest_unit = opt_unit(t[1]); s.smallest_unit = opt_unit(t[2]); s.rounding_mode = opt_mode(t[3]);
                if let Some(n) = inc { s.increment = Some(RoundingIncrement::try_new(n)?); }
                Ok(s)
            };
            let mk_round = || -> Result<RoundingOptions, TemporalError> {
                let mut s = RoundingOptions::default();
                s.largest_unit = opt_unit(t[1]); s.smallest_unit = opt_unit(t[2]); s.rounding_mode = opt_mode(t[3]);
                if let Some(n) = inc { s.increment = Some(RoundingIncrement::try_new(n)?); }
                Ok(s)
            };
            let kind_of = |k: temporal_capi::error::ffi::ErrorKind| -> &'static str {
                use temporal_capi::error::ffi::ErrorKind as K;
                match k { K::Generic => "generic", K::Type => "type", K::Range => "range", K::Syntax => "syntax", K::Assert => "assert" }
            };
            let flat = |r: Result<temporal_rs::Duration, TemporalError>| match r { Ok(d) => format!("{d:?}"), Err(e) => format!("err {}", err_kind(&e)) };
            let via_ffi_u = match DifferenceSettings::try_from(ffi_set) { Ok(s) => flat(a.until(&b, s)), Err(e) => format!("err {}", kind_of(e.kind)) };
            let via_core_u = flat(mk_set().and_then(|s| a.until(&b, s)));
            let d = duration_from(&["0", "0", "0", "0", t[5], t[6], t[7], "0", "0", "0"]).ok()?;
            let via_ffi_r = match RoundingOptions::try_from(ffi_round) { Ok(o) => flat(d.round(o, None)), Err(e) => format!("err {}", kind_of(e.kind)) };
            let via_core_r = flat(mk_round().and_then(|o| d.round(o, None)));
            let x = cmps(via_ffi_u, via_core_u);
            if x != "ok same" { x } else { cmps(via_ffi_r, via_core_r) }
        }
        "w19_capi_dur" => {
            use temporal_capi::duration::ffi as f;
            let core = duration_from(&t[1..11]);
            let g = |k: usize| i(t[k]) as f64;
            let ffi = f::Duration::create(g(1), g(2), g(3), g(4), g(5), g(6), g(7), g(8), g(9), g(10));
            let a = match &ffi { Ok(x) => format!("{} {} {} {} {} {} {} {} {} {} z={} n={}", x.years(), x.months(), x.weeks(), x.days(), x.hours(), x.minutes(), x.seconds(), x.milliseconds(), x.microseconds(), x.nanoseconds(), x.is_zero(), x.negated().years()), Err(_) => "err".into() };
            let b = match &core { Ok(x) => format!("{} {} {} {} {} {} {} {} {} {} z={} n={}", x.years().as_inner(), x.months().as_inner(), x.weeks().as_inner(), x.days().as_inner(), x.hours().as_inner(), x.minutes().as_inner(), x.seconds().as_inner(), x.milliseconds().as_inner(), x.microseconds().as_inner(), x.nanoseconds().as_inner(), x.is_zero(), x.negated().years().as_inner()), Err(_) => "err".into() };
            cmps(a, b)
        }
        _ => return Some("?bad-op".into()),
    })
}

#[allow(dead_code)]
fn _unused(_: PlainDateTime, _: Disambiguation, _: OffsetDisambiguation) {}
