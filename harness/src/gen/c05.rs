//! C05: PlainDateTime add/subtract/until/since/round.
use crate::common::*;
use crate::gen::c10::{diff_settings, round_options};
use temporal_rs::{Calendar, PlainDateTime, TemporalError};

pub fn dt9(t: &[&str]) -> Result<PlainDateTime, TemporalError> {
    let y = i(t[0]);
    if !(i32::MIN as i128..=i32::MAX as i128).contains(&y) {
        return Err(TemporalError::range());
    }
    PlainDateTime::try_new(
        y as i32, i(t[1]) as u8, i(t[2]) as u8, i(t[3]) as u8, i(t[4]) as u8, i(t[5]) as u8, i(t[6]) as u16,
        i(t[7]) as u16, i(t[8]) as u16, Calendar::default(),
    )
}
pub fn fmt_dt(p: &PlainDateTime) -> String {
    format!(
        "{} {} {} {} {} {} {} {} {}",
        p.iso_year(), p.iso_month(), p.iso_day(), p.hour(), p.minute(), p.second(), p.millisecond(), p.microsecond(),
        p.nanosecond()
    )
}

pub fn eval(t: &[&str]) -> Option<String> {
    Some(match t[0] {
        "pdt_add" | "pdt_sub" => render(
            dt9(&t[1..10]).and_then(|p| {
                let d = duration_from(&t[10..20])?;
                let ov = Some(overflow(t[20]));
                if t[0] == "pdt_add" { p.add(&d, ov) } else { p.subtract(&d, ov) }
            }),
            |p| fmt_dt(&p),
        ),
        "pdt_until" | "pdt_since" => render(
            dt9(&t[1..10]).and_then(|a| {
                let b = dt9(&t[10..19])?;
                let s = diff_settings(t[19], t[20], t[21], t[22])?;
                if t[0] == "pdt_until" { a.until(&b, s) } else { a.since(&b, s) }
            }),
            |d| fmt_duration(&d),
        ),
        "pdt_round" => render(
            dt9(&t[1..10]).and_then(|a| a.round(round_options("-", t[10], t[11], t[12])?)),
            |p| fmt_dt(&p),
        ),
        "pdt_law_inv" => render(
            dt9(&t[1..10]).and_then(|a| {
                let b = dt9(&t[10..19])?;
                let s = diff_settings(t[19], "-", "-", "-")?;
                let d = a.until(&b, s)?;
                let back = a.add(&d, None)?;
                Ok((back.compare_iso(&b) == core::cmp::Ordering::Equal) as u8)
            }),
            |x| x.to_string(),
        ),
        _ => return None,
    })
}

const LO: i128 = -100_000_001;
const HI: i128 = 100_000_000;
const DAY: i128 = 86_400_000_000_000;
fn ymd_of(n: i128) -> (i32, u8, u8) {
    temporal_rs::verif_hooks::ymd_from_epoch_milliseconds(n as i64 * 86_400_000)
}
fn pick_day(rng: &mut Rng) -> i128 {
    match rng.below(8) {
        0 => rng.range(LO, LO + 3),
        1 => rng.range(HI - 3, HI),
        2 => rng.range(-800, 800),
        3 => rng.range(LO, LO + 800),
        4 => rng.range(HI - 800, HI),
        _ => rng.range(LO, HI),
    }
}
fn pick_tod(rng: &mut Rng) -> i128 {
    match rng.below(7) {
        0 => 0,
        1 => 1,
        2 => DAY - 1,
        3 => rng.range(0, 86_399) * 1_000_000_000,
        4 => DAY - rng.range(1, 3_600_000_000_000),
        _ => rng.range(0, DAY - 1),
    }
}
fn dt_str(day: i128, tod: i128) -> String {
    let (y, m, d) = ymd_of(day);
    let (h, mi, s, ms, us, ns) = super::c07::split_ns(tod);
    format!("{y} {m} {d} {h} {mi} {s} {ms} {us} {ns}")
}
const LARGEST: [&str; 12] = ["-", "auto", "nanosecond", "microsecond", "millisecond", "second", "minute", "hour", "day", "week", "month", "year"];
const MOPT: [&str; 10] = ["-", "ceil", "floor", "expand", "trunc", "halfCeil", "halfFloor", "halfExpand", "halfTrunc", "halfEven"];

fn dt_dur(rng: &mut Rng) -> Vec<i128> {
    let mut f = vec![0i128; 10];
    let sign = if rng.chance(1, 2) { 1 } else { -1 };
    if rng.chance(1, 3) { f[0] = sign * rng.range(0, 30); }
    if rng.chance(1, 3) { f[1] = sign * rng.range(0, 40); }
    if rng.chance(1, 4) { f[2] = sign * rng.range(0, 60); }
    if rng.chance(1, 2) { f[3] = sign * match rng.below(4) { 0 => rng.range(0, 400), 1 => rng.range(0, 210_000_000), _ => rng.range(0, 40) }; }
    for k in 4..10 {
        if rng.chance(1, 2) {
            f[k] = sign * match rng.below(7) {
                0 => rng.range(0, 30), 1 => rng.range(0, 100), 2 => rng.range(0, 2000), 3 => rng.range(0, 100_000),
                4 => if k == 9 { *rng.pick(&[DAY, DAY - 1, DAY + 1, 2 * DAY, 1]) } else { 1 },
                5 => if k == 4 { *rng.pick(&[4_800_000_047i128, 4_800_000_048, 4_800_000_049, 103_079_215_104, 2_500_000_000_000]) } else { 0 },
                _ => 0,
            };
        }
    }
    f
}

pub fn generate(rng: &mut Rng, thorough: bool) -> Vec<String> {
    let mut v = Vec::new();
    let n = if thorough { 300_000 } else { 40_000 };
    // PlainDate::to_plain_date_time / PlainDateTime::from_date_and_time: the date and the time as given, range-checked
    // (the first representable day admits no midnight)
    for d in [-100_000_001i128, -100_000_000, 100_000_000, 0, 19_000] {
        let (y, m, dd) = ymd_of(d);
        for t in ["0 0 0 0 0 0", "0 0 0 0 0 1", "23 59 59 999 999 999", "12 0 0 0 0 0"] {
            v.push(format!("pd_to_pdt {y} {m} {dd} {t}"));
            v.push(format!("pdt_from_dat {y} {m} {dd} {t}"));
        }
        v.push(format!("pd_to_pdt {y} {m} {dd} -"));
    }
    for k in 0..n {
        let d1 = pick_day(rng);
        let t1 = pick_tod(rng);
        let a = dt_str(d1, t1);
        let du = dt_dur(rng);
        let dus = du.iter().map(|x| f64_int(*x).to_string()).collect::<Vec<_>>().join(" ");
        let ov = if rng.chance(1, 2) { "constrain" } else { "reject" };
        let op = if k % 3 == 0 { "pdt_sub" } else { "pdt_add" };
        v.push(format!("{op} {a} {dus} {ov}"));
        // second date-time: often with opposite time-of-day order relative to the date order
        let d2 = match rng.below(5) { 0 => d1, 1 => (d1 + rng.range(-3, 3)).clamp(LO, HI), 2 => (d1 + rng.range(-800, 800)).clamp(LO, HI), _ => pick_day(rng) };
        let t2 = match rng.below(4) { 0 => t1, 1 => (t1 + rng.range(-1000, 1000)).rem_euclid(DAY), _ => pick_tod(rng) };
        let b = dt_str(d2, t2);
        let l = *rng.pick(&LARGEST);
        let op = if k % 2 == 0 { "pdt_until" } else { "pdt_since" };
        v.push(format!("{op} {a} {b} {l} - - {}", rng.pick(&MOPT)));
        v.push(format!("pdt_law_inv {a} {b} {}", rng.pick(&LARGEST)));
        // difference with rounding to a time unit (or days) under a calendar largest unit: the second value lies a
        // whole number of weeks / months / years away, give or take a few seconds around the point where the rounded
        // time part completes a day - and with it, possibly, the next larger unit
        if k % 4 == 0 {
            let (y1, m1, dd1) = ymd_of(d1);
            let (y1, m1, dd1) = (y1 as i128, m1 as i128, dd1 as i128);
            let months = rng.range(-30, 30);
            let ym = (y1 * 12 + (m1 - 1) + months).div_euclid(12);
            let mm = (y1 * 12 + (m1 - 1) + months).rem_euclid(12) + 1;
            let d3 = (temporal_rs::verif_hooks::epoch_days_from_gregorian_date(ym as i32, mm as u8, dd1.min(28) as u8) as i128 + *rng.pick(&[0i128, 0, 7, -7, 1, -1])).clamp(LO, HI);
            let t3 = (t1 + *rng.pick(&[0i128, 20_000_000_000, -20_000_000_000, 1, -1, 1_799_000_000_000, -1_799_000_000_000, 43_200_000_000_000, -1_000_000])).rem_euclid(DAY);
            let c = dt_str(d3, t3);
            let (su, max): (&str, i128) = *rng.pick(&[("day", 1), ("hour", 24), ("minute", 60), ("second", 60), ("millisecond", 1000)]);
            let divs: Vec<i128> = (1..=max).filter(|d| max % d == 0 && (*d < max || max == 1)).collect();
            let inc = *rng.pick(&divs);
            let lu = *rng.pick(&["year", "month", "week", "day", "-"]);
            v.push(format!("{op} {a} {c} {lu} {su} {inc} {}", rng.pick(&MOPT)));
            v.push(format!("{op} {c} {a} {lu} {su} {inc} {}", rng.pick(&MOPT)));
        }
        // rounding
        let (u, max): (&str, i128) = *rng.pick(&[("day", 1), ("hour", 24), ("minute", 60), ("second", 60), ("millisecond", 1000), ("microsecond", 1000), ("nanosecond", 1000), ("week", 1), ("auto", 1)]);
        let inc = if rng.chance(1, 8) { rng.range(1, max + 3) } else {
            let divs: Vec<i128> = (1..=max).filter(|d| max % d == 0 && (*d < max || max == 1)).collect();
            *rng.pick(&divs)
        };
        // time of day on / next to a tie of the increment, or within one increment of midnight
        let len: i128 = match u { "day" => DAY, "hour" => 3_600_000_000_000, "minute" => 60_000_000_000, "second" => 1_000_000_000, "millisecond" => 1_000_000, "microsecond" => 1_000, _ => 1 };
        let q = len * inc;
        let kq = rng.range(0, (DAY / q).max(1));
        let tr = match rng.below(6) { 0 => kq * q + q / 2, 1 => kq * q + q / 2 + 1, 2 => kq * q + (q + 1) / 2 - 1, 3 => DAY - 1 - rng.range(0, q.min(DAY - 1)), 4 => kq * q, _ => rng.range(0, DAY - 1) }.rem_euclid(DAY);
        v.push(format!("pdt_round {} {u} {inc} {}", dt_str(d1, tr), rng.pick(&MOPT)));
    }
    v
}
