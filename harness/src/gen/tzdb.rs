//! C15: the bundled file-system provider (`FsTzdbProvider`) against the TZif data it reads.
//!
//! The TZif files are read here by an independent, minimal reader (RFC 8536: version-2+ data block and footer);
//! `harness zones` dumps, per zone, the time types, the transition table and the footer text. The Lean model
//! interprets that table (and parses / evaluates the POSIX rule footer) and is compared with the provider.
//!
//!   tzdb_off <zone> <epoch seconds>            provider.get_named_tz_offset_nanoseconds → offset seconds
//!   tzdb_loc <zone> <y m d h mi s>             provider.get_named_tz_epoch_nanoseconds → instants (epoch seconds)
//!   tzdb_id  <hex name>                        provider.check_identifier
//!   tzdb_ord <zone> <zone2> <t>                the same query before/after other queries and on a fresh provider
//!   tzdb_offns <zone> <seconds> <sub ns>       the offset at an instant with a sub-second part (floor to its second)
//!   tzdb_case <hex name> <t>                   a re-cased spelling of a zone name on a cold provider and on one that
//!                                              has already served the canonical spelling: the same answer (`ok same`)
//!   tzdb_hist <seed> <n>                       one provider answers queries for n distinct zones, then for each again:
//!                                              every answer must be the one a fresh provider gives (`ok same`)
use crate::common::*;
use std::io::Write;
use temporal_rs::iso::{IsoDateTime, IsoTime};
use temporal_rs::provider::TimeZoneProvider;
use temporal_rs::tzdb::FsTzdbProvider;

pub struct RawZone {
    pub name: String,
    /// (utoff, isdst) per local time type
    pub types: Vec<(i64, bool)>,
    /// (transition time, type index)
    pub trans: Vec<(i64, usize)>,
    pub footer: String,
}

fn be32(b: &[u8]) -> i64 {
    i32::from_be_bytes([b[0], b[1], b[2], b[3]]) as i64
}
fn be64(b: &[u8]) -> i64 {
    i64::from_be_bytes([b[0], b[1], b[2], b[3], b[4], b[5], b[6], b[7]])
}
fn ube32(b: &[u8]) -> usize {
    u32::from_be_bytes([b[0], b[1], b[2], b[3]]) as usize
}

/// RFC 8536 reader: skips the version-1 block, reads the 64-bit block and the footer.
pub fn read_tzif(name: &str) -> Option<RawZone> {
    let data = std::fs::read(format!("/usr/share/zoneinfo/{name}")).ok()?;
    if data.len() < 44 || &data[0..4] != b"TZif" || data[4] < b'2' {
        return None;
    }
    let hdr = |o: usize| -> (usize, usize, usize, usize, usize, usize) {
        (ube32(&data[o + 20..]), ube32(&data[o + 24..]), ube32(&data[o + 28..]), ube32(&data[o + 32..]), ube32(&data[o + 36..]), ube32(&data[o + 40..]))
    };
    let (isutc, isstd, leap, timecnt, typecnt, charcnt) = hdr(0);
    let v1len = timecnt * 4 + timecnt + typecnt * 6 + charcnt + leap * 8 + isstd + isutc;
    let o2 = 44 + v1len;
    if &data[o2..o2 + 4] != b"TZif" {
        return None;
    }
    let (isutc, isstd, leap, timecnt, typecnt, charcnt) = hdr(o2);
    let mut p = o2 + 44;
    let times: Vec<i64> = (0..timecnt).map(|k| be64(&data[p + 8 * k..])).collect();
    p += 8 * timecnt;
    let idx: Vec<usize> = (0..timecnt).map(|k| data[p + k] as usize).collect();
    p += timecnt;
    let types: Vec<(i64, bool)> = (0..typecnt).map(|k| (be32(&data[p + 6 * k..]), data[p + 6 * k + 4] != 0)).collect();
    p += 6 * typecnt + charcnt + leap * 12 + isstd + isutc;
    let footer = if p < data.len() && data[p] == b'\n' {
        let rest = &data[p + 1..];
        let end = rest.iter().position(|&c| c == b'\n').unwrap_or(rest.len());
        String::from_utf8_lossy(&rest[..end]).to_string()
    } else {
        String::new()
    };
    Some(RawZone { name: name.to_string(), types, trans: times.into_iter().zip(idx).collect(), footer })
}

/// `harness zones`: one line per zone — name, footer (or `-`), types `off:dst,…`, transitions `t:idx,…`.
pub fn dump_zones(out: &mut impl Write) {
    for name in super::c03::zone_ids() {
        if let Some(z) = read_tzif(&name) {
            let types = z.types.iter().map(|(o, d)| format!("{o}:{}", *d as u8)).collect::<Vec<_>>().join(",");
            let trans = z.trans.iter().map(|(t, i)| format!("{t}:{i}")).collect::<Vec<_>>().join(",");
            writeln!(out, "{name}\t{}\t{types}\t{}", if z.footer.is_empty() { "-" } else { &z.footer }, if trans.is_empty() { "-" } else { &trans }).unwrap();
        }
    }
}

fn ymdhms(t: i64) -> String {
    let days = t.div_euclid(86400);
    let s = t.rem_euclid(86400);
    let (y, m, d) = temporal_rs::verif_hooks::ymd_from_epoch_milliseconds(days * 86_400_000);
    format!("{y} {m} {d} {} {} {}", s / 3600, s / 60 % 60, s % 60)
}

pub fn generate(rng: &mut Rng, thorough: bool) -> Vec<String> {
    let mut v = Vec::new();
    let zones = super::c03::zone_ids();
    let per = if thorough { 1 } else { 5 };
    let pick0 = (rng.next() % per as u64) as usize;
    let mut seen_footers: std::collections::HashSet<String> = std::collections::HashSet::new();
    for (k, name) in zones.iter().enumerate() {
        let Some(z) = read_tzif(name) else { continue };
        // every distinct rule footer (a few dozen among all zones), on its first zone: the rule's date depends on the
        // year only through its leap-ness and the weekday of January 1st - the 28 years 2038..2065 realise all fourteen
        // combinations - so each day of the rule's months in each of these years is probed (at noon and at midnight UTC)
        if z.footer.contains(",M") && seen_footers.insert(z.footer.clone()) {
            // ... and each of its transitions in each of these years is located to the second on the provider itself
            // (daily samples, then bisection) and probed together with its neighbours
            {
                let prov = FsTzdbProvider::default();
                let off = |t: i64| prov.get_named_tz_offset_nanoseconds(name, t as i128 * 1_000_000_000).map(|o| o.offset).unwrap_or(i64::MIN);
                // (plus century years: the leap rule's exceptions, with different weekdays of January 1st)
                for y in (2038i64..=2065).chain([2100, 2200, 2300, 2400, 2500, 2700, 2800, 3000]) {
                    if !thorough && y < 2100 && (y + k as i64) % 4 != 0 { continue; }
                    let jan1 = temporal_rs::verif_hooks::epoch_days_from_gregorian_date(y as i32, 1, 1) as i64 * 86400;
                    let mut prev = off(jan1);
                    for d in 1..=366i64 {
                        let t = jan1 + d * 86400;
                        let cur = off(t);
                        if cur != prev {
                            let (mut lo, mut hi) = (t - 86400, t);
                            while hi - lo > 1 {
                                let mid = lo + (hi - lo) / 2;
                                if off(mid) == prev { lo = mid } else { hi = mid }
                            }
                            for dd in [-1i64, 0, 3600, -3600] {
                                v.push(format!("tzdb_off {name} {}", hi + dd));
                            }
                        }
                        prev = cur;
                    }
                }
            }
            let months: Vec<i64> = z.footer.split(",M").skip(1).filter_map(|r| r.split('.').next()?.parse().ok()).collect();
            for y in (2038i64..=2065).chain([2100, 2200, 2300, 2400, 2500, 2700, 2800, 3000]) {
                for m in &months {
                    let first = temporal_rs::verif_hooks::epoch_days_from_gregorian_date(y as i32, *m as u8, 1) as i64;
                    // (the day before the month and the first days of the next one too)
                    for d in -1..=33i64 {
                        v.push(format!("tzdb_off {name} {}", (first + d) * 86400 + 43200));
                        if thorough || (d + y) % 3 == 0 {
                            v.push(format!("tzdb_off {name} {}", (first + d) * 86400));
                        }
                    }
                }
            }
        }
        let important = ["America/New_York", "Europe/London", "Australia/Lord_Howe", "Pacific/Apia", "Africa/Monrovia", "Asia/Dubai", "America/Sao_Paulo", "Europe/Dublin", "Africa/Casablanca", "Asia/Tehran", "UTC", "Antarctica/Troll", "America/Godthab", "Asia/Gaza"];
        if k % per != pick0 && !important.contains(&name.as_str()) {
            continue;
        }
        let mut instants: Vec<i64> = Vec::new();
        // every listed transition: the second itself, its neighbours, and the local images
        let sample: Vec<&(i64, usize)> = if thorough || z.trans.len() <= 40 { z.trans.iter().collect() } else { (0..40).map(|_| rng.pick(&z.trans)).collect() };
        for (t, _) in sample {
            for d in [-86400i64, -3601, -1, 0, 1, 3599, 3600, 86400] {
                instants.push(t + d);
            }
        }
        // before the first transition, between, beyond the table (rule footer): years 1 .. 9999
        for _ in 0..(if thorough { 60 } else { 12 }) {
            instants.push(rng.range(-62_135_596_800, 253_402_300_799) as i64);
            instants.push(rng.range(2_145_916_800, 4_102_444_800) as i64); // 2038 .. 2100
            instants.push(rng.range(-5_000_000_000, 2_145_916_800) as i64);
        }
        // rule-based transitions after the table: every hour of the last Sundays etc. is too much; sample days
        // around the nominal March/April/September/October/November change dates of some future years
        for y in [2038i64, 2040, 2050, 2087, 2100, 2400, 9998] {
            let jan1 = temporal_rs::verif_hooks::epoch_days_from_gregorian_date(y as i32, 1, 1) as i64 * 86400;
            for _ in 0..(if thorough { 12 } else { 3 }) {
                let doy = *rng.pick(&[60i64, 67, 74, 81, 88, 95, 270, 277, 284, 291, 298, 305, 312]) + rng.range(-3, 3) as i64;
                instants.push(jan1 + doy * 86400 + rng.range(0, 86399) as i64);
            }
        }
        // the footer's rule transitions beyond the table, located on the provider itself: sample the offset daily
        // over a year and bisect every change down to the second; probe that second and its neighbours
        if z.footer.contains(',') {
            let prov = FsTzdbProvider::default();
            let off = |t: i64| prov.get_named_tz_offset_nanoseconds(name, t as i128 * 1_000_000_000).map(|o| o.offset).unwrap_or(i64::MIN);
            let years: Vec<i64> = if thorough { vec![2038, 2040, 2087, 2100, 2400, 9000] } else { vec![*rng.pick(&[2039i64, 2040, 2050, 2087]), *rng.pick(&[2100i64, 2400, 5000])] };
            for y in years {
                let jan1 = temporal_rs::verif_hooks::epoch_days_from_gregorian_date(y as i32, 1, 1) as i64 * 86400;
                let mut prev = off(jan1);
                for d in 1..=366i64 {
                    let t = jan1 + d * 86400;
                    let cur = off(t);
                    if cur != prev {
                        let (mut lo, mut hi) = (t - 86400, t); // off(lo) = prev, off(hi) = cur
                        while hi - lo > 1 {
                            let mid = lo + (hi - lo) / 2;
                            if off(mid) == prev { lo = mid } else { hi = mid }
                        }
                        for dd in [-2i64, -1, 0, 1] {
                            instants.push(hi + dd);
                        }
                    }
                    prev = cur;
                }
            }
        }
        for t in &instants {
            v.push(format!("tzdb_off {name} {t}"));
        }
        // sub-second instants next to transitions (also before 1970, where truncation and floor differ)
        for (t, _) in z.trans.iter().rev().take(3).chain(z.trans.iter().take(3)) {
            for (sec, sub) in [(t - 1, 999_999_999i64), (t - 1, 1), (*t, 0), (*t, 1), (t - 1, 500_000_000)] {
                v.push(format!("tzdb_offns {name} {sec} {sub}"));
            }
        }
        if let Some((t, _)) = z.trans.iter().find(|(t, _)| *t < 0 && *t > -3_000_000_000) {
            v.push(format!("tzdb_offns {name} {} 999999999", t - 1));
            v.push(format!("tzdb_offns {name} {} 250000000", t - 1));
        }
        // ZonedDateTime / Instant strings and wall-clock fields through the provider (sub-second instants too)
        for t in instants.iter().step_by(5) {
            let sub = match rng.below(3) { 0 => 0, 1 => 999_999_999, _ => rng.range(0, 999_999_999) };
            v.push(format!("tzdb_zstr {name} {}", *t as i128 * 1_000_000_000 + sub));
            if rng.chance(1, 2) { v.push(format!("tzdb_istr {name} {}", *t as i128 * 1_000_000_000 + sub)); }
        }
        // local readings with a sub-second part in the last and first second around transitions, under both
        // neighbouring offsets (also before 1970, where flooring and truncating an instant to its second differ)
        {
            let n = z.trans.len();
            let idx: Vec<usize> = (0..n.min(4)).chain(n.saturating_sub(3)..n).chain((0..n).filter(|k| z.trans[*k].0 < 0).rev().take(3)).collect();
            for k in idx {
                let (t, ti) = z.trans[k];
                let cur = z.types.get(ti).map(|x| x.0).unwrap_or(0);
                let prev = if k == 0 { z.types.first().map(|x| x.0).unwrap_or(0) } else { z.types.get(z.trans[k - 1].1).map(|x| x.0).unwrap_or(0) };
                for off in [prev, cur] {
                    for (dt, sub) in [(-1i64, "500 0 0"), (-1, "999 999 999"), (0, "0 0 1"), (0, "500 0 0"), (-3600, "250 0 0")] {
                        v.push(format!("tzdb_locns {name} {} {sub}", ymdhms(t + dt + off)));
                    }
                }
            }
        }
        // local date-times: images of the sampled instants under the neighbouring offsets
        for t in instants.iter().step_by(3) {
            let off = z.types.get(rng.below(z.types.len() as u64) as usize).map(|x| x.0).unwrap_or(0);
            v.push(format!("tzdb_loc {name} {}", ymdhms(t + off)));
        }
        // query-order independence
        let other = rng.pick(&zones);
        v.push(format!("tzdb_ord {name} {other} {}", rng.pick(&instants)));
    }
    // re-cased identifiers, cold vs warm
    for _ in 0..(if thorough { 200 } else { 30 }) {
        let name = rng.pick(&zones);
        let mangled: String = match rng.below(3) {
            0 => name.to_ascii_lowercase(),
            1 => name.to_ascii_uppercase(),
            _ => name.chars().map(|c| if rng.chance(1, 2) { c.to_ascii_uppercase() } else { c.to_ascii_lowercase() }).collect(),
        };
        v.push(format!("tzdb_case {} {} {}", super::c03::hex(name.as_bytes()), super::c03::hex(mangled.as_bytes()), rng.range(-2_000_000_000, 4_000_000_000)));
    }
    // long histories over many distinct zones on one provider
    for _ in 0..(if thorough { 12 } else { 3 }) {
        v.push(format!("tzdb_hist {} {}", rng.next() % 1_000_000, *rng.pick(&[40u32, 70, 100, 130])));
    }
    // identifiers: every name, case-mangled variants, non-names
    for name in &zones {
        v.push(format!("tzdb_id {}", super::c03::hex(name.as_bytes())));
        if rng.chance(1, 3) {
            let mangled: String = name.chars().map(|c| if rng.chance(1, 2) { c.to_ascii_uppercase() } else { c.to_ascii_lowercase() }).collect();
            v.push(format!("tzdb_id {}", super::c03::hex(mangled.as_bytes())));
        }
    }
    for bad in ["", "Nowhere/City", "America", "America/", "America/New_York/", "+01:00", "UTC+1", "Etc/GMT+13", "Europe/Londonn", "posix/Europe/London", "../zoneinfo/UTC", "zone.tab", "tzdata.zi", "leapseconds"] {
        v.push(format!("tzdb_id {}", super::c03::hex(bad.as_bytes())));
    }
    v
}

fn iso(t: &[&str]) -> IsoDateTime {
    let date = temporal_rs::verif_hooks::iso_date_balance(i(t[0]) as i32, i(t[1]) as i32, i(t[2]) as i32);
    let time = IsoTime::new(i(t[3]) as u8, i(t[4]) as u8, i(t[5]) as u8, 0, 0, 0, temporal_rs::options::ArithmeticOverflow::Constrain).unwrap();
    IsoDateTime::new(date, time).unwrap()
}

/// A slice of the real zones for the properties that are about wall-clock <-> instant conversion on any rule set
/// (C13): local readings, offsets and zoned strings of forty well-known zones, the era before the first transition
/// included.
pub fn generate_slice(rng: &mut Rng, thorough: bool) -> Vec<String> {
    const ZONES: [&str; 40] = [
        "America/New_York", "America/Los_Angeles", "America/Chicago", "America/Sao_Paulo", "America/St_Johns", "America/Havana",
        "America/Caracas", "America/Toronto", "America/Mexico_City", "America/Argentina/Buenos_Aires", "Europe/London", "Europe/Berlin",
        "Europe/Dublin", "Europe/Moscow", "Europe/Lisbon", "Europe/Istanbul", "Europe/Paris", "Africa/Cairo", "Africa/Casablanca",
        "Africa/Monrovia", "Africa/Johannesburg", "Asia/Tokyo", "Asia/Kolkata", "Asia/Kathmandu", "Asia/Tehran", "Asia/Dubai",
        "Asia/Shanghai", "Asia/Seoul", "Asia/Jerusalem", "Asia/Gaza", "Australia/Sydney", "Australia/Lord_Howe", "Australia/Adelaide",
        "Pacific/Auckland", "Pacific/Apia", "Pacific/Kiritimati", "Pacific/Chatham", "Antarctica/Troll", "Atlantic/Azores", "UTC",
    ];
    let all = generate(rng, false);
    let cap = if thorough { 60_000 } else { 12_000 };
    let mut v: Vec<String> = all
        .into_iter()
        .filter(|l| {
            let mut it = l.split(' ');
            let op = it.next().unwrap_or("");
            let zone = it.next().unwrap_or("");
            matches!(op, "tzdb_loc" | "tzdb_locns" | "tzdb_off" | "tzdb_zstr" | "tzdb_istr" | "tzdb_offns") && ZONES.contains(&zone)
        })
        .collect();
    // keep every local-reading and string line, thin the offset lines down to the cap
    let keep_all = v.iter().filter(|l| !l.starts_with("tzdb_off ")).count();
    if v.len() > cap {
        let offs = v.iter().filter(|l| l.starts_with("tzdb_off ")).count();
        let room = cap.saturating_sub(keep_all).max(1000);
        let step = (offs / room).max(1);
        let mut k = 0usize;
        v.retain(|l| { if l.starts_with("tzdb_off ") { k += 1; k % step == 0 } else { true } });
    }
    v
}

pub fn eval(t: &[&str]) -> Option<String> {
    match t[0] {
        "tzdb_off" => {
            let p = FsTzdbProvider::default();
            let r = p.get_named_tz_offset_nanoseconds(t[1], i(t[2]) * 1_000_000_000);
            Some(render(r, |o| o.offset.to_string()))
        }
        "tzdb_loc" => {
            let p = FsTzdbProvider::default();
            let r = p.get_named_tz_epoch_nanoseconds(t[1], iso(&t[2..8]));
            Some(render(r, |v| {
                let mut xs: Vec<i128> = v.iter().map(|e| e.as_i128().div_euclid(1_000_000_000)).collect();
                xs.sort();
                if xs.is_empty() { "-".to_string() } else { xs.iter().map(|x| x.to_string()).collect::<Vec<_>>().join(" ") }
            }))
        }
        "tzdb_locns" => {
            // a local reading with a sub-second part (ms us ns): the instants in nanoseconds
            let p = FsTzdbProvider::default();
            let date = temporal_rs::verif_hooks::iso_date_balance(i(t[2]) as i32, i(t[3]) as i32, i(t[4]) as i32);
            let time = IsoTime::new(i(t[5]) as u8, i(t[6]) as u8, i(t[7]) as u8, i(t[8]) as u16, i(t[9]) as u16, i(t[10]) as u16, temporal_rs::options::ArithmeticOverflow::Constrain).unwrap();
            let r = p.get_named_tz_epoch_nanoseconds(t[1], IsoDateTime::new(date, time).unwrap());
            Some(render(r, |v| {
                let mut xs: Vec<i128> = v.iter().map(|e| e.as_i128()).collect();
                xs.sort();
                if xs.is_empty() { "-".to_string() } else { xs.iter().map(|x| x.to_string()).collect::<Vec<_>>().join(" ") }
            }))
        }
        "tzdb_id" => {
            let p = FsTzdbProvider::default();
            let bytes = super::c03::unhex(t[1]);
            let s = String::from_utf8_lossy(&bytes).to_string();
            Some(format!("ok {}", p.check_identifier(&s) as u8))
        }
        "tzdb_zstr" => {
            // the string and the wall-clock fields of a ZonedDateTime in a named zone, through FsTzdbProvider
            let p = FsTzdbProvider::default();
            let r = temporal_rs::TimeZone::try_from_str(t[1]).and_then(|tz| temporal_rs::ZonedDateTime::try_new(i(t[2]), temporal_rs::Calendar::default(), tz)).and_then(|z| {
                Ok(format!("{} | {} {} {} {} {} {} {}", z.to_string_with_provider(&p)?, z.year_with_provider(&p)?, z.month_with_provider(&p)?, z.day_with_provider(&p)?,
                    z.hour_with_provider(&p)?, z.minute_with_provider(&p)?, z.second_with_provider(&p)?, z.offset_nanoseconds_with_provider(&p)?))
            });
            Some(render(r, |s| s))
        }
        "tzdb_istr" => {
            let p = FsTzdbProvider::default();
            let r = temporal_rs::TimeZone::try_from_str(t[1]).and_then(|tz| temporal_rs::Instant::try_new(i(t[2])).and_then(|x| x.to_ixdtf_string_with_provider(Some(&tz), Default::default(), &p)));
            Some(render(r, |s| s))
        }
        "tzdb_offns" => {
            let p = FsTzdbProvider::default();
            let r = p.get_named_tz_offset_nanoseconds(t[1], i(t[2]) * 1_000_000_000 + i(t[3]));
            Some(render(r, |o| o.offset.to_string()))
        }
        "tzdb_case" => {
            let name = String::from_utf8_lossy(&super::c03::unhex(t[1])).to_string();
            let other = String::from_utf8_lossy(&super::c03::unhex(t[2])).to_string();
            let ns = i(t[3]) * 1_000_000_000;
            let show = |r: Result<temporal_rs::provider::TimeZoneOffset, temporal_rs::TemporalError>| match r { Ok(o) => o.offset.to_string(), Err(e) => format!("err {}", err_kind(&e)) };
            let cold = show(FsTzdbProvider::default().get_named_tz_offset_nanoseconds(&other, ns));
            let warm_p = FsTzdbProvider::default();
            let _ = warm_p.get_named_tz_offset_nanoseconds(&name, ns);
            let warm = show(warm_p.get_named_tz_offset_nanoseconds(&other, ns));
            // and the other order: the re-cased spelling first must not change what the canonical one gets
            let p2 = FsTzdbProvider::default();
            let _ = p2.get_named_tz_offset_nanoseconds(&other, ns);
            let canon_after = show(p2.get_named_tz_offset_nanoseconds(&name, ns));
            let canon_cold = show(FsTzdbProvider::default().get_named_tz_offset_nanoseconds(&name, ns));
            Some(if cold == warm && canon_after == canon_cold { "ok same".into() } else { format!("ok differ cold {cold} warm {warm} | canonical cold {canon_cold} after {canon_after}") })
        }
        "tzdb_hist" => {
            let mut rng = Rng::new(i(t[1]) as u64);
            let all = super::c03::zone_ids();
            let n = (i(t[2]) as usize).min(all.len());
            // n distinct zones
            let mut names: Vec<String> = Vec::new();
            while names.len() < n {
                let c = rng.pick(&all).clone();
                if !names.contains(&c) { names.push(c); }
            }
            let at = |k: usize| (k as i128 * 37_000_000 - 1_000_000_000) * 1_000_000_000;
            let warm = FsTzdbProvider::default();
            let first: Vec<_> = names.iter().enumerate().map(|(k, z)| warm.get_named_tz_offset_nanoseconds(z, at(k)).map(|o| o.offset).ok()).collect();
            let mut bad = None;
            for (k, z) in names.iter().enumerate() {
                let again = warm.get_named_tz_offset_nanoseconds(z, at(k)).map(|o| o.offset).ok();
                let fresh = FsTzdbProvider::default().get_named_tz_offset_nanoseconds(z, at(k)).map(|o| o.offset).ok();
                if (again != fresh || first[k] != fresh) && bad.is_none() {
                    bad = Some(format!("{z}: first {:?} again {:?} fresh {:?}", first[k], again, fresh));
                }
            }
            Some(match bad { None => "ok same".into(), Some(b) => format!("ok differ {b}") })
        }
        "tzdb_ord" => {
            // the answer of a warm provider (other zones and instants queried first) equals a fresh provider's
            let ns = i(t[3]) * 1_000_000_000;
            let fresh = FsTzdbProvider::default().get_named_tz_offset_nanoseconds(t[1], ns).map(|o| o.offset);
            let warm = FsTzdbProvider::default();
            let _ = warm.get_named_tz_offset_nanoseconds(t[2], 0);
            let _ = warm.get_named_tz_offset_nanoseconds(t[1], -ns);
            let _ = warm.get_named_tz_epoch_nanoseconds(t[2], iso(&["2020", "3", "29", "2", "30", "0"]));
            let _ = warm.get_named_tz_offset_nanoseconds(t[1], 4_000_000_000_000_000_000);
            let a = warm.get_named_tz_offset_nanoseconds(t[1], ns).map(|o| o.offset);
            let b = warm.get_named_tz_offset_nanoseconds(t[1], ns).map(|o| o.offset);
            let same = match (&fresh, &a, &b) {
                (Ok(x), Ok(y), Ok(z)) => x == y && y == z,
                (Err(_), Err(_), Err(_)) => true,
                _ => false,
            };
            Some(format!("ok {}", same as u8))
        }
        _ => None,
    }
}
