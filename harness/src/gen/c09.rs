//! C09 (durations without reference date) and C06 (PlainTime / Instant arithmetic).
use crate::common::*;
use crate::gen::c10::{diff_settings, round_options};
use temporal_rs::tzdb::FsTzdbProvider;
use temporal_rs::{Instant, PlainTime};

fn time(t: &[&str]) -> Result<PlainTime, temporal_rs::TemporalError> {
    PlainTime::try_new(i(t[0]) as u8, i(t[1]) as u8, i(t[2]) as u8, i(t[3]) as u16, i(t[4]) as u16, i(t[5]) as u16)
}

pub fn eval(t: &[&str]) -> Option<String> {
    let p = FsTzdbProvider::default();
    Some(match t[0] {
        "du_new" => render(duration_from(&t[1..11]), |d| fmt_duration(&d)),
        "du_neg" => render(duration_from(&t[1..11]), |d| fmt_duration(&d.negated())),
        "du_abs" => render(duration_from(&t[1..11]), |d| fmt_duration(&d.abs())),
        "du_sign" => render(duration_from(&t[1..11]), |d| (d.sign() as i8).to_string()),
        "du_add" => render(
            duration_from(&t[1..11]).and_then(|a| a.add(&duration_from(&t[11..21])?)),
            |d| fmt_duration(&d),
        ),
        "du_sub" => render(
            duration_from(&t[1..11]).and_then(|a| a.subtract(&duration_from(&t[11..21])?)),
            |d| fmt_duration(&d),
        ),
        "du_cmp" => render(
            duration_from(&t[1..11]).and_then(|a| a.compare_with_provider(&duration_from(&t[11..21])?, None, &p)),
            |o| (o as i8).to_string(),
        ),
        "du_round" => render(
            duration_from(&t[1..11]).and_then(|a| a.round_with_provider(round_options(t[11], t[12], t[13], t[14])?, None, &p)),
            |d| fmt_duration(&d),
        ),
        "du_total" => render(
            duration_from(&t[1..11]).and_then(|a| a.total_with_provider(unit(t[11]), None, &p)),
            |x| fmt_f64(x.as_inner()),
        ),
        "pt_add" => render(time(&t[1..7]).and_then(|x| x.add(&duration_from(&t[7..17])?)), |v| crate::ops::fmt_time(&v)),
        "pt_sub" => render(time(&t[1..7]).and_then(|x| x.subtract(&duration_from(&t[7..17])?)), |v| crate::ops::fmt_time(&v)),
        "pt_until" | "pt_since" => render(
            time(&t[1..7]).and_then(|a| {
                let b = time(&t[7..13])?;
                let s = diff_settings(t[13], t[14], t[15], t[16])?;
                if t[0] == "pt_until" { a.until(&b, s) } else { a.since(&b, s) }
            }),
            |d| fmt_duration(&d),
        ),
        "in_add" => render(Instant::try_new(i(t[1])).and_then(|x| x.add(duration_from(&t[2..12])?)), |v| v.as_i128().to_string()),
        "in_sub" => render(Instant::try_new(i(t[1])).and_then(|x| x.subtract(duration_from(&t[2..12])?)), |v| v.as_i128().to_string()),
        "in_until" | "in_since" => render(
            Instant::try_new(i(t[1])).and_then(|a| {
                let b = Instant::try_new(i(t[2]))?;
                let s = diff_settings(t[3], t[4], t[5], t[6])?;
                if t[0] == "in_until" { a.until(&b, s) } else { a.since(&b, s) }
            }),
            |d| fmt_duration(&d),
        ),
        "in_ms" => render(Instant::try_new(i(t[1])), |x| x.epoch_milliseconds().to_string()),
        "in_from_ms" => render(Instant::from_epoch_milliseconds(i(t[1]) as i64), |x| x.as_i128().to_string()),
        _ => return None,
    })
}

const P32: i128 = 1 << 32;
const P53: i128 = 1 << 53;
const MAXNS: i128 = (1i128 << 53) * 1_000_000_000;
const UNIT_NS: [i128; 7] = [86_400_000_000_000, 3_600_000_000_000, 60_000_000_000, 1_000_000_000, 1_000_000, 1_000, 1];

fn field_pool(rng: &mut Rng, idx: usize) -> i128 {
    // idx 0..2 = years/months/weeks; 3..9 = days..nanoseconds
    let v = if idx < 3 {
        match rng.below(10) {
            0 => 0, 1 => 1, 2 => rng.range(1, 100), 3 => P32 - 1, 4 => P32, 5 => (1 << 31) - 1, 6 => 1 << 31,
            7 => P32 - 2, 8 => rng.range(0, P32 + 5), _ => 0,
        }
    } else {
        let u = UNIT_NS[idx - 3];
        let maxf = MAXNS / u;
        match rng.below(12) {
            0 | 1 | 2 => 0,
            3 => 1,
            4 => rng.range(1, 1000),
            5 => maxf - 1,
            6 => maxf,
            7 => maxf + 1,
            8 => rng.range(0, maxf),
            9 => rng.range(0, 100_000),
            10 => maxf / 2 + rng.range(0, 3),
            _ => if u == 1 { rng.range(0, 10).pow(0) * 999 } else { rng.range(0, 2000) },
        }
    };
    f64_int(v)
}

const UNAMES: [&str; 10] = ["year", "month", "week", "day", "hour", "minute", "second", "millisecond", "microsecond", "nanosecond"];

fn dur_fields(rng: &mut Rng, valid_bias: bool, time_only: bool) -> Vec<i128> {
    let mut f = vec![0i128; 10];
    let sign = if rng.chance(1, 2) { 1 } else { -1 };
    let nfields = rng.range(1, 4);
    for _ in 0..nfields {
        let idx = if time_only { rng.range(3, 9) as usize } else { rng.range(0, 9) as usize };
        f[idx] = field_pool(rng, idx) * sign;
    }
    if !valid_bias && rng.chance(1, 6) {
        let idx = rng.range(0, 9) as usize;
        f[idx] = -f[idx] - sign; // mixed signs
    }
    if valid_bias {
        // shrink so that the total stays (mostly) inside the limit
        let tot: i128 = (3..10).map(|k| f[k].abs().saturating_mul(UNIT_NS[k - 3])).fold(0i128, |a, b| a.saturating_add(b));
        if tot >= MAXNS && rng.chance(3, 4) {
            for k in 3..10 { f[k] = f64_int(f[k] / 8); }
        }
    }
    f
}

fn small_time_dur(rng: &mut Rng) -> Vec<i128> {
    let mut f = vec![0i128; 10];
    let sign = if rng.chance(1, 2) { 1 } else { -1 };
    for k in 3..10 {
        if rng.chance(1, 2) {
            f[k] = sign * match rng.below(5) { 0 => rng.range(0, 30), 1 => rng.range(0, 70), 2 => rng.range(0, 2000), 3 => rng.range(0, 100_000), _ => 0 };
        }
    }
    f
}

fn join(f: &[i128]) -> String {
    f.iter().map(|x| f64_int(*x).to_string()).collect::<Vec<_>>().join(" ")
}

const UOPT: [&str; 12] = ["-", "auto", "nanosecond", "microsecond", "millisecond", "second", "minute", "hour", "day", "week", "month", "year"];
const TIMEU: [&str; 6] = ["nanosecond", "microsecond", "millisecond", "second", "minute", "hour"];
const MOPT: [&str; 10] = ["-", "ceil", "floor", "expand", "trunc", "halfCeil", "halfFloor", "halfExpand", "halfTrunc", "halfEven"];

fn admissible_inc(rng: &mut Rng, unit: &str) -> i128 {
    let max = match unit { "hour" => 24, "minute" | "second" => 60, "millisecond" | "microsecond" | "nanosecond" => 1000, _ => 0 };
    if max == 0 { return *rng.pick(&[1i128, 1, 2, 5, 7, 10]); }
    if rng.chance(1, 8) { return rng.range(1, max + 5); }
    let divs: Vec<i128> = (1..max).filter(|d| max % d == 0).collect();
    *rng.pick(&divs)
}

pub fn generate_c09(rng: &mut Rng, thorough: bool) -> Vec<String> {
    let mut v = Vec::new();
    // the longest durations: a total of exactly +-(2^53 s - 1 ns), one nanosecond less, written with different
    // fields - every operation must treat them like any other valid duration
    {
        let lim: i128 = 9_007_199_254_740_991;
        let shapes: Vec<[i128; 10]> = vec![
            [0, 0, 0, 0, 0, 0, lim, 0, 0, 999_999_999],
            [0, 0, 0, 0, 0, 0, lim, 999, 999, 999],
            [0, 0, 0, 0, 0, 0, lim, 0, 0, 999_999_998],
            [0, 0, 0, 104_249_991_374, 7, 36, 31, 999, 999, 999],
            [0, 0, 0, 0, 2_501_999_792_983, 36, 31, 0, 0, 999_999_999],
            [0, 0, 0, 0, 0, 0, lim - 1, 999, 999, 1999],
        ];
        for sh in &shapes {
            for sign in [1i128, -1] {
                let f: Vec<i128> = sh.iter().map(|x| x * sign).collect();
                let d = join(&f);
                v.push(format!("du_new {d}"));
                v.push(format!("du_neg {d}"));
                v.push(format!("du_abs {d}"));
                v.push(format!("du_sign {d}"));
                for u in ["nanosecond", "microsecond", "millisecond", "second", "minute", "hour", "day"] {
                    v.push(format!("du_total {d} {u}"));
                }
                v.push(format!("du_cmp {d} 0 0 0 0 0 0 0 0 0 0"));
                v.push(format!("du_cmp 0 0 0 0 0 0 1 0 0 0 {d}"));
                v.push(format!("du_cmp {d} {}", join(&shapes[2].iter().map(|x| x * sign).collect::<Vec<_>>())));
                v.push(format!("du_add {d} 0 0 0 0 0 0 0 0 0 0"));
                v.push(format!("du_sub {d} 0 0 0 0 0 0 0 0 0 0"));
                v.push(format!("du_add {d} 0 0 0 0 0 0 0 0 0 {}", -sign));
                v.push(format!("du_add {d} 0 0 0 0 0 0 0 0 0 {}", sign));
                for (l, sm, inc, m) in [("-", "-", "-", "-"), ("auto", "nanosecond", "1", "trunc"), ("second", "-", "-", "-"), ("day", "nanosecond", "1", "halfExpand"), ("hour", "-", "-", "trunc"), ("-", "second", "1", "trunc"), ("-", "second", "1", "floor"), ("-", "second", "1", "ceil")] {
                    v.push(format!("du_round {d} {l} {sm} {inc} {m}"));
                }
            }
        }
    }
    let n = if thorough { 400_000 } else { 40_000 };
    for k in 0..n {
        let a = dur_fields(rng, k % 3 != 0, false);
        v.push(format!("du_new {}", join(&a)));
        if k % 4 == 0 {
            v.push(format!("du_neg {}", join(&a)));
            v.push(format!("du_abs {}", join(&a)));
            v.push(format!("du_sign {}", join(&a)));
        }
    }
    // exact boundary cells of every limit
    for idx in 0..10 {
        for sign in [1i128, -1] {
            let lim = if idx < 3 { P32 } else { MAXNS / UNIT_NS[idx - 3] };
            for d in [-2i128, -1, 0, 1, 2] {
                let mut f = vec![0i128; 10];
                f[idx] = sign * f64_int(lim + d);
                v.push(format!("du_new {}", join(&f)));
                // second field pushing the total over / just under the limit
                if idx >= 3 {
                    for (j, add) in [(9usize, 999_999_999i128), (9, 1_000_000_000), (8, 999_999), (7, 999), (7, 1000), (6, 1)] {
                        if j == idx { continue; }
                        let mut g = f.clone();
                        g[j] = sign * add;
                        v.push(format!("du_new {}", join(&g)));
                    }
                }
            }
        }
    }
    let mut f = vec![0i128; 10];
    f[6] = P53 - 1; f[7] = 999; f[8] = 999; f[9] = 2000;
    v.push(format!("du_new {}", join(&f)));
    // Duration::round: the "nothing to do" shortcut and the default largest unit. Every threshold of the shortcut
    // (|hours| < 24, |minutes|, |seconds| < 60, sub-second fields < 1000, days present) from both sides, alone and next
    // to other fields, with the option sets under which rounding is a no-op; and every unit as the duration's largest
    // non-zero field with an omitted / auto largest unit.
    let thresholds: [(usize, i128); 6] = [(4, 24), (5, 60), (6, 60), (7, 1000), (8, 1000), (9, 1000)];
    let reps = if thorough { 12 } else { 3 };
    for _ in 0..reps {
        for (idx, th) in thresholds {
            for sign in [1i128, -1] {
                for d in [-1i128, 0, 1] {
                    for with_days in [0i128, 1] {
                        let mut f = vec![0i128; 10];
                        f[idx] = sign * (th + d);
                        f[3] = sign * with_days;
                        if rng.chance(1, 2) {
                            let j = rng.range(4, 9) as usize;
                            if j != idx { f[j] = sign * rng.range(0, 23); }
                        }
                        for lu in ["-", "auto", "day", UNAMES[idx]] {
                            let (su, inc) = *rng.pick(&[("-", "-"), ("nanosecond", "-"), ("nanosecond", "1"), ("-", "1")]);
                            v.push(format!("du_round {} {} {} {} {}", join(&f), lu, su, inc, rng.pick(&MOPT)));
                        }
                    }
                }
            }
        }
        for idx in 3..10usize {
            for sign in [1i128, -1] {
                let mut f = vec![0i128; 10];
                f[idx] = sign * *rng.pick(&[1i128, 59, 999, 1500, 2000, 86_400, 90_061]);
                for lu in ["-", "auto"] {
                    let su = *rng.pick(&["-", "nanosecond", UNAMES[(idx + 1).min(9)], UNAMES[idx]]);
                    v.push(format!("du_round {} {} {} - {}", join(&f), lu, su, rng.pick(&MOPT)));
                }
                // two sub-second durations added: the result is balanced up to the larger of the two largest units
                let mut g = vec![0i128; 10];
                let j = rng.range(idx as i128, 9) as usize;
                g[j] = sign * *rng.pick(&[1i128, 999, 1500]);
                v.push(format!("du_add {} {}", join(&f), join(&g)));
            }
        }
    }
    let n = if thorough { 300_000 } else { 30_000 };
    for k in 0..n {
        let a = if k % 2 == 0 { small_time_dur(rng) } else { dur_fields(rng, true, k % 5 != 0) };
        let b = if k % 3 == 0 { small_time_dur(rng) } else { dur_fields(rng, true, k % 7 != 0) };
        v.push(format!("du_add {} {}", join(&a), join(&b)));
        if k % 3 == 0 { v.push(format!("du_sub {} {}", join(&a), join(&b))); }
        v.push(format!("du_cmp {} {}", join(&a), join(&b)));
        if k % 5 == 0 {
            v.push(format!("du_cmp {} {}", join(&a), join(&a)));
            let neg: Vec<i128> = a.iter().map(|x| -x).collect();
            v.push(format!("du_cmp {} {}", join(&a), join(&neg)));
        }
        // round / total
        let su = *rng.pick(&UOPT);
        let lu = *rng.pick(&UOPT);
        let inc = if su == "-" || rng.chance(1, 3) { "-".to_string() } else { admissible_inc(rng, su).to_string() };
        v.push(format!("du_round {} {} {} {} {}", join(&a), lu, su, inc, rng.pick(&MOPT)));
        // tie-focused: time-only duration on an exact tie of the increment
        let tu = *rng.pick(&TIMEU);
        let ulen = UNIT_NS[match tu { "hour" => 1, "minute" => 2, "second" => 3, "millisecond" => 4, "microsecond" => 5, _ => 6 }];
        let ti = admissible_inc(rng, tu);
        let q = ti * ulen;
        let kq = rng.range(-2_000_000, 2_000_000);
        let tie = kq * q + match rng.below(4) { 0 => q / 2, 1 => q / 2 + 1, 2 => (q + 1) / 2 - 1, _ => 0 };
        let mut tf = vec![0i128; 10];
        tf[9] = f64_int(tie);
        v.push(format!("du_round {} {} {} {} {}", join(&tf), rng.pick(&UOPT), tu, ti, rng.pick(&MOPT)));
        let neg: Vec<i128> = a.iter().map(|x| -x).collect();
        v.push(format!("du_round {} {} {} {} {}", join(&neg), lu, su, inc, rng.pick(&MOPT)));
        let unit_t = *rng.pick(&UOPT[1..]);
        v.push(format!("du_total {} {}", join(&a), unit_t));
        v.push(format!("du_total {} {}", join(&tf), tu));
    }
    v
}

pub fn generate_c06(rng: &mut Rng, thorough: bool) -> Vec<String> {
    let mut v = Vec::new();
    // instants read from strings: second 60 is read as second 59 (with any fraction, offset and date), offsets of
    // either sign with and without an hour part, the limits
    for d in ["2016-12-31", "1969-12-31", "1970-01-01", "-000001-06-30", "+275760-09-12", "-271821-04-20"] {
        for t in ["T23:59:60", "T23:59:60.5", "T23:59:60.999999999", "T00:00:60", "T12:30:59.25", "T235960", "T23:59:59.9999995"] {
            for o in ["Z", "+00:00", "-00:30", "+00:30", "-00:00:00.5", "-05:00", "+14:00", "-00:59:59.5"] {
                v.push(format!("p_instant {}", super::c03::hex(format!("{d}{t}{o}").as_bytes())));
            }
        }
    }
    let day_ns: i128 = 86_400_000_000_000;
    let max_inst: i128 = 8_640_000_000_000_000_000_000;
    let n = if thorough { 300_000 } else { 30_000 };
    let tfmt = |x: i128| { let (h, mi, s, ms, us, ns) = super::c07::split_ns(x); format!("{h} {mi} {s} {ms} {us} {ns}") };
    for k in 0..n {
        let t1 = match rng.below(5) { 0 => 0, 1 => day_ns - 1, 2 => rng.range(0, 86_399) * 1_000_000_000, _ => rng.range(0, day_ns - 1) };
        let t2 = match rng.below(5) { 0 => t1, 1 => day_ns - 1, 2 => 0, _ => rng.range(0, day_ns - 1) };
        let d = if k % 2 == 0 { small_time_dur(rng) } else { dur_fields(rng, true, k % 9 != 0) };
        v.push(format!("pt_add {} {}", tfmt(t1), join(&d)));
        if k % 2 == 0 { v.push(format!("pt_sub {} {}", tfmt(t1), join(&d))); }
        let su = *rng.pick(&UOPT);
        let lu = *rng.pick(&UOPT);
        let inc = if su == "-" || rng.chance(1, 3) { "-".to_string() } else { admissible_inc(rng, su).to_string() };
        let op = if rng.chance(1, 2) { "pt_until" } else { "pt_since" };
        v.push(format!("{op} {} {} {} {} {} {}", tfmt(t1), tfmt(t2), lu, su, inc, rng.pick(&MOPT)));
        // instants
        let i1 = match rng.below(6) { 0 => -max_inst, 1 => max_inst, 2 => rng.range(-1_000_000_000, 1_000_000_000), 3 => max_inst - rng.range(0, day_ns), _ => rng.range(-max_inst, max_inst) };
        let i2 = match rng.below(6) { 0 => -max_inst, 1 => max_inst, 2 => i1 + rng.range(-1_000_000, 1_000_000), 3 => i1, _ => rng.range(-max_inst, max_inst) }.clamp(-max_inst - 1, max_inst + 1);
        v.push(format!("in_add {} {}", i1, join(&d)));
        if k % 2 == 0 { v.push(format!("in_sub {} {}", i1, join(&d))); }
        // duration that lands exactly on / next to the limit
        if k % 10 == 0 {
            let mut f = vec![0i128; 10];
            let delta = max_inst - i1 + rng.range(-1, 1);
            f[9] = f64_int(delta);
            v.push(format!("in_add {} {}", i1, join(&f)));
        }
        let op = if rng.chance(1, 2) { "in_until" } else { "in_since" };
        v.push(format!("{op} {} {} {} {} {} {}", i1, i2, lu, su, inc, rng.pick(&MOPT)));
        v.push(format!("in_ms {}", i1));
        v.push(format!("in_ms {}", -rng.range(0, 3_000_000)));
        let ms = match rng.below(4) { 0 => rng.range(-8_640_000_000_000_001, -8_639_999_999_999_999), 1 => rng.range(8_639_999_999_999_999, 8_640_000_000_000_001), _ => rng.range(-8_640_000_000_000_000, 8_640_000_000_000_000) };
        v.push(format!("in_from_ms {}", ms));
    }
    v
}
