//! `api`: the thin public functions around the modelled cores that no other suite calls (found by measuring which
//! lines of /repo the suites execute, tools/cov_gaps.sh): the `new` / `try_new` constructors, PlainDateTime's
//! calendar getters and conversions, the infallible `From` conversions between PlainDate and PlainDateTime,
//! PlainYearMonth's getters, Instant / ZonedDateTime conversions, Duration from a partial record, TimeDuration::new.
//!   pd_ctor y m d new|try_new            pt_ctor h mi s ms us ns new|try_new        pdt_ctor <9> new|try_new
//!   pdt_with_time <9> <6>                pdt_info <9>                               pd_to_pdt y m d <6 | ->
//!   pdt_from_pd y m d  → fields + whether the value is one the checked constructor accepts
//!   pd_from_pdt <9>                      ym_info y m                                md_code m d
//!   in_to_zdt ns offset-minutes          zdt_misc ns offset-minutes calendar
//!   du_partial <10, `-` = absent>        td_new h mi s ms us ns
use crate::common::*;
use super::c04::fmt_date;
use super::c05::fmt_dt;
use std::str::FromStr;
use temporal_rs::partial::PartialDuration;
use temporal_rs::primitive::FiniteF64;
use temporal_rs::{Calendar, Duration, Instant, PlainDate, PlainDateTime, PlainMonthDay, PlainTime, PlainYearMonth, TemporalError, TimeZone, ZonedDateTime};

const LO: i128 = -100_000_001;
const HI: i128 = 100_000_000;

fn ymd_of(day: i128) -> (i128, i128, i128) {
    let (y, m, d) = temporal_rs::verif_hooks::ymd_from_epoch_milliseconds((day * 86_400_000) as i64);
    (y as i128, m as i128, d as i128)
}

pub fn generate(rng: &mut Rng, thorough: bool) -> Vec<String> {
    let mut v = Vec::new();
    let n = if thorough { 30_000 } else { 3_000 };
    let tod = |rng: &mut Rng| -> String {
        match rng.below(4) {
            0 => "0 0 0 0 0 0".to_string(),
            1 => "23 59 59 999 999 999".to_string(),
            2 => format!("0 0 0 0 0 {}", rng.range(0, 2)),
            _ => format!("{} {} {} {} {} {}", rng.range(0, 23), rng.range(0, 59), rng.range(0, 59), rng.range(0, 999), rng.range(0, 999), rng.range(0, 999)),
        }
    };
    // EpochNanoseconds::try_from(i128 / u128 / f64): the limits, the type limits, values that wrap when cast
    {
        let max: i128 = 8_640_000_000_000_000_000_000;
        let mut iv: Vec<i128> = vec![0, 1, -1, max, max + 1, -max, -max - 1, max - 1, 1 - max, i128::MAX, i128::MIN, i128::MAX - 1, i128::MIN + 1, 1 << 100, -(1 << 100), 1 << 64, -(1 << 64), (1 << 64) - 1];
        for _ in 0..40 { iv.push(rng.range(-max - 1000, max + 1000)); iv.push(rng.range(-1_000_000_000_000, 1_000_000_000_000)); }
        for x in &iv { v.push(format!("en_i128 {x}")); }
        let top: u128 = u128::MAX;
        let mut uv: Vec<u128> = vec![0, 1, max as u128, max as u128 + 1, max as u128 - 1, (1u128 << 127) - 1, 1u128 << 127, (1u128 << 127) + 1, top, top - 1, top - max as u128, top - max as u128 + 1, top - max as u128 - 1, 1u128 << 100, 1u128 << 64];
        for _ in 0..40 { uv.push(top - rng.range(0, max + 1000) as u128); uv.push(rng.range(0, max + 1000) as u128); uv.push((1u128 << 127) + rng.range(0, max) as u128); }
        for x in &uv { v.push(format!("en_u128 {x}")); }
        // integral doubles, exactly representable: m * 2^e with |m| < 2^53
        let mut fv: Vec<String> = vec!["0".into(), "1".into(), "-1".into(), max.to_string(), (-max).to_string(), (max + (1 << 20)).to_string(), (-max - (1 << 20)).to_string(), (max - (1 << 20)).to_string(), (1u128 << 126).to_string(), (1u128 << 127).to_string(), format!("-{}", 1u128 << 127), (1u128 << 100).to_string(), "nan".into(), "inf".into(), "-inf".into()];
        for _ in 0..60 { let m = rng.range(-(1 << 52), 1 << 52); let e = rng.range(0, 70) as u32; fv.push((m << e.min(70)).to_string()); }
        for x in &fv { v.push(format!("en_f64 {x}")); }
    }
    for _ in 0..n {
        // days: the limits and their neighbours, month ends, anywhere
        let day = match rng.below(5) { 0 => LO + rng.range(-2, 3), 1 => HI + rng.range(-2, 3), 2 => rng.range(-40_000, 40_000), _ => rng.range(LO, HI) };
        let (y, m, d) = if (LO..=HI).contains(&day) { ymd_of(day) } else if day < LO { (-271821, 4, 19 + (day - LO)) } else { (275760, 9, 13 + (day - HI)) };
        // constructor arguments, also out of range
        let (cy, cm, cd) = if rng.chance(1, 3) { (y, rng.range(0, 14), rng.range(0, 33)) } else { (y, m, d) };
        let kind = rng.pick(&["new", "try_new"]);
        v.push(format!("pd_ctor {cy} {cm} {cd} {kind}"));
        let ct = if rng.chance(1, 3) { format!("{} {} {} {} {} {}", rng.range(0, 25), rng.range(0, 61), rng.range(0, 61), rng.range(0, 1001), rng.range(0, 1001), rng.range(0, 1001)) } else { tod(rng) };
        v.push(format!("pt_ctor {ct} {kind}"));
        v.push(format!("pdt_ctor {cy} {cm} {cd} {ct} {kind}"));
        let t1 = tod(rng);
        let t2 = tod(rng);
        v.push(format!("pdt_with_time {y} {m} {d} {t1} {t2}"));
        v.push(format!("pdt_info {y} {m} {d} {t1}"));
        v.push(format!("pd_to_pdt {y} {m} {d} {}", if rng.chance(1, 3) { "-".to_string() } else { t2.clone() }));
        v.push(format!("pdt_from_dat {y} {m} {d} {t2}"));
        v.push(format!("pdt_from_pd {y} {m} {d}"));
        v.push(format!("pd_from_pdt {y} {m} {d} {t1}"));
        v.push(format!("ym_info {} {m}", *rng.pick(&[y, 9999, 10000, 0, -1, 999, 1000, -271821, 275760, 2024, 1900])));
        v.push(format!("md_code {m} {}", d.min(28)));
        let ns = match rng.below(4) { 0 => rng.range(-8_640_000_000_000_000_000_000, 8_640_000_000_000_000_000_000), 1 => *rng.pick(&[0i128, -1, 1, -999_999, -1_000_000, -1_000_001, 999_999, 8_640_000_000_000_000_000_000, -8_640_000_000_000_000_000_000]), _ => rng.range(-2_000_000_000, 4_000_000_000) * 1_000_000_000 + rng.range(-999_999_999, 999_999_999) };
        let off = rng.pick(&[0i128, 60, -60, 330, -210, 840, -720, 1, -1439]);
        v.push(format!("in_to_zdt {ns} {off}"));
        v.push(format!("zdt_misc {ns} {off} {}", rng.pick(&["iso8601", "gregory", "japanese", "hebrew"])));
        let mut f: Vec<String> = (0..10).map(|_| if rng.chance(1, 2) { "-".to_string() } else { f64_int(match rng.below(3) { 0 => rng.range(-5, 5), 1 => rng.range(-100_000, 100_000), _ => *rng.pick(&[4_294_967_295i128, 4_294_967_296, 9_007_199_254_740_991, 0]) }).to_string() }).collect();
        if rng.chance(1, 20) { f = vec!["-".to_string(); 10]; }
        v.push(format!("du_partial {}", f.join(" ")));
        v.push(format!("td_new {} {} {} {} {} {}", f64_int(rng.range(-30, 30)), f64_int(rng.range(-100, 100)), f64_int(*rng.pick(&[0i128, 1, -1, 9_007_199_254_740_991, 9_007_199_254_740_992, 59])), f64_int(rng.range(-2000, 2000)), f64_int(rng.range(-2000, 2000)), f64_int(*rng.pick(&[0i128, 1, -1, 999, 1_000_000_000]))));
    }
    v
}

fn time6(t: &[&str]) -> Result<PlainTime, TemporalError> {
    PlainTime::try_new(i(t[0]) as u8, i(t[1]) as u8, i(t[2]) as u8, i(t[3]) as u16, i(t[4]) as u16, i(t[5]) as u16)
}
fn dt9(t: &[&str]) -> Result<PlainDateTime, TemporalError> {
    PlainDateTime::try_new(i(t[0]) as i32, i(t[1]) as u8, i(t[2]) as u8, i(t[3]) as u8, i(t[4]) as u8, i(t[5]) as u8, i(t[6]) as u16, i(t[7]) as u16, i(t[8]) as u16, Calendar::default())
}
fn offset_zone(m: i128) -> TimeZone {
    TimeZone::try_from_str(&format!("{}{:02}:{:02}", if m < 0 { '-' } else { '+' }, m.abs() / 60, m.abs() % 60)).unwrap()
}
fn opt_f(s: &str) -> Option<FiniteF64> {
    if s == "-" { None } else { FiniteF64::try_from(i(s) as f64).ok() }
}

pub fn eval(t: &[&str]) -> Option<String> {
    let iso = Calendar::default();
    Some(match t[0] {
        "en_i128" => render(temporal_rs::time::EpochNanoseconds::try_from(t[1].parse::<i128>().ok()?), |e| e.as_i128().to_string()),
        "en_u128" => render(temporal_rs::time::EpochNanoseconds::try_from(t[1].parse::<u128>().ok()?), |e| e.as_i128().to_string()),
        "en_f64" => {
            let x: f64 = match t[1] {
                "nan" => f64::NAN,
                "inf" => f64::INFINITY,
                "-inf" => f64::NEG_INFINITY,
                s if s.starts_with('-') => s.parse::<i128>().ok()? as f64,
                s => s.parse::<u128>().ok()? as f64,
            };
            render(temporal_rs::time::EpochNanoseconds::try_from(x), |e| e.as_i128().to_string())
        }
        "pd_ctor" => {
            let (y, m, d) = (i(t[1]) as i32, i(t[2]) as u8, i(t[3]) as u8);
            render(if t[4] == "new" { PlainDate::new(y, m, d, iso) } else { PlainDate::try_new(y, m, d, iso) }, |p| fmt_date(&p))
        }
        "pt_ctor" => {
            let (h, mi, s, ms, us, ns) = (i(t[1]) as u8, i(t[2]) as u8, i(t[3]) as u8, i(t[4]) as u16, i(t[5]) as u16, i(t[6]) as u16);
            render(if t[7] == "new" { PlainTime::new(h, mi, s, ms, us, ns) } else { PlainTime::try_new(h, mi, s, ms, us, ns) }, |p| crate::ops::fmt_time(&p))
        }
        "pdt_ctor" => {
            let (y, m, d) = (i(t[1]) as i32, i(t[2]) as u8, i(t[3]) as u8);
            let (h, mi, s, ms, us, ns) = (i(t[4]) as u8, i(t[5]) as u8, i(t[6]) as u8, i(t[7]) as u16, i(t[8]) as u16, i(t[9]) as u16);
            render(if t[10] == "new" { PlainDateTime::new(y, m, d, h, mi, s, ms, us, ns, iso) } else { PlainDateTime::try_new(y, m, d, h, mi, s, ms, us, ns, iso) }, |p| fmt_dt(&p))
        }
        "pdt_with_time" => render(dt9(&t[1..10]).and_then(|dt| dt.with_time(time6(&t[10..16])?)), |p| fmt_dt(&p)),
        "pdt_info" => render(dt9(&t[1..10]), |p| {
            let d = p.to_plain_date().map(|d| fmt_date(&d)).unwrap_or("err".into());
            let tm = p.to_plain_time().map(|x| crate::ops::fmt_time(&x)).unwrap_or("err".into());
            format!(
                "{} {} {} {} {} {} {} {} {} | {d} | {tm}",
                p.day_of_week(), p.day_of_year(),
                p.week_of_year().ok().flatten().map(|x| x as i64).unwrap_or(-1),
                p.year_of_week().ok().flatten().map(|x| x as i64).unwrap_or(-1),
                p.days_in_week().map(|x| x as i64).unwrap_or(-1), p.days_in_month(), p.days_in_year(), p.months_in_year(), p.in_leap_year() as u8
            )
        }),
        "pd_to_pdt" => render(
            PlainDate::try_new(i(t[1]) as i32, i(t[2]) as u8, i(t[3]) as u8, iso).and_then(|d| {
                let time = if t[4] == "-" { None } else { Some(time6(&t[4..10])?) };
                d.to_plain_date_time(time)
            }),
            |p| fmt_dt(&p),
        ),
        "pdt_from_dat" => render(
            PlainDate::try_new(i(t[1]) as i32, i(t[2]) as u8, i(t[3]) as u8, iso).and_then(|d| PlainDateTime::from_date_and_time(d, time6(&t[4..10])?)),
            |p| fmt_dt(&p),
        ),
        "pdt_from_pd" => render(PlainDate::try_new(i(t[1]) as i32, i(t[2]) as u8, i(t[3]) as u8, iso), |d| {
            let p = PlainDateTime::from(d);
            let valid = PlainDateTime::try_new(p.iso_year(), p.iso_month(), p.iso_day(), p.hour(), p.minute(), p.second(), p.millisecond(), p.microsecond(), p.nanosecond(), Calendar::default()).is_ok();
            format!("{} valid={}", fmt_dt(&p), valid as u8)
        }),
        "pd_from_pdt" => render(dt9(&t[1..10]), |p| {
            let d = PlainDate::from(p);
            let valid = PlainDate::try_new(d.iso_year(), d.iso_month(), d.iso_day(), Calendar::default()).is_ok();
            format!("{} valid={}", fmt_date(&d), valid as u8)
        }),
        "ym_info" => render(PlainYearMonth::new_with_overflow(i(t[1]) as i32, i(t[2]) as u8, None, iso, temporal_rs::options::ArithmeticOverflow::Reject), |p| {
            format!("{} {} {} {} {}", p.in_leap_year() as u8, p.days_in_year(), p.days_in_month(), p.months_in_year(), p.padded_iso_year_string())
        }),
        "md_code" => render(PlainMonthDay::new_with_overflow(i(t[1]) as u8, i(t[2]) as u8, iso, temporal_rs::options::ArithmeticOverflow::Reject, None), |p| p.month_code().as_str().to_string()),
        "in_to_zdt" => render(Instant::try_new(i(t[1])), |ins| {
            let z = ins.to_zoned_date_time_iso(offset_zone(i(t[2])));
            format!("{} {} {}", z.epoch_nanoseconds().as_i128(), z.timezone().identifier().unwrap_or("?".into()), z.calendar().identifier())
        }),
        "zdt_misc" => render(
            ZonedDateTime::try_new(i(t[1]), Calendar::default(), offset_zone(i(t[2]))).and_then(|z| {
                let c = z.with_calendar(Calendar::from_str(t[3])?)?;
                let u = z.with_timezone(TimeZone::try_from_str("UTC")?)?;
                Ok(format!(
                    "{} {} {} | {} {} | {} | {}",
                    c.epoch_nanoseconds().as_i128(), c.calendar().identifier(), c.timezone().identifier()?,
                    u.epoch_nanoseconds().as_i128(), u.timezone().identifier()?,
                    z.to_instant().as_i128(), z.epoch_milliseconds()
                ))
            }),
            |s| s,
        ),
        "du_partial" => {
            let p = PartialDuration {
                years: opt_f(t[1]), months: opt_f(t[2]), weeks: opt_f(t[3]), days: opt_f(t[4]), hours: opt_f(t[5]), minutes: opt_f(t[6]),
                seconds: opt_f(t[7]), milliseconds: opt_f(t[8]), microseconds: opt_f(t[9]), nanoseconds: opt_f(t[10]),
            };
            let empty = p.is_empty();
            render(Duration::from_partial_duration(p), |d| format!("{} empty={}", fmt_duration(&d), empty as u8))
        }
        "td_new" => {
            let f = |k: usize| FiniteF64::try_from(i(t[k]) as f64);
            render(
                (|| temporal_rs::TimeDuration::new(f(1)?, f(2)?, f(3)?, f(4)?, f(5)?, f(6)?))(),
                |d| [d.hours, d.minutes, d.seconds, d.milliseconds, d.microseconds, d.nanoseconds].iter().map(|x| fmt_f64(x.as_inner())).collect::<Vec<_>>().join(" "),
            )
        }
        _ => return None,
    })
}
