//! Generators, one per suite. All randomness comes from `Rng::new(seed)`.
use crate::common::*;
use std::io::Write;

mod c01;
mod c02;
pub mod c03;
pub mod c07;
pub mod c04;
pub mod c05;
mod c08;
mod c09;
mod c17;
pub mod c10;
pub mod zone;
pub mod tzdb;
pub mod c19;
pub mod c11;
pub mod c12;
pub mod c16;
pub mod api;
pub mod c20;

pub fn generate(suite: &str, tier: &str, seed: u64) -> Vec<String> {
    let mut rng = Rng::new(seed);
    let thorough = tier == "thorough";
    match suite {
        "c01" => c01::generate(&mut rng, thorough),
        "c02" => c02::generate(&mut rng, thorough),
        "c03" => c03::generate(&mut rng, thorough),
        "c07" => c07::generate(&mut rng, thorough),
        "c08" => c08::generate(&mut rng, thorough),
        "c09" => c09::generate_c09(&mut rng, thorough),
        "c04" => c04::generate(&mut rng, thorough),
        "c05" => c05::generate(&mut rng, thorough),
        "c06" => c09::generate_c06(&mut rng, thorough),
        "c17" => c17::generate_c17(&mut rng, thorough),
        "c18" => c17::generate_c18(&mut rng, thorough),
        "c10" => c10::generate(&mut rng, thorough),
        "c13" => zone::generate_c13(&mut rng, thorough),
        "c15" => tzdb::generate(&mut rng, thorough),
        "c15s" => tzdb::generate_slice(&mut rng, thorough),
        "c19" => c19::generate(&mut rng, thorough),
        "c11" => c11::generate(&mut rng, thorough),
        "c12" => c12::generate(&mut rng, thorough),
        "c16" => c16::generate(&mut rng, thorough),
        "api" => api::generate(&mut rng, thorough),
        "c20" => c20::generate(&mut rng, thorough),
        "c14" => zone::generate_c14(&mut rng, thorough),
        _ => panic!("unknown suite {suite}"),
    }
}

/// Suites whose lines are evaluated under the per-line watchdog (see guard.rs).
pub fn guarded(suite: &str) -> bool {
    matches!(suite, "c03" | "c15" | "c15s" | "c20" | "c16")
}

pub fn eval_more(t: &[&str]) -> String {
    if let Some(s) = c01::eval(t) {
        return s;
    }
    if let Some(s) = c05::eval(t) {
        return s;
    }
    if let Some(s) = c04::eval(t) {
        return s;
    }
    if let Some(s) = c17::eval(t) {
        return s;
    }
    if let Some(s) = c08::eval(t) {
        return s;
    }
    if let Some(s) = c09::eval(t) {
        return s;
    }
    if let Some(s) = c10::eval(t) {
        return s;
    }
    if let Some(s) = c03::eval(t) {
        return s;
    }
    if let Some(s) = zone::eval(t) {
        return s;
    }
    if let Some(s) = tzdb::eval(t) {
        return s;
    }
    if let Some(s) = c20::eval(t) {
        return s;
    }
    if let Some(s) = api::eval(t) {
        return s;
    }
    if t[0].starts_with("cal_") {
        if let Some(s) = c16::eval(t) {
            return s;
        }
    }
    if t[0].starts_with("p_") {
        if let Some(s) = c12::eval(t) {
            return s;
        }
    }
    if t[0].starts_with("f_") || t[0].starts_with("rt_") {
        if let Some(s) = c11::eval(t) {
            return s;
        }
    }
    if let Some(s) = c19::eval(t) {
        return s;
    }
    format!("?bad-op {}", t[0])
}

pub fn special(cmd: &str, _args: &[String], out: &mut impl Write) -> bool {
    match cmd {
        "zones" => {
            tzdb::dump_zones(out);
            true
        }
        _ => false,
    }
}
