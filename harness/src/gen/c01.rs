//! C01: Gregorian bijection. Hook kernels, public getters, day arithmetic, epoch nanoseconds; block checksums.
use crate::common::*;
use std::io::Write;
use temporal_rs::options::DifferenceSettings;
use temporal_rs::{Calendar, Duration, PlainDate, PlainDateTime, TemporalError};

fn date(y: i128, m: i128, d: i128) -> Result<PlainDate, TemporalError> {
    if !(i32::MIN as i128..=i32::MAX as i128).contains(&y) || !(0..=255).contains(&m) || !(0..=255).contains(&d) {
        return Err(TemporalError::range());
    }
    PlainDate::try_new(y as i32, m as u8, d as u8, Calendar::default())
}

fn info(p: &PlainDate) -> String {
    format!(
        "{} {} {} {} {} {} {}",
        p.day_of_week(),
        p.day_of_year(),
        p.week_of_year().ok().flatten().map(|x| x as i64).unwrap_or(-1),
        p.year_of_week().ok().flatten().map(|x| x as i64).unwrap_or(-1),
        p.days_in_month(),
        p.days_in_year(),
        p.in_leap_year() as u8
    )
}

pub fn eval(t: &[&str]) -> Option<String> {
    use temporal_rs::verif_hooks as h;
    Some(match t[0] {
        "k2d" => format!("ok {}", h::epoch_days_from_gregorian_date(i(t[1]) as i32, i(t[2]) as u8, i(t[3]) as u8)),
        "d2k" => {
            let (y, m, d) = h::ymd_from_epoch_milliseconds(i(t[1]) as i64 * 86_400_000);
            format!("ok {y} {m} {d}")
        }
        "date" => render(date(i(t[1]), i(t[2]), i(t[3])), |p| info(&p)),
        "adddays" => render(
            date(i(t[1]), i(t[2]), i(t[3])).and_then(|p| {
                let dur = Duration::new(0.into(), 0.into(), 0.into(), (i(t[4]) as i64).try_into()?, 0.into(), 0.into(), 0.into(), 0.into(), 0.into(), 0.into())?;
                p.add(&dur, None)
            }),
            |p| format!("{} {} {}", p.iso_year(), p.iso_month(), p.iso_day()),
        ),
        "untildays" => render(
            date(i(t[1]), i(t[2]), i(t[3])).and_then(|a| {
                let b = date(i(t[4]), i(t[5]), i(t[6]))?;
                a.until(&b, DifferenceSettings::default())
            }),
            |d| {
                if d.years() != 0.0 || d.months() != 0.0 || d.weeks() != 0.0 || !d.is_time_within_range() {
                    "non-day-fields".to_string()
                } else {
                    format!("{}", d.days().as_inner() as i64)
                }
            },
        ),
        "cmpdate" => render(
            date(i(t[1]), i(t[2]), i(t[3])).and_then(|a| {
                let b = date(i(t[4]), i(t[5]), i(t[6]))?;
                Ok(a.compare_iso(&b) as i32)
            }),
            |c| c.to_string(),
        ),
        "dt_ns" => render(
            h::iso_date_time_as_nanoseconds(
                i(t[1]) as i32, i(t[2]) as u8, i(t[3]) as u8, i(t[4]) as u8, i(t[5]) as u8, i(t[6]) as u8,
                i(t[7]) as u16, i(t[8]) as u16, i(t[9]) as u16,
            ),
            |n| n.to_string(),
        ),
        "ns_dt" => render(h::iso_date_time_from_epoch_nanos(i(t[1]), i(t[2]) as i64), |dt| {
            format!(
                "{} {} {} {} {} {} {} {} {}",
                dt.date.year, dt.date.month, dt.date.day, dt.time.hour, dt.time.minute, dt.time.second,
                dt.time.millisecond, dt.time.microsecond, dt.time.nanosecond
            )
        }),
        "pdt" => render(
            PlainDateTime::try_new(
                i(t[1]) as i32, i(t[2]) as u8, i(t[3]) as u8, i(t[4]) as u8, i(t[5]) as u8, i(t[6]) as u8,
                i(t[7]) as u16, i(t[8]) as u16, i(t[9]) as u16, Calendar::default(),
            ),
            |p| {
                format!(
                    "{} {} {} {} {} {} {} {} {}",
                    p.iso_year(), p.iso_month(), p.iso_day(), p.hour(), p.minute(), p.second(), p.millisecond(),
                    p.microsecond(), p.nanosecond()
                )
            },
        ),
        "blk" => format!("ok {}", block_hash(i(t[1]) as i64, i(t[2]) as i64)),
        _ => return None,
    })
}

fn fnv_step(mut h: u64, v: i64) -> u64 {
    let u = v as u64;
    for k in 0..8 {
        let b = (u >> (8 * k)) & 0xff;
        h = (h ^ b).wrapping_mul(0x100000001b3);
    }
    h
}

/// FNV-1a over the per-day record [y,m,d,k2d,dow,doy,woy,yow,dim,diy,leap] for n in lo..=hi.
pub fn block_hash(lo: i64, hi: i64) -> u64 {
    use temporal_rs::verif_hooks as h;
    let mut hash: u64 = 0xcbf29ce484222325;
    let cal = Calendar::default();
    for n in lo..=hi {
        let (y, m, d) = h::ymd_from_epoch_milliseconds(n * 86_400_000);
        let k = h::epoch_days_from_gregorian_date(y, m, d);
        let p = PlainDate::try_new(y, m, d, cal.clone()).expect("in-range day");
        let rec = [
            y as i64, m as i64, d as i64, k as i64, p.day_of_week() as i64, p.day_of_year() as i64,
            p.week_of_year().ok().flatten().map(|x| x as i64).unwrap_or(-1),
            p.year_of_week().ok().flatten().map(|x| x as i64).unwrap_or(-1),
            p.days_in_month() as i64, p.days_in_year() as i64, p.in_leap_year() as i64,
        ];
        for v in rec {
            hash = fnv_step(hash, v);
        }
    }
    hash
}

const LO: i128 = -100_000_001;
const HI: i128 = 100_000_000;

fn ymd_of(n: i128) -> (i32, u8, u8) {
    temporal_rs::verif_hooks::ymd_from_epoch_milliseconds(n as i64 * 86_400_000)
}

pub fn generate(rng: &mut Rng, thorough: bool) -> Vec<String> {
    let mut v = Vec::new();
    // (1) block checksums: thorough = the whole range; quick = around 1970, both limits, century boundaries, random blocks
    let bs: i128 = 65_536;
    let mut blocks: Vec<(i128, i128)> = Vec::new();
    if thorough {
        let mut lo = LO;
        while lo <= HI {
            blocks.push((lo, (lo + bs - 1).min(HI)));
            lo += bs;
        }
    } else {
        for c in [0i128, LO + 8 * bs, HI - 8 * bs] {
            let mut lo = (c - 8 * bs).max(LO);
            while lo < c + 8 * bs && lo <= HI {
                blocks.push((lo, (lo + bs - 1).min(HI)));
                lo += bs;
            }
        }
        for _ in 0..40 {
            let lo = rng.range(LO, HI - bs);
            blocks.push((lo, lo + bs - 1));
        }
    }
    for (lo, hi) in blocks {
        v.push(format!("blk {lo} {hi}"));
    }
    // (2) per-year facts: every century year in range (all years in thorough), Feb 28/29/30, Dec 31, Jan 1
    let step = if thorough { 1 } else { 100 };
    let mut y: i128 = -271_900;
    while y <= 275_800 {
        for (m, d) in [(2, 28), (2, 29), (2, 30), (3, 1), (12, 31), (1, 1)] {
            v.push(format!("date {y} {m} {d}"));
        }
        v.push(format!("k2d {y} 2 29"));
        v.push(format!("k2d {y} 3 1"));
        v.push(format!("k2d {y} 12 31"));
        y += step;
    }
    for _ in 0..(if thorough { 200_000 } else { 20_000 }) {
        let y = rng.range(-271_821, 275_760);
        let m = rng.range(1, 12);
        let d = *rng.pick(&[1i128, 28, 29, 30, 31]);
        v.push(format!("date {y} {m} {d}"));
    }
    // (3) raw kernels at random days and invalid field values
    for _ in 0..(if thorough { 300_000 } else { 40_000 }) {
        let n = rng.range(LO - 1000, HI + 1000);
        v.push(format!("d2k {n}"));
        let (y, m, d) = ymd_of(n);
        v.push(format!("k2d {y} {m} {d}"));
    }
    // limits
    for n in [LO - 2, LO - 1, LO, LO + 1, -1, 0, 1, HI - 1, HI, HI + 1, HI + 2] {
        v.push(format!("d2k {n}"));
        let (y, m, d) = ymd_of(n);
        v.push(format!("date {y} {m} {d}"));
        v.push(format!("pdt {y} {m} {d} 0 0 0 0 0 0"));
        v.push(format!("pdt {y} {m} {d} 0 0 0 0 0 1"));
        v.push(format!("pdt {y} {m} {d} 23 59 59 999 999 999"));
        v.push(format!("dt_ns {y} {m} {d} 0 0 0 0 0 0"));
        v.push(format!("dt_ns {y} {m} {d} 0 0 0 0 0 1"));
        v.push(format!("dt_ns {y} {m} {d} 23 59 59 999 999 999"));
    }
    // (4) adding N days / measuring back / comparing
    for _ in 0..(if thorough { 300_000 } else { 40_000 }) {
        let a = match rng.below(4) {
            0 => rng.range(LO, LO + 1000),
            1 => rng.range(HI - 1000, HI),
            _ => rng.range(LO, HI),
        };
        let b = match rng.below(5) {
            0 => a,
            1 => a + rng.range(-40, 40),
            2 => rng.range(LO - 5, LO + 1000),
            3 => rng.range(HI - 1000, HI + 5),
            _ => rng.range(LO, HI),
        };
        let (y1, m1, d1) = ymd_of(a);
        let (y2, m2, d2) = ymd_of(b);
        v.push(format!("adddays {y1} {m1} {d1} {}", b - a));
        v.push(format!("untildays {y1} {m1} {d1} {y2} {m2} {d2}"));
        v.push(format!("cmpdate {y1} {m1} {d1} {y2} {m2} {d2}"));
    }
    // (4a) distances in weeks, months and years as well as days, in both directions (the week count and the
    // leftover days must add up to the day distance, with one sign)
    for _ in 0..(if thorough { 6000 } else { 800 }) {
        let a = rng.range(-60_000, 60_000);
        let b = a + match rng.below(3) { 0 => rng.range(-80, 80), 1 => rng.range(-800, 800), _ => rng.range(-40_000, 40_000) };
        let (y1, m1, d1) = ymd_of(a);
        let (y2, m2, d2) = ymd_of(b);
        let l = *rng.pick(&["week", "week", "day", "month", "year"]);
        v.push(format!("pd_until {y1} {m1} {d1} {y2} {m2} {d2} {l} - - -"));
        v.push(format!("pd_since {y1} {m1} {d1} {y2} {m2} {d2} {l} - - -"));
    }
    // (4b) the longest offsets: from the first days to the last days and back (200 000 001 days is the longest legal
    // distance), and one and two days beyond
    for a in [LO, LO + 1, LO + 2, HI, HI - 1, HI - 2] {
        let (y1, m1, d1) = ymd_of(a);
        for target in [LO - 2, LO - 1, LO, LO + 1, HI - 1, HI, HI + 1, HI + 2] {
            v.push(format!("adddays {y1} {m1} {d1} {}", target - a));
        }
        for k in [200_000_000i128, 200_000_001, 200_000_002, 200_000_003, 199_999_999] {
            v.push(format!("adddays {y1} {m1} {d1} {k}"));
            v.push(format!("adddays {y1} {m1} {d1} {}", -k));
        }
    }
    // (4c) the first and last days as UTC instants: start of day, midnight and noon given explicitly, through the
    // +00:00 zone (the day-range check of the zone conversions sits exactly on the first and last whole days)
    for day in [LO, LO + 1, LO + 2, LO + 3, HI - 3, HI - 2, HI - 1, HI] {
        let (y, m, d) = ymd_of(day);
        v.push(format!("tz_sod o:0 {y} {m} {d}"));
        v.push(format!("tz_pdat o:0 {y} {m} {d} 0 0 0 0 0 0"));
        v.push(format!("tz_pdat o:0 {y} {m} {d} 0 0 0 0 0 1"));
        v.push(format!("tz_inst o:0 {y} {m} {d} 12 0 0 0 0 0 compatible"));
        v.push(format!("tz_inst o:0 {y} {m} {d} 0 0 0 0 0 0 reject"));
    }
    // (4d) zoned value -> plain date / time / date-time in a fixed-offset zone: the last and first nanoseconds,
    // microseconds and milliseconds of a day on both sides of 1970 and at the limits
    {
        let day_ns: i128 = 86_400_000_000_000;
        let lim: i128 = 8_640_000_000_000_000_000_000;
        for k in [0i128, -1, 1, -2, -365, 366, -719_468, -100_000_000, 100_000_000, -99_999_999, 99_999_999] {
            for r in [0i128, 1, -1, 999, -999, 1000, -1000, 999_999, -999_999, 1_000_000, -1_000_000, 1_000_001, -1_000_001, 999_999_999, -999_999_999] {
                let ns = k * day_ns + r;
                if ns.abs() > lim { continue; }
                for z in ["o:0", "o:60", "o:-570", "o:1439"] {
                    v.push(format!("tz_conv {z} {ns}"));
                }
            }
        }
        for _ in 0..(if thorough { 20_000 } else { 2_000 }) {
            let k = rng.range(-100_000_000, 100_000_000);
            let r = *rng.pick(&[1i128, 999, 1000, 999_999, 1_000_000, 1_000_001, 123_456_789]);
            let ns = (k * day_ns - r).clamp(-lim, lim);
            v.push(format!("tz_conv o:{} {ns}", rng.range(-1439, 1439)));
        }
    }
    // (5) date-time <-> epoch ns
    let day_ns: i128 = 86_400_000_000_000;
    for _ in 0..(if thorough { 300_000 } else { 40_000 }) {
        let n = match rng.below(4) {
            0 => rng.range(LO, LO + 3),
            1 => rng.range(HI - 2, HI + 1),
            _ => rng.range(LO, HI),
        };
        let tns = match rng.below(4) {
            0 => 0,
            1 => day_ns - 1,
            2 => rng.range(0, 1_000_000),
            _ => rng.range(0, day_ns - 1),
        };
        let (y, m, d) = ymd_of(n);
        let (h, mi, s, ms, us, ns) = super::c07::split_ns(tns);
        v.push(format!("dt_ns {y} {m} {d} {h} {mi} {s} {ms} {us} {ns}"));
        v.push(format!("pdt {y} {m} {d} {h} {mi} {s} {ms} {us} {ns}"));
        let e = n * day_ns + tns;
        let off = match rng.below(3) { 0 => 0, 1 => rng.range(-86_399_999_999_999, 86_399_999_999_999), _ => rng.range(-3_600_000_000_000, 3_600_000_000_000) };
        v.push(format!("ns_dt {e} {off}"));
    }
    v
}

pub fn special(_cmd: &str, _args: &[String], _out: &mut impl Write) -> bool {
    false
}
