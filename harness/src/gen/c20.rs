//! C20: the process-wide provider behind the convenience API under concurrency and after failing calls.
//!   w20_conc <seed> <threads> <calls>   N threads issue mixed convenience calls at once; every result must equal the
//!                                        result of the same call made alone (its *_with_provider twin, fresh provider)
//!   w20_pconc <seed> <threads> <calls>  the same after a call has panicked while holding the provider (contended
//!                                        callers must be served too)
//!   w20_fail <seed> <kind>               a failing call (unknown zone / out-of-range / panic while holding the provider
//!                                        lock, injected through the verif_hooks feature), then ordinary calls
//!   w20_many <seed> <n>                  n distinct zones go through the shared provider (from several threads), then
//!                                        each is queried again: every answer must be the one a fresh provider gives
//!   w20_case <seed> <n>                  n zones are used under their canonical names, then each is requested under a
//!                                        re-cased spelling: the shared provider must answer what a fresh one answers
//! Outcome `ok same` / `ok differ …`; a deadlock shows as `timeout` (the suite runs under the watchdog).
use crate::common::*;
use std::sync::{Arc, Barrier};
use temporal_rs::options::{DifferenceSettings, Unit};
use temporal_rs::tzdb::FsTzdbProvider;
use temporal_rs::{Calendar, TimeZone, ZonedDateTime};

const ZONES: [&str; 16] = [
    "UTC", "America/New_York", "Europe/London", "Australia/Lord_Howe", "Asia/Kolkata", "Pacific/Apia", "Africa/Monrovia",
    "America/St_Johns", "Asia/Tehran", "Europe/Dublin", "America/Sao_Paulo", "Asia/Tokyo", "Africa/Cairo", "Pacific/Chatham",
    "America/Anchorage", "Europe/Moscow",
];

pub fn generate(rng: &mut Rng, thorough: bool) -> Vec<String> {
    let mut v = Vec::new();
    let n = if thorough { 300 } else { 40 };
    for _ in 0..n {
        v.push(format!("w20_conc {} {} {}", rng.next() % 1_000_000, *rng.pick(&[2u32, 4, 8, 16]), *rng.pick(&[5u32, 20, 60])));
    }
    for _ in 0..(if thorough { 60 } else { 12 }) {
        v.push(format!("w20_pconc {} {} {}", rng.next() % 1_000_000, *rng.pick(&[4u32, 8, 16]), *rng.pick(&[20u32, 60])));
    }
    for _ in 0..(if thorough { 10 } else { 3 }) {
        v.push(format!("w20_many {} {}", rng.next() % 1_000_000, *rng.pick(&[40u32, 70, 100, 140])));
    }
    for _ in 0..(if thorough { 10 } else { 3 }) {
        v.push(format!("w20_case {} {}", rng.next() % 1_000_000, *rng.pick(&[5u32, 12, 30])));
    }
    for kind in ["unknown-zone", "out-of-range"] {
        for _ in 0..(if thorough { 4 } else { 1 }) {
            v.push(format!("w20_failw {} {kind}", rng.next() % 1_000_000));
        }
    }
    for k in 0..(if thorough { 60 } else { 12 }) {
        v.push(format!("w20_fail {} {}", rng.next() % 1_000_000, ["unknown-zone", "out-of-range", "panic-holding-lock"][k % 3]));
    }
    v
}

/// One call of the menu: (wrapper result, result alone).
fn call(rng: &mut Rng) -> (String, String) {
    let z = TimeZone::try_from_str(*rng.pick(&ZONES)).unwrap();
    let ns = rng.range(-2_000_000_000, 4_000_000_000) * 1_000_000_000 + rng.range(0, 999_999_999);
    let zdt = ZonedDateTime::try_new(ns, Calendar::default(), z.clone()).unwrap();
    let p = FsTzdbProvider::default();
    let f = |r: Result<String, temporal_rs::TemporalError>| match r { Ok(s) => s, Err(e) => format!("err {}", err_kind(&e)) };
    match rng.below(6) {
        0 => (f(zdt.hour().map(|x| x.to_string())), f(zdt.hour_with_provider(&p).map(|x| x.to_string()))),
        1 => (f(zdt.offset()), f(zdt.offset_with_provider(&p))),
        2 => (f(zdt.start_of_day().map(|x| x.epoch_nanoseconds().as_i128().to_string())), f(zdt.start_of_day_with_provider(&p).map(|x| x.epoch_nanoseconds().as_i128().to_string()))),
        3 => (f(zdt.to_plain_datetime().map(|x| format!("{x:?}"))), f(zdt.to_plain_datetime_with_provider(&p).map(|x| format!("{x:?}")))),
        4 => {
            let other = ZonedDateTime::try_new(ns + rng.range(-1000, 1000) * 86_400_000_000_000, Calendar::default(), z).unwrap();
            let mk = || { let mut s = DifferenceSettings::default(); s.largest_unit = Some(Unit::Day); s };
            (f(zdt.until(&other, mk()).map(|d| format!("{d:?}"))), f(zdt.until_with_provider(&other, mk(), &p).map(|d| format!("{d:?}"))))
        }
        _ => (zdt.to_string(), f(zdt.to_string_with_provider(&p))),
    }
}

pub fn eval(t: &[&str]) -> Option<String> {
    match t[0] {
        "w20_conc" | "w20_pconc" => {
            // w20_pconc: first a call panics while it holds the provider (injected through the hook), then the same
            // concurrent load: callers that have to WAIT for the provider must be served like any other
            if t[0] == "w20_pconc" {
                let _ = std::panic::catch_unwind(|| temporal_rs::verif_hooks::panic_holding_tz_provider());
            }
            let seed = i(t[1]) as u64;
            let threads = i(t[2]) as usize;
            let calls = i(t[3]) as usize;
            let barrier = Arc::new(Barrier::new(threads));
            let handles: Vec<_> = (0..threads)
                .map(|k| {
                    let b = barrier.clone();
                    std::thread::spawn(move || {
                        let mut rng = Rng::new(seed * 1000 + k as u64);
                        b.wait();
                        (0..calls).map(|_| call(&mut rng)).collect::<Vec<_>>()
                    })
                })
                .collect();
            let mut bad = None;
            for (k, h) in handles.into_iter().enumerate() {
                match h.join() {
                    Ok(rs) => {
                        for (j, (a, b)) in rs.into_iter().enumerate() {
                            if a != b && bad.is_none() {
                                bad = Some(format!("thread {k} call {j}: {a} | {b}"));
                            }
                        }
                    }
                    Err(_) => bad = bad.or(Some(format!("thread {k} panicked"))),
                }
            }
            Some(match bad { None => "ok same".into(), Some(b) => format!("ok differ {b}") })
        }
        "w20_many" => {
            let mut rng = Rng::new(i(t[1]) as u64);
            let all = super::c03::zone_ids();
            let n = (i(t[2]) as usize).min(all.len());
            let mut names: Vec<String> = Vec::new();
            while names.len() < n {
                let c = rng.pick(&all).clone();
                if !names.contains(&c) { names.push(c); }
            }
            let names = Arc::new(names);
            let ns_of = |k: usize| (k as i128 * 41_000_000 - 900_000_000) * 1_000_000_000;
            let shared = |z: &str, ns: i128| -> String {
                match TimeZone::try_from_str(z).and_then(|tz| ZonedDateTime::try_new(ns, Calendar::default(), tz)) {
                    Ok(zdt) => match zdt.offset() { Ok(s) => s, Err(e) => format!("err {}", err_kind(&e)) },
                    Err(e) => format!("err {}", err_kind(&e)),
                }
            };
            let alone = |z: &str, ns: i128| -> String {
                let p = FsTzdbProvider::default();
                match TimeZone::try_from_str(z).and_then(|tz| ZonedDateTime::try_new(ns, Calendar::default(), tz)) {
                    Ok(zdt) => match zdt.offset_with_provider(&p) { Ok(s) => s, Err(e) => format!("err {}", err_kind(&e)) },
                    Err(e) => format!("err {}", err_kind(&e)),
                }
            };
            // first pass from four threads at once
            let handles: Vec<_> = (0..4usize)
                .map(|th| {
                    let names = names.clone();
                    std::thread::spawn(move || {
                        for (k, z) in names.iter().enumerate() {
                            if k % 4 == th {
                                let _ = match TimeZone::try_from_str(z).and_then(|tz| ZonedDateTime::try_new(0, Calendar::default(), tz)) { Ok(zdt) => zdt.offset().ok(), Err(_) => None };
                            }
                        }
                    })
                })
                .collect();
            for h in handles { let _ = h.join(); }
            let mut bad = None;
            for (k, z) in names.iter().enumerate() {
                let (a, b) = (shared(z, ns_of(k)), alone(z, ns_of(k)));
                if a != b && bad.is_none() {
                    bad = Some(format!("{z}: {a} | {b}"));
                }
            }
            Some(match bad { None => "ok same".into(), Some(b) => format!("ok differ {b}") })
        }
        "w20_case" => {
            let mut rng = Rng::new(i(t[1]) as u64);
            let all = super::c03::zone_ids();
            let n = (i(t[2]) as usize).min(all.len());
            let names: Vec<String> = (0..n).map(|_| rng.pick(&all).clone()).collect();
            let via = |z: &str, ns: i128, shared: bool| -> String {
                let zdt = match ZonedDateTime::try_new(ns, Calendar::default(), TimeZone::IanaIdentifier(z.to_string())) { Ok(z) => z, Err(e) => return format!("err {}", err_kind(&e)) };
                let r = if shared { zdt.offset() } else { zdt.offset_with_provider(&FsTzdbProvider::default()) };
                match r { Ok(s) => s, Err(e) => format!("err {}", err_kind(&e)) }
            };
            for z in &names {
                let _ = via(z, 0, true);
            }
            let mut bad = None;
            for (k, z) in names.iter().enumerate() {
                let other: String = match k % 3 { 0 => z.to_ascii_lowercase(), 1 => z.to_ascii_uppercase(), _ => z.chars().enumerate().map(|(j, c)| if j % 2 == 0 { c.to_ascii_lowercase() } else { c.to_ascii_uppercase() }).collect() };
                let ns = (k as i128 * 53_000_000 - 700_000_000) * 1_000_000_000;
                let (a, b) = (via(&other, ns, true), via(&other, ns, false));
                if a != b && bad.is_none() {
                    bad = Some(format!("{other}: {a} | {b}"));
                }
            }
            Some(match bad { None => "ok same".into(), Some(b) => format!("ok differ {b}") })
        }
        "w20_fail" => {
            let mut rng = Rng::new(i(t[1]) as u64);
            // a warm-up call, the failing call, then ordinary calls
            let _ = call(&mut rng);
            match t[2] {
                "unknown-zone" => {
                    let z = ZonedDateTime::try_new(0, Calendar::default(), TimeZone::IanaIdentifier("No/Such_Zone".into())).unwrap();
                    let _ = z.hour();
                }
                "out-of-range" => {
                    let z = ZonedDateTime::try_new(8_640_000_000_000_000_000_000, Calendar::default(), TimeZone::try_from_str("Pacific/Apia").unwrap()).unwrap();
                    let du = duration_from(&["0", "0", "0", "1", "0", "0", "0", "0", "0", "0"]).unwrap();
                    let _ = z.add(&du, None);
                }
                _ => {
                    let _ = std::panic::catch_unwind(|| temporal_rs::verif_hooks::panic_holding_tz_provider());
                }
            }
            let mut bad = None;
            for j in 0..10 {
                let (a, b) = call(&mut rng);
                if a != b && bad.is_none() {
                    bad = Some(format!("call {j} after the failing call: {a} | {b}"));
                }
            }
            Some(match bad { None => "ok same".into(), Some(b) => format!("ok differ {b}") })
        }
        "w20_failw" => {
            // every convenience wrapper is made to fail (unknown zone; a result outside the range), one after the
            // other, each followed by ordinary calls: no failure may leave the shared provider unusable
            let mut rng = Rng::new(i(t[1]) as u64);
            let _ = call(&mut rng);
            let bad_zone = t[2] == "unknown-zone";
            let zb = ZonedDateTime::try_new(0, Calendar::default(), TimeZone::IanaIdentifier("No/Such_Zone".into())).unwrap();
            let apia = TimeZone::try_from_str("Pacific/Apia").unwrap();
            let zmax = ZonedDateTime::try_new(8_640_000_000_000_000_000_000, Calendar::default(), apia.clone()).unwrap();
            let zmin = ZonedDateTime::try_new(-8_640_000_000_000_000_000_000, Calendar::default(), TimeZone::try_from_str("America/New_York").unwrap()).unwrap();
            let day = duration_from(&["0", "0", "0", "1", "0", "0", "0", "0", "0", "0"]).unwrap();
            let years = duration_from(&["300000", "0", "0", "0", "0", "0", "0", "0", "0", "0"]).unwrap();
            let mk = || { let mut s = DifferenceSettings::default(); s.largest_unit = Some(Unit::Day); s };
            let r = if bad_zone { &zb } else { &zmax };
            let e = |x: Result<(), temporal_rs::TemporalError>| x.is_err();
            let calls: Vec<(&str, Box<dyn Fn() -> bool + '_>)> = vec![
                ("year", Box::new(|| e(r.year().map(|_| ())))), ("month", Box::new(|| e(r.month().map(|_| ())))),
                ("month_code", Box::new(|| e(r.month_code().map(|_| ())))), ("day", Box::new(|| e(r.day().map(|_| ())))),
                ("hour", Box::new(|| e(r.hour().map(|_| ())))), ("minute", Box::new(|| e(r.minute().map(|_| ())))),
                ("second", Box::new(|| e(r.second().map(|_| ())))), ("millisecond", Box::new(|| e(r.millisecond().map(|_| ())))),
                ("microsecond", Box::new(|| e(r.microsecond().map(|_| ())))), ("nanosecond", Box::new(|| e(r.nanosecond().map(|_| ())))),
                ("offset", Box::new(|| e(r.offset().map(|_| ())))), ("offset_nanoseconds", Box::new(|| e(r.offset_nanoseconds().map(|_| ())))),
                ("era", Box::new(|| e(r.era().map(|_| ())))), ("era_year", Box::new(|| e(r.era_year().map(|_| ())))),
                ("day_of_week", Box::new(|| e(r.day_of_week().map(|_| ())))), ("day_of_year", Box::new(|| e(r.day_of_year().map(|_| ())))),
                ("week_of_year", Box::new(|| e(r.week_of_year().map(|_| ())))), ("year_of_week", Box::new(|| e(r.year_of_week().map(|_| ())))),
                ("days_in_week", Box::new(|| e(r.days_in_week().map(|_| ())))), ("days_in_month", Box::new(|| e(r.days_in_month().map(|_| ())))),
                ("days_in_year", Box::new(|| e(r.days_in_year().map(|_| ())))), ("months_in_year", Box::new(|| e(r.months_in_year().map(|_| ())))),
                ("in_leap_year", Box::new(|| e(r.in_leap_year().map(|_| ())))), ("hours_in_day", Box::new(|| e(r.hours_in_day().map(|_| ())))),
                ("get_time_zone_transition", Box::new(|| e(r.get_time_zone_transition(temporal_rs::provider::TransitionDirection::Next).map(|_| ())))),
                ("with_plain_time", Box::new(|| e(r.with_plain_time(temporal_rs::PlainTime::default()).map(|_| ())))),
                ("add", Box::new(|| e(r.add(&day, None).map(|_| ())))),
                ("add-far", Box::new(|| e(r.add(&years, None).map(|_| ())))),
                ("subtract", Box::new(|| e((if bad_zone { &zb } else { &zmin }).subtract(&day, None).map(|_| ())))),
                ("subtract-far", Box::new(|| e((if bad_zone { &zb } else { &zmin }).subtract(&years, None).map(|_| ())))),
                ("since", Box::new(|| e(r.since(&zmin, mk()).map(|_| ())))), ("until", Box::new(|| e(r.until(&zmin, mk()).map(|_| ())))),
                ("start_of_day", Box::new(|| e((if bad_zone { &zb } else { &zmin }).start_of_day().map(|_| ())))),
                ("to_plain_date", Box::new(|| e(r.to_plain_date().map(|_| ())))), ("to_plain_time", Box::new(|| e(r.to_plain_time().map(|_| ())))),
                ("to_plain_datetime", Box::new(|| e(r.to_plain_datetime().map(|_| ())))),
                ("to_ixdtf_string", Box::new(|| e(r.to_ixdtf_string(temporal_rs::options::DisplayOffset::Auto, temporal_rs::options::DisplayTimeZone::Auto, temporal_rs::options::DisplayCalendar::Auto, Default::default()).map(|_| ())))),
                ("from_str", Box::new(|| e(ZonedDateTime::from_str(if bad_zone { "2020-01-01T00:00[No/Such_Zone]" } else { "+275760-09-13T23:59:59[Pacific/Apia]" }, Default::default(), temporal_rs::options::OffsetDisambiguation::Reject).map(|_| ())))),
                ("display", Box::new(|| { let _ = std::panic::catch_unwind(|| r.to_string()); true })),
            ];
            let mut bad = None;
            let mut failed = 0;
            for (name, f) in &calls {
                if f() { failed += 1; }
                for j in 0..2 {
                    let (a, b) = call(&mut rng);
                    if a != b && bad.is_none() {
                        bad = Some(format!("call {j} after a failing {name}: {a} | {b}"));
                    }
                }
            }
            // the test is only meaningful if the calls did fail: nearly all with an unknown zone, the arithmetic and
            // parsing ones with an out-of-range result
            let enough = if bad_zone { failed * 4 >= calls.len() * 3 } else { failed >= 5 };
            Some(match bad {
                None if enough => "ok same".into(),
                None => format!("ok differ only {failed} of {} calls failed", calls.len()),
                Some(b) => format!("ok differ {b}"),
            })
        }
        _ => None,
    }
}
