//! C20: the process-wide provider behind the convenience API under concurrency and after failing calls.
//!   w20_conc <seed> <threads> <calls>   N threads issue mixed convenience calls at once; every result must equal the
//!                                        result of the same call made alone (its *_with_provider twin, fresh provider)
//!   w20_fail <seed> <kind>               a failing call (unknown zone / out-of-range / panic while holding the provider
//!                                        lock, injected through the verif_hooks feature), then ordinary calls
//!   w20_many <seed> <n>                  n distinct zones go through the shared provider (from several threads), then
//!                                        each is queried again: every answer must be the one a fresh provider gives
//!   w20_case <seed> <n>                  n zones are used under their canonical names, then each is requested under a
//!                                        re-cased spelling: the shared provider must answer what a fresh one answers
//! Outcome `ok same` / `ok differ …`; a deadlock shows as `timeout` (the suite runs under the watchdog).
use crate::common::*;
use std::sync::{Arc, Barrier};
use temporal_rs::options::{DifferenceSettings, Unit};
use temporal_rs::tzdb::FsTzdbProvider;
use temporal_rs::{Calendar, TimeZone, ZonedDateTime};

const ZONES: [&str; 16] = [
    "UTC", "America/New_York", "Europe/London", "Australia/Lord_Howe", "Asia/Kolkata", "Pacific/Apia", "Africa/Monrovia",
    "America/St_Johns", "Asia/Tehran", "Europe/Dublin", "America/Sao_Paulo", "Asia/Tokyo", "Africa/Cairo", "Pacific/Chatham",
    "America/Anchorage", "Europe/Moscow",
];

pub fn generate(rng: &mut Rng, thorough: bool) -> Vec<String> {
    let mut v = Vec::new();
    let n = if thorough { 300 } else { 40 };
    for _ in 0..n {
        v.push(format!("w20_conc {} {} {}", rng.next() % 1_000_000, *rng.pick(&[2u32, 4, 8, 16]), *rng.pick(&[5u32, 20, 60])));
    }
    for _ in 0..(if thorough { 10 } else { 3 }) {
        v.push(format!("w20_many {} {}", rng.next() % 1_000_000, *rng.pick(&[40u32, 70, 100, 140])));
    }
    for _ in 0..(if thorough { 10 } else { 3 }) {
        v.push(format!("w20_case {} {}", rng.next() % 1_000_000, *rng.pick(&[5u32, 12, 30])));
    }
    for k in 0..(if thorough { 60 } else { 12 }) {
        v.push(format!("w20_fail {} {}", rng.next() % 1_000_000, ["unknown-zone", "out-of-range", "panic-holding-lock"][k % 3]));
    }
    v
}

/// One call of the menu: (wrapper result, result alone).
fn call(rng: &mut Rng) -> (String, String) {
    let z = TimeZone::try_from_str(*rng.pick(&ZONES)).unwrap();
    let ns = rng.range(-2_000_000_000, 4_000_000_000) * 1_000_000_000 + rng.range(0, 999_999_999);
    let zdt = ZonedDateTime::try_new(ns, Calendar::default(), z.clone()).unwrap();
    let p = FsTzdbProvider::default();
    let f = |r: Result<String, temporal_rs::TemporalError>| match r { Ok(s) => s, Err(e) => format!("err {}", err_kind(&e)) };
    match rng.below(6) {
        0 => (f(zdt.hour().map(|x| x.to_string())), f(zdt.hour_with_provider(&p).map(|x| x.to_string()))),
        1 => (f(zdt.offset()), f(zdt.offset_with_provider(&p))),
        2 => (f(zdt.start_of_day().map(|x| x.epoch_nanoseconds().as_i128().to_string())), f(zdt.start_of_day_with_provider(&p).map(|x| x.epoch_nanoseconds().as_i128().to_string()))),
        3 => (f(zdt.to_plain_datetime().map(|x| format!("{x:?}"))), f(zdt.to_plain_datetime_with_provider(&p).map(|x| format!("{x:?}")))),
        4 => {
            let other = ZonedDateTime::try_new(ns + rng.range(-1000, 1000) * 86_400_000_000_000, Calendar::default(), z).unwrap();
            let mk = || { let mut s = DifferenceSettings::default(); s.largest_unit = Some(Unit::Day); s };
            (f(zdt.until(&other, mk()).map(|d| format!("{d:?}"))), f(zdt.until_with_provider(&other, mk(), &p).map(|d| format!("{d:?}"))))
        }
        _ => (zdt.to_string(), f(zdt.to_string_with_provider(&p))),
    }
}

pub fn eval(t: &[&str]) -> Option<String> {
    match t[0] {
        "w20_conc" => {
            let seed = i(t[1]) as u64;
            let threads = i(t[2]) as usize;
            let calls = i(t[3]) as usize;
            let barrier = Arc::new(Barrier::new(threads));
            let handles: Vec<_> = (0..threads)
                .map(|k| {
                    let b = barrier.clone();
                    std::thread::spawn(move || {
                        let mut rng = Rng::new(seed * 1000 + k as u64);
                        b.wait();
                        (0..calls).map(|_| call(&mut rng)).collect::<Vec<_>>()
                    })
                })
                .collect();
            let mut bad = None;
            for (k, h) in handles.into_iter().enumerate() {
                match h.join() {
                    Ok(rs) => {
                        for (j, (a, b)) in rs.into_iter().enumerate() {
                            if a != b && bad.is_none() {
                                bad = Some(format!("thread {k} call {j}: {a} | {b}"));
                            }
                        }
                    }
                    Err(_) => bad = bad.or(Some(format!("thread {k} panicked"))),
                }
            }
            Some(match bad { None => "ok same".into(), Some(b) => format!("ok differ {b}") })
        }
        "w20_many" => {
            let mut rng = Rng::new(i(t[1]) as u64);
            let all = super::c03::zone_ids();
            let n = (i(t[2]) as usize).min(all.len());
            let mut names: Vec<String> = Vec::new();
            while names.len() < n {
                let c = rng.pick(&all).clone();
                if !names.contains(&c) { names.push(c); }
            }
            let names = Arc::new(names);
            let ns_of = |k: usize| (k as i128 * 41_000_000 - 900_000_000) * 1_000_000_000;
            let shared = |z: &str, ns: i128| -> String {
                match TimeZone::try_from_str(z).and_then(|tz| ZonedDateTime::try_new(ns, Calendar::default(), tz)) {
                    Ok(zdt) => match zdt.offset() { Ok(s) => s, Err(e) => format!("err {}", err_kind(&e)) },
                    Err(e) => format!("err {}", err_kind(&e)),
                }
            };
            let alone = |z: &str, ns: i128| -> String {
                let p = FsTzdbProvider::default();
                match TimeZone::try_from_str(z).and_then(|tz| ZonedDateTime::try_new(ns, Calendar::default(), tz)) {
                    Ok(zdt) => match zdt.offset_with_provider(&p) { Ok(s) => s, Err(e) => format!("err {}", err_kind(&e)) },
                    Err(e) => format!("err {}", err_kind(&e)),
                }
            };
            // first pass from four threads at once
            let handles: Vec<_> = (0..4usize)
                .map(|th| {
                    let names = names.clone();
                    std::thread::spawn(move || {
                        for (k, z) in names.iter().enumerate() {
                            if k % 4 == th {
                                let _ = match TimeZone::try_from_str(z).and_then(|tz| ZonedDateTime::try_new(0, Calendar::default(), tz)) { Ok(zdt) => zdt.offset().ok(), Err(_) => None };
                            }
                        }
                    })
                })
                .collect();
            for h in handles { let _ = h.join(); }
            let mut bad = None;
            for (k, z) in names.iter().enumerate() {
                let (a, b) = (shared(z, ns_of(k)), alone(z, ns_of(k)));
                if a != b && bad.is_none() {
                    bad = Some(format!("{z}: {a} | {b}"));
                }
            }
            Some(match bad { None => "ok same".into(), Some(b) => format!("ok differ {b}") })
        }
        "w20_case" => {
            let mut rng = Rng::new(i(t[1]) as u64);
            let all = super::c03::zone_ids();
            let n = (i(t[2]) as usize).min(all.len());
            let names: Vec<String> = (0..n).map(|_| rng.pick(&all).clone()).collect();
            let via = |z: &str, ns: i128, shared: bool| -> String {
                let zdt = match ZonedDateTime::try_new(ns, Calendar::default(), TimeZone::IanaIdentifier(z.to_string())) { Ok(z) => z, Err(e) => return format!("err {}", err_kind(&e)) };
                let r = if shared { zdt.offset() } else { zdt.offset_with_provider(&FsTzdbProvider::default()) };
                match r { Ok(s) => s, Err(e) => format!("err {}", err_kind(&e)) }
            };
            for z in &names {
                let _ = via(z, 0, true);
            }
            let mut bad = None;
            for (k, z) in names.iter().enumerate() {
                let other: String = match k % 3 { 0 => z.to_ascii_lowercase(), 1 => z.to_ascii_uppercase(), _ => z.chars().enumerate().map(|(j, c)| if j % 2 == 0 { c.to_ascii_lowercase() } else { c.to_ascii_uppercase() }).collect() };
                let ns = (k as i128 * 53_000_000 - 700_000_000) * 1_000_000_000;
                let (a, b) = (via(&other, ns, true), via(&other, ns, false));
                if a != b && bad.is_none() {
                    bad = Some(format!("{other}: {a} | {b}"));
                }
            }
            Some(match bad { None => "ok same".into(), Some(b) => format!("ok differ {b}") })
        }
        "w20_fail" => {
            let mut rng = Rng::new(i(t[1]) as u64);
            // a warm-up call, the failing call, then ordinary calls
            let _ = call(&mut rng);
            match t[2] {
                "unknown-zone" => {
                    let z = ZonedDateTime::try_new(0, Calendar::default(), TimeZone::IanaIdentifier("No/Such_Zone".into())).unwrap();
                    let _ = z.hour();
                }
                "out-of-range" => {
                    let z = ZonedDateTime::try_new(8_640_000_000_000_000_000_000, Calendar::default(), TimeZone::try_from_str("Pacific/Apia").unwrap()).unwrap();
                    let du = duration_from(&["0", "0", "0", "1", "0", "0", "0", "0", "0", "0"]).unwrap();
                    let _ = z.add(&du, None);
                }
                _ => {
                    let _ = std::panic::catch_unwind(|| temporal_rs::verif_hooks::panic_holding_tz_provider());
                }
            }
            let mut bad = None;
            for j in 0..10 {
                let (a, b) = call(&mut rng);
                if a != b && bad.is_none() {
                    bad = Some(format!("call {j} after the failing call: {a} | {b}"));
                }
            }
            Some(match bad { None => "ok same".into(), Some(b) => format!("ok differ {b}") })
        }
        _ => None,
    }
}
