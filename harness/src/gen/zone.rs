//! C13 / C14: wall-clock <-> instant conversion and ZonedDateTime arithmetic over fixed offsets and *synthetic*
//! zones (arbitrary transition tables served by a provider written here), so that the core's logic is exercised
//! independently of the bundled tzdb provider (that one is C15).
//!
//! Zone syntax in op lines:   o:<minutes>            fixed offset
//!                            z:<init>;<T>,<off>;…   synthetic zone, seconds; T strictly increasing
use crate::common::*;
use temporal_rs::iso::IsoDateTime;
use temporal_rs::options::{RelativeTo, ArithmeticOverflow, DifferenceSettings, Disambiguation, OffsetDisambiguation, RoundingIncrement};
use temporal_rs::partial::{PartialDate, PartialTime, PartialZonedDateTime};
use temporal_rs::provider::{TimeZoneOffset, TimeZoneProvider, TransitionDirection};
use temporal_rs::time::EpochNanoseconds;
use temporal_rs::{Calendar, PlainDate, PlainDateTime, PlainTime, TemporalError, TemporalResult, TimeZone, UtcOffset, ZonedDateTime};

#[derive(Clone, Debug)]
pub struct SynZone {
    pub initial: i64,
    pub trans: Vec<(i64, i64)>,
}

impl SynZone {
    pub fn parse(s: &str) -> SynZone {
        let mut it = s.split(';');
        let initial = it.next().unwrap().parse().unwrap();
        let trans = it
            .filter(|x| !x.is_empty())
            .map(|x| {
                let (a, b) = x.split_once(',').unwrap();
                (a.parse().unwrap(), b.parse().unwrap())
            })
            .collect();
        SynZone { initial, trans }
    }
    pub fn lookup(&self, t: i64) -> (i64, Option<i64>) {
        let mut cur = (self.initial, None);
        for &(tt, off) in &self.trans {
            if tt <= t {
                cur = (off, Some(tt));
            }
        }
        cur
    }
    /// instants (ns) whose wall-clock reading is `local_ns` (the date-time read as UTC), ascending
    pub fn possible(&self, local_ns: i128) -> Vec<i128> {
        let mut offs: Vec<i64> = vec![self.initial];
        offs.extend(self.trans.iter().map(|x| x.1));
        let mut seen = Vec::new();
        let mut out = Vec::new();
        for o in offs {
            if seen.contains(&o) {
                continue;
            }
            seen.push(o);
            let t = local_ns - (o as i128) * 1_000_000_000;
            if self.lookup(t.div_euclid(1_000_000_000) as i64).0 == o {
                out.push(t);
            }
        }
        out.sort();
        out
    }
}

/// The provider: every identifier denotes the one zone it was built with.
pub struct SynProvider(pub SynZone);

fn local_ns(dt: &IsoDateTime) -> i128 {
    let days = temporal_rs::verif_hooks::epoch_days_from_gregorian_date(dt.date.year, dt.date.month, dt.date.day) as i128;
    let t = &dt.time;
    days * 86_400_000_000_000
        + ((((t.hour as i128 * 60 + t.minute as i128) * 60 + t.second as i128) * 1000 + t.millisecond as i128) * 1000
            + t.microsecond as i128)
            * 1000
        + t.nanosecond as i128
}

impl TimeZoneProvider for SynProvider {
    fn check_identifier(&self, _: &str) -> bool {
        true
    }
    fn get_named_tz_epoch_nanoseconds(&self, _: &str, local: IsoDateTime) -> TemporalResult<Vec<EpochNanoseconds>> {
        self.0.possible(local_ns(&local)).into_iter().map(EpochNanoseconds::try_from).collect()
    }
    fn get_named_tz_offset_nanoseconds(&self, _: &str, ns: i128) -> TemporalResult<TimeZoneOffset> {
        let (offset, tr) = self.0.lookup(ns.div_euclid(1_000_000_000) as i64);
        Ok(TimeZoneOffset { transition_epoch: tr, offset })
    }
    fn get_named_tz_transition(&self, _: &str, _: i128, _: TransitionDirection) -> TemporalResult<Option<EpochNanoseconds>> {
        Err(TemporalError::general("not implemented"))
    }
}

pub fn zone_of(s: &str) -> (TimeZone, SynProvider) {
    if let Some(m) = s.strip_prefix("o:") {
        let m: i16 = m.parse().unwrap();
        let sign = if m < 0 { '-' } else { '+' };
        let tz = TimeZone::try_from_str(&format!("{sign}{:02}:{:02}", m.abs() / 60, m.abs() % 60)).unwrap();
        (tz, SynProvider(SynZone { initial: 0, trans: vec![] }))
    } else if let Some(z) = s.strip_prefix("z:") {
        (TimeZone::IanaIdentifier("Syn/Zone".to_string()), SynProvider(SynZone::parse(z)))
    } else {
        panic!("bad zone {s}")
    }
}

pub fn disamb(s: &str) -> Disambiguation {
    match s {
        "compatible" => Disambiguation::Compatible,
        "earlier" => Disambiguation::Earlier,
        "later" => Disambiguation::Later,
        "reject" => Disambiguation::Reject,
        _ => panic!("bad disambiguation {s}"),
    }
}
pub fn offopt(s: &str) -> OffsetDisambiguation {
    match s {
        "use" => OffsetDisambiguation::Use,
        "prefer" => OffsetDisambiguation::Prefer,
        "ignore" => OffsetDisambiguation::Ignore,
        "reject" => OffsetDisambiguation::Reject,
        _ => panic!("bad offset option {s}"),
    }
}

const DAY: i128 = 86_400_000_000_000;
const MAXI: i128 = 8_640_000_000_000_000_000_000;

fn rand_zone(rng: &mut Rng) -> (String, Vec<i64>) {
    if rng.chance(1, 5) {
        let m = *rng.pick(&[0i128, 60, -60, 330, 345, -210, 840, -720, 1, -1, 1439, -1439, 754]);
        return (format!("o:{m}"), vec![]);
    }
    // includes offsets exactly half a minute past the minute, both signs (minute matching of explicit offsets)
    let offs: [i64; 28] = [0, 3600, -3600, 7200, -18000, -14400, 19800, 20700, 34200, 37800, 39600, 50400, -43200, -39600, 1, -1, 59, 3599, 86399, -86399, 13 * 3600 + 17 * 60 + 41, -(3 * 3600 + 41 * 60 + 12), -2670, 2670, -18030, 34230, -30, 30];
    let n = rng.below(7);
    let mut t: i64 = *rng.pick(&[-2_000_000_000i64, 0, 946_684_800, 1_500_000_000, -60_000_000_000, 100_000_000_000]) + rng.range(-500_000, 500_000) as i64;
    let mut cur = *rng.pick(&offs);
    let mut s = format!("z:{cur}");
    let mut ts = Vec::new();
    for _ in 0..n {
        // spacing: hours (irregular), half a year, years
        t += match rng.below(6) {
            0 => rng.range(1, 7200) as i64,
            1 => rng.range(3600, 90_000) as i64,
            2 | 3 => rng.range(10_000_000, 18_000_000) as i64,
            _ => rng.range(30_000_000, 300_000_000) as i64,
        };
        // change: minutes … more than a day, both directions
        let nxt = match rng.below(6) {
            0 => cur + *rng.pick(&[3600i64, -3600, 1800, -1800, 60, -60, 1, -1]),
            1 => cur + *rng.pick(&[7200i64, -7200, 10800, -10800, 14400, -14400]),
            2 => cur + *rng.pick(&[86400i64, -86400, 90000, -90000, 82800, -82800]),
            _ => *rng.pick(&offs),
        }
        .clamp(-86399, 86399);
        if nxt == cur {
            continue;
        }
        s.push_str(&format!(";{t},{nxt}"));
        ts.push(t);
        cur = nxt;
    }
    (s, ts)
}

fn tod(ns: i128) -> String {
    let (h, mi, s, ms, us, n) = super::c07::split_ns(ns);
    format!("{h} {mi} {s} {ms} {us} {n}")
}
fn ymd(day: i128) -> (i128, i128, i128) {
    let (y, m, d) = temporal_rs::verif_hooks::ymd_from_epoch_milliseconds((day * 86_400_000) as i64);
    (y as i128, m as i128, d as i128)
}

/// an instant near one of the zone's transitions, or anywhere
fn rand_instant(rng: &mut Rng, ts: &[i64]) -> i128 {
    if !ts.is_empty() && rng.chance(3, 4) {
        let t = *rng.pick(ts) as i128 * 1_000_000_000;
        t + match rng.below(6) {
            0 => 0,
            1 => -1,
            2 => rng.range(-3_600_000_000_000, 3_600_000_000_000),
            3 => rng.range(-DAY, DAY),
            4 => rng.range(-2 * DAY, 2 * DAY),
            _ => rng.range(-40 * DAY, 40 * DAY),
        }
    } else {
        match rng.below(8) {
            0 => MAXI - rng.range(0, 2 * DAY),
            1 => -MAXI + rng.range(0, 2 * DAY),
            2 => rng.range(-MAXI, MAXI),
            _ => rng.range(-4_000_000_000, 5_000_000_000) * 1_000_000_000 + rng.range(0, 999_999_999),
        }
    }
}

/// a wall-clock date-time near a transition's local images (gaps and overlaps), or anywhere
fn rand_local(rng: &mut Rng, zone: &str, ts: &[i64]) -> (i128, i128) {
    let ins = rand_instant(rng, ts);
    // shift by one of the zone's plausible offsets so that gap / overlap readings are hit
    let off = if let Some(z) = zone.strip_prefix("z:") {
        let sz = SynZone::parse(z);
        let mut offs = vec![sz.initial];
        offs.extend(sz.trans.iter().map(|x| x.1));
        *rng.pick(&offs) as i128
    } else {
        0
    } * 1_000_000_000;
    let local = (ins + off).clamp(-MAXI - DAY + 1, MAXI + DAY - 1);
    (local.div_euclid(DAY), local.rem_euclid(DAY))
}

pub fn generate_c13(rng: &mut Rng, thorough: bool) -> Vec<String> {
    let mut v = Vec::new();
    let n = if thorough { 60_000 } else { 6_000 };
    let dis = ["compatible", "earlier", "later", "reject"];
    let oos = ["use", "prefer", "ignore", "reject"];
    for _ in 0..n {
        let (z, ts) = rand_zone(rng);
        for _ in 0..3 {
            let ins = rand_instant(rng, &ts);
            v.push(format!("tz_wall {z} {ins}"));
            v.push(format!("tz_conv {z} {ins}"));
        }
        if let Some(zz) = z.strip_prefix("z:") {
            // the midnights around the local images of each transition: a gap or an overlap may straddle one
            let sz = SynZone::parse(zz);
            let mut prev = sz.initial;
            for (t, off) in sz.trans.iter() {
                for loc in [*t as i128 + prev as i128, *t as i128 + *off as i128] {
                    let d = loc.div_euclid(86_400);
                    for dd in [d, d + 1] {
                        if dd.abs() < 100_000_000 && rng.chance(1, 2) {
                            let (y, m, day) = ymd(dd);
                            v.push(format!("tz_pdat {z} {y} {m} {day} 0 0 0 0 0 0"));
                            v.push(format!("tz_sod {z} {y} {m} {day}"));
                        }
                    }
                }
                prev = *off;
            }
        }
        for _ in 0..3 {
            let (d, t) = rand_local(rng, &z, &ts);
            let (y, m, dd) = ymd(d);
            for dz in dis {
                v.push(format!("tz_inst {z} {y} {m} {dd} {} {dz}", tod(t)));
            }
            v.push(format!("tz_sod {z} {y} {m} {dd}"));
            // PlainDate -> ZonedDateTime with an explicit time of day (midnight given explicitly is not "no time")
            let given = match rng.below(4) { 0 => 0, 1 => t, 2 => 1, _ => DAY - 1 };
            v.push(format!("tz_pdat {z} {y} {m} {dd} {}", tod(given)));
            // partial record / string route with an explicit offset or Z
            let off: String = match rng.below(6) {
                0 => "-".into(),
                1 => "Z".into(),
                _ => {
                    // the offset of one of the candidates, a minute-rounded variant, or a wrong one
                    let base = if let Some(zz) = z.strip_prefix("z:") {
                        let sz = SynZone::parse(zz);
                        let mut offs = vec![sz.initial];
                        offs.extend(sz.trans.iter().map(|x| x.1));
                        *rng.pick(&offs) as i128
                    } else {
                        z[2..].parse::<i128>().unwrap() * 60
                    };
                    let o = match rng.below(5) {
                        0 => base,
                        1 => (base as f64 / 60.0).round() as i128 * 60,
                        2 => base + 60,
                        3 => base.div_euclid(60) * 60,
                        _ => *rng.pick(&[0i128, 3600, -3600, 19800]),
                    };
                    (o.clamp(-86_399, 86_399) * 1_000_000_000).to_string()
                }
            };
            let timepart = if rng.chance(1, 8) { "- - - - - -".to_string() } else { tod(t) };
            for _ in 0..2 {
                v.push(format!("tz_str {z} {y} {m} {dd} {timepart} {off} {} {}", rng.pick(&dis), rng.pick(&oos)));
            }
            v.push(format!("tz_rel {z} {y} {m} {dd} {timepart} {off} {} -", if rng.chance(1, 5) { "plain" } else { "zoned" }));
            if off != "Z" {
                // a partial record carries whole minutes only
                let offp = if off == "-" { off.clone() } else {
                    ((off.parse::<i128>().unwrap().div_euclid(60_000_000_000)).clamp(-1439, 1439) * 60_000_000_000).to_string()
                };
                v.push(format!("tz_partial {z} {y} {m} {dd} {timepart} {offp} {} {}", rng.pick(&dis), rng.pick(&oos)));
            }
        }
    }
    v
}

pub fn generate_c14(rng: &mut Rng, thorough: bool) -> Vec<String> {
    let mut v = Vec::new();
    let n = if thorough { 40_000 } else { 5_000 };
    let largest = ["year", "month", "week", "day", "hour", "minute", "second", "nanosecond", "-"];
    // zones that skip a whole calendar day (the clocks jump forward by 24 h or more, as Pacific/Apia did at the end
    // of 2011): differences across the skipped day, in both directions, rounded to days, weeks, months - a bracket end
    // that falls into the skipped day resolves to the same instant as the other end
    for _ in 0..(if thorough { 1500 } else { 250 }) {
        let init = *rng.pick(&[-43_200i64, -39_600, -36_000, -34_200, 0]);
        let jump = *rng.pick(&[86_400i64, 86_400, 90_000, 88_200, 172_800 / 2 + 1800]);
        let t = rng.range(-2_000_000_000, 4_000_000_000) as i64;
        let z = format!("z:{init};{t},{}", (init + jump).min(86_399));
        let tn = t as i128 * 1_000_000_000;
        for _ in 0..3 {
            let after = tn + rng.range(0, 3 * DAY);
            let before = tn - rng.range(1, 3 * DAY);
            let (su, dl) = *rng.pick(&[("day", "day"), ("day", "week"), ("day", "month"), ("week", "week"), ("day", "year"), ("hour", "day")]);
            let md = *rng.pick(&MODES);
            for (x, y) in [(after, before), (before, after)] {
                v.push(format!("zdt_until {z} {x} {y} {dl} {su} 1 {md}"));
                v.push(format!("zdt_since {z} {x} {y} {dl} {su} 1 {md}"));
            }
            v.push(format!("zdt_law {z} {after} {before} day"));
            // both values after the jump, one to two days past it and less than that apart: going back from the
            // later one, the end of the day bracket falls into the skipped day and resolves to the instant of its start
            let r1 = rng.range(0, DAY - 1);
            let x = tn + DAY + r1;
            let y = tn + rng.range(0, r1.max(1));
            for (p, q) in [(x, y), (y, x)] {
                v.push(format!("zdt_until {z} {p} {q} {dl} {su} 1 {md}"));
                v.push(format!("zdt_since {z} {p} {q} {dl} {su} 1 {md}"));
            }
        }
    }
    for _ in 0..n {
        let (z, ts) = rand_zone(rng);
        for _ in 0..3 {
            let a = rand_instant(rng, &ts);
            let b = match rng.below(4) {
                0 => a + rng.range(-3 * DAY, 3 * DAY),
                1 => a + rng.range(-400 * DAY, 400 * DAY),
                _ => rand_instant(rng, &ts),
            }
            .clamp(-MAXI, MAXI);
            // durations: date part, time part, both; both signs
            let sg = if rng.chance(1, 2) { 1 } else { -1 };
            let mut f = [0i128; 10];
            if rng.chance(2, 3) {
                f[0] = sg * *rng.pick(&[0i128, 0, 1, 2, 100]);
                f[1] = sg * *rng.pick(&[0i128, 0, 1, 6, 13]);
                f[2] = sg * *rng.pick(&[0i128, 0, 1, 5]);
                f[3] = sg * *rng.pick(&[0i128, 1, 1, 2, 30, 366]);
            }
            if rng.chance(2, 3) {
                f[4] = sg * *rng.pick(&[0i128, 1, 23, 24, 25, 48, 1000]);
                f[5] = sg * *rng.pick(&[0i128, 0, 30, 90]);
                f[9] = sg * *rng.pick(&[0i128, 0, 1, 999_999_999]);
            }
            let dus = f.iter().map(|x| x.to_string()).collect::<Vec<_>>().join(" ");
            let ov = rng.pick(&["constrain", "reject"]);
            v.push(format!("zdt_add {z} {a} {dus} {ov}"));
            v.push(format!("zdt_sub {z} {a} {dus} {ov}"));
            let l = rng.pick(&largest);
            v.push(format!("zdt_until {z} {a} {b} {l} - - -"));
            // the other value in another zone: the same instant, a neighbour, anything - with a date largest unit a
            // RangeError whatever the instants, with a time largest unit the exact difference
            if rng.chance(1, 3) {
                let z2 = format!("o:{}", rng.pick(&[0i64, 60, -60, 330, -720, 1439]));
                let b2 = match rng.below(3) { 0 => a, 1 => a + rng.range(-2, 2), _ => b };
                let op = if rng.chance(1, 2) { "zdt_until2" } else { "zdt_since2" };
                if z2 != z {
                    v.push(format!("{op} {z} {z2} {a} {b2} {l} - - -"));
                    v.push(format!("{op} {z2} {z} {a} {b2} {} - - -", rng.pick(&["day", "hour", "year", "-", "week", "second"])));
                }
            }
            v.push(format!("zdt_since {z} {a} {b} {l} - - -"));
            // the inverse law is stated for date largest units (time units are exact differences, C06)
            v.push(format!("zdt_law {z} {a} {b} {}", rng.pick(&["year", "month", "week", "day"])));
            // time largest unit with rounding
            let (su, inc) = *rng.pick(&[("hour", 1), ("minute", 30), ("second", 1), ("millisecond", 500), ("nanosecond", 1)]);
            v.push(format!("zdt_until {z} {a} {b} hour {su} {inc} {}", rng.pick(&MODES)));
            // date largest unit with rounding: irregular units bracketed in the zone, time units inside the local day
            let dl = *rng.pick(&["year", "month", "week", "day", "day"]);
            let (su, inc): (&str, i128) = match rng.below(8) {
                0 => ("hour", *rng.pick(&[1i128, 2, 3, 6, 12])),
                1 => ("minute", *rng.pick(&[1i128, 15, 30])),
                2 => (*rng.pick(&["second", "millisecond", "microsecond", "nanosecond"]), *rng.pick(&[1i128, 10, 500])),
                3 | 4 => ("day", *rng.pick(&[1i128, 1, 2, 7])),
                _ => (*rng.pick(&["year", "month", "week"]), *rng.pick(&[1i128, 1, 2, 5])),
            };
            let md = *rng.pick(&MODES);
            // near the end of a local day the rounded time spills into the next day
            let b2 = if rng.chance(1, 2) { b } else {
                (a + rng.range(-40, 40) * DAY + *rng.pick(&[-1i128, 1]) * (DAY - rng.range(0, 3_700_000_000_000))).clamp(-MAXI, MAXI)
            };
            v.push(format!("zdt_until {z} {a} {b2} {dl} {su} {inc} {md}"));
            v.push(format!("zdt_since {z} {a} {b2} {dl} {su} {inc} {md}"));
            // Duration round / total / compare relative to a ZonedDateTime
            let mut g = f;
            if rng.chance(1, 2) {
                g[4] = sg * *rng.pick(&[0i128, 5, 23, 24, 47]);
                g[5] = sg * *rng.pick(&[0i128, 29, 30, 59]);
                g[6] = sg * *rng.pick(&[0i128, 30, 59]);
            }
            let gs = g.iter().map(|x| x.to_string()).collect::<Vec<_>>().join(" ");
            let lo = *rng.pick(&["-", "-", "auto", "year", "month", "week", "day", "hour", "minute"]);
            let so = if rng.chance(1, 6) { "-" } else { su };
            let inco = if rng.chance(1, 4) { "-".to_string() } else { inc.to_string() };
            let mo = if rng.chance(1, 6) { "-" } else { md };
            v.push(format!("du_round_z {z} {a} {gs} {lo} {so} {inco} {mo}"));
            v.push(format!("du_zlaw {z} {a} {gs} {}", rng.pick(&["year", "month", "week", "day", "day", "hour", "minute"])));
            v.push(format!("du_total_z {z} {a} {gs} {}", rng.pick(&["year", "month", "week", "day", "hour", "minute", "second", "nanosecond"])));
            let mut h = g;
            match rng.below(4) {
                0 => { h[3] += sg; h[4] -= sg * 24; }
                1 => { h[1] += sg; h[3] -= sg * *rng.pick(&[28i128, 30, 31]); }
                2 => { h[4] += sg * *rng.pick(&[1i128, -1, 24]); }
                _ => { h = [0i128; 10]; h[3] = sg * rng.range(0, 400); h[4] = sg * rng.range(0, 30); }
            }
            if h.iter().any(|x| *x > 0) && h.iter().any(|x| *x < 0) { h = g; h[9] += sg; }
            let hs = h.iter().map(|x| x.to_string()).collect::<Vec<_>>().join(" ");
            v.push(format!("du_cmp_z {z} {a} {gs} {hs}"));
            v.push(format!("zdt_sod {z} {a}"));
            v.push(format!("zdt_hid {z} {a}"));
            v.push(format!("zdt_wpt {z} {a} {}", tod(rng.range(0, DAY - 1))));
        }
    }
    v
}

fn zdt(tz: &TimeZone, ns: i128) -> TemporalResult<ZonedDateTime> {
    ZonedDateTime::try_new(ns, Calendar::default(), tz.clone())
}
fn settings(l: &str, s: &str, inc: &str, m: &str) -> TemporalResult<DifferenceSettings> {
    let mut o = DifferenceSettings::default();
    o.largest_unit = opt_unit(l);
    o.smallest_unit = opt_unit(s);
    o.rounding_mode = opt_mode(m);
    o.increment = if inc == "-" { None } else { Some(RoundingIncrement::try_new(i(inc) as u32)?) };
    Ok(o)
}
fn partial_time(t: &[&str]) -> PartialTime {
    let mut p = PartialTime::default();
    if t[0] != "-" {
        p.hour = Some(i(t[0]) as u8);
        p.minute = Some(i(t[1]) as u8);
        p.second = Some(i(t[2]) as u8);
        p.millisecond = Some(i(t[3]) as u16);
        p.microsecond = Some(i(t[4]) as u16);
        p.nanosecond = Some(i(t[5]) as u16);
    }
    p
}

pub fn eval(t: &[&str]) -> Option<String> {
    match t[0] {
        "tz_wall" => {
            let (tz, p) = zone_of(t[1]);
            let r = zdt(&tz, i(t[2])).and_then(|z| {
                Ok(format!(
                    "{} {} {} {} {} {} {} {} {} {}",
                    z.year_with_provider(&p)?, z.month_with_provider(&p)?, z.day_with_provider(&p)?, z.hour_with_provider(&p)?,
                    z.minute_with_provider(&p)?, z.second_with_provider(&p)?, z.millisecond_with_provider(&p)?,
                    z.microsecond_with_provider(&p)?, z.nanosecond_with_provider(&p)?, z.offset_nanoseconds_with_provider(&p)?
                ))
            });
            Some(render(r, |s| s))
        }
        "tz_conv" => {
            // ZonedDateTime -> PlainDate / PlainTime / PlainDateTime: three separate conversions of one instant
            let (tz, p) = zone_of(t[1]);
            let r = zdt(&tz, i(t[2])).and_then(|z| {
                let d = z.to_plain_date_with_provider(&p)?;
                let tm = z.to_plain_time_with_provider(&p)?;
                let dt = z.to_plain_datetime_with_provider(&p)?;
                Ok(format!(
                    "{} {} {} | {} {} {} {} {} {} | {} {} {} {} {} {} {} {} {}",
                    d.iso_year(), d.iso_month(), d.iso_day(),
                    tm.hour(), tm.minute(), tm.second(), tm.millisecond(), tm.microsecond(), tm.nanosecond(),
                    dt.iso_year(), dt.iso_month(), dt.iso_day(), dt.hour(), dt.minute(), dt.second(), dt.millisecond(), dt.microsecond(), dt.nanosecond()
                ))
            });
            Some(render(r, |s| s))
        }
        "tz_inst" => {
            let (tz, p) = zone_of(t[1]);
            let r = PlainDateTime::try_new(i(t[2]) as i32, i(t[3]) as u8, i(t[4]) as u8, i(t[5]) as u8, i(t[6]) as u8, i(t[7]) as u8, i(t[8]) as u16, i(t[9]) as u16, i(t[10]) as u16, Calendar::default())
                .and_then(|dt| dt.to_zoned_date_time_with_provider(&tz, disamb(t[11]), &p));
            Some(render(r, |z| z.epoch_nanoseconds().as_i128().to_string()))
        }
        "tz_sod" => {
            let (tz, p) = zone_of(t[1]);
            let r = PlainDate::try_new(i(t[2]) as i32, i(t[3]) as u8, i(t[4]) as u8, Calendar::default())
                .and_then(|d| d.to_zoned_date_time_with_provider(tz.clone(), None, &p));
            Some(render(r, |z| z.epoch_nanoseconds().as_i128().to_string()))
        }
        "tz_pdat" => {
            let (tz, p) = zone_of(t[1]);
            let r = PlainDate::try_new(i(t[2]) as i32, i(t[3]) as u8, i(t[4]) as u8, Calendar::default()).and_then(|d| {
                let time = temporal_rs::PlainTime::try_new(i(t[5]) as u8, i(t[6]) as u8, i(t[7]) as u8, i(t[8]) as u16, i(t[9]) as u16, i(t[10]) as u16)?;
                d.to_zoned_date_time_with_provider(tz.clone(), Some(time), &p)
            });
            Some(render(r, |z| z.epoch_nanoseconds().as_i128().to_string()))
        }
        "tz_partial" => {
            // tz_partial zone y m d h mi s ms us ns off disamb offopt
            let (tz, p) = zone_of(t[1]);
            let mut pd = PartialDate::default();
            pd.year = Some(i(t[2]) as i32);
            pd.month = Some(i(t[3]) as u8);
            pd.day = Some(i(t[4]) as u8);
            let pt = partial_time(&t[5..11]);
            let off = if t[11] == "-" { None } else {
                // only whole minutes are expressible
                let ns = i(t[11]);
                let m = ns.div_euclid(60_000_000_000);
                let s = if m < 0 { '-' } else { '+' };
                std::str::FromStr::from_str(&format!("{s}{:02}:{:02}", m.abs() / 60, m.abs() % 60)).ok()
            };
            let off: Option<UtcOffset> = off;
            let partial = PartialZonedDateTime::new().with_date(pd).with_time(pt).with_offset(off).with_timezone(Some(tz));
            let r = ZonedDateTime::from_partial_with_provider(partial, Some(ArithmeticOverflow::Reject), Some(disamb(t[12])), Some(offopt(t[13])), &p);
            Some(render(r, |z| z.epoch_nanoseconds().as_i128().to_string()))
        }
        "tz_str" | "tz_rel" => {
            // tz_str zone y m d h mi s ms us ns off disamb offopt  → formats an RFC 9557 string
            let (tz, p) = zone_of(t[1]);
            let y = i(t[2]);
            let ys = if (0..=9999).contains(&y) { format!("{y:04}") } else { format!("{}{:06}", if y < 0 { '-' } else { '+' }, y.abs()) };
            let mut s = format!("{ys}-{:02}-{:02}", i(t[3]), i(t[4]));
            if t[5] != "-" {
                s.push_str(&format!("T{:02}:{:02}:{:02}.{:03}{:03}{:03}", i(t[5]), i(t[6]), i(t[7]), i(t[8]), i(t[9]), i(t[10])));
                if t[11] == "Z" {
                    s.push('Z');
                } else if t[11] != "-" {
                    let ns = i(t[11]);
                    let a = ns.abs();
                    s.push_str(&format!("{}{:02}:{:02}:{:02}.{:09}", if ns < 0 { '-' } else { '+' }, a / 3_600_000_000_000, a / 60_000_000_000 % 60, a / 1_000_000_000 % 60, a % 1_000_000_000));
                }
            }
            let id = tz.identifier().unwrap();
            if t[0] == "tz_rel" {
                // RelativeTo::try_from_str: a zoned string (compatible, offset must match) or, without an annotation,
                // a plain date
                if t[12] == "plain" {
                    let r = RelativeTo::try_from_str_with_provider(&s, &p);
                    return Some(render(r, |x| match x {
                        RelativeTo::PlainDate(d) => format!("plain {} {} {}", d.iso_year(), d.iso_month(), d.iso_day()),
                        RelativeTo::ZonedDateTime(z) => format!("zoned {}", z.epoch_nanoseconds().as_i128()),
                    }));
                }
                s.push_str(&format!("[{id}]"));
                let r = RelativeTo::try_from_str_with_provider(&s, &p);
                return Some(render(r, |x| match x {
                    RelativeTo::PlainDate(d) => format!("plain {} {} {}", d.iso_year(), d.iso_month(), d.iso_day()),
                    RelativeTo::ZonedDateTime(z) => format!("zoned {}", z.epoch_nanoseconds().as_i128()),
                }));
            }
            s.push_str(&format!("[{id}]"));
            let r = ZonedDateTime::from_str_with_provider(&s, disamb(t[12]), offopt(t[13]), &p);
            Some(render(r, |z| z.epoch_nanoseconds().as_i128().to_string()))
        }
        "zdt_add" | "zdt_sub" => {
            let (tz, p) = zone_of(t[1]);
            let r = zdt(&tz, i(t[2])).and_then(|z| {
                let du = duration_from(&t[3..13])?;
                let ov = Some(overflow(t[13]));
                if t[0] == "zdt_add" { z.add_with_provider(&du, ov, &p) } else { z.subtract_with_provider(&du, ov, &p) }
            });
            Some(render(r, |z| z.epoch_nanoseconds().as_i128().to_string()))
        }
        "zdt_until2" | "zdt_since2" => {
            // two zoned date-times in two zones (fixed offsets, or one synthetic zone and one fixed offset)
            let (tz1, p) = zone_of(t[1]);
            let (tz2, _) = zone_of(t[2]);
            let r = zdt(&tz1, i(t[3])).and_then(|a| {
                let b = zdt(&tz2, i(t[4]))?;
                let st = settings(t[5], t[6], t[7], t[8])?;
                if t[0] == "zdt_until2" { a.until_with_provider(&b, st, &p) } else { a.since_with_provider(&b, st, &p) }
            });
            Some(render(r, |d| fmt_duration(&d)))
        }
        "zdt_until" | "zdt_since" => {
            let (tz, p) = zone_of(t[1]);
            let r = zdt(&tz, i(t[2])).and_then(|a| {
                let b = zdt(&tz, i(t[3]))?;
                let st = settings(t[4], t[5], t[6], t[7])?;
                if t[0] == "zdt_until" { a.until_with_provider(&b, st, &p) } else { a.since_with_provider(&b, st, &p) }
            });
            Some(render(r, |d| fmt_duration(&d)))
        }
        "du_round_z" => {
            // du_round_z zone ns <10 fields> largest smallest increment mode
            let (tz, p) = zone_of(t[1]);
            let r = duration_from(&t[3..13]).and_then(|d| {
                let z = zdt(&tz, i(t[2]))?;
                d.round_with_provider(super::c10::round_options(t[13], t[14], t[15], t[16])?, Some(RelativeTo::ZonedDateTime(z)), &p)
            });
            Some(render(r, |d| fmt_duration(&d)))
        }
        "du_zlaw" => {
            let (tz, p) = zone_of(t[1]);
            let r = duration_from(&t[3..13]).and_then(|d| {
                let z = zdt(&tz, i(t[2]))?;
                let r = d.round_with_provider(super::c10::round_options(t[13], "-", "-", "-")?, Some(RelativeTo::ZonedDateTime(z.clone())), &p)?;
                let x = z.add_with_provider(&r, None, &p)?;
                let y = z.add_with_provider(&d, None, &p)?;
                Ok(if x.epoch_nanoseconds().as_i128() == y.epoch_nanoseconds().as_i128() { 1 } else { 0 })
            });
            Some(render(r, |x| x.to_string()))
        }
        "du_total_z" => {
            let (tz, p) = zone_of(t[1]);
            let r = duration_from(&t[3..13]).and_then(|d| {
                let z = zdt(&tz, i(t[2]))?;
                d.total_with_provider(unit(t[13]), Some(RelativeTo::ZonedDateTime(z)), &p)
            });
            Some(render(r, |x| fmt_f64(x.as_inner())))
        }
        "du_cmp_z" => {
            let (tz, p) = zone_of(t[1]);
            let r = duration_from(&t[3..13]).and_then(|a| {
                let b = duration_from(&t[13..23])?;
                let z = zdt(&tz, i(t[2]))?;
                a.compare_with_provider(&b, Some(RelativeTo::ZonedDateTime(z)), &p)
            });
            Some(render(r, |o| (o as i8).to_string()))
        }
        "zdt_law" => {
            let (tz, p) = zone_of(t[1]);
            let r = zdt(&tz, i(t[2])).and_then(|a| {
                let b = zdt(&tz, i(t[3]))?;
                let st = settings(t[4], "-", "-", "-")?;
                let d = a.until_with_provider(&b, st, &p)?;
                let back = a.add_with_provider(&d, None, &p)?;
                Ok(if back.epoch_nanoseconds().as_i128() == b.epoch_nanoseconds().as_i128() { 1 } else { 0 })
            });
            Some(render(r, |x| x.to_string()))
        }
        "zdt_sod" => {
            let (tz, p) = zone_of(t[1]);
            let r = zdt(&tz, i(t[2])).and_then(|z| z.start_of_day_with_provider(&p));
            Some(render(r, |z| z.epoch_nanoseconds().as_i128().to_string()))
        }
        "zdt_hid" => {
            let (tz, p) = zone_of(t[1]);
            let r = zdt(&tz, i(t[2])).and_then(|z| z.hours_in_day_with_provider(&p));
            Some(render(r, |h| h.to_string()))
        }
        "zdt_wpt" => {
            let (tz, p) = zone_of(t[1]);
            let r = zdt(&tz, i(t[2])).and_then(|z| {
                let pt = PlainTime::try_new(i(t[3]) as u8, i(t[4]) as u8, i(t[5]) as u8, i(t[6]) as u16, i(t[7]) as u16, i(t[8]) as u16)?;
                z.with_plain_time_and_provider(pt, &p)
            });
            Some(render(r, |z| z.epoch_nanoseconds().as_i128().to_string()))
        }
        _ => None,
    }
}
