//! C02 boundary suite: operations whose exact result lies within a few units of a range boundary, or far beyond it —
//! the last representable value must succeed, the next must be a RangeError, nothing may clamp or wrap.
//! Only op lines of the existing vocabulary are produced (evaluated by the other suites' evaluators and the model).
use crate::common::*;

const LO: i128 = -100_000_001; // epoch day of -271821-04-19
const HI: i128 = 100_000_000; // epoch day of +275760-09-13
const DAY: i128 = 86_400_000_000_000;
const MAX_INST: i128 = 8_640_000_000_000_000_000_000;

fn ymd(day: i128) -> (i128, i128, i128) {
    let (y, m, d) = temporal_rs::verif_hooks::ymd_from_epoch_milliseconds((day * 86_400_000) as i64);
    (y as i128, m as i128, d as i128)
}
fn tod(ns: i128) -> String {
    let (h, mi, s, ms, us, n) = super::c07::split_ns(ns);
    format!("{h} {mi} {s} {ms} {us} {n}")
}
fn dur(f: [i128; 10]) -> String {
    f.iter().map(|x| f64_int(*x).to_string()).collect::<Vec<_>>().join(" ")
}

pub fn generate(rng: &mut Rng, thorough: bool) -> Vec<String> {
    let mut v = Vec::new();
    let reps = if thorough { 20 } else { 2 };
    let ovs = ["constrain", "reject"];
    // ---- constructors at the limits ----
    for ov in ovs {
        for (y, m) in [(-271821, 4), (275760, 9), (-271821, 3), (275760, 10), (-271822, 12), (275761, 1)] {
            for d in [1, 12, 13, 14, 18, 19, 20, 28, 30, 31] {
                v.push(format!("pd_new {y} {m} {d} {ov}"));
                v.push(format!("pdt_new {y} {m} {d} 0 0 0 0 0 0 {ov}"));
                v.push(format!("pdt_new {y} {m} {d} 0 0 0 0 0 1 {ov}"));
                v.push(format!("pdt_new {y} {m} {d} 23 59 59 999 999 999 {ov}"));
                v.push(format!("pdt_new {y} {m} {d} 12 0 0 0 0 0 {ov}"));
            }
            for refd in ["-", "1", "13", "14", "19", "18", "31"] {
                v.push(format!("ym_new {y} {m} {refd} {ov}"));
            }
        }
    }
    // ---- date arithmetic across both limits ----
    for _ in 0..reps {
        for &edge in &[LO, HI] {
            let inward: i128 = if edge == LO { 1 } else { -1 };
            for back in [0i128, 1, 2, 27, 28, 31, 365, 366, 400 * 365, 146_097] {
                let start = edge + inward * back;
                let (y, m, d) = ymd(start);
                for delta in [-2i128, -1, 0, 1, 2] {
                    // lands `delta` days beyond / before the edge
                    let days = -inward * (back + delta);
                    for ov in ovs {
                        v.push(format!("pd_add {y} {m} {d} {} {ov}", dur([0, 0, 0, days, 0, 0, 0, 0, 0, 0])));
                        v.push(format!("pd_sub {y} {m} {d} {} {ov}", dur([0, 0, 0, -days, 0, 0, 0, 0, 0, 0])));
                    }
                    // same distance in weeks + days, months, years, and hours folded into days
                    v.push(format!("pd_add {y} {m} {d} {} constrain", dur([0, 0, days / 7, days % 7, 0, 0, 0, 0, 0, 0])));
                    v.push(format!("pd_add {y} {m} {d} {} constrain", dur([0, 0, 0, 0, days * 24, 0, 0, 0, 0, 0])));
                    v.push(format!("pd_add {y} {m} {d} {} reject", dur([0, -inward * (back / 30 + delta), 0, 0, 0, 0, 0, 0, 0, 0])));
                    v.push(format!("pd_add {y} {m} {d} {} constrain", dur([-inward * (back / 365 + delta), 0, 0, 0, 0, 0, 0, 0, 0, 0])));
                }
                // far beyond
                for big in [200_000_002i128, 200_000_003, 2_147_483_647, 2_147_483_648, 4_294_967_295, 9_007_199_254_740_991 / 86_400] {
                    for sg in [1i128, -1] {
                        v.push(format!("pd_add {y} {m} {d} {} constrain", dur([0, 0, 0, sg * big, 0, 0, 0, 0, 0, 0])));
                        v.push(format!("pd_add {y} {m} {d} {} constrain", dur([0, sg * big.min(4_294_967_295), 0, 0, 0, 0, 0, 0, 0, 0])));
                        v.push(format!("pd_add {y} {m} {d} {} reject", dur([sg * big.min(4_294_967_295), 0, 0, 0, 0, 0, 0, 0, 0, 0])));
                    }
                }
                // differences spanning the whole range
                let (y2, m2, d2) = ymd(if edge == LO { HI - rng.range(0, 3) } else { LO + rng.range(0, 3) });
                for l in ["year", "month", "week", "day", "-"] {
                    v.push(format!("pd_until {y} {m} {d} {y2} {m2} {d2} {l} - - -"));
                    v.push(format!("pd_since {y} {m} {d} {y2} {m2} {d2} {l} - - -"));
                }
            }
        }
    }
    // ---- date-times: one nanosecond around both limits ----
    for _ in 0..reps {
        for &(edge_day, edge_ns) in &[(LO, 1i128), (HI, DAY - 1)] {
            // the extreme representable date-times
            let (y, m, d) = ymd(edge_day);
            let inward: i128 = if edge_day == LO { 1 } else { -1 };
            for back in [0i128, 1, 999, 1_000_000_000, DAY - 1, DAY, DAY + 1, 40 * DAY] {
                // start `back` ns inside the limit
                let total = edge_day * DAY + edge_ns + inward * back;
                let (sd, st) = (total.div_euclid(DAY), total.rem_euclid(DAY));
                let (sy, sm, sdd) = ymd(sd);
                for delta in [-1i128, 0, 1, 2] {
                    let ns = -inward * (back + delta);
                    let a = format!("{sy} {sm} {sdd} {}", tod(st));
                    v.push(format!("pdt_add {a} {} constrain", dur([0, 0, 0, 0, 0, 0, 0, 0, 0, ns])));
                    v.push(format!("pdt_sub {a} {} reject", dur([0, 0, 0, 0, 0, 0, 0, 0, 0, -ns])));
                    v.push(format!("pdt_add {a} {} constrain", dur([0, 0, 0, ns / DAY, 0, 0, 0, 0, 0, ns % DAY])));
                }
                // rounding past the limit
                for (u, inc) in [("day", 1), ("hour", 12), ("hour", 1), ("minute", 30), ("second", 1), ("millisecond", 500), ("nanosecond", 1)] {
                    for mode in ["ceil", "floor", "expand", "trunc", "halfExpand", "halfEven"] {
                        v.push(format!("pdt_round {sy} {sm} {sdd} {} {u} {inc} {mode}", tod(st)));
                    }
                }
            }
            let _ = (y, m, d);
        }
    }
    // ---- instants ----
    for _ in 0..reps {
        for sg in [1i128, -1] {
            for back in [0i128, 1, 2, 999, 1_000_000, DAY, 365 * DAY] {
                let i1 = sg * (MAX_INST - back);
                for delta in [-1i128, 0, 1, 2] {
                    v.push(format!("in_add {i1} {}", dur([0, 0, 0, 0, 0, 0, 0, 0, 0, sg * (back + delta)])));
                    v.push(format!("in_sub {i1} {}", dur([0, 0, 0, 0, 0, 0, 0, 0, 0, -sg * (back + delta)])));
                }
                v.push(format!("in_add {i1} {}", dur([0, 0, 0, 0, sg * 48, 0, 0, 0, 0, 0])));
                v.push(format!("in_add {i1} {}", dur([0, 0, 0, 0, 0, 0, sg * 9_007_199_254_740_991, 0, 0, 0])));
                v.push(format!("in_add {i1} {}", dur([0, 0, 0, sg, 0, 0, 0, 0, 0, 0])));
                for (u, inc) in [("hour", 24), ("hour", 1), ("minute", 1440), ("second", 86400), ("millisecond", 86_400_000), ("nanosecond", 1)] {
                    for mode in ["ceil", "floor", "expand", "trunc", "halfExpand", "halfEven"] {
                        v.push(format!("in_round {i1} {u} {inc} {mode}"));
                    }
                }
                v.push(format!("in_until {i1} {} - - - -", -i1));
                v.push(format!("in_since {i1} {} hour - - -", -i1));
                v.push(format!("in_until {i1} {} nanosecond - - -", -i1));
            }
            for ms in [8_640_000_000_000_000i128, 8_640_000_000_000_001, 8_639_999_999_999_999, 9_223_372_036_854_775_807] {
                v.push(format!("in_from_ms {}", sg * ms));
            }
        }
    }
    // ---- durations ----
    let max_s: i128 = 9_007_199_254_740_991;
    for sg in [1i128, -1] {
        for y in [4_294_967_294i128, 4_294_967_295, 4_294_967_296, 9_007_199_254_740_992] {
            for k in 0..3 {
                let mut f = [0i128; 10];
                f[k] = sg * y;
                v.push(format!("du_new {}", dur(f)));
            }
        }
        for (k, lim) in [(3usize, 104_249_991_374i128), (4, 2_501_999_792_983), (5, 150_119_987_579_016), (6, max_s)] {
            for delta in [-1i128, 0, 1, 2] {
                let mut f = [0i128; 10];
                f[k] = sg * (lim + delta);
                v.push(format!("du_new {}", dur(f)));
                // fill the lower units to the brim
                f[9] = sg * 999_999_999;
                v.push(format!("du_new {}", dur(f)));
                // reach the limit through an addition
                let mut g = [0i128; 10];
                g[k] = sg * (lim - 5);
                let mut h = [0i128; 10];
                h[k] = sg * (5 + delta);
                v.push(format!("du_add {} {}", dur(g), dur(h)));
                v.push(format!("du_sub {} {}", dur(g), dur(h.map(|x| -x))));
            }
        }
        // rounding up across the limit
        let mut f = [0i128; 10];
        f[6] = sg * max_s;
        f[9] = sg * 999_999_999;
        for (s, inc) in [("second", 1), ("minute", 1), ("hour", 1), ("day", 1), ("millisecond", 1), ("hour", 12)] {
            for mode in ["ceil", "floor", "expand", "trunc", "halfExpand"] {
                v.push(format!("du_round {} - {s} {inc} {mode}", dur(f)));
                v.push(format!("du_round {} day {s} {inc} {mode}", dur(f)));
            }
        }
        // sign mixtures
        v.push(format!("du_new {}", dur([sg, 0, 0, -sg, 0, 0, 0, 0, 0, 0])));
        v.push(format!("du_new {}", dur([0, 0, 0, 0, sg, 0, 0, 0, 0, -sg])));
    }
    // ---- year-months across the limits ----
    for ov in ovs {
        for (y, m, step) in [(-271821, 4, -1i128), (275760, 9, 1), (-271821, 5, -1), (275760, 8, 1), (-271820, 1, -1), (275759, 12, 1)] {
            for k in [0i128, 1, 2, 9, 10, 12, 13] {
                v.push(format!("ym_add {y} {m} - {} {ov}", dur([0, step * k, 0, 0, 0, 0, 0, 0, 0, 0])));
                v.push(format!("ym_add {y} {m} - {} {ov}", dur([step * k, 0, 0, 0, 0, 0, 0, 0, 0, 0])));
                v.push(format!("ym_sub {y} {m} - {} {ov}", dur([0, -step * k, 0, 0, 0, 0, 0, 0, 0, 0])));
            }
        }
    }
    v.push("ym_until -271821 4 - 275760 9 - year - - -".to_string());
    v.push("ym_since -271821 4 - 275760 9 - month - - -".to_string());
    // ---- times: carries never leave the field ranges ----
    for _ in 0..(50 * reps) {
        let t = rng.range(0, DAY - 1);
        let n = *rng.pick(&[1i128, -1, DAY - 1, DAY, DAY + 1, -DAY - 1, max_s * 1_000_000_000, -(max_s * 1_000_000_000)]);
        v.push(format!("pt_add {} {}", tod(t), dur([0, 0, 0, 0, 0, 0, 0, 0, 0, n])));
        v.push(format!("pt_sub {} {}", tod(DAY - 1 - t), dur([0, 0, 0, 0, 0, 0, n / 1_000_000_000, 0, 0, n % 1_000_000_000])));
        for (u, inc) in [("hour", 12), ("minute", 30), ("second", 30), ("nanosecond", 500)] {
            v.push(format!("pt_round {} {u} {inc} ceil", tod(DAY - 1 - t % 1000)));
        }
    }
    // ---- wall-clock readings next to the limits of the instant range, in fixed-offset zones (the conversion returns
    // a ZonedDateTime: inside the range or a RangeError, exactly at the limit shifted by the offset) ----
    {
        let max_ns: i128 = 8_640_000_000_000_000_000_000;
        let day_ns: i128 = 86_400_000_000_000;
        for off_min in [-1439i128, -720, -60, -1, 0, 1, 60, 330, 720, 1439] {
            for sign in [-1i128, 1] {
                for delta in [-1i128, 0, 1, 1_000_000_000, -1_000_000_000, 1_800_000_000_000, -1_800_000_000_000, 3_600_000_000_000, -3_600_000_000_000] {
                    // the instant at / next to the limit, read in the zone
                    let inst = sign * max_ns + delta;
                    let local = inst + off_min * 60_000_000_000;
                    let (d, t) = (local.div_euclid(day_ns), local.rem_euclid(day_ns));
                    let (y, m, dd) = { let (a, b, c) = temporal_rs::verif_hooks::ymd_from_epoch_milliseconds((d * 86_400_000) as i64); (a as i128, b as i128, c as i128) };
                    let (h, mi, sc, ms, us, ns) = super::c07::split_ns(t);
                    for dis in ["compatible", "reject"] {
                        v.push(format!("tz_inst o:{off_min} {y} {m} {dd} {h} {mi} {sc} {ms} {us} {ns} {dis}"));
                    }
                    v.push(format!("tz_pdat o:{off_min} {y} {m} {dd} {h} {mi} {sc} {ms} {us} {ns}"));
                    v.push(format!("tz_sod o:{off_min} {y} {m} {dd}"));
                }
            }
        }
    }
    v
}
