//! C16: non-ISO calendars.
//!   cal_fields <cal> <iso y m d>   every calendar-derived getter of that day              (modelled calendars)
//!   cal_next   <cal> <iso y m d>   the fields of the day and of the next ISO day           (modelled calendars)
//!   cal_law    <cal> <iso y m d>   the same output; the driver evaluates the laws of Spec/CalLaws.lean on it
//!   cal_rt     <cal> <iso y m d>   rebuild from (year, monthCode, day), (year, month, day) and (era, eraYear,
//!                                  monthCode, day): 1 = the same ISO date, 0 = another date, else the error kind;
//!                                  iso=1: with_calendar kept the ISO date
//!   cal_from   <cal> <era|-> <eraYear|-> <year|-> <month|-> <code|-> <day> <ov>   from_partial → ISO date
//!   cal_res    <cal> <era|-> <eraYear|-> <year|-> <month|-> <code|-> <day>        the resolved (era code, year,
//!                                  month code, day) handed to the calendrical library (hook)
//!   cal_fromc  <cal> … <ov>        from_partial for a calendar whose rules are not modelled: `glue <kind>` when
//!                                  the crate's own resolution refuses, `lib` when the library decided and (if it
//!                                  produced a date) that date reports the requested fields
//!   cal_id     <hex>               Calendar::from_str → canonical identifier
use crate::common::*;
use super::c03::{hex, unhex, CALENDARS};
use std::str::FromStr;
use temporal_rs::options::ArithmeticOverflow;
use temporal_rs::partial::PartialDate;
use temporal_rs::{Calendar, MonthCode, PlainDate, TemporalError, TinyAsciiStr};

pub const MODELLED: [&str; 12] = [
    "iso8601", "gregory", "buddhist", "roc", "japanese", "coptic", "ethiopic", "ethioaa", "indian", "islamic-civil",
    "islamic-tbla", "persian",
];

fn iso(y: i128, m: i128, d: i128, cal: &str) -> Result<PlainDate, TemporalError> {
    PlainDate::try_new(y as i32, m as u8, d as u8, Calendar::default())?.with_calendar(Calendar::from_str(cal)?)
}
fn fields(d: &PlainDate) -> String {
    format!(
        "{} {} {} {} {} {} {} {} {} {} {}",
        d.era().map(|e| e.to_string()).unwrap_or("-".into()),
        d.era_year().map(|e| e.to_string()).unwrap_or("-".into()),
        d.year(), d.month(), d.month_code().as_str(), d.day(), d.day_of_year(), d.days_in_month(), d.days_in_year(),
        d.months_in_year(), d.in_leap_year() as u8
    )
}
fn ymd_of(day: i128) -> (i128, i128, i128) {
    let (y, m, d) = temporal_rs::verif_hooks::ymd_from_epoch_milliseconds((day * 86_400_000) as i64);
    (y as i128, m as i128, d as i128)
}
fn day_of(y: i32, m: u8, d: u8) -> i128 {
    temporal_rs::verif_hooks::epoch_days_from_gregorian_date(y, m, d) as i128
}

/// calendars whose far-range arithmetic does not return / asserts in the dependency (C03 known findings) are kept
/// inside their supported window
fn window(cal: &str) -> (i128, i128) {
    match cal {
        "chinese" | "dangi" => (-300_000, 300_000),          // epoch days ≈ years 1150..2790
        "islamic" | "islamic-umalqura" => (-200_000, 200_000),
        _ => (-100_000_001, 100_000_000),
    }
}

const ERAS: [&str; 52] = [
    "ce", "bce", "ad", "bc", "gregory", "gregory-inverse", "be", "buddhist", "roc", "roc-inverse", "minguo", "before-roc",
    "japanese", "japanese-inverse", "reiwa", "heisei", "showa", "taisho", "meiji", "mejei", "am", "hebrew", "ah", "bh",
    "islamic", "islamic-civil", "islamicc", "islamic-tbla", "islamic-umalqura", "islamic-rgsa", "saka", "indian", "ap",
    "persian", "aa", "mundi", "ethioaa", "ethiopic-amete-alem", "incar", "pre-incar", "ethiopic", "ethiopic-inverse",
    "coptic", "coptic-inverse", "bd", "chinese", "dangi", "default", "era0", "xx", "CE", "Reiwa",
];

pub fn generate(rng: &mut Rng, thorough: bool) -> Vec<String> {
    let mut v = Vec::new();
    let n = if thorough { 4000 } else { 400 };
    for cal in CALENDARS {
        let modelled = MODELLED.contains(&cal);
        let (lo, hi) = window(cal);
        // era boundaries, year ends, leap days, the calendars' epochs, the limits, then random days
        let mut days: Vec<i128> = Vec::new();
        for (y, m, d) in [(1868, 9, 7), (1868, 9, 8), (1868, 10, 22), (1868, 10, 23), (1912, 7, 29), (1912, 7, 30), (1926, 12, 24), (1926, 12, 25), (1989, 1, 7), (1989, 1, 8), (2019, 4, 30), (2019, 5, 1), (1873, 1, 1), (1, 1, 1), (0, 12, 31), (0, 1, 1), (-1, 12, 31), (1911, 12, 31), (1912, 1, 1), (-543, 1, 1), (-542, 12, 31), (622, 7, 15), (622, 7, 18), (622, 7, 19), (284, 8, 29), (284, 8, 28), (8, 8, 27), (8, 8, 26), (79, 3, 21), (79, 3, 22), (78, 3, 22), (2024, 2, 29), (2024, 3, 20), (2024, 3, 21), (2023, 3, 21), (2023, 3, 22), (2023, 12, 31), (1970, 1, 1), (2023, 9, 11), (2023, 9, 12), (2024, 9, 10), (2024, 9, 11), (-271821, 4, 19), (-271821, 4, 20), (275760, 9, 12), (275760, 9, 13)] {
            let e = day_of(y, m, d);
            days.push(e);
            days.push(e - 1);
        }
        // Nowruz of the years around the Persian calendar's leap-year corrections (1502 AP = 2123 CE, ...)
        for py in [1502i32, 1503, 1601, 1602, 2030, 2031, 2059, 2060, 2063, 2987, 2988, 1403, 1404, 1408, 1409] {
            let e = day_of(py + 621, 3, 20);
            for dd in -2..=2 { days.push(e + dd); }
        }
        for _ in 0..n {
            days.push(match rng.below(4) { 0 => rng.range(-30_000, 40_000), 1 => rng.range(lo, hi), 2 => rng.range(-800_000, 200_000), _ => { let y = rng.range(-3000, 3000) as i32; day_of(y, 1, 1) + rng.range(-3, 3) + rng.pick(&[0i128, 59, 79, 80, 253, 254, 355, 365]) } });
        }
        for day in days {
            let day = day.clamp(lo, hi);
            let (y, m, d) = ymd_of(day);
            // updating a date from its own fields, from a partial record; its year-month
            match rng.below(6) {
                0 => v.push(format!("cal_withid {cal} {y} {m} {d} {}", rng.pick(&["d", "d", "y", "yd", "c", "cd", "yc", "ycd", "e", "ed", "ec"]))),
                // (the first day of the month of the first representable days lies in a month outside the limits)
                1 if day > -100_000_001 + 40 => v.push(format!("cal_toymc {cal} {y} {m} {d}")),
                2 if modelled => v.push(format!("cal_toym {cal} {y} {m} {d}")),
                3 if modelled => {
                    let (era, ey, year) = match rng.below(4) {
                        0 => ("-".to_string(), "-".to_string(), "-".to_string()),
                        1 => ("-".to_string(), "-".to_string(), rng.pick(&[1i128, 5, 1400, 1445, 2020, 2567, 0, -1, -500, 300000, 300001]).to_string()),
                        2 => (rng.pick(&ERAS).to_string(), rng.pick(&[1i128, 2, 31, 64, 1400, 2020, 0]).to_string(), "-".to_string()),
                        _ => (if rng.chance(1, 2) { "-".to_string() } else { rng.pick(&ERAS).to_string() }, if rng.chance(1, 2) { "-".to_string() } else { "5".to_string() }, if rng.chance(1, 2) { "-".to_string() } else { "1400".to_string() }),
                    };
                    let era = if cal == "iso8601" && era == "default" { "ce".to_string() } else { era };
                    let month = if rng.chance(2, 3) { "-".to_string() } else { rng.range(0, 14).to_string() };
                    let code = if rng.chance(2, 3) { "-" } else { *rng.pick(&["M01", "M02", "M05", "M05L", "M06", "M12", "M13", "M14"]) };
                    let dd = if rng.chance(1, 2) { "-".to_string() } else { rng.pick(&[1i128, 5, 28, 29, 30, 31, 32, 0]).to_string() };
                    let ov = rng.pick(&["constrain", "reject", "-"]);
                    v.push(format!("cal_with {cal} {y} {m} {d} {era} {ey} {year} {month} {code} {dd} {ov}"));
                    if rng.chance(1, 2) {
                        v.push(format!("cal_dtwith {cal} {y} {m} {d} {era} {ey} {year} {month} {code} {dd} {ov}"));
                    }
                    if cal != "iso8601" && day > -100_000_001 + 40 {
                        v.push(format!("cal_ymwith {cal} {y} {m} {d} {era} {ey} {year} {month} {code} {ov}"));
                        v.push(format!("cal_ymfields {cal} {y} {m} {d}"));
                    }
                }
                _ => {}
            }
            if modelled {
                match rng.below(5) {
                    0 => v.push(format!("cal_fields {cal} {y} {m} {d}")),
                    1 => v.push(format!("cal_next {cal} {y} {m} {d}")),
                    2 => v.push(format!("cal_law {cal} {y} {m} {d}")),
                    _ => v.push(format!("cal_rt {cal} {y} {m} {d}")),
                }
            } else if cal == "hebrew" {
                // the library's Hebrew arithmetic is modelled (Model/Hebrew.lean): fields are compared, not only the laws
                match rng.below(4) {
                    0 => v.push(format!("cal_law {cal} {y} {m} {d}")),
                    1 => v.push(format!("cal_rt {cal} {y} {m} {d}")),
                    2 => v.push(format!("cal_fields {cal} {y} {m} {d}")),
                    _ => v.push(format!("cal_next {cal} {y} {m} {d}")),
                }
            } else {
                match rng.below(2) {
                    0 => v.push(format!("cal_law {cal} {y} {m} {d}")),
                    _ => v.push(format!("cal_rt {cal} {y} {m} {d}")),
                }
            }
        }
        if cal == "hebrew" {
            hebrew_lines(rng, thorough, &mut v);
        }
        // every era alias of every calendar (and non-aliases) with era years on both sides of each era's bounds
        if cal != "iso8601" {
            for era in ERAS {
                for ey in [1i128, 2, 15, 16, 31, 32, 45, 46, 64, 65, 1868, 1869, 5500, 5501, 0, -1, 2567] {
                    // (every cell in every tier: each of these years is the first or the last year of some era)
                    {
                        let code = rng.pick(&["M01", "M03", "M12"]);
                        v.push(format!("cal_res {cal} {era} {ey} - - {code} {}", rng.pick(&[1i128, 7, 28])));
                    }
                }
                let ey = rng.pick(&[1i128, 2, 5, 6, 31, 64, 100, 1400, 1445, 1740, 2020, 2567, 5784, 7516]);
                let op = if modelled { "cal_from" } else { "cal_fromc" };
                v.push(format!("{op} {cal} {era} {ey} - {} - {} reject", rng.range(1, 13), rng.pick(&[1i128, 8, 29, 30])));
            }
        }
        // from fields: random subsets, out-of-range months/days, month/monthCode conflicts, both overflow modes
        for _ in 0..(n / 2) {
            let era = if rng.chance(1, 2) { "-" } else { *rng.pick(&ERAS) };
            let era = if cal == "iso8601" && era == "default" { "-" } else { era };
            let ey = if era == "-" && rng.chance(4, 5) || rng.chance(1, 6) { "-".to_string() } else { rng.pick(&[1i128, 2, 5, 31, 64, 100, 1400, 1445, 2020, 2567, 5784, 0, -1, 300000, 300001, -300001, 2147483647, -2147483648]).to_string() };
            let year = if era != "-" && rng.chance(4, 5) || rng.chance(1, 8) { "-".to_string() } else { rng.pick(&[1i128, 100, 1400, 1445, 1740, 1946, 2016, 2020, 2024, 2567, 5784, 7516, 0, -1, -500, 4660, 4357, 300000, 300001, -300000, -300001, 2147483647, -2147483648, 16777216]).to_string() };
            let month = if rng.chance(1, 2) { "-".to_string() } else { rng.range(0, 14).to_string() };
            let code = if rng.chance(1, 2) { "-" } else { *rng.pick(&["M01", "M02", "M05", "M05L", "M06", "M06L", "M12", "M13", "M00L", "M14"]) };
            let day = if rng.chance(1, 12) { "-".to_string() } else { rng.pick(&[1i128, 5, 28, 29, 30, 31, 32, 0]).to_string() };
            let ov = rng.pick(&["constrain", "reject"]);
            // the astronomical calendars are kept away from years at the edge of the year guard: inside it the
            // library's far-date assertions fire (C03's known findings), beyond it the crate refuses
            let far = |s: &str| s == "300000" || s == "-300000";
            if !modelled && (far(&year) || far(&ey)) {
                continue;
            }
            if modelled && rng.chance(1, 2) {
                v.push(format!("cal_ymfrom {cal} {era} {ey} {year} {month} {code} {day} {ov}"));
            }
            if modelled {
                v.push(format!("cal_from {cal} {era} {ey} {year} {month} {code} {day} {ov}"));
            } else {
                v.push(format!("cal_fromc {cal} {era} {ey} {year} {month} {code} {day} {ov}"));
            }
            if cal != "iso8601" {
                v.push(format!("cal_res {cal} {era} {ey} {year} {month} {code} {day}"));
            }
        }
    }
    // changing the calendar of a value keeps its ISO date (and time / instant): every ordered pair of calendars, for a
    // plain date, a plain date-time and a zoned date-time whose first calendar is not ISO
    for c1 in CALENDARS {
        for c2 in CALENDARS {
            for kind in ["pd", "pdt", "zdt"] {
                if thorough || rng.chance(1, 2) {
                    let (y, m, d) = *rng.pick(&[(2024i128, 2i128, 29i128), (1989, 1, 7), (2019, 5, 1), (1900, 3, 1), (2050, 12, 31), (1970, 1, 1)]);
                    v.push(format!("cal_wc {kind} {c1} {c2} {y} {m} {d}"));
                }
            }
        }
    }
    // identifiers: canonical, upper/mixed case, aliases, annotated strings, non-calendars
    for c in CALENDARS {
        v.push(format!("cal_id {}", hex(c.as_bytes())));
        v.push(format!("cal_id {}", hex(c.to_uppercase().as_bytes())));
        let mixed: String = c.chars().enumerate().map(|(k, ch)| if k % 2 == 0 { ch.to_ascii_uppercase() } else { ch }).collect();
        v.push(format!("cal_id {}", hex(mixed.as_bytes())));
        v.push(format!("cal_id {}", hex(format!("2020-01-01[u-ca={c}]").as_bytes())));
        v.push(format!("cal_id {}", hex(format!("2020-01-01T12:30[u-ca={c}]").as_bytes())));
    }
    for bad in ["", "iso", "ISO", "gregorian", "islamicc", "IslamicC", "islamic-rgsa", "ethiopic-amete-alem", "julian", "iso8601x", "hebrew ", " hebrew", "persian\0", "2020-01-01", "2020-01-01[u-ca=julian]", "greg\u{00f6}ry", "\u{0130}so8601", "isO8601", "ROC", "u-ca=hebrew", "[u-ca=hebrew]"] {
        v.push(format!("cal_id {}", hex(bad.as_bytes())));
    }
    v
}

/// Hebrew calendar: the three years of Temporal's range whose molad of Tishrei falls exactly on Saturday 18 h 0 p
/// (-114910, 75795, 193152 AM: the library's new year is a week early there - known finding), the days where the
/// library's floating-point year estimate is a whole number, runs of consecutive days across year ends and leap
/// months, and dates from (year, month code, day).
fn hebrew_lines(rng: &mut Rng, thorough: bool, v: &mut Vec<String>) {
    let cal = "hebrew";
    // coded new years of the exceptional years, of the years before, and the ends of the years after
    for base in [25_590_919i128, 25_590_541, 25_590_919 + 353, 68_455_167, 68_454_820, 68_455_167 + 383, -44_063_484, -44_063_831, -44_063_484 + 353] {
        for k in -12..=12i128 {
            if !thorough && k % 2 != 0 && k.abs() > 8 { continue; }
            let (y, m, d) = ymd_of(base + k);
            v.push(format!("cal_fields {cal} {y} {m} {d}"));
            v.push(format!("cal_law {cal} {y} {m} {d}"));
            if k % 3 == 0 { v.push(format!("cal_rt {cal} {y} {m} {d}")); }
        }
    }
    // the estimate 1 + (day - epoch) / (35975351/98496) is a whole number at epoch + k * 35975351
    for k in -2..=2i128 {
        for e in -2..=2i128 {
            let (y, m, d) = ymd_of(-2_092_590 + k * 35_975_351 + e);
            v.push(format!("cal_fields {cal} {y} {m} {d}"));
            v.push(format!("cal_next {cal} {y} {m} {d}"));
        }
    }
    // runs of consecutive days (every year end, every month end, both Adars within two years)
    for _ in 0..(if thorough { 12 } else { 3 }) {
        let start = match rng.below(3) { 0 => rng.range(15_000, 25_000), 1 => rng.range(-100_000_000, 99_999_000), _ => rng.range(-800_000, 800_000) };
        for k in 0..800i128 {
            let (y, m, d) = ymd_of(start + k);
            v.push(format!("cal_next {cal} {y} {m} {d}"));
        }
    }
    // from (era / year, month code / month, day)
    let codes = ["M01", "M02", "M03", "M04", "M05", "M05L", "M06", "M06L", "M07", "M08", "M09", "M10", "M11", "M12", "M13", "M00L", "M04L"];
    for _ in 0..(if thorough { 6000 } else { 1200 }) {
        let year = match rng.below(6) {
            0 => rng.range(5700, 5800),
            1 => rng.range(-268_000, 279_000),
            2 => *rng.pick(&[75_794i128, 75_795, 75_796, 193_151, 193_152, 193_153, -114_911, -114_910, -114_909]),
            3 => *rng.pick(&[300_000i128, 300_001, -300_000, -300_001, 0, 1, -1, 279_517, 279_518, -268_058, -268_059]),
            _ => rng.range(1, 10_000),
        };
        let (era, ey, yr) = match rng.below(6) {
            0 => ("hebrew".to_string(), year.to_string(), "-".to_string()),
            1 => ("am".to_string(), year.to_string(), "-".to_string()),
            2 => (rng.pick(&["ce", "AM", "islamic"]).to_string(), year.to_string(), "-".to_string()),
            _ => ("-".to_string(), "-".to_string(), year.to_string()),
        };
        let (month, code) = match rng.below(5) {
            0 => (rng.range(0, 14).to_string(), "-".to_string()),
            1 => { let c = *rng.pick(&codes); (rng.range(1, 13).to_string(), c.to_string()) }
            _ => ("-".to_string(), rng.pick(&codes).to_string()),
        };
        let day = *rng.pick(&[1i128, 2, 15, 28, 29, 30, 30, 31, 0]);
        let ov = rng.pick(&["constrain", "reject"]);
        v.push(format!("cal_hfrom {cal} {era} {ey} {yr} {month} {code} {day} {ov}"));
    }
}

fn partial(cal: &Calendar, era: &str, ey: &str, year: &str, month: &str, code: &str, day: &str) -> Result<PartialDate, TemporalError> {
    let mut p = PartialDate::default();
    p.calendar = cal.clone();
    p.month_code = if code == "-" { None } else { Some(MonthCode::from_str(code)?) };
    p.era = if era == "-" { None } else { Some(TinyAsciiStr::<19>::try_from_str(era).map_err(|_| TemporalError::range())?) };
    p.era_year = if ey == "-" { None } else { Some(i(ey) as i32) };
    p.year = if year == "-" { None } else { Some(i(year) as i32) };
    p.month = if month == "-" { None } else { Some(i(month) as u8) };
    p.day = if day == "-" { None } else { Some(i(day) as u8) };
    Ok(p)
}

/// the circumstances under which the known defects of a dependency show: a day numbered 0, an era of the
/// library's historic Japanese table
fn date_marks(d: &PlainDate) -> String {
    format!(
        "{}{}{}",
        if d.day() == 0 { "@day0" } else { "" },
        if d.year() <= 0 { "@y<=0" } else { "" },
        if d.era().map(|e| e.as_str().bytes().any(|b| b.is_ascii_digit())).unwrap_or(false) { "@historic" } else { "" }
    )
}

fn pair(t: &[&str]) -> String {
    render(
        iso(i(t[2]), i(t[3]), i(t[4]), t[1]).and_then(|d| {
            let (y, m, dd) = ymd_of(day_of(d.iso_year(), d.iso_month(), d.iso_day()) + 1);
            let n = iso(y, m, dd, t[1])?;
            Ok(format!("{} | {}", fields(&d), fields(&n)))
        }),
        |s| s,
    )
}

pub fn eval(t: &[&str]) -> Option<String> {
    Some(match t[0] {
        "cal_fields" => render(iso(i(t[2]), i(t[3]), i(t[4]), t[1]), |d| fields(&d)),
        "cal_next" | "cal_law" => pair(t),
        "cal_rt" => render(
            iso(i(t[2]), i(t[3]), i(t[4]), t[1]).map(|d| {
                let cal = d.calendar().clone();
                // each route: 1 = the same day, 0 = another day, else the error kind
                let same = |p: PartialDate| -> String {
                    match PlainDate::from_partial(p, Some(ArithmeticOverflow::Reject)) {
                        Ok(r) => ((r.compare_iso(&d) == std::cmp::Ordering::Equal) as u8).to_string(),
                        Err(e) => err_kind(&e).to_string(),
                    }
                };
                // where a route fails, say which circumstance of the date it failed under
                let shifted = d.month() != d.month_code().to_month_integer();
                let mark = |r: String, by_month: bool| -> String {
                    if r == "1" { r } else {
                        format!("{r}{}{}{}", if d.day() == 0 { "@day0" } else { "" }, if by_month && shifted { "@shift" } else { "" }, if d.year() <= 0 { "@y<=0" } else { "" })
                    }
                };
                let mut a = PartialDate::default();
                a.calendar = cal.clone();
                a.year = Some(d.year());
                a.month_code = Some(d.month_code());
                a.day = Some(d.day());
                let mut b = PartialDate::default();
                b.calendar = cal.clone();
                b.year = Some(d.year());
                b.month = Some(d.month());
                b.day = Some(d.day());
                let e = if let (Some(era), Some(ey)) = (d.era(), d.era_year()) {
                    let mut c = PartialDate::default();
                    c.calendar = cal.clone();
                    c.era = TinyAsciiStr::<19>::try_from_str(era.as_str()).ok();
                    c.era_year = Some(ey);
                    c.month_code = Some(d.month_code());
                    c.day = Some(d.day());
                    let r = same(c);
                    if r != "1" && d.day() == 0 { format!("{r}@day0") }
                    else if r != "1" && era.as_str().bytes().any(|b| b.is_ascii_digit()) { format!("{r}@historic") } else { r }
                } else {
                    "-".to_string()
                };
                // changing the calendar never changes the ISO date
                let w = match d.with_calendar(Calendar::default()) {
                    Ok(back) => ((back.iso_year() as i128 == i(t[2]) && back.iso_month() as i128 == i(t[3]) && back.iso_day() as i128 == i(t[4])) as u8).to_string(),
                    Err(e) => err_kind(&e).to_string(),
                };
                format!("code={} month={} era={} iso={}", mark(same(a), false), mark(same(b), true), e, w)
            }),
            |s| s,
        ),
        "cal_with" => render(
            // cal_with cal y m d  era ey year month code day ov : date.with(partial)
            iso(i(t[2]), i(t[3]), i(t[4]), t[1]).and_then(|d| {
                let mut p = partial(d.calendar(), t[5], t[6], t[7], t[8], t[9], t[10])?;
                p.calendar = Calendar::default();
                d.with(p, if t[11] == "-" { None } else { Some(overflow(t[11])) })
            }),
            |d| format!("{} {} {}", d.iso_year(), d.iso_month(), d.iso_day()),
        ),
        "cal_dtwith" => render(
            // the same through PlainDateTime::with (date fields only; the time of day is kept)
            iso(i(t[2]), i(t[3]), i(t[4]), t[1]).and_then(|d| {
                let dt = d.to_plain_date_time(Some(temporal_rs::PlainTime::try_new(12, 30, 0, 0, 0, 0)?))?;
                let mut p = partial(d.calendar(), t[5], t[6], t[7], t[8], t[9], t[10])?;
                p.calendar = Calendar::default();
                let mut pdt = temporal_rs::partial::PartialDateTime::default();
                pdt.date = p;
                dt.with(pdt, if t[11] == "-" { None } else { Some(overflow(t[11])) })
            }),
            |d| format!("{} {} {} {} {}", d.iso_year(), d.iso_month(), d.iso_day(), d.hour(), d.minute()),
        ),
        "cal_ymwith" => render(
            // the year-month of the date, updated from a partial record (year designation / month / month code)
            iso(i(t[2]), i(t[3]), i(t[4]), t[1]).and_then(|d| {
                let ym = d.to_plain_year_month()?;
                let mut p = partial(d.calendar(), t[5], t[6], t[7], t[8], t[9], "-")?;
                p.calendar = Calendar::default();
                ym.with(p, if t[10] == "-" { None } else { Some(overflow(t[10])) })
            }),
            |ym| ym.to_ixdtf_string(temporal_rs::options::DisplayCalendar::Never),
        ),
        "cal_ymfields" => render(
            iso(i(t[2]), i(t[3]), i(t[4]), t[1]).and_then(|d| d.to_plain_year_month()),
            |ym| format!(
                "{} {} {} {} {} {} {} {} {}",
                ym.era().map(|e| e.to_string()).unwrap_or("-".into()),
                ym.era_year().map(|e| e.to_string()).unwrap_or("-".into()),
                ym.year(), ym.month(), ym.month_code().as_str(), ym.days_in_month(), ym.days_in_year(), ym.months_in_year(), ym.in_leap_year() as u8
            ),
        ),
        "cal_withid" => {
            // applying a date's own day to itself; a failure is marked with the circumstance of the date
            let d = match iso(i(t[2]), i(t[3]), i(t[4]), t[1]) { Ok(d) => d, Err(e) => return Some(format!("err {}", err_kind(&e))) };
            let mut p = PartialDate::default();
            // which of its own fields the date is given back (default: the day)
            let which = if t.len() > 5 { t[5] } else { "d" };
            if which.contains('d') { p.day = Some(d.day()); }
            if which.contains('y') { p.year = Some(d.year()); }
            if which.contains('c') { p.month_code = Some(d.month_code()); }
            if which.contains('e') {
                if let (Some(e), Some(ey)) = (d.era(), d.era_year()) {
                    p.era = TinyAsciiStr::<19>::try_from_str(e.as_str()).ok();
                    p.era_year = Some(ey);
                } else {
                    p.year = Some(d.year());
                }
            }
            match d.with(p, Some(ArithmeticOverflow::Reject)) {
                Ok(r) => format!("ok {} {} {}", r.iso_year(), r.iso_month(), r.iso_day()),
                Err(e) => format!("err {}{}", err_kind(&e), date_marks(&d)),
            }
        }
        "cal_toym" => render(
            iso(i(t[2]), i(t[3]), i(t[4]), t[1]).and_then(|d| d.to_plain_year_month()),
            |ym| ym.to_ixdtf_string(temporal_rs::options::DisplayCalendar::Never),
        ),
        "cal_toymc" => {
            // the year-month of a date is the first day of the date's calendar month
            let d = match iso(i(t[2]), i(t[3]), i(t[4]), t[1]) { Ok(d) => d, Err(e) => return Some(format!("err {}", err_kind(&e))) };
            let r = d.to_plain_year_month().and_then(|ym| {
                let mut s = ym.to_ixdtf_string(temporal_rs::options::DisplayCalendar::Never);
                if d.calendar().identifier() == "iso8601" { s.push_str("-01"); }
                // the first day of the first representable month lies before the first representable day
                if s.starts_with("-271821-04-") { return Ok("first-of-month".to_string()); }
                let first = PlainDate::from_str(&s)?.with_calendar(d.calendar().clone())?;
                let mut bad = Vec::new();
                if first.year() != d.year() { bad.push(format!("year {}!={}", first.year(), d.year())); }
                if first.month_code() != d.month_code() { bad.push(format!("code {}!={}", first.month_code().as_str(), d.month_code().as_str())); }
                if first.day() != 1 { bad.push(format!("day {}", first.day())); }
                if ym.year() != d.year() || ym.month_code() != d.month_code() || ym.month() != d.month() { bad.push("getters".to_string()); }
                // every year-month getter reads the calendar at the stored reference day
                if ym.era() != first.era() || ym.era_year() != first.era_year() { bad.push("era".to_string()); }
                if ym.days_in_month() != first.days_in_month() { bad.push(format!("daysInMonth {}!={}", ym.days_in_month(), first.days_in_month())); }
                if ym.days_in_year() != first.days_in_year() { bad.push(format!("daysInYear {}!={}", ym.days_in_year(), first.days_in_year())); }
                if ym.months_in_year() != first.months_in_year() { bad.push(format!("monthsInYear {}!={}", ym.months_in_year(), first.months_in_year())); }
                if ym.in_leap_year() != first.in_leap_year() { bad.push("inLeapYear".to_string()); }
                Ok(if bad.is_empty() { "first-of-month".to_string() } else { format!("MISMATCH {}", bad.join(",")) })
            });
            match r {
                Ok(s) => format!("ok {s}{}", if s.starts_with("MISMATCH") { date_marks(&d) } else { String::new() }),
                Err(e) => format!("err {}{}", err_kind(&e), date_marks(&d)),
            }
        }
        "cal_ymfrom" => render(
            Calendar::from_str(t[1]).and_then(|cal| {
                let p = partial(&cal, t[2], t[3], t[4], t[5], t[6], t[7])?;
                temporal_rs::PlainYearMonth::from_partial(p, overflow(t[8]))
            }),
            |ym| ym.to_ixdtf_string(temporal_rs::options::DisplayCalendar::Never),
        ),
        "cal_wc" => {
            // cal_wc <pd|pdt|zdt> <cal1> <cal2> y m d: a value in cal1, then with_calendar(cal2): the ISO fields stay
            let (c1, c2) = match (Calendar::from_str(t[2]), Calendar::from_str(t[3])) { (Ok(a), Ok(b)) => (a, b), _ => return Some("err range".into()) };
            let (y, m, d) = (i(t[4]) as i32, i(t[5]) as u8, i(t[6]) as u8);
            let r: Result<String, TemporalError> = match t[1] {
                "pd" => PlainDate::try_new(y, m, d, c1).and_then(|a| a.with_calendar(c2.clone()).map(|b| (a, b))).map(|(a, b)| {
                    let (x, z) = ((a.iso_year(), a.iso_month(), a.iso_day()), (b.iso_year(), b.iso_month(), b.iso_day()));
                    if x == z && x == (y, m, d) && b.calendar().identifier() == c2.identifier() { "same".into() } else { format!("differ {x:?} | {z:?}") }
                }),
                "pdt" => temporal_rs::PlainDateTime::try_new(y, m, d, 13, 14, 15, 16, 17, 18, c1).and_then(|a| a.with_calendar(c2.clone()).map(|b| (a, b))).map(|(a, b)| {
                    let f = |v: &temporal_rs::PlainDateTime| (v.iso_year(), v.iso_month(), v.iso_day(), v.hour(), v.minute(), v.second(), v.millisecond(), v.microsecond(), v.nanosecond());
                    if f(&a) == f(&b) && f(&a) == (y, m, d, 13, 14, 15, 16, 17, 18) && b.calendar().identifier() == c2.identifier() { "same".into() } else { format!("differ {:?} | {:?}", f(&a), f(&b)) }
                }),
                _ => {
                    let ns = day_of(y, m, d) * 86_400_000_000_000 + 47_655_016_017_018;
                    let zone = temporal_rs::TimeZone::try_from_str("+05:30").ok()?;
                    temporal_rs::ZonedDateTime::try_new(ns, c1, zone).and_then(|a| a.with_calendar(c2.clone()).map(|b| (a, b))).map(|(a, b)| {
                        if a.epoch_nanoseconds().as_i128() == b.epoch_nanoseconds().as_i128() && b.epoch_nanoseconds().as_i128() == ns && b.calendar().identifier() == c2.identifier() { "same".into() } else { format!("differ {} | {}", a.epoch_nanoseconds().as_i128(), b.epoch_nanoseconds().as_i128()) }
                    })
                }
            };
            render(r, |s| s)
        }
        "cal_from" | "cal_hfrom" => render(
            Calendar::from_str(t[1]).and_then(|cal| {
                let p = partial(&cal, t[2], t[3], t[4], t[5], t[6], t[7])?;
                PlainDate::from_partial(p, Some(overflow(t[8])))
            }),
            |d| format!("{} {} {}", d.iso_year(), d.iso_month(), d.iso_day()),
        ),
        "cal_res" => render(
            Calendar::from_str(t[1]).and_then(|cal| {
                let p = partial(&cal, t[2], t[3], t[4], t[5], t[6], t[7])?;
                temporal_rs::verif_hooks::resolve_calendar_fields(&p, ArithmeticOverflow::Reject)
            }),
            |(era, y, code, d)| format!("{} {} {} {}", era.unwrap_or("-".into()), y, code, d),
        ),
        "cal_fromc" => {
            let cal = match Calendar::from_str(t[1]) { Ok(c) => c, Err(_) => return Some("err range".into()) };
            let p = match partial(&cal, t[2], t[3], t[4], t[5], t[6], t[7]) { Ok(p) => p, Err(e) => return Some(format!("err {}", err_kind(&e))) };
            let year_check = p.year.is_some() || (p.era.is_some() && p.era_year.is_some());
            let month_check = p.month.is_some() || p.month_code.is_some();
            let pre = !year_check || !month_check || p.day.is_none();
            let glue = temporal_rs::verif_hooks::resolve_calendar_fields(&p, ArithmeticOverflow::Reject);
            let (want_y, want_ey, want_m, want_code, want_d) = (p.year, p.era_year, p.month, p.month_code, p.day);
            let res = PlainDate::from_partial(p, Some(overflow(t[8])));
            match (pre, glue, res) {
                (true, _, Err(e)) => format!("glue {}", err_kind(&e)),
                (true, _, Ok(_)) => "MISMATCH accepted-incomplete".into(),
                (false, Err(g), Err(e)) => if err_kind(&g) == err_kind(&e) { format!("glue {}", err_kind(&g)) } else { format!("MISMATCH glue={} end={}", err_kind(&g), err_kind(&e)) },
                (false, Err(g), Ok(_)) => format!("MISMATCH glue={} end=ok", err_kind(&g)),
                (false, Ok(_), Err(e)) => if err_kind(&e) == "range" { "lib".into() } else { format!("MISMATCH lib-error-kind {}", err_kind(&e)) },
                (false, Ok(_), Ok(d)) => {
                    let mut bad = Vec::new();
                    if let Some(y) = want_y { if d.year() != y { bad.push(format!("year {}!={}", d.year(), y)); } }
                    // the era year is comparable when the date reports the era it was asked for (an alias may
                    // name an era the calendar reports under another code); without eras the year stands in
                    if let Some(ey) = want_ey {
                        match (d.era(), d.era_year()) {
                            (Some(e), Some(got)) => if e.as_str() == t[2] && got != ey { bad.push(format!("eraYear {got}!={ey}")); },
                            _ => if d.year() != ey { bad.push(format!("year {}!={} (era year)", d.year(), ey)); },
                        }
                    }
                    if let Some(c) = want_code { if d.month_code() != c { bad.push(format!("code {}!={}", d.month_code().as_str(), c.as_str())); } }
                    if let Some(m) = want_m { if d.month() != m { bad.push(format!("month {}!={}", d.month(), m)); } }
                    if let Some(dd) = want_d { if d.day() != dd { bad.push(format!("day {}!={}", d.day(), dd)); } }
                    if bad.is_empty() { "lib".into() } else { format!("INCONSISTENT {}", bad.join(",")) }
                }
            }
        }
        "cal_id" => {
            let b = unhex(t[1]);
            let Ok(s) = std::str::from_utf8(&b) else { return Some("err range".into()) };
            render(Calendar::from_str(s), |c| c.identifier().to_string())
        }
        _ => return None,
    })
}
