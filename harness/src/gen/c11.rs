//! C11: formatting. `f_*` lines print a value with given display options (compared with the model's writer);
//! `rt_*` lines check, on the implementation itself, that parsing the text gives back an equal value and that
//! formatting is idempotent through a parse (expected `ok 1`).
use crate::common::*;
use std::str::FromStr;
use temporal_rs::options::{DisplayCalendar, DisplayOffset, DisplayTimeZone, ToStringRoundingOptions};
use temporal_rs::parsers::Precision;
use temporal_rs::tzdb::FsTzdbProvider;
use temporal_rs::{Calendar, Duration, Instant, PlainDate, PlainDateTime, PlainMonthDay, PlainTime, PlainYearMonth, TemporalError, TimeZone, ZonedDateTime};

const CALS: [&str; 6] = ["iso8601", "iso8601", "gregory", "hebrew", "japanese", "islamic-civil"];
const SHOWS: [&str; 4] = ["auto", "always", "never", "critical"];
const PRECS: [&str; 13] = ["auto", "auto", "minute", "0", "1", "2", "3", "4", "5", "6", "7", "8", "9"];
const SMALL: [&str; 8] = ["-", "-", "-", "minute", "second", "millisecond", "microsecond", "nanosecond"];
const MOPT: [&str; 6] = ["-", "trunc", "halfExpand", "ceil", "floor", "halfEven"];

fn opts(p: &str, s: &str, m: &str) -> ToStringRoundingOptions {
    let mut o = ToStringRoundingOptions::default();
    o.precision = match p { "auto" => Precision::Auto, "minute" => Precision::Minute, d => Precision::Digit(d.parse().unwrap()) };
    o.smallest_unit = opt_unit(s);
    o.rounding_mode = opt_mode(m);
    o
}
fn show(s: &str) -> DisplayCalendar {
    DisplayCalendar::from_str(s).unwrap()
}

fn sub(rng: &mut Rng) -> (i128, i128, i128) {
    match rng.below(5) {
        0 => (0, 0, 0),
        1 => (rng.range(0, 999), 0, 0),
        2 => (*rng.pick(&[100i128, 120, 500, 999]), *rng.pick(&[0i128, 10, 999]), 0),
        3 => (999, 999, *rng.pick(&[999i128, 500, 499])),
        _ => (rng.range(0, 999), rng.range(0, 999), rng.range(0, 999)),
    }
}

pub fn generate(rng: &mut Rng, thorough: bool) -> Vec<String> {
    let mut v = Vec::new();
    // the first and last representable date-times and instants under every rounding of the writers: the rounded value
    // is written, or - when it leaves the range - a RangeError
    for (p, su) in [("auto", "-"), ("0", "-"), ("3", "-"), ("auto", "minute"), ("auto", "second"), ("auto", "millisecond"), ("auto", "microsecond"), ("6", "-"), ("9", "-")] {
        for mo in MOPT {
            for (y, m, d, t) in [(-271821i128, 4i128, 19i128, "0 0 0 0 0 1"), (-271821, 4, 19, "0 0 0 500 0 0"), (-271821, 4, 19, "23 59 59 999 999 999"), (-271821, 4, 20, "0 0 0 0 0 0"),
                                 (275760, 9, 13, "0 0 0 0 0 0"), (275760, 9, 13, "23 59 59 999 999 999"), (275760, 9, 13, "23 59 59 500 0 0"), (275760, 9, 12, "23 59 59 999 999 999")] {
                v.push(format!("f_dt {y} {m} {d} {t} {p} {su} {mo} iso8601 auto"));
            }
            let max: i128 = 8_640_000_000_000_000_000_000;
            for ins in [max, max - 1, max - 500_000_000, max - 59_999_999_999, -max, -max + 1, -max + 500_000_000, -max + 29_999_999_999] {
                v.push(format!("f_inst {ins} - {p} {su} {mo}"));
                v.push(format!("f_inst {ins} 1439 {p} {su} {mo}"));
                v.push(format!("f_inst {ins} -1439 {p} {su} {mo}"));
                v.push(format!("f_zdt {ins} 840 auto auto {p} {su} {mo} iso8601 auto"));
                v.push(format!("f_zdt {ins} -720 auto auto {p} {su} {mo} iso8601 auto"));
            }
        }
    }
    let n = if thorough { 20000 } else { 2500 };
    for _ in 0..n {
        let y = match rng.below(6) { 0 => rng.range(-271820, 275759), 1 => *rng.pick(&[0i128, 1, 9, 99, 999, 9999, 10000, -1, -9999, -10000, 275760, -271821]), _ => rng.range(1800, 2100) };
        let (m, d) = if y == 275760 { (rng.range(1, 9), rng.range(1, 12)) } else if y == -271821 { (rng.range(4, 12), rng.range(20, 28)) } else { (rng.range(1, 12), rng.range(1, 28)) };
        let cal = *rng.pick(&CALS);
        let sh = *rng.pick(&SHOWS);
        v.push(format!("f_date {y} {m} {d} {cal} {sh}"));
        v.push(format!("rt_date {y} {m} {d} {cal} {sh}"));
        let (ms, us, ns) = sub(rng);
        let (h, mi, s) = (rng.range(0, 23), rng.range(0, 59), *rng.pick(&[0i128, 59, 30, 7]));
        let (p, su, mo) = (*rng.pick(&PRECS), *rng.pick(&SMALL), *rng.pick(&MOPT));
        v.push(format!("f_time {h} {mi} {s} {ms} {us} {ns} {p} {su} {mo}"));
        v.push(format!("rt_time {h} {mi} {s} {ms} {us} {ns}"));
        v.push(format!("f_dt {y} {m} {d} {h} {mi} {s} {ms} {us} {ns} {p} {su} {mo} {cal} {sh}"));
        v.push(format!("rt_dt {y} {m} {d} {h} {mi} {s} {ms} {us} {ns} {cal} {sh}"));
        // rounding that carries into the next day / year
        v.push(format!("f_dt {y} 12 31 23 59 59 999 999 {} {p} {su} {mo} iso8601 auto", rng.range(0, 999)));
        let refd = *rng.pick(&[1i128, 1, 15, 28]);
        v.push(format!("f_ym {y} {m} {refd} {cal} {sh}"));
        v.push(format!("rt_ym {y} {m} {sh}"));
        let ry = *rng.pick(&[1972i128, 1972, 2000, 2023]);
        v.push(format!("f_md {m} {d} {ry} {cal} {sh}"));
        v.push(format!("rt_md {m} {d} {sh}"));
        // instants, with Z or a fixed offset (including non-minute-aligned display rounding is impossible for UtcOffset)
        let ins = match rng.below(4) { 0 => rng.range(-8_640_000_000_000_000_000_000, 8_640_000_000_000_000_000_000), 1 => *rng.pick(&[0i128, -1, 1, 999_999_999, -999_999_999]), _ => rng.range(-2_000_000_000, 4_000_000_000) * 1_000_000_000 + ms * 1_000_000 + us * 1000 + ns };
        let off = if rng.chance(1, 2) { "-".to_string() } else { rng.pick(&[0i128, 60, -60, 330, 345, -210, 840, -720, 1, -1, 1439, -1439]).to_string() };
        v.push(format!("f_inst {ins} {off} {p} {su} {mo}"));
        v.push(format!("rt_inst {ins}"));
        v.push(format!("rt_insto {ins} {}", rng.pick(&[0i128, 60, -60, 330, 345, -210, 840, -720, 1, -1, 30, -30, 59, -59, -45, 1439, -1439])));
        let offz = *rng.pick(&[0i128, 60, -60, 330, 345, -210, 840, -720, 1, -1, 1439, -1439]);
        v.push(format!("f_zdt {ins} {offz} {} {} {p} {su} {mo} {cal} {sh}", rng.pick(&["auto", "never"]), rng.pick(&["auto", "never", "critical"])));
        v.push(format!("rt_zdt {ins} {offz} {cal}"));
        // zones whose offset is not a whole number of minutes (served by the synthetic provider): the displayed
        // offset is the rounded one, ties away from zero; the text must still parse back to the same instant
        let secs = *rng.pick(&[-2670i128, 2670, -30, 30, -90, 90, -1172, 1172, 45, -45, 20, -20, 19830, -16230, 1, -1, 59, -59, 3600, -3630, 50430, -43170]);
        let zs = if rng.chance(1, 3) { format!("z:{secs};{},{}", rng.range(-1_000_000_000, 2_000_000_000), rng.pick(&[-2670i128, 2670, -30, 30, 3630, -3630, 0])) } else { format!("z:{secs}") };
        let ins_s = rng.range(-4_000_000_000, 4_000_000_000) * 1_000_000_000 + ms * 1_000_000 + us * 1000 + ns;
        v.push(format!("f_zdts {ins_s} {zs} {} {} {p} {su} {mo}", rng.pick(&["auto", "never"]), rng.pick(&["auto", "never", "critical"])));
        v.push(format!("rt_zdts {ins_s} {zs}"));
        // an instant less than a second / a minute before a change of offset, written with a mode that rounds up: the
        // offset printed is the one in force at the ROUNDED instant
        if rng.chance(1, 2) {
            let t = rng.range(-1_000_000_000, 2_000_000_000);
            let (o1, o2) = *rng.pick(&[(-18000i128, -14400i128), (3600, 7200), (7200, 3600), (-2670, 0), (0, 3630), (34200, 37800), (-14400, -18000)]);
            let zt = format!("z:{o1};{t},{o2}");
            let before = t * 1_000_000_000 - *rng.pick(&[1i128, 500_000_000, 999_999_999, 30_000_000_000, 59_999_999_999, 400_000]);
            for (pp, uu) in [("auto", "second"), ("auto", "minute"), ("0", "-"), ("3", "-"), ("auto", "millisecond")] {
                let mm = *rng.pick(&["ceil", "expand", "halfExpand", "halfCeil", "trunc", "floor", "halfEven"]);
                v.push(format!("f_zdts {before} {zt} auto auto {pp} {uu} {mm}"));
            }
        }
        // durations: both signs, zero fields, sub-second folding, carries
        let sg = if rng.chance(1, 2) { 1 } else { -1 };
        let mut f = [0i128; 10];
        for k in 0..10 {
            if rng.chance(1, 3) {
                f[k] = sg * match k { 0..=2 => rng.range(0, 50), 3 => rng.range(0, 400), 4 | 5 => rng.range(0, 100), 6 => *rng.pick(&[0i128, 1, 59, 60, 3600]), _ => *rng.pick(&[0i128, 1, 5, 500, 999, 1000, 1500, 999_999, 1_000_000_000, 123_456_789]) };
            }
        }
        let dus = f.iter().map(|x| x.to_string()).collect::<Vec<_>>().join(" ");
        v.push(format!("f_dur {dus} {p} {su} {mo}"));
        v.push(format!("rt_dur {dus}"));
        // extreme magnitudes of a single field (field widths of the writer)
        if rng.chance(1, 4) {
            let mut g = [0i128; 10];
            let k = rng.below(10) as usize;
            g[k] = sg * match k {
                0..=2 => *rng.pick(&[4_294_967_295i128, 4_294_967_294, 65_536, 2_147_483_648]),
                3 => *rng.pick(&[104_249_991_374i128, 4_294_967_296, 4_294_967_295, 5_000_000_000]),
                4 => *rng.pick(&[2_501_999_792_983i128, 4_294_967_296, 1_000_000_000_000]),
                5 => *rng.pick(&[150_119_987_579_016i128, 4_294_967_296]),
                6 => *rng.pick(&[9_007_199_254_740_991i128, 4_294_967_296, 18_446_744_073]),
                _ => *rng.pick(&[9_007_199_254_740_991i128, 4_294_967_296_000, 999_999_999_999]),
            };
            let gs = g.iter().map(|x| f64_int(*x).to_string()).collect::<Vec<_>>().join(" ");
            v.push(format!("f_dur {gs} auto - -"));
            v.push(format!("rt_dur {gs}"));
        }
    }
    // option enums, month codes, offsets, zone ids
    for kind in ["unit", "mode", "overflow", "duroverflow", "disamb", "offdisamb", "dispcal", "dispoff", "disptz", "direction"] {
        for k in 0..12 {
            v.push(format!("rt_enum {kind} {k}"));
        }
    }
    for m in 0..15 {
        for l in [0, 1] {
            v.push(format!("rt_monthcode {m} {l}"));
        }
    }
    for off in -1441i32..=1441 {
        if off % 7 == 0 || off.abs() > 1430 || off.abs() < 3 {
            v.push(format!("rt_offset {off}"));
        }
    }
    for z in super::c03::zone_ids().iter().step_by(if thorough { 1 } else { 9 }) {
        v.push(format!("rt_zone {}", super::c03::hex(z.as_bytes())));
    }
    for c in super::c03::CALENDARS {
        v.push(format!("rt_cal {c}"));
    }
    v
}

fn out(r: Result<String, TemporalError>) -> String {
    render(r, |s| s)
}
fn law(r: Result<bool, TemporalError>) -> String {
    render(r, |b| (b as u8).to_string())
}

fn date_in(t: &[&str]) -> Result<PlainDate, TemporalError> {
    PlainDate::try_new(i(t[0]) as i32, i(t[1]) as u8, i(t[2]) as u8, Calendar::default())?.with_calendar(Calendar::from_str(t[3])?)
}
fn dt_in(t: &[&str], cal: &str) -> Result<PlainDateTime, TemporalError> {
    PlainDateTime::try_new(i(t[0]) as i32, i(t[1]) as u8, i(t[2]) as u8, i(t[3]) as u8, i(t[4]) as u8, i(t[5]) as u8, i(t[6]) as u16, i(t[7]) as u16, i(t[8]) as u16, Calendar::default())?
        .with_calendar(Calendar::from_str(cal)?)
}

pub fn eval(t: &[&str]) -> Option<String> {
    let p = FsTzdbProvider::default();
    Some(match t[0] {
        "f_date" => out(date_in(&t[1..5]).map(|d| d.to_ixdtf_string(show(t[5])))),
        "rt_date" => law(date_in(&t[1..5]).and_then(|d| {
            let s = d.to_ixdtf_string(show(t[5]));
            let back = PlainDate::from_str(&s)?;
            // `never` (and `auto` for ISO) drops the calendar: compare ISO fields, and the calendar when it was printed
            let printed_cal = s.contains("u-ca=");
            Ok(back.compare_iso(&d) == std::cmp::Ordering::Equal && (!printed_cal || back.calendar() == d.calendar()) && (!printed_cal || back.to_ixdtf_string(show(t[5])) == s))
        })),
        "f_time" => out(PlainTime::try_new(i(t[1]) as u8, i(t[2]) as u8, i(t[3]) as u8, i(t[4]) as u16, i(t[5]) as u16, i(t[6]) as u16).and_then(|x| x.to_ixdtf_string(opts(t[7], t[8], t[9])))),
        "rt_time" => law(PlainTime::try_new(i(t[1]) as u8, i(t[2]) as u8, i(t[3]) as u8, i(t[4]) as u16, i(t[5]) as u16, i(t[6]) as u16).and_then(|x| {
            let s = x.to_ixdtf_string(ToStringRoundingOptions::default())?;
            let back = PlainTime::from_str(&s)?;
            Ok(back == x && back.to_ixdtf_string(ToStringRoundingOptions::default())? == s)
        })),
        "f_dt" => out(dt_in(&t[1..10], t[13]).and_then(|x| x.to_ixdtf_string(opts(t[10], t[11], t[12]), show(t[14])))),
        "rt_dt" => law(dt_in(&t[1..10], t[10]).and_then(|x| {
            let s = x.to_ixdtf_string(ToStringRoundingOptions::default(), show(t[11]))?;
            let back = PlainDateTime::from_str(&s)?;
            let printed_cal = s.contains("u-ca=");
            Ok(back.compare_iso(&x) == std::cmp::Ordering::Equal && (!printed_cal || back.calendar() == x.calendar()) && (!printed_cal || back.to_ixdtf_string(ToStringRoundingOptions::default(), show(t[11]))? == s))
        })),
        "f_ym" => out(PlainYearMonth::new_with_overflow(i(t[1]) as i32, i(t[2]) as u8, Some(i(t[3]) as u8), Calendar::from_str(t[4]).ok()?, temporal_rs::options::ArithmeticOverflow::Reject).map(|x| x.to_ixdtf_string(show(t[5])))),
        "rt_ym" => law(PlainYearMonth::new_with_overflow(i(t[1]) as i32, i(t[2]) as u8, None, Calendar::default(), temporal_rs::options::ArithmeticOverflow::Reject).and_then(|x| {
            let s = x.to_ixdtf_string(show(t[3]));
            let back = PlainYearMonth::from_str(&s)?;
            Ok(back.compare_iso(&x) == std::cmp::Ordering::Equal && back.to_ixdtf_string(show(t[3])) == s)
        })),
        "f_md" => out(PlainMonthDay::new_with_overflow(i(t[1]) as u8, i(t[2]) as u8, Calendar::from_str(t[4]).ok()?, temporal_rs::options::ArithmeticOverflow::Reject, Some(i(t[3]) as i32)).map(|x| x.to_ixdtf_string(show(t[5])))),
        "rt_md" => law(PlainMonthDay::new_with_overflow(i(t[1]) as u8, i(t[2]) as u8, Calendar::default(), temporal_rs::options::ArithmeticOverflow::Reject, None).and_then(|x| {
            let s = x.to_ixdtf_string(show(t[3]));
            let back = PlainMonthDay::from_str(&s)?;
            Ok(back.iso_month() == x.iso_month() && back.iso_day() == x.iso_day() && back.to_ixdtf_string(show(t[3])) == s)
        })),
        "f_inst" => {
            let tz = if t[2] == "-" { None } else { let m = i(t[2]); Some(TimeZone::try_from_str(&format!("{}{:02}:{:02}", if m < 0 { '-' } else { '+' }, m.abs() / 60, m.abs() % 60)).ok()?) };
            out(Instant::try_new(i(t[1])).and_then(|x| x.to_ixdtf_string_with_provider(tz.as_ref(), opts(t[3], t[4], t[5]), &p)))
        }
        "rt_insto" => law(Instant::try_new(i(t[1])).and_then(|x| {
            // an Instant written with a fixed-offset zone (numeric offset instead of Z) and read back, and read back
            // from the text of the ZonedDateTime at that instant
            let m = i(t[2]);
            let tz = TimeZone::try_from_str(&format!("{}{:02}:{:02}", if m < 0 { '-' } else { '+' }, m.abs() / 60, m.abs() % 60))?;
            let s = x.to_ixdtf_string_with_provider(Some(&tz), ToStringRoundingOptions::default(), &p)?;
            let back = Instant::from_str(&s)?;
            let z = ZonedDateTime::try_new(i(t[1]), Calendar::default(), tz)?;
            let back2 = Instant::from_str(&z.to_string_with_provider(&p)?)?;
            Ok(back == x && back2 == x)
        })),
        "rt_inst" => law(Instant::try_new(i(t[1])).and_then(|x| {
            let s = x.to_ixdtf_string_with_provider(None, ToStringRoundingOptions::default(), &p)?;
            let back = Instant::from_str(&s)?;
            Ok(back == x && back.to_ixdtf_string_with_provider(None, ToStringRoundingOptions::default(), &p)? == s)
        })),
        "f_zdt" => {
            let m = i(t[2]);
            let tz = TimeZone::try_from_str(&format!("{}{:02}:{:02}", if m < 0 { '-' } else { '+' }, m.abs() / 60, m.abs() % 60)).ok()?;
            out(ZonedDateTime::try_new(i(t[1]), Calendar::from_str(t[8]).ok()?, tz).and_then(|z| {
                z.to_ixdtf_string_with_provider(DisplayOffset::from_str(t[3]).unwrap(), DisplayTimeZone::from_str(t[4]).unwrap(), show(t[9]), opts(t[5], t[6], t[7]), &p)
            }))
        }
        "f_zdts" => {
            let (tz, sp) = super::zone::zone_of(t[2]);
            out(ZonedDateTime::try_new(i(t[1]), Calendar::default(), tz).and_then(|z| {
                z.to_ixdtf_string_with_provider(DisplayOffset::from_str(t[3]).unwrap(), DisplayTimeZone::from_str(t[4]).unwrap(), show("auto"), opts(t[5], t[6], t[7]), &sp)
            }))
        }
        "rt_zdts" => {
            let (tz, sp) = super::zone::zone_of(t[2]);
            law(ZonedDateTime::try_new(i(t[1]), Calendar::default(), tz).and_then(|z| {
                let s = z.to_string_with_provider(&sp)?;
                let back = ZonedDateTime::from_str_with_provider(&s, temporal_rs::options::Disambiguation::Reject, temporal_rs::options::OffsetDisambiguation::Reject, &sp)?;
                Ok(back == z && back.to_string_with_provider(&sp)? == s)
            }))
        }
        "rt_zdt" => {
            let m = i(t[2]);
            let tz = TimeZone::try_from_str(&format!("{}{:02}:{:02}", if m < 0 { '-' } else { '+' }, m.abs() / 60, m.abs() % 60)).ok()?;
            law(ZonedDateTime::try_new(i(t[1]), Calendar::from_str(t[3]).ok()?, tz).and_then(|z| {
                let s = z.to_string_with_provider(&p)?;
                let back = ZonedDateTime::from_str_with_provider(&s, temporal_rs::options::Disambiguation::Reject, temporal_rs::options::OffsetDisambiguation::Reject, &p)?;
                Ok(back == z && back.to_string_with_provider(&p)? == s)
            }))
        }
        "f_dur" => out(duration_from(&t[1..11]).and_then(|d| d.as_temporal_string(opts(t[11], t[12], t[13])))),
        "rt_dur" => law(duration_from(&t[1..11]).and_then(|d| {
            let s = d.as_temporal_string(ToStringRoundingOptions::default())?;
            let back = Duration::from_str(&s)?;
            // equal once sub-second fields are folded into seconds: compare the re-printed text and the totals
            let tot = |x: &Duration| -> i128 { ((x.seconds().as_inner() as i128 * 1000 + x.milliseconds().as_inner() as i128) * 1000 + x.microseconds().as_inner() as i128) * 1000 + x.nanoseconds().as_inner() as i128 };
            Ok(back.as_temporal_string(ToStringRoundingOptions::default())? == s && tot(&back) == tot(&d) && back.years() == d.years() && back.months() == d.months() && back.weeks() == d.weeks() && back.days() == d.days() && back.hours() == d.hours() && back.minutes() == d.minutes())
        })),
        "rt_enum" => {
            use temporal_rs::options::*;
            let k = i(t[2]) as usize;
            macro_rules! rt {
                ($ty:ty, [$($v:expr),*]) => {{
                    let vs: Vec<$ty> = vec![$($v),*];
                    match vs.get(k) { None => "ok 1".to_string(), Some(v) => { let s = v.to_string(); format!("ok {}", (<$ty>::from_str(&s).map(|b| format!("{b:?}") == format!("{v:?}")).unwrap_or(false)) as u8) } }
                }};
            }
            match t[1] {
                "unit" => rt!(Unit, [Unit::Auto, Unit::Nanosecond, Unit::Microsecond, Unit::Millisecond, Unit::Second, Unit::Minute, Unit::Hour, Unit::Day, Unit::Week, Unit::Month, Unit::Year]),
                "mode" => rt!(RoundingMode, [RoundingMode::Ceil, RoundingMode::Floor, RoundingMode::Expand, RoundingMode::Trunc, RoundingMode::HalfCeil, RoundingMode::HalfFloor, RoundingMode::HalfExpand, RoundingMode::HalfTrunc, RoundingMode::HalfEven]),
                "overflow" => rt!(ArithmeticOverflow, [ArithmeticOverflow::Constrain, ArithmeticOverflow::Reject]),
                "duroverflow" => rt!(DurationOverflow, [DurationOverflow::Constrain, DurationOverflow::Balance]),
                "disamb" => rt!(Disambiguation, [Disambiguation::Compatible, Disambiguation::Earlier, Disambiguation::Later, Disambiguation::Reject]),
                "offdisamb" => rt!(OffsetDisambiguation, [OffsetDisambiguation::Use, OffsetDisambiguation::Prefer, OffsetDisambiguation::Ignore, OffsetDisambiguation::Reject]),
                "dispcal" => rt!(DisplayCalendar, [DisplayCalendar::Auto, DisplayCalendar::Always, DisplayCalendar::Never, DisplayCalendar::Critical]),
                "dispoff" => rt!(DisplayOffset, [DisplayOffset::Auto, DisplayOffset::Never]),
                "disptz" => rt!(DisplayTimeZone, [DisplayTimeZone::Auto, DisplayTimeZone::Never, DisplayTimeZone::Critical]),
                "direction" => { use temporal_rs::provider::TransitionDirection as D; let vs = [D::Next, D::Previous]; match vs.get(k) { None => "ok 1".into(), Some(v) => format!("ok {}", (D::from_str(&v.to_string()).map(|b| b == *v).unwrap_or(false)) as u8) } }
                _ => "?bad-enum".into(),
            }
        }
        "rt_monthcode" => {
            // M01..M13 (+L) print and parse back; anything else is not a month code
            let s = format!("M{:02}{}", i(t[1]), if t[2] == "1" { "L" } else { "" });
            match temporal_rs::MonthCode::from_str(&s) {
                Ok(mc) => format!("ok {}", (mc.as_str() == s) as u8),
                Err(_) => format!("ok {}", (!(1..=13).contains(&i(t[1]))) as u8),
            }
        }
        "rt_offset" => {
            let m = i(t[1]);
            let s = format!("{}{:02}:{:02}", if m < 0 { '-' } else { '+' }, m.abs() / 60, m.abs() % 60);
            match temporal_rs::UtcOffset::from_str(&s) {
                Ok(o) => format!("ok {}", (o.to_string().map(|x| x == s).unwrap_or(false)) as u8),
                Err(_) => format!("ok {}", (m.abs() >= 1440) as u8),
            }
        }
        "rt_zone" => {
            let name = String::from_utf8(super::c03::unhex(t[1])).ok()?;
            law(TimeZone::try_from_str(&name).and_then(|z| Ok(z.identifier()? == name)))
        }
        "rt_cal" => law(Calendar::from_str(t[1]).and_then(|c| Ok(Calendar::from_str(c.identifier())?.identifier() == c.identifier() && Calendar::from_str(&t[1].to_uppercase())?.identifier() == c.identifier()))),
        _ => return None,
    })
}
