use crate::common::*;

/// Admissible increments for (unit, maximum-exclusive) — all proper divisors.
fn divisors(max: u64) -> Vec<u64> {
    (1..max).filter(|d| max % d == 0).collect()
}

pub fn generate(rng: &mut Rng, thorough: bool) -> Vec<String> {
    let mut v = Vec::new();
    // (1) exhaustive small space through the hook
    let (xm, im) = if thorough { (600i128, 60i128) } else { (300, 30) };
    for inc in 1..=im {
        for x in -xm..=xm {
            for m in MODES {
                v.push(format!("rnd_i128 {x} {inc} {m}"));
            }
        }
    }
    // (2) large values: ties, tie±1, multiples, negatives, odd/even big increments
    let n = if thorough { 400_000 } else { 40_000 };
    let incs: [i128; 12] = [
        3, 5, 27, 125, 1_000, 1_800_000_000_000, 86_400_000_000_000, 3_600_000_000_001,
        999_999_999, 1_000_000_000 * 86_400_000_000_000, 7, 2,
    ];
    for _ in 0..n {
        let inc = if rng.chance(1, 2) { *rng.pick(&incs) } else { rng.range(1, 1 << 40) };
        let k = rng.range(-(1i128 << 50), 1i128 << 50);
        let base = k * inc;
        let x = match rng.below(6) {
            0 => base,
            1 => base + inc / 2,
            2 => base + inc / 2 + 1,
            3 => base + (inc + 1) / 2 - 1,
            4 => base - inc / 2,
            _ => base + rng.range(0, inc - 1),
        };
        if x.abs() > (1i128 << 100) { continue; }
        v.push(format!("rnd_i128 {x} {inc} {}", rng.pick(&MODES)));
    }
    // (3) Instant::round through the public API: every unit, divisors of the day length
    let day_ns: i128 = 86_400_000_000_000;
    let unit_len: [(&str, i128); 6] = [
        ("hour", 3_600_000_000_000), ("minute", 60_000_000_000), ("second", 1_000_000_000),
        ("millisecond", 1_000_000), ("microsecond", 1_000), ("nanosecond", 1),
    ];
    let max_ns: i128 = 8_640_000_000_000_000_000_000;
    let n = if thorough { 200_000 } else { 30_000 };
    for _ in 0..n {
        let (u, len) = *rng.pick(&unit_len);
        let maxinc = day_ns / len;
        // pick a divisor of maxinc (odd ones matter): build from prime powers of maxinc
        let mut inc: i128 = 1;
        let mut rem = maxinc;
        for p in [2i128, 3, 5] {
            while rem % p == 0 {
                rem /= p;
                if rng.chance(1, 3) { inc *= p; }
            }
        }
        if inc > 1_000_000_000 { inc = 1_000_000_000; if maxinc % inc != 0 { inc = 1; } }
        if rng.chance(1, 20) { inc = rng.range(1, 1000); } // mostly inadmissible
        let q = inc * len;
        let k = rng.range(-max_ns / q - 1, max_ns / q + 1);
        let x = match rng.below(6) {
            0 => k * q,
            1 => k * q + q / 2,
            2 => k * q + q / 2 + 1,
            3 => k * q + (q + 1) / 2 - 1,
            4 => rng.range(-max_ns, max_ns),
            _ => k * q + rng.range(0, q - 1),
        };
        v.push(format!("in_round {x} {u} {inc} {}", rng.pick(&MODES)));
    }
    // (4) PlainTime::round: every unit × every admissible increment × ties
    for (u, max, len) in [
        ("hour", 24u64, 3_600_000_000_000i128), ("minute", 60, 60_000_000_000), ("second", 60, 1_000_000_000),
        ("millisecond", 1000, 1_000_000), ("microsecond", 1000, 1_000), ("nanosecond", 1000, 1),
    ] {
        for d in divisors(max) {
            let q = d as i128 * len;
            let reps = if thorough { 60 } else { 12 };
            for _ in 0..reps {
                let k = rng.range(0, day_ns / q);
                let x = match rng.below(6) {
                    0 => k * q,
                    1 => k * q + q / 2,
                    2 => k * q + q / 2 + 1,
                    3 => k * q + (q + 1) / 2 - 1,
                    4 => day_ns - 1 - rng.range(0, q),
                    _ => k * q + rng.range(0, q - 1),
                };
                let x = x.rem_euclid(day_ns);
                let (h, mi, s, ms, us, ns) = split_ns(x);
                v.push(format!("pt_round {h} {mi} {s} {ms} {us} {ns} {u} {d} {}", rng.pick(&MODES)));
            }
        }
    }
    // (4) until / since with a smallest unit: every mode in both directions (since() applies the mode as if negated),
    // differences on, next to and between ties - PlainTime, Instant, PlainDateTime
    let grid: [(&str, i128, i128); 9] = [
        ("minute", 15, 60_000_000_000), ("minute", 1, 60_000_000_000), ("hour", 1, 3_600_000_000_000), ("hour", 2, 3_600_000_000_000),
        ("second", 30, 1_000_000_000), ("second", 1, 1_000_000_000), ("millisecond", 500, 1_000_000), ("microsecond", 8, 1_000),
        ("nanosecond", 5, 1),
    ];
    let m4 = if thorough { 12 } else { 3 };
    for (u, inc, unit_ns) in grid {
        let step = inc * unit_ns;
        for m in MODES {
            for _ in 0..m4 {
                // a difference of k steps plus: nothing, half a step, just under / over half, anything
                let k = rng.range(0, (6 * 3_600_000_000_000 / step).max(1));
                let frac = match rng.below(5) { 0 => 0, 1 => step / 2, 2 => step / 2 - 1, 3 => step / 2 + 1, _ => rng.range(0, step) };
                let d = (k * step + frac).min(86_399_999_999_999);
                let t1 = rng.range(0, 86_399_999_999_999 - d);
                let (a, b) = if rng.chance(1, 2) { (t1, t1 + d) } else { (t1 + d, t1) };
                let f = |x: i128| { let (h, mi, s, ms, us, ns) = split_ns(x); format!("{h} {mi} {s} {ms} {us} {ns}") };
                for op in ["until", "since"] {
                    v.push(format!("pt_{op} {} {} - {u} {inc} {m}", f(a), f(b)));
                    let base = rng.range(-4_000_000_000, 4_000_000_000) * 1_000_000_000;
                    v.push(format!("in_{op} {} {} - {u} {inc} {m}", base + a, base + b));
                    let (y, mo, dd) = (rng.range(1900, 2100), rng.range(1, 12), rng.range(1, 28));
                    v.push(format!("pdt_{op} {y} {mo} {dd} {} {y} {mo} {dd} {} - {u} {inc} {m}", f(a), f(b)));
                }
            }
        }
    }
    // (5) Duration::round at the limit of the time duration (2^53 s): rounding away from zero there has no multiple
    // to land on - a RangeError, never a clamped value
    {
        let lim: i128 = 9_007_199_254_740_991;
        for m in MODES {
            for (secs, ns) in [(lim, 999_999_999i128), (lim, 500_000_000), (lim, 1), (lim, 0), (lim - 1, 999_999_999), (lim - 59, 999_999_999), (lim - 3599, 500_000_000)] {
                for sign in [1i128, -1] {
                    for (u, inc) in [("second", 1), ("second", 2), ("minute", 1), ("hour", 1), ("millisecond", 1), ("microsecond", 1)] {
                        v.push(format!("du_round 0 0 0 0 0 0 {} 0 0 {} - {u} {inc} {m}", sign * secs, sign * ns));
                    }
                }
            }
        }
    }
    v
}

pub fn split_ns(x: i128) -> (i128, i128, i128, i128, i128, i128) {
    (
        x / 3_600_000_000_000,
        x / 60_000_000_000 % 60,
        x / 1_000_000_000 % 60,
        x / 1_000_000 % 1000,
        x / 1000 % 1000,
        x % 1000,
    )
}
