//! C08: Duration round/total/compare relative to a plain date; until/since with rounding of PlainDate,
//! PlainDateTime and PlainYearMonth (same machinery).
use crate::common::*;
use crate::gen::c04::date3;
use crate::gen::c10::round_options;
use temporal_rs::options::RelativeTo;
use temporal_rs::tzdb::FsTzdbProvider;

pub fn eval(t: &[&str]) -> Option<String> {
    let p = FsTzdbProvider::default();
    Some(match t[0] {
        "du_round_rel" => render(
            duration_from(&t[1..11]).and_then(|d| {
                let rel = date3(&t[15..18])?;
                d.round_with_provider(round_options(t[11], t[12], t[13], t[14])?, Some(RelativeTo::PlainDate(rel)), &p)
            }),
            |d| fmt_duration(&d),
        ),
        "du_total_rel" => render(
            duration_from(&t[1..11]).and_then(|d| {
                let rel = date3(&t[12..15])?;
                d.total_with_provider(unit(t[11]), Some(RelativeTo::PlainDate(rel)), &p)
            }),
            |x| fmt_f64(x.as_inner()),
        ),
        "du_cmp_rel" => render(
            duration_from(&t[1..11]).and_then(|a| {
                let b = duration_from(&t[11..21])?;
                let rel = date3(&t[21..24])?;
                a.compare_with_provider(&b, Some(RelativeTo::PlainDate(rel)), &p)
            }),
            |o| (o as i8).to_string(),
        ),
        _ => return None,
    })
}

const LO: i128 = -100_000_001;
const HI: i128 = 100_000_000;
const DAY: i128 = 86_400_000_000_000;
fn ymd_of(n: i128) -> (i32, u8, u8) {
    temporal_rs::verif_hooks::ymd_from_epoch_milliseconds(n as i64 * 86_400_000)
}
fn ref_date(rng: &mut Rng) -> String {
    if rng.chance(1, 2) {
        let y = match rng.below(3) { 0 => rng.range(1999, 2025), 1 => rng.range(-1000, 3000), _ => rng.range(-200_000, 200_000) };
        let m = rng.range(1, 12);
        let d = *rng.pick(&[1i128, 15, 28, 29, 30, 31]);
        let dim = temporal_rs::verif_hooks::iso_days_in_month(y as i32, m as u8) as i128;
        format!("{y} {m} {}", d.min(dim))
    } else {
        let n = match rng.below(4) { 0 => rng.range(LO, LO + 400), 1 => rng.range(HI - 400, HI), _ => rng.range(-800_000, 800_000) };
        let (y, m, d) = ymd_of(n);
        format!("{y} {m} {d}")
    }
}
fn mixed_dur(rng: &mut Rng) -> Vec<i128> {
    let mut f = vec![0i128; 10];
    let sign = if rng.chance(1, 2) { 1 } else { -1 };
    if rng.chance(1, 2) { f[0] = sign * rng.range(0, 12); }
    if rng.chance(1, 2) { f[1] = sign * match rng.below(3) { 0 => rng.range(0, 11), 1 => rng.range(0, 40), _ => 11 }; }
    if rng.chance(1, 3) { f[2] = sign * rng.range(0, 9); }
    if rng.chance(1, 2) { f[3] = sign * match rng.below(4) { 0 => rng.range(0, 31), 1 => rng.range(0, 400), 2 => *rng.pick(&[15i128, 16, 20, 29, 30, 31]), _ => rng.range(0, 6) }; }
    if rng.chance(1, 3) { f[4] = sign * match rng.below(3) { 0 => rng.range(0, 23), 1 => 12, _ => rng.range(0, 100) }; }
    if rng.chance(1, 5) { f[5] = sign * rng.range(0, 59); }
    if rng.chance(1, 6) { f[9] = sign * *rng.pick(&[1i128, 43_200_000_000_000, 43_199_999_999_999, 43_200_000_000_001, 999]); }
    f
}
fn js(f: &[i128]) -> String { f.iter().map(|x| x.to_string()).collect::<Vec<_>>().join(" ") }

const UOPT: [&str; 12] = ["-", "auto", "nanosecond", "microsecond", "millisecond", "second", "minute", "hour", "day", "week", "month", "year"];
const MOPT: [&str; 10] = ["-", "ceil", "floor", "expand", "trunc", "halfCeil", "halfFloor", "halfExpand", "halfTrunc", "halfEven"];
const INCS: [&str; 8] = ["-", "1", "2", "3", "5", "7", "10", "12"];

fn opts(rng: &mut Rng, units: &[&str]) -> String {
    let s = *rng.pick(units);
    let l = *rng.pick(units);
    let inc = match s { "hour" => *rng.pick(&["-", "1", "2", "3", "6", "12", "5"]), "minute" | "second" => *rng.pick(&["-", "1", "15", "30", "7"]),
        "millisecond" | "microsecond" | "nanosecond" => *rng.pick(&["-", "1", "100", "500", "3"]), _ => *rng.pick(&INCS) };
    format!("{l} {s} {inc} {}", rng.pick(&MOPT))
}

pub fn generate(rng: &mut Rng, thorough: bool) -> Vec<String> {
    let mut v = Vec::new();
    let n = if thorough { 300_000 } else { 40_000 };
    for k in 0..n {
        let d = mixed_dur(rng);
        let rel = ref_date(rng);
        v.push(format!("du_round_rel {} {} {rel}", js(&d), opts(rng, &UOPT)));
        if k % 3 == 0 {
            // calendar smallest unit, largest above it: the bubbling cases
            let s = *rng.pick(&["day", "week", "month", "year"]);
            let l = *rng.pick(&["auto", "year", "month", "week", "day"]);
            v.push(format!("du_round_rel {} {l} {s} {} {} {rel}", js(&d), rng.pick(&INCS), rng.pick(&MOPT)));
        }
        v.push(format!("du_total_rel {} {} {rel}", js(&d), rng.pick(&UOPT[1..])));
        let d2 = if rng.chance(1, 4) { let mut x = d.clone(); if x[3] != 0 { x[3] += 1; } else { x[1] += x[1].signum(); } x } else { mixed_dur(rng) };
        v.push(format!("du_cmp_rel {} {} {rel}", js(&d), js(&d2)));
        // differences with rounding: PlainDate / PlainDateTime / PlainYearMonth
        let n1 = match rng.below(4) { 0 => rng.range(LO, LO + 400), 1 => rng.range(HI - 400, HI), _ => rng.range(-500_000, 500_000) };
        let n2 = match rng.below(4) { 0 => n1 + rng.range(-40, 40), 1 => n1 + rng.range(-800, 800), 2 => rng.range(LO, HI), _ => n1 + rng.range(-40_000, 40_000) }.clamp(LO, HI);
        let (y1, m1, d1) = ymd_of(n1);
        let (y2, m2, d2d) = ymd_of(n2);
        let op = if k % 2 == 0 { "pd_until" } else { "pd_since" };
        v.push(format!("{op} {y1} {m1} {d1} {y2} {m2} {d2d} {}", opts(rng, &["-", "auto", "day", "week", "month", "year"])));
        let t1 = match rng.below(4) { 0 => 0, 1 => DAY - 1, _ => rng.range(0, DAY - 1) };
        let t2 = match rng.below(4) { 0 => t1, 1 => 0, _ => rng.range(0, DAY - 1) };
        let (h1, mi1, s1, ms1, us1, ns1) = super::c07::split_ns(t1);
        let (h2, mi2, s2, ms2, us2, ns2) = super::c07::split_ns(t2);
        let op = if k % 2 == 0 { "pdt_until" } else { "pdt_since" };
        v.push(format!("{op} {y1} {m1} {d1} {h1} {mi1} {s1} {ms1} {us1} {ns1} {y2} {m2} {d2d} {h2} {mi2} {s2} {ms2} {us2} {ns2} {}", opts(rng, &UOPT)));
        if k % 2 == 0 {
            let ya = rng.range(-271_821, 275_760); let yb = match rng.below(3) { 0 => ya + rng.range(-3, 3), _ => rng.range(-271_821, 275_760) };
            let op = if k % 4 == 0 { "ym_until" } else { "ym_since" };
            v.push(format!("{op} {ya} {} - {yb} {} - {}", rng.range(1, 12), rng.range(1, 12), opts(rng, &["-", "auto", "month", "year"])));
        }
    }
    v
}
