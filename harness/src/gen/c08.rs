//! C08: Duration round/total/compare relative to a plain date; until/since with rounding of PlainDate,
//! PlainDateTime and PlainYearMonth (same machinery).
use crate::common::*;
use crate::gen::c04::date3;
use crate::gen::c10::round_options;
use temporal_rs::options::RelativeTo;
use temporal_rs::tzdb::FsTzdbProvider;

pub fn eval(t: &[&str]) -> Option<String> {
    let p = FsTzdbProvider::default();
    Some(match t[0] {
        "du_round_rel" => render(
            duration_from(&t[1..11]).and_then(|d| {
                let rel = date3(&t[15..18])?;
                d.round_with_provider(round_options(t[11], t[12], t[13], t[14])?, Some(RelativeTo::PlainDate(rel)), &p)
            }),
            |d| fmt_duration(&d),
        ),
        "du_total_rel" => render(
            duration_from(&t[1..11]).and_then(|d| {
                let rel = date3(&t[12..15])?;
                d.total_with_provider(unit(t[11]), Some(RelativeTo::PlainDate(rel)), &p)
            }),
            |x| fmt_f64(x.as_inner()),
        ),
        "du_cmp_rel" => render(
            duration_from(&t[1..11]).and_then(|a| {
                let b = duration_from(&t[11..21])?;
                let rel = date3(&t[21..24])?;
                a.compare_with_provider(&b, Some(RelativeTo::PlainDate(rel)), &p)
            }),
            |o| (o as i8).to_string(),
        ),
        _ => return None,
    })
}

const LO: i128 = -100_000_001;
const HI: i128 = 100_000_000;
const DAY: i128 = 86_400_000_000_000;
fn ymd_of(n: i128) -> (i32, u8, u8) {
    temporal_rs::verif_hooks::ymd_from_epoch_milliseconds(n as i64 * 86_400_000)
}
fn ref_date(rng: &mut Rng) -> String {
    if rng.chance(1, 2) {
        let y = match rng.below(3) { 0 => rng.range(1999, 2025), 1 => rng.range(-1000, 3000), _ => rng.range(-200_000, 200_000) };
        let m = rng.range(1, 12);
        let d = *rng.pick(&[1i128, 15, 28, 29, 30, 31]);
        let dim = temporal_rs::verif_hooks::iso_days_in_month(y as i32, m as u8) as i128;
        format!("{y} {m} {}", d.min(dim))
    } else {
        let n = match rng.below(4) { 0 => rng.range(LO, LO + 400), 1 => rng.range(HI - 400, HI), _ => rng.range(-800_000, 800_000) };
        let (y, m, d) = ymd_of(n);
        format!("{y} {m} {d}")
    }
}
fn mixed_dur(rng: &mut Rng) -> Vec<i128> {
    let mut f = vec![0i128; 10];
    let sign = if rng.chance(1, 2) { 1 } else { -1 };
    if rng.chance(1, 2) { f[0] = sign * rng.range(0, 12); }
    if rng.chance(1, 2) { f[1] = sign * match rng.below(3) { 0 => rng.range(0, 11), 1 => rng.range(0, 40), _ => 11 }; }
    if rng.chance(1, 3) { f[2] = sign * rng.range(0, 9); }
    if rng.chance(1, 2) { f[3] = sign * match rng.below(4) { 0 => rng.range(0, 31), 1 => rng.range(0, 400), 2 => *rng.pick(&[15i128, 16, 20, 29, 30, 31]), _ => rng.range(0, 6) }; }
    if rng.chance(1, 3) { f[4] = sign * match rng.below(3) { 0 => rng.range(0, 23), 1 => 12, _ => rng.range(0, 100) }; }
    if rng.chance(1, 5) { f[5] = sign * rng.range(0, 59); }
    if rng.chance(1, 6) { f[9] = sign * *rng.pick(&[1i128, 43_200_000_000_000, 43_199_999_999_999, 43_200_000_000_001, 999]); }
    f
}
/// time fields long enough for their nanosecond value to pass 2^53, 2^62 and 2^63 (a length given in one field must
/// behave like the same length given in balanced fields), with the target date mostly still in range
fn long_time_dur(rng: &mut Rng) -> Vec<i128> {
    const UNIT_NS: [i128; 6] = [3_600_000_000_000, 60_000_000_000, 1_000_000_000, 1_000_000, 1_000, 1];
    const MAXNS: i128 = (1i128 << 53) * 1_000_000_000;
    let mut f = vec![0i128; 10];
    let sign = if rng.chance(1, 2) { 1 } else { -1 };
    for _ in 0..rng.range(1, 2) {
        let k = rng.range(0, 5) as usize;
        let u = UNIT_NS[k];
        let cap = (8_000_000_000_000_000_000_000i128 / u).min(MAXNS / u);
        let v = match rng.below(6) {
            0 => rng.range(0, cap),
            1 => (1i128 << 62) / u + rng.range(0, 5),
            2 => (1i128 << 63) / u + rng.range(0, 5),
            3 => (1i128 << 53) / u.min(1 << 20) + rng.range(0, 5),
            4 => 2 * rng.range(0, cap / 2000) + 1,
            _ => cap / rng.range(1, 1000),
        };
        f[4 + k] = sign * f64_int(v.min(cap));
    }
    if rng.chance(1, 3) { f[1] = sign * rng.range(0, 14); }
    if rng.chance(1, 3) { f[3] = sign * rng.range(0, 40); }
    f
}
fn js(f: &[i128]) -> String { f.iter().map(|x| x.to_string()).collect::<Vec<_>>().join(" ") }

const UOPT: [&str; 12] = ["-", "auto", "nanosecond", "microsecond", "millisecond", "second", "minute", "hour", "day", "week", "month", "year"];
const MOPT: [&str; 10] = ["-", "ceil", "floor", "expand", "trunc", "halfCeil", "halfFloor", "halfExpand", "halfTrunc", "halfEven"];
const INCS: [&str; 8] = ["-", "1", "2", "3", "5", "7", "10", "12"];

fn opts(rng: &mut Rng, units: &[&str]) -> String {
    let s = *rng.pick(units);
    let l = *rng.pick(units);
    let inc = match s { "hour" => *rng.pick(&["-", "1", "2", "3", "6", "12", "5"]), "minute" | "second" => *rng.pick(&["-", "1", "15", "30", "7"]),
        "millisecond" | "microsecond" | "nanosecond" => *rng.pick(&["-", "1", "100", "500", "3"]), _ => *rng.pick(&INCS) };
    format!("{l} {s} {inc} {}", rng.pick(&MOPT))
}

pub fn generate(rng: &mut Rng, thorough: bool) -> Vec<String> {
    let mut v = Vec::new();
    let n = if thorough { 300_000 } else { 40_000 };
    // time parts of 2^31 / 2^32 days and around the longest representable distance (200 000 002 days): the whole
    // days carried out of the time part must not wrap
    for days in [1i128 << 31, (1 << 31) - 1, 1 << 32, (1 << 32) + 1, (1 << 32) - 1, 3 << 31, 200_000_002, 200_000_003, 200_000_001, 100_000_001, 5 << 32] {
        for sign in [1i128, -1] {
            for (idx, per_day) in [(4usize, 24i128), (5, 1440), (6, 86_400)] {
                let mut f = vec![0i128; 10];
                f[idx] = sign * days * per_day;
                for rel in ["2020 1 1", "1970 1 1", "-271821 4 19", "275760 9 13", "0 3 1"] {
                    v.push(format!("du_round_rel {} day - - - {rel}", js(&f)));
                    v.push(format!("du_round_rel {} year day - - {rel}", js(&f)));
                    v.push(format!("du_total_rel {} day {rel}", js(&f)));
                    v.push(format!("du_total_rel {} hour {rel}", js(&f)));
                    f[idx] += sign;
                    v.push(format!("du_round_rel {} day hour - - {rel}", js(&f)));
                    f[idx] -= sign;
                }
            }
        }
    }
    // destinations in the first and the last day of the date-time range (valid date-times that are not valid
    // instants): durations relative to the neighbouring dates, and rounded differences ending there
    for (rel, sign) in [("275760 9 12", 1i128), ("275760 9 11", 1), ("275760 9 13", 1), ("-271821 4 21", -1), ("-271821 4 20", -1), ("-271821 4 22", -1)] {
        for h in [1i128, 12, 23, 24, 25, 36, 47, 48, 49, 60, 71, 72] {
            let mut f = vec![0i128; 10];
            f[4] = sign * h;
            f[5] = sign * 29;
            for o in ["day minute - -", "day hour - halfExpand", "- hour 2 ceil", "day day - trunc", "week day - -", "month day - floor", "hour hour - -"] {
                v.push(format!("du_round_rel {} {o} {rel}", js(&f)));
            }
            for u in ["day", "hour", "week", "month", "nanosecond"] {
                v.push(format!("du_total_rel {} {u} {rel}", js(&f)));
            }
        }
    }
    for (y2, m2, d2, t2) in [(275760, 9, 13, "0 0 0 0 0 1"), (275760, 9, 13, "12 0 0 0 0 0"), (275760, 9, 13, "23 59 59 999 999 999"), (275760, 9, 13, "0 0 0 0 0 0"),
        (-271821, 4, 19, "0 0 0 0 0 1"), (-271821, 4, 19, "12 0 0 0 0 0"), (-271821, 4, 19, "23 59 59 999 999 999"), (-271821, 4, 20, "0 0 0 0 0 0")] {
        for (y1, m1, d1) in [(2020, 1, 1), (275760, 9, 12), (275760, 8, 31), (-271821, 4, 21), (-271821, 5, 31), (0, 1, 1)] {
            for o in ["- hour - -", "- minute 30 halfExpand", "day hour - ceil", "- day - -", "day day 2 floor", "week week - -", "month month - trunc", "year day - halfEven", "hour second - -"] {
                v.push(format!("pdt_until {y1} {m1} {d1} 6 0 0 0 0 0 {y2} {m2} {d2} {t2} {o}"));
                v.push(format!("pdt_since {y1} {m1} {d1} 6 0 0 0 0 0 {y2} {m2} {d2} {t2} {o}"));
                v.push(format!("pdt_until {y2} {m2} {d2} {t2} {y1} {m1} {d1} 6 0 0 0 0 0 {o}"));
            }
        }
    }
    for (y2, m2, d2) in [(-271821, 4, 19), (-271821, 4, 20), (275760, 9, 13), (275760, 9, 12)] {
        for (y1, m1, d1) in [(2020, 1, 1), (-271821, 4, 21), (-271821, 5, 19), (275760, 9, 1), (275760, 8, 13)] {
            for o in ["- day 2 -", "- day 7 ceil", "- week - -", "week week 2 floor", "month month - -", "month day 3 halfExpand", "year year - -", "year month - trunc"] {
                v.push(format!("pd_until {y1} {m1} {d1} {y2} {m2} {d2} {o}"));
                v.push(format!("pd_since {y1} {m1} {d1} {y2} {m2} {d2} {o}"));
                v.push(format!("pd_until {y2} {m2} {d2} {y1} {m1} {d1} {o}"));
            }
        }
    }
    for k in 0..n {
        let d = if k % 8 == 7 { long_time_dur(rng) } else { mixed_dur(rng) };
        let rel = ref_date(rng);
        v.push(format!("du_round_rel {} {} {rel}", js(&d), opts(rng, &UOPT)));
        if k % 3 == 0 {
            // calendar smallest unit, largest above it: the bubbling cases
            let s = *rng.pick(&["day", "week", "month", "year"]);
            let l = *rng.pick(&["auto", "year", "month", "week", "day"]);
            v.push(format!("du_round_rel {} {l} {s} {} {} {rel}", js(&d), rng.pick(&INCS), rng.pick(&MOPT)));
        }
        v.push(format!("du_total_rel {} {} {rel}", js(&d), rng.pick(&UOPT[1..])));
        let d2 = if rng.chance(1, 4) { let mut x = d.clone(); if x[3] != 0 { x[3] += 1; } else { x[1] += x[1].signum(); } x } else { mixed_dur(rng) };
        v.push(format!("du_cmp_rel {} {} {rel}", js(&d), js(&d2)));
        // differences with rounding: PlainDate / PlainDateTime / PlainYearMonth
        let n1 = match rng.below(4) { 0 => rng.range(LO, LO + 400), 1 => rng.range(HI - 400, HI), _ => rng.range(-500_000, 500_000) };
        let n2 = match rng.below(4) { 0 => n1 + rng.range(-40, 40), 1 => n1 + rng.range(-800, 800), 2 => rng.range(LO, HI), _ => n1 + rng.range(-40_000, 40_000) }.clamp(LO, HI);
        let (y1, m1, d1) = ymd_of(n1);
        let (y2, m2, d2d) = ymd_of(n2);
        let op = if k % 2 == 0 { "pd_until" } else { "pd_since" };
        v.push(format!("{op} {y1} {m1} {d1} {y2} {m2} {d2d} {}", opts(rng, &["-", "auto", "day", "week", "month", "year"])));
        let t1 = match rng.below(4) { 0 => 0, 1 => DAY - 1, _ => rng.range(0, DAY - 1) };
        let t2 = match rng.below(4) { 0 => t1, 1 => 0, _ => rng.range(0, DAY - 1) };
        let (h1, mi1, s1, ms1, us1, ns1) = super::c07::split_ns(t1);
        let (h2, mi2, s2, ms2, us2, ns2) = super::c07::split_ns(t2);
        let op = if k % 2 == 0 { "pdt_until" } else { "pdt_since" };
        v.push(format!("{op} {y1} {m1} {d1} {h1} {mi1} {s1} {ms1} {us1} {ns1} {y2} {m2} {d2d} {h2} {mi2} {s2} {ms2} {us2} {ns2} {}", opts(rng, &UOPT)));
        if k % 2 == 0 {
            let ya = rng.range(-271_821, 275_760); let yb = match rng.below(3) { 0 => ya + rng.range(-3, 3), _ => rng.range(-271_821, 275_760) };
            let op = if k % 4 == 0 { "ym_until" } else { "ym_since" };
            v.push(format!("{op} {ya} {} - {yb} {} - {}", rng.range(1, 12), rng.range(1, 12), opts(rng, &["-", "auto", "month", "year"])));
        }
    }
    v
}
