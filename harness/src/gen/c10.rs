//! C10: option matrix. Hook resolvers (exact resolved tuple) + public operations (accept/reject).
use crate::common::*;
use std::str::FromStr;
use temporal_rs::options::{
    DifferenceSettings, DisplayCalendar, DisplayOffset, DisplayTimeZone, RelativeTo, RoundingIncrement,
    RoundingOptions, ToStringRoundingOptions, Unit, UnitGroup,
};
use temporal_rs::parsers::Precision;
use temporal_rs::tzdb::FsTzdbProvider;
use temporal_rs::{
    Calendar, Duration, Instant, PlainDate, PlainDateTime, PlainTime, PlainYearMonth, TemporalError,
    TimeZone, ZonedDateTime,
};

fn group(s: &str) -> UnitGroup {
    match s {
        "date" => UnitGroup::Date,
        "time" => UnitGroup::Time,
        "datetime" => UnitGroup::DateTime,
        _ => panic!("bad group"),
    }
}

fn opt_inc(s: &str) -> Result<Option<RoundingIncrement>, TemporalError> {
    if s == "-" {
        return Ok(None);
    }
    let v = i(s);
    if v < 0 || v > u32::MAX as i128 {
        return Err(TemporalError::range());
    }
    Ok(Some(RoundingIncrement::try_new(v as u32)?))
}

pub fn diff_settings(l: &str, s: &str, inc: &str, m: &str) -> Result<DifferenceSettings, TemporalError> {
    let mut d = DifferenceSettings::default();
    d.largest_unit = opt_unit(l);
    d.smallest_unit = opt_unit(s);
    d.increment = opt_inc(inc)?;
    d.rounding_mode = opt_mode(m);
    Ok(d)
}
pub fn round_options(l: &str, s: &str, inc: &str, m: &str) -> Result<RoundingOptions, TemporalError> {
    let mut d = RoundingOptions::default();
    d.largest_unit = opt_unit(l);
    d.smallest_unit = opt_unit(s);
    d.increment = opt_inc(inc)?;
    d.rounding_mode = opt_mode(m);
    Ok(d)
}
pub fn precision(s: &str) -> Precision {
    match s {
        "auto" => Precision::Auto,
        "minute" => Precision::Minute,
        d => Precision::Digit(d.parse::<u8>().unwrap()),
    }
}
fn prec_name(p: Precision) -> String {
    match p {
        Precision::Auto => "auto".into(),
        Precision::Minute => "minute".into(),
        Precision::Digit(d) => d.to_string(),
    }
}
pub fn tostr_options(p: &str, s: &str, m: &str) -> ToStringRoundingOptions {
    ToStringRoundingOptions { precision: precision(p), smallest_unit: opt_unit(s), rounding_mode: opt_mode(m) }
}

fn tuple(r: Result<(Unit, Unit, u32, temporal_rs::options::RoundingMode), TemporalError>) -> String {
    render(r, |(l, s, i, m)| format!("{} {} {} {}", unit_name(l), unit_name(s), i, m))
}

fn okerr<T>(r: Result<T, TemporalError>) -> String {
    render(r, |_| String::new()).trim().to_string()
}

pub fn eval(t: &[&str]) -> Option<String> {
    use temporal_rs::verif_hooks as h;
    Some(match t[0] {
        "opt_diff" => tuple(
            diff_settings(t[5], t[6], t[7], t[8])
                .and_then(|d| h::resolve_diff_settings(d, t[4] == "1", group(t[1]), unit(t[2]), unit(t[3]))),
        ),
        "opt_dur" => tuple(round_options(t[2], t[3], t[4], t[5]).and_then(|o| h::resolve_duration_options(o, unit(t[1])))),
        "opt_dt" => tuple(round_options(t[1], t[2], t[3], t[4]).and_then(h::resolve_datetime_options)),
        "opt_inst" => tuple(round_options(t[1], t[2], t[3], t[4]).and_then(h::resolve_instant_options)),
        "opt_str" => render(h::resolve_to_string_options(tostr_options(t[1], t[2], t[3])), |(p, s, m, i)| {
            format!("{} {} {} {}", prec_name(p), unit_name(s), m, i)
        }),
        "optpub" | "optpubeq" => {
            let (l, s, inc, m) = (t[2], t[3], t[4], t[5]);
            let iso = Calendar::default();
            let eq = t[0] == "optpubeq";
            match t[1] {
                "pd_until" | "pd_since" => okerr(diff_settings(l, s, inc, m).and_then(|d| {
                    let a = PlainDate::try_new(2020, 1, 15, iso.clone())?;
                    let b = if eq { a.clone() } else { PlainDate::try_new(2021, 3, 20, iso.clone())? };
                    if t[1] == "pd_until" { a.until(&b, d) } else { a.since(&b, d) }
                })),
                "pt_until" | "pt_since" => okerr(diff_settings(l, s, inc, m).and_then(|d| {
                    let a = PlainTime::try_new(1, 2, 3, 4, 5, 6)?;
                    let b = if eq { a } else { PlainTime::try_new(20, 30, 40, 500, 600, 700)? };
                    if t[1] == "pt_until" { a.until(&b, d) } else { a.since(&b, d) }
                })),
                "pdt_until" | "pdt_since" => okerr(diff_settings(l, s, inc, m).and_then(|d| {
                    let a = PlainDateTime::try_new(2020, 1, 15, 1, 2, 3, 4, 5, 6, iso.clone())?;
                    let b = if eq { a.clone() } else { PlainDateTime::try_new(2021, 3, 20, 20, 30, 40, 500, 600, 700, iso.clone())? };
                    if t[1] == "pdt_until" { a.until(&b, d) } else { a.since(&b, d) }
                })),
                "in_until" | "in_since" => okerr(diff_settings(l, s, inc, m).and_then(|d| {
                    let a = Instant::try_new(1_000_000_000_123_456_789)?;
                    let b = if eq { a } else { Instant::try_new(1_000_086_400_654_321_987)? };
                    if t[1] == "in_until" { a.until(&b, d) } else { a.since(&b, d) }
                })),
                "zdt_until" | "zdt_since" => okerr(diff_settings(l, s, inc, m).and_then(|d| {
                    let p = FsTzdbProvider::default();
                    let tz = TimeZone::try_from_str("UTC")?;
                    let a = ZonedDateTime::try_new(1_000_000_000_123_456_789, iso.clone(), tz.clone())?;
                    let b = if eq { a.clone() } else { ZonedDateTime::try_new(1_040_086_400_654_321_987, iso.clone(), tz)? };
                    if t[1] == "zdt_until" { a.until_with_provider(&b, d, &p) } else { a.since_with_provider(&b, d, &p) }
                })),
                "ym_until" | "ym_since" => okerr(diff_settings(l, s, inc, m).and_then(|d| {
                    let a = PlainYearMonth::from_str("2020-01")?;
                    let b = if eq { a.clone() } else { PlainYearMonth::from_str("2023-07")? };
                    if t[1] == "ym_until" { a.until(&b, d) } else { a.since(&b, d) }
                })),
                "du_round" => okerr(round_options(l, s, inc, m).and_then(|o| {
                    let p = FsTzdbProvider::default();
                    let d = Duration::from_str(if eq { "PT0S" } else { "P1Y2M3DT4H5M6.007008009S" })?;
                    let rel = PlainDate::try_new(2020, 1, 15, iso.clone())?;
                    d.round_with_provider(o, Some(RelativeTo::PlainDate(rel)), &p)
                })),
                "pdt_round" => okerr(round_options(l, s, inc, m).and_then(|o| {
                    (if eq { PlainDateTime::try_new(2020, 1, 1, 0, 0, 0, 0, 0, 0, iso.clone())? } else { PlainDateTime::try_new(2020, 1, 15, 1, 2, 3, 4, 5, 6, iso.clone())? }).round(o)
                })),
                "in_round" => okerr(round_options(l, s, inc, m).and_then(|o| Instant::try_new(if eq { 0 } else { 1_000_000_000_123_456_789 })?.round(o))),
                "pt_round" => okerr((|| {
                    let incf = if inc == "-" { None } else { Some(i(inc) as f64) };
                    let u = opt_unit(s).ok_or(TemporalError::range())?;
                    (if eq { PlainTime::try_new(0, 0, 0, 0, 0, 0)? } else { PlainTime::try_new(1, 2, 3, 4, 5, 6)? }).round(u, incf, opt_mode(m))
                })()),
                _ => return None,
            }
        }
        "optstr" => {
            let o = tostr_options(t[2], t[3], t[4]);
            let iso = Calendar::default();
            match t[1] {
                "pt" => okerr(PlainTime::try_new(1, 2, 3, 4, 5, 6).and_then(|x| x.to_ixdtf_string(o))),
                "pdt" => okerr(
                    PlainDateTime::try_new(2020, 1, 15, 1, 2, 3, 4, 5, 6, iso)
                        .and_then(|x| x.to_ixdtf_string(o, DisplayCalendar::Auto)),
                ),
                "in" => okerr(Instant::try_new(1_000_000_000_123_456_789).and_then(|x| {
                    let p = FsTzdbProvider::default();
                    x.to_ixdtf_string_with_provider(None, o, &p)
                })),
                "du" => okerr(Duration::from_str("P1DT4H5M6.007008009S").and_then(|x| x.as_temporal_string(o))),
                "zdt" => okerr((|| {
                    let p = FsTzdbProvider::default();
                    let tz = TimeZone::try_from_str("UTC")?;
                    ZonedDateTime::try_new(1_000_000_000_123_456_789, iso, tz)?.to_ixdtf_string_with_provider(
                        DisplayOffset::Auto, DisplayTimeZone::Auto, DisplayCalendar::Auto, o, &p)
                })()),
                _ => return None,
            }
        }
        _ => return None,
    })
}

const UOPT: [&str; 12] = [
    "-", "auto", "nanosecond", "microsecond", "millisecond", "second", "minute", "hour", "day", "week", "month", "year",
];
const MOPT: [&str; 10] = [
    "-", "ceil", "floor", "expand", "trunc", "halfCeil", "halfFloor", "halfExpand", "halfTrunc", "halfEven",
];
const INCS: [&str; 27] = [
    "-", "1", "2", "3", "4", "5", "6", "7", "8", "10", "12", "15", "20", "23", "24", "25", "30", "59", "60", "61",
    "100", "500", "999", "1000", "1001", "86400", "1000000000",
];
const INCS_BAD: [&str; 3] = ["0", "1000000001", "4294967295"];

pub fn generate(rng: &mut Rng, thorough: bool) -> Vec<String> {
    let mut v = Vec::new();
    // (0) the operation's default largest unit as Duration::round sees it: every unit as the duration's largest
    // non-zero field x omitted / auto / explicit largest unit x omitted / smaller smallest unit, result compared in full
    const UN: [&str; 10] = ["year", "month", "week", "day", "hour", "minute", "second", "millisecond", "microsecond", "nanosecond"];
    for idx in 3..10usize {
        for second in idx..10usize {
            for sign in [1i128, -1] {
                let mut f = [0i128; 10];
                f[idx] = sign * *rng.pick(&[1i128, 59, 1500, 86_400]);
                if second != idx { f[second] = sign * *rng.pick(&[1i128, 999, 1500]); }
                let fs = f.iter().map(|x| x.to_string()).collect::<Vec<_>>().join(" ");
                for lu in ["-", "auto", UN[idx], UN[idx.saturating_sub(1).max(3)]] {
                    for su in ["-", "nanosecond", UN[second]] {
                        v.push(format!("du_round {fs} {lu} {su} - {}", rng.pick(&["-", "trunc", "halfExpand"])));
                    }
                }
            }
        }
    }
    // (1) hook resolvers: full matrix over the callers' parameter sets
    let callers = [
        ("date", "day", "day"), ("time", "hour", "nanosecond"), ("datetime", "day", "nanosecond"),
        ("time", "second", "nanosecond"), ("datetime", "hour", "nanosecond"), ("date", "year", "month"),
    ];
    for (g, fl, fs) in callers {
        for since in ["0", "1"] {
            for l in UOPT {
                for s in UOPT {
                    for inc in INCS.iter().chain(INCS_BAD.iter()) {
                        // all modes for a few increments, otherwise a PRNG-chosen mode
                        if *inc == "-" || *inc == "1" || *inc == "5" {
                            for m in MOPT {
                                v.push(format!("opt_diff {g} {fl} {fs} {since} {l} {s} {inc} {m}"));
                            }
                        } else {
                            v.push(format!("opt_diff {g} {fl} {fs} {since} {l} {s} {inc} {}", rng.pick(&MOPT)));
                        }
                    }
                }
            }
        }
    }
    for ex in &UOPT[2..] {
        for l in UOPT {
            for s in UOPT {
                for inc in INCS.iter().chain(INCS_BAD.iter()) {
                    v.push(format!("opt_dur {ex} {l} {s} {inc} {}", rng.pick(&MOPT)));
                }
            }
        }
    }
    // (2048, 1953125, 100000000: divisors of the microseconds of a day but not of its milliseconds; 65536: of its
    // nanoseconds but not of its microseconds - they tell the per-unit maxima of Instant::round apart)
    let big_incs = ["1440", "86400", "86400000", "43200000", "86400000000", "86400000000000", "720", "7", "1441", "1000000000", "500000000",
                    "2048", "1953125", "100000000", "65536", "1024", "15625", "390625"];
    for l in UOPT {
        for s in UOPT {
            for inc in INCS.iter().chain(INCS_BAD.iter()).chain(big_incs.iter()) {
                for m in MOPT {
                    if *inc != "-" && *inc != "1" && rng.chance(2, 3) { continue; }
                    v.push(format!("opt_dt {l} {s} {inc} {m}"));
                    v.push(format!("opt_inst {l} {s} {inc} {m}"));
                }
            }
        }
    }
    let precs = ["auto", "minute", "0", "1", "2", "3", "4", "5", "6", "7", "8", "9", "10", "11", "200", "255"];
    for p in precs {
        for s in UOPT {
            for m in MOPT {
                v.push(format!("opt_str {p} {s} {m}"));
            }
        }
    }
    // (2) public operations: accept/reject over the matrix
    let pubs = [
        "pd_until", "pd_since", "pt_until", "pt_since", "pdt_until", "pdt_since", "in_until", "in_since", "zdt_until",
        "zdt_since", "ym_until", "ym_since", "du_round", "pdt_round", "in_round", "pt_round",
    ];
    let pub_incs = ["-", "1", "2", "5", "7", "12", "24", "30", "60", "500", "1000", "86400", "0"];
    for op in pubs {
        for l in UOPT {
            for s in UOPT {
                for inc in pub_incs {
                    let reps = if thorough { 3 } else { 1 };
                    for _ in 0..reps {
                        let mo = rng.pick(&MOPT);
                        v.push(format!("optpub {op} {l} {s} {inc} {mo}"));
                        // the same options with degenerate operands (equal values, zero duration, already rounded):
                        // validity of the options does not depend on the operands
                        v.push(format!("optpubeq {op} {l} {s} {inc} {mo}"));
                    }
                }
            }
        }
    }
    for ty in ["pt", "pdt", "in", "du", "zdt"] {
        for p in precs {
            for s in UOPT {
                v.push(format!("optstr {ty} {p} {s} {}", rng.pick(&MOPT)));
            }
        }
    }
    v
}
