//! C03 surface sweep: public functions that are not (or not fully) modelled are called with extreme, irregular and
//! malformed arguments; the outcome is reduced to `safe` (a value or a Type/Range/Syntax/generic error),
//! `panic` or `assert` (an internal-assertion error). The modelled operations are covered by the other suites,
//! whose outcomes are compared with a model that provably never panics.
use crate::common::*;
use std::str::FromStr;
use temporal_rs::options::{
    ArithmeticOverflow, DifferenceSettings, Disambiguation, DisplayCalendar, DisplayOffset, DisplayTimeZone,
    OffsetDisambiguation, RelativeTo, RoundingIncrement, RoundingOptions, ToStringRoundingOptions, Unit,
};
use temporal_rs::partial::PartialDate;
use temporal_rs::tzdb::FsTzdbProvider;
use temporal_rs::{
    Calendar, Duration, Instant, MonthCode, PlainDate, PlainDateTime, PlainMonthDay, PlainTime, PlainYearMonth,
    TemporalError, TimeZone, TinyAsciiStr, UtcOffset, ZonedDateTime,
};

pub const CALENDARS: [&str; 18] = [
    "iso8601", "gregory", "buddhist", "roc", "japanese", "coptic", "ethiopic", "ethioaa", "indian", "persian",
    "hebrew", "chinese", "dangi", "islamic-civil", "islamic-tbla", "islamic-umalqura", "islamic", "japanext",
];

thread_local! {
    pub static PROVIDER: FsTzdbProvider = FsTzdbProvider::default();
}

/// All zone identifiers of the zoneinfo directory (sorted; files starting with the TZif magic).
pub fn zone_ids() -> Vec<String> {
    fn walk(dir: &std::path::Path, prefix: &str, out: &mut Vec<String>) {
        let Ok(rd) = std::fs::read_dir(dir) else { return };
        let mut entries: Vec<_> = rd.filter_map(|e| e.ok()).collect();
        entries.sort_by_key(|e| e.file_name());
        for e in entries {
            let name = e.file_name().to_string_lossy().to_string();
            if name == "posix" || name == "right" || name.starts_with('.') {
                continue;
            }
            let p = e.path();
            let id = if prefix.is_empty() { name.clone() } else { format!("{prefix}/{name}") };
            if p.is_dir() {
                walk(&p, &id, out);
            } else if let Ok(mut f) = std::fs::File::open(&p) {
                use std::io::Read;
                let mut magic = [0u8; 4];
                if f.read_exact(&mut magic).is_ok() && &magic == b"TZif" {
                    out.push(id);
                }
            }
        }
    }
    let mut out = Vec::new();
    walk(std::path::Path::new("/usr/share/zoneinfo"), "", &mut out);
    out
}

pub fn hex(s: &[u8]) -> String {
    if s.is_empty() {
        return "-".to_string();
    }
    s.iter().map(|b| format!("{b:02x}")).collect()
}
pub fn unhex(s: &str) -> Vec<u8> {
    if s == "-" {
        return Vec::new();
    }
    (0..s.len() / 2).map(|k| u8::from_str_radix(&s[2 * k..2 * k + 2], 16).unwrap()).collect()
}

const SEEDS: [&str; 40] = [
    "2020-02-29", "2020-02-29T12:34:56.123456789", "20200229T123456", "+275760-09-13", "-271821-04-19T00:00:00.000000001",
    "2020-02-29[u-ca=hebrew]", "2020-02-29T00:00Z", "2020-02-29T00:00+05:30[Asia/Kolkata]", "2020-02-29T00:00-08:00[America/Los_Angeles][u-ca=japanese]",
    "2020-02-29T00:00:00+00:00:00.000000001", "2020-02", "2020-02[u-ca=iso8601]", "02-29", "--02-29", "12:34", "T12:34:56,5",
    "P1Y2M3W4DT5H6M7.123456789S", "-PT0.000000001S", "PT9007199254740991S", "P4294967295Y", "PT1H1.5M", "+05:30", "-00:00", "+23:59:59.999999999",
    "M01", "M13", "M05L", "iso8601", "Islamic-Civil", "UTC", "America/Argentina/ComodRivadavia", "Etc/GMT+12",
    "2020-02-29T24:00", "2020-02-30", "2020-13-01", "-000000-01-01", "2020-02-29T00:00[!u-ca=foo]", "2020-02-29T00:00[!foo=bar]",
    "1970-01-01T00:00:60Z", "2020-02-29T00:00+01:00[+01:00]",
];
const ALPHABET: [&str; 44] = [
    "0", "1", "2", "5", "9", "-", "+", ":", ".", ",", "T", "t", "Z", "z", "[", "]", "!", "=", "P", "p", "Y", "M", "W", "D", "H", "S",
    "L", "u-ca", "/", "_", " ", "\u{2212}", "é", "\u{1F600}", "\0", "A", "a", "99999999999999999999", "0000000000", "[u-ca=", "[!", "]]",
    "\u{FF10}", "\u{0661}",
];
const PARSERS: [&str; 20] = [
    "date", "datetime", "time", "yearmonth", "monthday", "instant", "duration", "calendar", "calutf8", "monthcode", "offset",
    "tz", "tzid", "zdt", "relto", "unit", "mode", "overflow", "disamb", "displays",
];

fn mutate(rng: &mut Rng, s: &str) -> String {
    let mut chars: Vec<char> = s.chars().collect();
    let n = 1 + rng.below(3);
    for _ in 0..n {
        let pos = rng.below(chars.len() as u64 + 1) as usize;
        match rng.below(5) {
            0 if !chars.is_empty() => {
                chars.remove(pos.min(chars.len() - 1));
            }
            1 => {
                for (k, c) in rng.pick(&ALPHABET).chars().enumerate() {
                    chars.insert((pos + k).min(chars.len()), c);
                }
            }
            2 if !chars.is_empty() => {
                let p = pos.min(chars.len() - 1);
                chars[p] = rng.pick(&ALPHABET).chars().next().unwrap();
            }
            3 if !chars.is_empty() => {
                let p = pos.min(chars.len() - 1);
                let c = chars[p];
                chars.insert(p, c);
            }
            _ => {
                chars.truncate(pos);
            }
        }
    }
    chars.into_iter().collect()
}

pub fn generate(rng: &mut Rng, thorough: bool) -> Vec<String> {
    let scale = if thorough { 12 } else { 1 };
    let mut v = Vec::new();
    // ---- parsers: seeds, mutations, random soups, every parser ----
    for p in PARSERS {
        for s in SEEDS {
            v.push(format!("sw_parse {p} {}", hex(s.as_bytes())));
        }
        v.push(format!("sw_parse {p} -"));
    }
    for _ in 0..6000 * scale {
        let seed: &str = *rng.pick(&SEEDS);
        let s = mutate(rng, seed);
        v.push(format!("sw_parse {} {}", rng.pick(&PARSERS), hex(s.as_bytes())));
    }
    for _ in 0..2000 * scale {
        let n = rng.below(14);
        let s: String = (0..n).map(|_| *rng.pick(&ALPHABET)).collect();
        v.push(format!("sw_parse {} {}", rng.pick(&PARSERS), hex(s.as_bytes())));
    }
    // raw bytes (only the byte-taking entry point)
    for _ in 0..500 * scale {
        let n = rng.below(12);
        let b: Vec<u8> = (0..n).map(|_| rng.below(256) as u8).collect();
        v.push(format!("sw_parse calutf8 {}", hex(&b)));
    }
    // ---- calendars: every calendar x extreme / boundary / random ISO dates ----
    let years: [i128; 16] = [-271821, -271820, -100000, -9999, -5500, -1, 0, 1, 622, 1582, 1868, 1912, 1989, 2019, 9999, 275760];
    for cal in CALENDARS {
        for &y in &years {
            for (m, d) in [(1, 1), (2, 29), (4, 19), (4, 20), (9, 13), (9, 14), (12, 31)] {
                v.push(format!("sw_cal {cal} {y} {m} {d}"));
            }
        }
        for _ in 0..150 * scale {
            let y = if rng.chance(1, 2) { rng.range(1800, 2200) } else { rng.range(-271821, 275760) };
            v.push(format!("sw_cal {cal} {y} {} {}", rng.range(1, 12), rng.range(1, 31)));
        }
        // partial records with extreme fields
        let eras = ["-", "ce", "bce", "ad", "bc", "be", "minguo", "roc", "before-roc", "reiwa", "heisei", "showa", "taisho", "meiji", "am", "ah", "bh", "saka", "ap", "era0", "era1", "incar", "mundi", "xx"];
        for _ in 0..250 * scale {
            let era = rng.pick(&eras);
            let ey = if rng.chance(1, 3) { "-".to_string() } else { rng.pick(&[i32::MIN as i128, -271821, -1, 0, 1, 5, 64, 2020, 275760, i32::MAX as i128]).to_string() };
            let year = if rng.chance(1, 3) { "-".to_string() } else { rng.pick(&[i32::MIN as i128, -271821, -1, 0, 1, 1400, 2020, 5780, 275760, i32::MAX as i128]).to_string() };
            let month = if rng.chance(1, 2) { "-".to_string() } else { rng.pick(&[0i128, 1, 2, 6, 12, 13, 14, 255]).to_string() };
            let code = if rng.chance(1, 2) { "-" } else { *rng.pick(&["M01", "M02", "M05L", "M06", "M12", "M13", "M00", "M14", "M99L"]) };
            let day = if rng.chance(1, 6) { "-".to_string() } else { rng.pick(&[0i128, 1, 28, 29, 30, 31, 32, 255]).to_string() };
            let ov = rng.pick(&["constrain", "reject"]);
            v.push(format!("sw_calp {cal} {era} {ey} {year} {month} {code} {day} {ov}"));
        }
    }
    // ---- the infallible PlainDate -> PlainDateTime conversion at the first and last dates ----
    for cal in ["iso8601", "gregory", "hebrew", "japanese"] {
        for (y, m, d) in [(-271821, 4, 19), (-271821, 4, 20), (-271821, 4, 21), (275760, 9, 13), (275760, 9, 12), (1970, 1, 1), (0, 2, 29)] {
            v.push(format!("sw_pdtfrom {cal} {y} {m} {d}"));
        }
    }
    v.push("sw_default".to_string());
    // ---- month-days with their public `iso` field overwritten ----
    for cal in ["iso8601", "gregory", "hebrew", "chinese", "japanese", "islamic-civil"] {
        for (y, m, d) in [(1972, 1, 1), (1972, 2, 29), (1972, 2, 30), (1972, 13, 1), (1972, 0, 1), (1972, 1, 0), (1972, 12, 32), (1972, 255, 255), (1973, 2, 29),
            (-271821, 1, 1), (275760, 12, 31), (i32::MAX as i128, 1, 1), (i32::MIN as i128, 12, 31), (0, 6, 31)] {
            v.push(format!("sw_mdraw {cal} {y} {m} {d}"));
            v.push(format!("sw_calraw {cal} {y} {m} {d}"));
        }
    }
    // ---- durations assembled from the public records, unvalidated ----
    {
        let pool = ["0", "1", "-1", "0.5", "-0.5", "1e300", "-1e300", "1.7976931348623157e308", "9007199254740992", "-9007199254740993",
            "4294967296", "9223372036854775807", "-9223372036854775808", "1.8446744073709552e19", "1e25", "3.4028236692093846e38", "-3.4028236692093846e38", "86400", "1e-300", "24", "60", "1000"];
        for _ in 0..400 * scale {
            let mut f = vec!["0"; 10];
            for _ in 0..rng.range(1, 4) {
                f[rng.below(10) as usize] = *rng.pick(&pool);
            }
            v.push(format!("sw_durraw {}", f.join(" ")));
        }
        for x in pool {
            for k in 0..10 {
                let mut f = vec!["0"; 10];
                f[k] = x;
                v.push(format!("sw_durraw {}", f.join(" ")));
            }
        }
    }
    // ---- zoned date-times: every zone at extreme and transition-prone instants ----
    let zones = zone_ids();
    let instants: [i128; 14] = [
        -8_640_000_000_000_000_000_000, -8_639_999_999_999_999_999_999, -62_135_596_800_000_000_000, -2_208_988_800_000_000_000,
        -1, 0, 1, 1_552_212_000_000_000_000, 1_572_771_600_000_000_000, 2_145_916_800_000_000_000, 4_102_444_800_000_000_000,
        253_402_300_799_000_000_000, 8_639_999_999_999_999_999_999, 8_640_000_000_000_000_000_000,
    ];
    for (k, z) in zones.iter().enumerate() {
        let every = if thorough { 1 } else { 6 };
        if k % every == (rng.0 as usize) % every || ["Asia/Dubai", "America/New_York", "Europe/London", "Pacific/Apia", "Australia/Lord_Howe", "Africa/Monrovia", "UTC"].contains(&z.as_str()) {
            for &ns in &instants {
                v.push(format!("sw_zdt {z} {ns}"));
            }
            for _ in 0..6 * scale {
                let ns = rng.range(-2_000_000_000, 4_200_000_000) * 1_000_000_000 + rng.range(0, 999_999_999);
                v.push(format!("sw_zdt {z} {ns}"));
            }
        }
    }
    for off in ["+00:00", "-23:59", "+23:59", "+05:30", "-00:01"] {
        for &ns in &instants {
            v.push(format!("sw_zdt {off} {ns}"));
        }
    }
    v
}

struct Acc {
    assert: Option<&'static str>,
}
impl Acc {
    fn r<T>(&mut self, what: &'static str, r: Result<T, TemporalError>) -> Option<T> {
        match r {
            Ok(v) => Some(v),
            Err(e) => {
                if err_kind(&e) == "assert" && self.assert.is_none() {
                    self.assert = Some(what);
                }
                None
            }
        }
    }
    fn done(self) -> String {
        match self.assert {
            None => "safe".to_string(),
            Some(w) => format!("assert:{w}"),
        }
    }
}

fn diff_settings(l: Option<Unit>, s: Option<Unit>, inc: u32) -> DifferenceSettings {
    let mut o = DifferenceSettings::default();
    o.largest_unit = l;
    o.smallest_unit = s;
    o.increment = RoundingIncrement::try_new(inc).ok();
    o
}

pub fn eval(t: &[&str]) -> Option<String> {
    let mut a = Acc { assert: None };
    match t[0] {
        "sw_parse" => {
            let bytes = unhex(t[2]);
            if t[1] == "calutf8" {
                a.r("Calendar::from_utf8", Calendar::from_utf8(&bytes));
                return Some(a.done());
            }
            let Ok(s) = std::str::from_utf8(&bytes) else { return Some("safe".into()) };
            match t[1] {
                "date" => { a.r("PlainDate::from_str", PlainDate::from_str(s)); }
                "datetime" => { a.r("PlainDateTime::from_str", PlainDateTime::from_str(s)); }
                "time" => { a.r("PlainTime::from_str", PlainTime::from_str(s)); }
                "yearmonth" => { a.r("PlainYearMonth::from_str", PlainYearMonth::from_str(s)); }
                "monthday" => { a.r("PlainMonthDay::from_str", PlainMonthDay::from_str(s)); }
                "instant" => {
                    if let Some(i) = a.r("Instant::from_str", Instant::from_str(s)) {
                        PROVIDER.with(|p| {
                            a.r("Instant::to_ixdtf_string", i.to_ixdtf_string_with_provider(None, ToStringRoundingOptions::default(), p));
                        });
                    }
                }
                "duration" => {
                    if let Some(d) = a.r("Duration::from_str", Duration::from_str(s)) {
                        a.r("Duration::as_temporal_string", d.as_temporal_string(ToStringRoundingOptions::default()));
                    }
                }
                "calendar" => { a.r("Calendar::from_str", Calendar::from_str(s)); }
                "monthcode" => { a.r("MonthCode::from_str", MonthCode::from_str(s)); }
                "offset" => {
                    if let Some(o) = a.r("UtcOffset::from_str", UtcOffset::from_str(s)) {
                        a.r("UtcOffset::to_string", o.to_string());
                    }
                }
                "tz" => {
                    if let Some(z) = a.r("TimeZone::try_from_str", TimeZone::try_from_str(s)) {
                        a.r("TimeZone::identifier", z.identifier());
                    }
                }
                "tzid" => { a.r("TimeZone::try_from_identifier_str", TimeZone::try_from_identifier_str(s)); }
                "zdt" => PROVIDER.with(|p| {
                    for d in [Disambiguation::Compatible, Disambiguation::Reject] {
                        for o in [OffsetDisambiguation::Reject, OffsetDisambiguation::Prefer, OffsetDisambiguation::Use, OffsetDisambiguation::Ignore] {
                            if let Some(z) = a.r("ZonedDateTime::from_str_with_provider", ZonedDateTime::from_str_with_provider(s, d, o, p)) {
                                a.r("ZonedDateTime::to_string_with_provider", z.to_string_with_provider(p));
                            }
                        }
                    }
                }),
                "relto" => PROVIDER.with(|p| { a.r("RelativeTo::try_from_str_with_provider", RelativeTo::try_from_str_with_provider(s, p)); }),
                "unit" => { let _ = Unit::from_str(s); }
                "mode" => { let _ = temporal_rs::options::RoundingMode::from_str(s); }
                "overflow" => { let _ = ArithmeticOverflow::from_str(s); }
                "disamb" => { let _ = Disambiguation::from_str(s); let _ = OffsetDisambiguation::from_str(s); }
                "displays" => { let _ = DisplayCalendar::from_str(s); let _ = DisplayOffset::from_str(s); let _ = DisplayTimeZone::from_str(s); }
                _ => return Some("?bad-parser".into()),
            }
            Some(a.done())
        }
        "sw_cal" => {
            let cal = Calendar::from_str(t[1]).ok()?;
            let (y, m, d) = (i(t[2]) as i32, i(t[3]) as u8, i(t[4]) as u8);
            let Some(iso) = a.r("PlainDate::new_with_overflow", PlainDate::new_with_overflow(y, m, d, Calendar::default(), ArithmeticOverflow::Constrain)) else {
                return Some(a.done());
            };
            let Some(date) = a.r("PlainDate::with_calendar", iso.with_calendar(cal.clone())) else { return Some(a.done()) };
            let _ = (date.year(), date.month(), date.month_code(), date.day(), date.day_of_week(), date.day_of_year());
            a.r("week_of_year", date.week_of_year());
            a.r("year_of_week", date.year_of_week());
            a.r("days_in_week", date.days_in_week());
            let _ = (date.days_in_month(), date.days_in_year(), date.months_in_year(), date.in_leap_year(), date.era(), date.era_year());
            let _ = date.to_ixdtf_string(DisplayCalendar::Always);
            a.r("to_plain_year_month", date.to_plain_year_month());
            a.r("to_plain_month_day", date.to_plain_month_day());
            a.r("to_plain_date_time", date.to_plain_date_time(None));
            // rebuild from the reported fields
            let mut p = PartialDate::default();
            p.calendar = cal.clone();
            p.year = Some(date.year());
            p.month_code = Some(date.month_code());
            p.day = Some(date.day());
            a.r("from_partial(year,code,day)", PlainDate::from_partial(p, Some(ArithmeticOverflow::Reject)));
            let mut p = PartialDate::default();
            p.calendar = cal.clone();
            p.era = date.era().and_then(|e| TinyAsciiStr::<19>::try_from_str(e.as_str()).ok());
            p.era_year = date.era_year();
            p.month = Some(date.month());
            p.day = Some(date.day());
            if p.era.is_some() {
                a.r("from_partial(era,eraYear,month,day)", PlainDate::from_partial(p, Some(ArithmeticOverflow::Reject)));
            }
            // arithmetic in the calendar
            for (yy, mm, ww, dd) in [(1, 0, 0, 0), (0, 1, 0, 0), (0, -1, 0, 0), (-1, 0, 0, 0), (0, 13, 0, 0), (0, 0, 1, 1), (100000, 0, 0, 0), (0, 1200000, 0, 0), (0, 0, 0, -40)] {
                let du = duration_from(&[&yy.to_string(), &mm.to_string(), &ww.to_string(), &dd.to_string(), "0", "0", "0", "0", "0", "0"]).ok()?;
                for ov in [ArithmeticOverflow::Constrain, ArithmeticOverflow::Reject] {
                    if let Some(r) = a.r("PlainDate::add", date.add(&du, Some(ov))) {
                        for l in [Unit::Year, Unit::Month, Unit::Week, Unit::Day] {
                            a.r("PlainDate::until", date.until(&r, diff_settings(Some(l), None, 1)));
                            a.r("PlainDate::since", r.since(&date, diff_settings(Some(l), Some(l), 2)));
                        }
                    }
                }
            }
            Some(a.done())
        }
        "sw_calp" => {
            let cal = Calendar::from_str(t[1]).ok()?;
            let mut p = PartialDate::default();
            p.calendar = cal.clone();
            p.era = if t[2] == "-" { None } else { TinyAsciiStr::<19>::try_from_str(t[2]).ok() };
            p.era_year = if t[3] == "-" { None } else { Some(i(t[3]) as i32) };
            p.year = if t[4] == "-" { None } else { Some(i(t[4]) as i32) };
            p.month = if t[5] == "-" { None } else { Some(i(t[5]) as u8) };
            p.month_code = if t[6] == "-" { None } else { MonthCode::from_str(t[6]).ok() };
            p.day = if t[7] == "-" { None } else { Some(i(t[7]) as u8) };
            let ov = overflow(t[8]);
            if let Some(d) = a.r("PlainDate::from_partial", PlainDate::from_partial(p.clone(), Some(ov))) {
                let _ = (d.year(), d.month(), d.month_code(), d.day(), d.era(), d.era_year());
                let _ = d.to_ixdtf_string(DisplayCalendar::Auto);
            }
            a.r("Calendar::year_month_from_partial", cal.year_month_from_partial(&p, ov));
            a.r("Calendar::month_day_from_partial", cal.month_day_from_partial(&p, ov));
            if let Some(base) = a.r("PlainDate::try_new", PlainDate::try_new(2020, 2, 29, cal.clone())) {
                let mut q = p.clone();
                q.calendar = Calendar::default();
                a.r("PlainDate::with", base.with(q, Some(ov)));
            }
            Some(a.done())
        }
        "sw_pdtfrom" => {
            // the infallible PlainDate -> PlainDateTime conversion, then every operation of the date-time it gives
            let Some(cal) = a.r("Calendar::from_str", Calendar::from_str(t[1])) else { return Some(a.done()) };
            let Some(d) = a.r("PlainDate::try_new", PlainDate::try_new(i(t[2]) as i32, i(t[3]) as u8, i(t[4]) as u8, cal)) else { return Some(a.done()) };
            let dt = PlainDateTime::from(d.clone());
            a.r("to_ixdtf_string", dt.to_ixdtf_string(ToStringRoundingOptions::default(), DisplayCalendar::Auto));
            let _ = (dt.iso_year(), dt.iso_month(), dt.iso_day(), dt.hour(), dt.nanosecond());
            let _ = dt.year();
            let _ = dt.month();
            let _ = dt.month_code();
            let _ = dt.day();
            let _ = dt.day_of_week();
            let _ = dt.day_of_year();
            a.r("week_of_year", dt.week_of_year());
            a.r("year_of_week", dt.year_of_week());
            let _ = dt.days_in_month();
            let _ = dt.days_in_year();
            let _ = dt.in_leap_year();
            let _ = PlainDate::from(dt.clone());
            let _ = PlainTime::from(dt.clone());
            let _ = PlainDateTime::compare_iso(&dt, &dt);
            a.r("with_calendar", dt.with_calendar(Calendar::default()));
            if let Some(pt) = a.r("PlainTime::try_new", PlainTime::try_new(0, 0, 0, 0, 0, 1)) {
                a.r("with_time", dt.with_time(pt));
            }
            for f in [["0", "0", "0", "0", "0", "0", "0", "0", "0", "0"], ["0", "0", "0", "0", "0", "0", "0", "0", "0", "1"], ["0", "0", "0", "0", "0", "0", "0", "0", "0", "-1"], ["0", "1", "0", "1", "1", "0", "0", "0", "0", "0"], ["0", "0", "0", "-1", "0", "0", "0", "0", "0", "0"]] {
                let Ok(du) = duration_from(&f) else { continue };
                a.r("add", dt.add(&du, None));
                a.r("subtract", dt.subtract(&du, Some(ArithmeticOverflow::Reject)));
            }
            for (oy, om, od) in [(i(t[2]) as i32, i(t[3]) as u8, i(t[4]) as u8), (1970, 1, 1), (-271821, 4, 20), (275760, 9, 13)] {
                let Some(o) = a.r("PlainDateTime::try_new", PlainDateTime::try_new(oy, om, od, 12, 0, 0, 0, 0, 0, dt.calendar().clone())) else { continue };
                for l in [Unit::Year, Unit::Month, Unit::Week, Unit::Day, Unit::Hour, Unit::Nanosecond] {
                    a.r("until", dt.until(&o, diff_settings(Some(l), None, 1)));
                    a.r("since", dt.since(&o, diff_settings(Some(l), Some(Unit::Hour.min(l)), 1)));
                    a.r("until (other)", o.until(&dt, diff_settings(Some(l), None, 1)));
                }
            }
            for u in [Unit::Day, Unit::Hour, Unit::Minute, Unit::Nanosecond] {
                let mut ro = RoundingOptions::default();
                ro.smallest_unit = Some(u);
                a.r("round", dt.round(ro));
            }
            PROVIDER.with(|p| {
                for z in ["UTC", "+23:59", "-23:59", "America/New_York"] {
                    let Some(tz) = a.r("TimeZone::try_from_str", TimeZone::try_from_str(z)) else { continue };
                    for dis in [Disambiguation::Compatible, Disambiguation::Reject] {
                        a.r("to_zoned_date_time", dt.to_zoned_date_time_with_provider(&tz, dis, p));
                    }
                }
            });
            // last: `Display` has no failure path of its own
            let _ = dt.to_string();
            Some(a.done())
        }
        "sw_mdraw" => {
            // PlainMonthDay's `iso` field (and IsoDate's fields) are public: any (year, month, day) can be written
            let Some(cal) = a.r("Calendar::from_str", Calendar::from_str(t[1])) else { return Some(a.done()) };
            let Some(mut md) = a.r("PlainMonthDay::new_with_overflow", PlainMonthDay::new_with_overflow(1, 1, cal, ArithmeticOverflow::Reject, None)) else { return Some(a.done()) };
            md.iso.year = i(t[2]) as i32;
            md.iso.month = i(t[3]) as u8;
            md.iso.day = i(t[4]) as u8;
            let _ = (md.iso_year(), md.iso_month(), md.iso_day(), md.calendar_id());
            let _ = md.to_ixdtf_string(DisplayCalendar::Auto);
            let _ = md.to_string();
            let _ = md.month_code();
            a.r("to_plain_date", md.to_plain_date());
            let _ = Calendar::from(md.clone());
            Some(a.done())
        }
        "sw_calraw" => {
            // Calendar's field getters and arithmetic take a `&IsoDate`, a public record with public fields
            let Some(cal) = a.r("Calendar::from_str", Calendar::from_str(t[1])) else { return Some(a.done()) };
            let Some(md) = a.r("PlainMonthDay::new_with_overflow", PlainMonthDay::new_with_overflow(1, 31, Calendar::default(), ArithmeticOverflow::Reject, Some(2020))) else { return Some(a.done()) };
            let other = md.iso;
            let mut iso = md.iso;
            iso.year = i(t[2]) as i32;
            iso.month = i(t[3]) as u8;
            iso.day = i(t[4]) as u8;
            let _ = cal.era(&iso);
            let _ = cal.era_year(&iso);
            let _ = cal.year(&iso);
            let _ = cal.month(&iso);
            let _ = cal.month_code(&iso);
            let _ = cal.day(&iso);
            let _ = cal.day_of_week(&iso);
            let _ = cal.day_of_year(&iso);
            a.r("week_of_year", cal.week_of_year(&iso));
            a.r("year_of_week", cal.year_of_week(&iso));
            a.r("days_in_week", cal.days_in_week(&iso));
            let _ = cal.days_in_month(&iso);
            let _ = cal.days_in_year(&iso);
            let _ = cal.months_in_year(&iso);
            let _ = cal.in_leap_year(&iso);
            if let Ok(du) = duration_from(&["0", "1", "0", "1", "0", "0", "0", "0", "0", "0"]) {
                a.r("date_add", cal.date_add(&iso, &du, ArithmeticOverflow::Constrain));
            }
            a.r("date_until", cal.date_until(&iso, &other, Unit::Month));
            a.r("date_until", cal.date_until(&other, &iso, Unit::Year));
            Some(a.done())
        }
        "sw_default" => {
            // the `Default` values of the date-like types, then their field getters, arithmetic and text
            let d = PlainDate::default();
            let dt = PlainDateTime::default();
            let ym = PlainYearMonth::default();
            let md = PlainMonthDay::default();
            let _ = (d.to_string(), dt.to_string(), ym.to_string(), md.to_string());
            let _ = (d.month_code(), d.day(), d.year(), d.era(), d.day_of_week(), d.days_in_month(), d.in_leap_year());
            a.r("week_of_year", d.week_of_year());
            let _ = (dt.month_code(), dt.day(), dt.year(), dt.days_in_year());
            let _ = (ym.month_code(), ym.year(), ym.days_in_month(), ym.days_in_year(), ym.months_in_year(), ym.in_leap_year(), ym.era());
            let _ = md.month_code();
            if let Ok(du) = duration_from(&["0", "1", "0", "0", "0", "0", "0", "0", "0", "0"]) {
                a.r("PlainDate::add", d.add(&du, None));
                a.r("PlainDateTime::add", dt.add(&du, None));
                a.r("PlainYearMonth::add", ym.add(&du, ArithmeticOverflow::Constrain));
            }
            if let Some(o) = a.r("PlainDate::try_new", PlainDate::try_new(2000, 1, 1, Calendar::default())) {
                a.r("PlainDate::until", d.until(&o, diff_settings(Some(Unit::Month), None, 1)));
            }
            if let Some(o) = a.r("PlainYearMonth::new_with_overflow", PlainYearMonth::new_with_overflow(2000, 1, None, Calendar::default(), ArithmeticOverflow::Reject)) {
                a.r("PlainYearMonth::until", ym.until(&o, diff_settings(None, None, 1)));
            }
            a.r("PlainDateTime::round", { let mut ro = RoundingOptions::default(); ro.smallest_unit = Some(Unit::Hour); dt.round(ro) });
            let valid = d.iso_month() >= 1 && d.iso_day() >= 1 && ym.iso_month() >= 1 && md.iso_month() >= 1 && md.iso_day() >= 1 && dt.iso_month() >= 1;
            if !valid { return Some("assert:default is not a date".into()); }
            Some(a.done())
        }
        "sw_durraw" => {
            // durations assembled from the public records without the validating constructor: any finite doubles,
            // mixed signs and fractions included (`Duration::from(DateDuration)`, `Duration::from_day_and_time`)
            use temporal_rs::primitive::FiniteF64;
            let mut fs = Vec::new();
            for k in 1..11 {
                let Ok(x) = t[k].parse::<f64>() else { return None };
                let Some(x) = a.r("FiniteF64::try_from", FiniteF64::try_from(x)) else { return Some(a.done()) };
                fs.push(x);
            }
            let mut dd = temporal_rs::DateDuration::default();
            dd.years = fs[0]; dd.months = fs[1]; dd.weeks = fs[2]; dd.days = fs[3];
            let mut td = temporal_rs::TimeDuration::default();
            td.hours = fs[4]; td.minutes = fs[5]; td.seconds = fs[6]; td.milliseconds = fs[7]; td.microseconds = fs[8]; td.nanoseconds = fs[9];
            let durs = [Duration::from(dd), Duration::from(td), Duration::from_day_and_time(fs[3], &td)];
            let Some(d0) = a.r("PlainDate::try_new", PlainDate::try_new(2020, 1, 31, Calendar::default())) else { return Some(a.done()) };
            let Some(dt0) = a.r("PlainDateTime::try_new", PlainDateTime::try_new(2020, 1, 31, 12, 0, 0, 0, 0, 0, Calendar::default())) else { return Some(a.done()) };
            let Some(t0) = a.r("PlainTime::try_new", PlainTime::try_new(12, 0, 0, 0, 0, 0)) else { return Some(a.done()) };
            let Some(i0) = a.r("Instant::try_new", Instant::try_new(0)) else { return Some(a.done()) };
            let Some(ym0) = a.r("PlainYearMonth::new_with_overflow", PlainYearMonth::new_with_overflow(2020, 1, None, Calendar::default(), ArithmeticOverflow::Reject)) else { return Some(a.done()) };
            for du in durs.iter() {
                let _ = (du.sign() as i8, du.is_zero(), du.is_time_within_range());
                let _ = du.negated();
                let _ = du.abs();
                a.r("as_temporal_string", du.as_temporal_string(ToStringRoundingOptions::default()));
                let mut so = ToStringRoundingOptions::default();
                so.smallest_unit = Some(Unit::Millisecond);
                a.r("as_temporal_string(ms)", du.as_temporal_string(so));
                a.r("Duration::add", du.add(du));
                a.r("Duration::subtract", du.subtract(&du.negated()));
                a.r("PlainDate::add", d0.add(du, None));
                a.r("PlainDate::subtract", d0.subtract(du, Some(ArithmeticOverflow::Reject)));
                a.r("PlainDateTime::add", dt0.add(du, None));
                a.r("PlainDateTime::subtract", dt0.subtract(du, Some(ArithmeticOverflow::Reject)));
                a.r("PlainTime::add", t0.add(du));
                a.r("PlainTime::subtract", t0.subtract(du));
                a.r("Instant::add", i0.add(*du));
                a.r("Instant::subtract", i0.subtract(*du));
                a.r("PlainYearMonth::add", ym0.add(du, ArithmeticOverflow::Constrain));
                PROVIDER.with(|p| {
                    for (l, sm) in [(None, Some(Unit::Second)), (Some(Unit::Year), Some(Unit::Day)), (Some(Unit::Hour), None), (Some(Unit::Day), Some(Unit::Nanosecond))] {
                        let mut ro = RoundingOptions::default();
                        ro.largest_unit = l;
                        ro.smallest_unit = sm;
                        a.r("Duration::round", du.round_with_provider(ro, None, p));
                        a.r("Duration::round(date)", du.round_with_provider(ro, Some(RelativeTo::PlainDate(d0.clone())), p));
                    }
                    for u in [Unit::Year, Unit::Week, Unit::Day, Unit::Hour, Unit::Nanosecond] {
                        a.r("Duration::total", du.total_with_provider(u, None, p));
                        a.r("Duration::total(date)", du.total_with_provider(u, Some(RelativeTo::PlainDate(d0.clone())), p));
                    }
                    a.r("Duration::compare", du.compare_with_provider(&du.negated(), None, p));
                    a.r("Duration::compare(date)", du.compare_with_provider(&du.negated(), Some(RelativeTo::PlainDate(d0.clone())), p));
                    if let Some(z) = a.r("ZonedDateTime::try_new", ZonedDateTime::try_new(0, Calendar::default(), TimeZone::default())) {
                        a.r("ZonedDateTime::add", z.add_with_provider(du, None, p));
                        a.r("Duration::total(zdt)", du.total_with_provider(Unit::Day, Some(RelativeTo::ZonedDateTime(z.clone())), p));
                    }
                });
            }
            Some(a.done())
        }
        "sw_zdt" => {
            let Some(tz) = a.r("TimeZone::try_from_str", TimeZone::try_from_str(t[1])) else { return Some(a.done()) };
            let ns = i(t[2]);
            PROVIDER.with(|p| {
                let Some(z) = a.r("ZonedDateTime::try_new", ZonedDateTime::try_new(ns, Calendar::default(), tz.clone())) else { return };
                a.r("year", z.year_with_provider(p));
                a.r("month", z.month_with_provider(p));
                a.r("day", z.day_with_provider(p));
                a.r("hour", z.hour_with_provider(p));
                a.r("minute", z.minute_with_provider(p));
                a.r("second", z.second_with_provider(p));
                a.r("nanosecond", z.nanosecond_with_provider(p));
                a.r("offset", z.offset_with_provider(p));
                a.r("offset_nanoseconds", z.offset_nanoseconds_with_provider(p));
                a.r("day_of_week", z.day_of_week_with_provider(p));
                a.r("days_in_month", z.days_in_month_with_provider(p));
                a.r("hours_in_day", z.hours_in_day_with_provider(p));
                a.r("start_of_day", z.start_of_day_with_provider(p));
                a.r("to_plain_datetime", z.to_plain_datetime_with_provider(p));
                a.r("to_string", z.to_string_with_provider(p));
                a.r("transition next", z.get_time_zone_transition_with_provider(temporal_rs::provider::TransitionDirection::Next, p));
                if let Some(pt) = a.r("PlainTime::try_new", PlainTime::try_new(2, 30, 0, 0, 0, 0)) {
                    a.r("with_plain_time", z.with_plain_time_and_provider(pt, p));
                }
                for f in [["0", "1", "0", "1", "1", "0", "0", "0", "0", "0"], ["-1", "0", "0", "0", "0", "0", "0", "0", "0", "-1"], ["0", "0", "0", "0", "0", "0", "9007199254740991", "0", "0", "0"], ["4294967295", "0", "0", "0", "0", "0", "0", "0", "0", "0"], ["0", "0", "0", "100000000", "0", "0", "0", "0", "0", "0"]] {
                    let Ok(du) = duration_from(&f) else { continue };
                    if let Some(r) = a.r("add", z.add_with_provider(&du, None, p)) {
                        for l in [Unit::Year, Unit::Month, Unit::Day, Unit::Hour, Unit::Nanosecond] {
                            a.r("until", z.until_with_provider(&r, diff_settings(Some(l), None, 1), p));
                            a.r("since", z.since_with_provider(&r, diff_settings(Some(l), Some(Unit::Hour.min(l)), 1), p));
                        }
                    }
                    a.r("subtract", z.subtract_with_provider(&du, Some(ArithmeticOverflow::Reject), p));
                    // durations relative to this zoned date-time
                    let mut ro = RoundingOptions::default();
                    ro.largest_unit = Some(Unit::Year);
                    ro.smallest_unit = Some(Unit::Day);
                    a.r("Duration::round(zdt)", du.round_with_provider(ro, Some(RelativeTo::ZonedDateTime(z.clone())), p));
                    a.r("Duration::total(zdt)", du.total_with_provider(Unit::Month, Some(RelativeTo::ZonedDateTime(z.clone())), p));
                    a.r("Duration::compare(zdt)", du.compare_with_provider(&du.negated(), Some(RelativeTo::ZonedDateTime(z.clone())), p));
                }
                // wall-clock → instant with every disambiguation
                if let Some(dt) = a.r("to_plain_datetime", z.to_plain_datetime_with_provider(p)) {
                    for d in [Disambiguation::Compatible, Disambiguation::Earlier, Disambiguation::Later, Disambiguation::Reject] {
                        a.r("to_zoned_date_time", dt.to_zoned_date_time_with_provider(&tz, d, p));
                    }
                }
            });
            Some(a.done())
        }
        _ => None,
    }
}
