//! C17 (with / from_partial / constructors) and C18 (year-months and month-days).
use crate::common::*;
use crate::gen::c04::{date3, fmt_date};
use crate::gen::c05::{dt9, fmt_dt};
use crate::gen::c10::diff_settings;
use std::str::FromStr;
use temporal_rs::options::ArithmeticOverflow;
use temporal_rs::partial::{PartialDate, PartialDateTime, PartialTime};
use temporal_rs::{Calendar, MonthCode, PlainDate, PlainDateTime, PlainMonthDay, PlainTime, PlainYearMonth, TemporalError, TinyAsciiStr};

fn opt_i(s: &str) -> Option<i128> {
    if s == "-" { None } else { Some(i(s)) }
}
fn opt_ov(s: &str) -> Option<ArithmeticOverflow> {
    if s == "-" { None } else { Some(overflow(s)) }
}

/// year month mcode day era eraYear
fn partial_date(t: &[&str]) -> Result<PartialDate, TemporalError> {
    let mc = if t[2] == "-" { None } else { Some(MonthCode::from_str(t[2])?) };
    let era = if t[4] == "-" { None } else { Some(TinyAsciiStr::<19>::try_from_str(t[4]).map_err(|_| TemporalError::range())?) };
    Ok(PartialDate::new()
        .with_year(opt_i(t[0]).map(|x| x as i32))
        .with_month(opt_i(t[1]).map(|x| x as u8))
        .with_month_code(mc)
        .with_day(opt_i(t[3]).map(|x| x as u8))
        .with_era(era)
        .with_era_year(opt_i(t[5]).map(|x| x as i32)))
}
fn partial_time(t: &[&str]) -> PartialTime {
    PartialTime {
        hour: opt_i(t[0]).map(|x| x as u8), minute: opt_i(t[1]).map(|x| x as u8), second: opt_i(t[2]).map(|x| x as u8),
        millisecond: opt_i(t[3]).map(|x| x as u16), microsecond: opt_i(t[4]).map(|x| x as u16),
        nanosecond: opt_i(t[5]).map(|x| x as u16),
    }
}
fn time6(t: &[&str]) -> Result<PlainTime, TemporalError> {
    PlainTime::try_new(i(t[0]) as u8, i(t[1]) as u8, i(t[2]) as u8, i(t[3]) as u16, i(t[4]) as u16, i(t[5]) as u16)
}
/// year month refday(-|n) constructed with reject
fn ym3(t: &[&str]) -> Result<PlainYearMonth, TemporalError> {
    PlainYearMonth::new_with_overflow(i(t[0]) as i32, i(t[1]) as u8, opt_i(t[2]).map(|x| x as u8), Calendar::default(), ArithmeticOverflow::Reject)
}
fn fmt_ym(p: &PlainYearMonth) -> String {
    // iso_year, iso_month and the hidden reference day (through the string form, which prints it when not canonical)
    let s = p.to_ixdtf_string(temporal_rs::options::DisplayCalendar::Always);
    // the string is YYYY-MM-DD[u-ca=iso8601] with an always-shown calendar: take the day digits
    let body = s.split('[').next().unwrap_or("");
    let day = body.rsplit('-').next().and_then(|d| d.parse::<u8>().ok()).unwrap_or(0);
    format!("{} {} {}", p.iso_year(), p.iso_month(), day)
}
fn fmt_md(p: &PlainMonthDay) -> String {
    format!("{} {} {}", p.iso_year(), p.iso_month(), p.iso_day())
}

pub fn eval(t: &[&str]) -> Option<String> {
    Some(match t[0] {
        "pd_fromp" => render(partial_date(&t[1..7]).and_then(|p| PlainDate::from_partial(p, opt_ov(t[7]))), |d| fmt_date(&d)),
        "pd_with" => render(
            date3(&t[1..4]).and_then(|r| r.with(partial_date(&t[4..10])?, opt_ov(t[10]))),
            |d| fmt_date(&d),
        ),
        "pt_fromp" => render(PlainTime::from_partial(partial_time(&t[1..7]), opt_ov(t[7])), |v| crate::ops::fmt_time(&v)),
        "pt_with" => render(time6(&t[1..7]).and_then(|r| r.with(partial_time(&t[7..13]), opt_ov(t[13]))), |v| crate::ops::fmt_time(&v)),
        "pdt_fromp" => render(
            partial_date(&t[1..7]).and_then(|pd| {
                PlainDateTime::from_partial(PartialDateTime { date: pd, time: partial_time(&t[7..13]) }, opt_ov(t[13]))
            }),
            |d| fmt_dt(&d),
        ),
        "pdt_with" => render(
            dt9(&t[1..10]).and_then(|r| {
                let pd = partial_date(&t[10..16])?;
                r.with(PartialDateTime { date: pd, time: partial_time(&t[16..22]) }, opt_ov(t[22]))
            }),
            |d| fmt_dt(&d),
        ),
        "pd_new" => render(
            PlainDate::new_with_overflow(i(t[1]) as i32, i(t[2]) as u8, i(t[3]) as u8, Calendar::default(), overflow(t[4])),
            |d| fmt_date(&d),
        ),
        "pt_new" => render(
            PlainTime::new_with_overflow(i(t[1]) as u8, i(t[2]) as u8, i(t[3]) as u8, i(t[4]) as u16, i(t[5]) as u16, i(t[6]) as u16, overflow(t[7])),
            |v| crate::ops::fmt_time(&v),
        ),
        "pdt_new" => render(
            PlainDateTime::new_with_overflow(i(t[1]) as i32, i(t[2]) as u8, i(t[3]) as u8, i(t[4]) as u8, i(t[5]) as u8, i(t[6]) as u8,
                i(t[7]) as u16, i(t[8]) as u16, i(t[9]) as u16, Calendar::default(), overflow(t[10])),
            |d| fmt_dt(&d),
        ),
        // ---- C18 ----
        "ym_new" => render(
            PlainYearMonth::new_with_overflow(i(t[1]) as i32, i(t[2]) as u8, opt_i(t[3]).map(|x| x as u8), Calendar::default(), overflow(t[4])),
            |p| fmt_ym(&p),
        ),
        "ym_fromp" => render(partial_date(&t[1..7]).and_then(|p| PlainYearMonth::from_partial(p, overflow(t[7]))), |p| fmt_ym(&p)),
        "md_fromp" => render(partial_date(&t[1..7]).and_then(|p| Calendar::default().month_day_from_partial(&p, overflow(t[7]))), |p| fmt_md(&p)),
        "ym_with" => render(ym3(&t[1..4]).and_then(|r| r.with(partial_date(&t[4..10])?, opt_ov(t[10]))), |p| fmt_ym(&p)),
        "ym_parse" => render(PlainYearMonth::from_str(t[1]), |p| fmt_ym(&p)),
        "md_parse" => render(PlainMonthDay::from_str(t[1]), |p| fmt_md(&p)),
        "md_new" => render(
            PlainMonthDay::new_with_overflow(i(t[1]) as u8, i(t[2]) as u8, Calendar::default(), overflow(t[3]), opt_i(t[4]).map(|x| x as i32)),
            |p| fmt_md(&p),
        ),
        "pd_to_ym" => render(date3(&t[1..4]).and_then(|d| d.to_plain_year_month()), |p| fmt_ym(&p)),
        "pd_to_md" => render(date3(&t[1..4]).and_then(|d| d.to_plain_month_day()), |p| fmt_md(&p)),
        "ym_add" | "ym_sub" => render(
            ym3(&t[1..4]).and_then(|r| {
                let d = duration_from(&t[4..14])?;
                if t[0] == "ym_add" { r.add(&d, overflow(t[14])) } else { r.subtract(&d, overflow(t[14])) }
            }),
            |p| fmt_ym(&p),
        ),
        "ym_until" | "ym_since" => render(
            ym3(&t[1..4]).and_then(|a| {
                let b = ym3(&t[4..7])?;
                let s = diff_settings(t[7], t[8], t[9], t[10])?;
                if t[0] == "ym_until" { a.until(&b, s) } else { a.since(&b, s) }
            }),
            |d| fmt_duration(&d),
        ),
        "ym_cmp" => render(
            ym3(&t[1..4]).and_then(|a| {
                let b = ym3(&t[4..7])?;
                Ok(a.compare_iso(&b) as i32)
            }),
            |c| c.to_string(),
        ),
        _ => return None,
    })
}

fn pick<'a>(rng: &mut Rng, xs: &'a [&'a str]) -> &'a str { *rng.pick(xs) }

const YEARS: [&str; 12] = ["-", "2024", "2023", "1900", "2000", "0", "-1", "-271821", "275760", "-271822", "275761", "2147483647"];
const MONTHS: [&str; 10] = ["-", "0", "1", "2", "4", "11", "12", "13", "14", "255"];
const CODES: [&str; 10] = ["-", "M01", "M02", "M04", "M12", "M13", "M00L", "M05L", "M11", "M99"];
const DAYS: [&str; 11] = ["-", "0", "1", "15", "28", "29", "30", "31", "32", "255", "100"];
const OVS: [&str; 3] = ["-", "constrain", "reject"];
const H: [&str; 7] = ["-", "0", "12", "23", "24", "255", "5"];
const M60: [&str; 7] = ["-", "0", "30", "59", "60", "255", "7"];
const S1000: [&str; 8] = ["-", "0", "500", "999", "1000", "65535", "1", "123"];

fn rand_partial(rng: &mut Rng) -> String {
    let era = if rng.chance(1, 12) { "ce" } else { "-" };
    let ey = if rng.chance(1, 12) { "2020" } else { "-" };
    format!("{} {} {} {} {} {}", pick(rng, &YEARS), pick(rng, &MONTHS), pick(rng, &CODES), pick(rng, &DAYS), era, ey)
}
fn rand_ptime(rng: &mut Rng) -> String {
    let f = |rng: &mut Rng, xs: &[&'static str]| -> &'static str { if rng.chance(1, 2) { "-" } else { *rng.pick(xs) } };
    format!("{} {} {} {} {} {}", f(rng, &H), f(rng, &M60), f(rng, &M60), f(rng, &S1000), f(rng, &S1000), f(rng, &S1000))
}
const RECV: [&str; 8] = ["2024 2 29", "2023 1 31", "2021 12 31", "1900 3 15", "-271821 4 19", "275760 9 13", "2000 11 30", "1972 6 1"];

pub fn generate_c17(rng: &mut Rng, thorough: bool) -> Vec<String> {
    let mut v = Vec::new();
    // "a month that contradicts the month code is a RangeError" in every calendar: the crate's own field resolution
    // (hook), for every month code of the calendar's shape - leap codes included - against the
    // month of the same number and its neighbours
    for cal in super::c03::CALENDARS {
        if cal == "iso8601" { continue; }
        for num in [1i128, 4, 5, 6, 12, 13] {
            for leap in ["", "L"] {
                for dm in [-1i128, 0, 1, 2] {
                    let month = num + dm;
                    if month < 1 || (!thorough && dm == 2 && num % 2 == 0) { continue; }
                    v.push(format!("cal_res {cal} - - 2020 {month} M{num:02}{leap} 1"));
                }
            }
        }
    }
    // exhaustive over the pools for PlainDate (year x month x code x day x overflow) — all 2^k subsets are covered
    // because "-" is in every pool
    for y in YEARS { for m in MONTHS { for c in CODES { for d in DAYS {
        let ov = pick(rng, &OVS);
        v.push(format!("pd_fromp {y} {m} {c} {d} - - {ov}"));
        let r = pick(rng, &RECV);
        v.push(format!("pd_with {r} {y} {m} {c} {d} - - {}", pick(rng, &OVS)));
    }}}}
    let n = if thorough { 200_000 } else { 25_000 };
    for _ in 0..n {
        let ov = pick(rng, &OVS);
        v.push(format!("pd_fromp {} {ov}", rand_partial(rng)));
        v.push(format!("pd_with {} {} {ov}", pick(rng, &RECV), rand_partial(rng)));
        v.push(format!("pt_fromp {} {ov}", rand_ptime(rng)));
        let rt = format!("{} {} {} {} {} {}", rng.range(0, 23), rng.range(0, 59), rng.range(0, 59), rng.range(0, 999), rng.range(0, 999), rng.range(0, 999));
        v.push(format!("pt_with {rt} {} {ov}", rand_ptime(rng)));
        v.push(format!("pdt_fromp {} {} {ov}", rand_partial(rng), rand_ptime(rng)));
        let tod = match rng.below(3) { 0 => "0 0 0 0 0 0".to_string(), 1 => "0 0 0 0 0 1".to_string(), _ => rt.clone() };
        v.push(format!("pdt_with {} {tod} {} {} {ov}", pick(rng, &RECV), rand_partial(rng), rand_ptime(rng)));
        // identity law: a value's own fields applied to itself
        let r = pick(rng, &RECV);
        let f: Vec<&str> = r.split(' ').collect();
        let code = format!("M{:02}", f[1].parse::<u8>().unwrap());
        v.push(format!("pd_with {r} {} {} {code} {} - - {ov}", f[0], f[1], f[2]));
        v.push(format!("pt_with {rt} {rt} {ov}"));
        // constructors
        let ovc = if rng.chance(1, 2) { "constrain" } else { "reject" };
        v.push(format!("pd_new {} {} {} {ovc}", pick(rng, &YEARS[1..]), pick(rng, &MONTHS[1..]), pick(rng, &DAYS[1..])));
        v.push(format!("pt_new {} {} {} {} {} {} {ovc}", pick(rng, &H[1..]), pick(rng, &M60[1..]), pick(rng, &M60[1..]), pick(rng, &S1000[1..]), pick(rng, &S1000[1..]), pick(rng, &S1000[1..])));
        v.push(format!("pdt_new {} {} {} {} {} {} {} {} {} {ovc}", pick(rng, &YEARS[1..]), pick(rng, &MONTHS[1..]), pick(rng, &DAYS[1..]), pick(rng, &H[1..]), pick(rng, &M60[1..]), pick(rng, &M60[1..]), pick(rng, &S1000[1..]), pick(rng, &S1000[1..]), pick(rng, &S1000[1..])));
    }
    v
}

pub fn generate_c18(rng: &mut Rng, thorough: bool) -> Vec<String> {
    let mut v = Vec::new();
    // month-days from a field record: the day is regulated in the year the record gives (29 February of common and
    // leap years, day 30 / 31 of every month, missing fields, month / month code conflicts), both overflow modes
    for y in [2019i128, 2020, 2021, 2024, 1900, 2000, 1972, 0, -1, -271821, 275760] {
        for m in 0..=13i128 {
            for d in ["28", "29", "30", "31", "32", "0", "1", "-"] {
                for ov in ["constrain", "reject"] {
                    v.push(format!("md_fromp {y} {m} - {d} - - {ov}"));
                    if m == 2 || rng.chance(1, 4) {
                        v.push(format!("md_fromp {y} - M{:02} {d} - - {ov}", m.clamp(0, 99)));
                        v.push(format!("md_fromp - {m} - {d} - - {ov}"));
                    }
                }
            }
        }
    }
    let ym_years: [i128; 14] = [-271822, -271821, -271820, -1, 0, 1, 1972, 2020, 2024, 9999, 10000, 275759, 275760, 275761];
    // every month of boundary years through every route
    for y in ym_years {
        for m in 0..=13 {
            for refd in ["-", "1", "15", "31"] {
                for ov in ["constrain", "reject"] {
                    v.push(format!("ym_new {y} {m} {refd} {ov}"));
                }
            }
            for ov in ["constrain", "reject"] {
                v.push(format!("ym_fromp {y} {m} - - - - {ov}"));
                v.push(format!("ym_fromp {y} {m} - 15 - - {ov}"));
                v.push(format!("ym_fromp {y} - M{:02} 31 - - {ov}", m.clamp(0, 99)));
            }
            if (1..=12).contains(&m) {
                let ys = if (0..=9999).contains(&y) { format!("{:04}", y) } else { format!("{}{:06}", if y < 0 { "-" } else { "+" }, y.abs()) };
                v.push(format!("ym_parse {ys}-{:02}", m));
                v.push(format!("ym_parse {ys}-{:02}-15", m));
                v.push(format!("ym_parse {ys}-{:02}-28T10:00", m));
                v.push(format!("ym_parse {ys}-{:02}[u-ca=iso8601]", m));
                v.push(format!("ym_parse {ys}{:02}", m));
                for d in [1, 15, 28] { v.push(format!("pd_to_ym {y} {m} {d}")); }
            }
        }
    }
    // all 366 month-days + impossible days, every route
    for m in 0..=13 {
        for d in 0..=32 {
            for ov in ["constrain", "reject"] {
                v.push(format!("md_new {m} {d} {ov} -"));
                if d % 7 == 0 { v.push(format!("md_new {m} {d} {ov} {}", rng.pick(&["1972", "2023", "2024", "1900"]))); }
            }
            if (1..=12).contains(&m) && (1..=31).contains(&d) {
                v.push(format!("md_parse {:02}-{:02}", m, d));
                v.push(format!("md_parse --{:02}-{:02}", m, d));
                v.push(format!("md_parse 2023-{:02}-{:02}", m, d));
                v.push(format!("md_parse 2024-{:02}-{:02}[u-ca=iso8601]", m, d));
                for y in [2023, 2024] { v.push(format!("pd_to_md {y} {m} {d}")); }
            }
        }
    }
    let n = if thorough { 150_000 } else { 20_000 };
    let largest = ["-", "auto", "year", "month", "week", "day", "hour"];
    let mopt = ["-", "ceil", "floor", "expand", "trunc", "halfCeil", "halfFloor", "halfExpand", "halfTrunc", "halfEven"];
    for k in 0..n {
        let y = match rng.below(5) { 0 => rng.range(-271821, -271815), 1 => rng.range(275754, 275760), 2 => rng.range(1960, 2040), _ => rng.range(-271821, 275760) };
        let m = rng.range(1, 12);
        let refd = *rng.pick(&["-", "-", "-", "1", "15", "28"]);
        let y2 = match rng.below(4) { 0 => y, 1 => y + rng.range(-3, 3), _ => rng.range(-271821, 275760) };
        let m2 = rng.range(1, 12);
        let refd2 = *rng.pick(&["-", "-", "-", "1", "20"]);
        let mut f = vec![0i128; 10];
        let sign = if rng.chance(1, 2) { 1 } else { -1 };
        f[0] = sign * match rng.below(4) { 0 => 0, 1 => rng.range(0, 10), 2 => rng.range(0, 600_000), _ => rng.range(0, 100) };
        f[1] = sign * match rng.below(4) { 0 => 0, 1 => rng.range(0, 30), 2 => rng.range(0, 7_000_000), _ => rng.range(0, 13) };
        if rng.chance(1, 6) { f[2] = sign * rng.range(1, 5); }
        if rng.chance(1, 6) { f[3] = sign * rng.range(1, 40); }
        if rng.chance(1, 8) { f[4] = sign * *rng.pick(&[1i128, 23, 24, 25, 48]); }
        let dus = f.iter().map(|x| x.to_string()).collect::<Vec<_>>().join(" ");
        let ov = if rng.chance(1, 2) { "constrain" } else { "reject" };
        let op = if k % 3 == 0 { "ym_sub" } else { "ym_add" };
        v.push(format!("{op} {y} {m} {refd} {dus} {ov}"));
        let op = if k % 2 == 0 { "ym_until" } else { "ym_since" };
        v.push(format!("{op} {y} {m} {refd} {y2} {m2} {refd2} {} - - {}", rng.pick(&largest), rng.pick(&mopt)));
        // with smallestUnit / roundingIncrement (the relative-rounding machinery, from the first of both months)
        v.push(format!("{op} {y} {m} {refd} {y2} {m2} {refd2} {} {} {} {}", rng.pick(&["-", "auto", "year", "month"]),
            rng.pick(&["-", "month", "year", "month"]), rng.pick(&["-", "1", "2", "3", "5", "6", "12"]), rng.pick(&mopt)));
        v.push(format!("ym_cmp {y} {m} {refd} {y2} {m2} {refd2}"));
        if k % 4 == 0 {
            v.push(format!("ym_with {y} {m} {refd} {} {}", rand_partial(rng), pick(rng, &OVS)));
        }
    }
    v
}
