//! C04: PlainDate add/subtract/until/since (+ inverse-law probe).
use crate::common::*;
use crate::gen::c10::diff_settings;
use temporal_rs::{Calendar, PlainDate, TemporalError};

pub fn date3(t: &[&str]) -> Result<PlainDate, TemporalError> {
    let (y, m, d) = (i(t[0]), i(t[1]), i(t[2]));
    if !(i32::MIN as i128..=i32::MAX as i128).contains(&y) || !(0..=255).contains(&m) || !(0..=255).contains(&d) {
        return Err(TemporalError::range());
    }
    PlainDate::try_new(y as i32, m as u8, d as u8, Calendar::default())
}
pub fn fmt_date(p: &PlainDate) -> String {
    format!("{} {} {}", p.iso_year(), p.iso_month(), p.iso_day())
}

pub fn eval(t: &[&str]) -> Option<String> {
    Some(match t[0] {
        "pd_add" | "pd_sub" => render(
            date3(&t[1..4]).and_then(|p| {
                let d = duration_from(&t[4..14])?;
                let ov = Some(overflow(t[14]));
                if t[0] == "pd_add" { p.add(&d, ov) } else { p.subtract(&d, ov) }
            }),
            |p| fmt_date(&p),
        ),
        "pd_until" | "pd_since" => render(
            date3(&t[1..4]).and_then(|a| {
                let b = date3(&t[4..7])?;
                let s = diff_settings(t[7], t[8], t[9], t[10])?;
                if t[0] == "pd_until" { a.until(&b, s) } else { a.since(&b, s) }
            }),
            |d| fmt_duration(&d),
        ),
        // start.add(start.until(end, largestUnit = U)) == end ?
        "pd_law_inv" => render(
            date3(&t[1..4]).and_then(|a| {
                let b = date3(&t[4..7])?;
                let s = diff_settings(t[7], "-", "-", "-")?;
                let d = a.until(&b, s)?;
                let back = a.add(&d, None)?;
                Ok((back.compare_iso(&b) == core::cmp::Ordering::Equal) as u8)
            }),
            |x| x.to_string(),
        ),
        _ => return None,
    })
}

const LO: i128 = -100_000_001;
const HI: i128 = 100_000_000;
fn ymd_of(n: i128) -> (i32, u8, u8) {
    temporal_rs::verif_hooks::ymd_from_epoch_milliseconds(n as i64 * 86_400_000)
}
fn pick_day(rng: &mut Rng) -> i128 {
    match rng.below(8) {
        0 => rng.range(LO, LO + 800),
        1 => rng.range(HI - 800, HI),
        2 => rng.range(-800, 800),
        3 => rng.range(-1_000_000, 1_000_000),
        _ => rng.range(LO, HI),
    }
}
/// month-end / leap-day biased date
fn pick_date(rng: &mut Rng) -> (i128, i128, i128) {
    if rng.chance(1, 2) {
        let (y, m, d) = ymd_of(pick_day(rng));
        (y as i128, m as i128, d as i128)
    } else {
        let y = match rng.below(4) { 0 => rng.range(-271_820, -271_700), 1 => rng.range(275_600, 275_759), 2 => rng.range(1890, 2110), _ => rng.range(-271_820, 275_759) };
        let m = rng.range(1, 12);
        let d = *rng.pick(&[1i128, 28, 29, 30, 31, 15]);
        (y, m, d)
    }
}
const LARGEST: [&str; 6] = ["-", "auto", "day", "week", "month", "year"];
const UOPT: [&str; 12] = ["-", "auto", "nanosecond", "microsecond", "millisecond", "second", "minute", "hour", "day", "week", "month", "year"];
const MOPT: [&str; 10] = ["-", "ceil", "floor", "expand", "trunc", "halfCeil", "halfFloor", "halfExpand", "halfTrunc", "halfEven"];

fn date_dur(rng: &mut Rng) -> Vec<i128> {
    let mut f = vec![0i128; 10];
    let sign = if rng.chance(1, 2) { 1 } else { -1 };
    let pick = |rng: &mut Rng, small: i128, big: i128| -> i128 {
        match rng.below(10) {
            0..=3 => 0,
            4 | 5 => rng.range(0, small),
            6 => rng.range(0, big),
            7 => *rng.pick(&[2147483647i128, 2147483648, 2147483646, 4294967295, 306783378, 306783379]),
            _ => rng.range(0, 40),
        }
    };
    f[0] = sign * pick(rng, 30, 600_000);
    f[1] = sign * pick(rng, 40, 7_000_000);
    f[2] = sign * pick(rng, 60, 30_000_000);
    f[3] = sign * pick(rng, 400, 210_000_000);
    if rng.chance(1, 3) {
        // time units contribute whole days only
        f[4] = sign * rng.range(0, 100);
        f[5] = sign * rng.range(0, 3000);
        f[9] = sign * *rng.pick(&[0i128, 1, 86_399_999_999_999, 86_400_000_000_000, 86_400_000_000_001, 172_800_000_000_000]);
    }
    f
}

pub fn generate(rng: &mut Rng, thorough: bool) -> Vec<String> {
    let mut v = Vec::new();
    // until / since with a smallest unit and an increment, every rounding mode, on exact ties and next to them
    // (since() is the negation of until() with the mode mirrored: ceil <-> floor, halfCeil <-> halfFloor)
    for m in MODES {
        for _ in 0..(if thorough { 40 } else { 8 }) {
            let (y, mo, d) = (rng.range(1900, 2100), rng.range(1, 12), rng.range(1, 28));
            let inc = *rng.pick(&[2i128, 4, 6, 10, 14]);
            let k = rng.range(0, 20);
            let off = k * inc + inc / 2 + *rng.pick(&[0i128, 0, 0, 1, -1]);
            let (y2, m2, d2) = {
                let e = temporal_rs::verif_hooks::epoch_days_from_gregorian_date(y as i32, mo as u8, d as u8) as i128 + off * *rng.pick(&[1i128, -1]);
                let (a, b, c) = temporal_rs::verif_hooks::ymd_from_epoch_milliseconds((e * 86_400_000) as i64);
                (a as i128, b as i128, c as i128)
            };
            for op in ["pd_until", "pd_since"] {
                v.push(format!("{op} {y} {mo} {d} {y2} {m2} {d2} day day {inc} {m}"));
                v.push(format!("{op} {y} {mo} {d} {y2} {m2} {d2} - day {inc} {m}"));
            }
            // half a week, half a month of 28 / 30 days, half a year
            for (dy, dm, dd, l, su) in [(0i128, 0i128, 3i128, "week", "week"), (0, 0, 4, "week", "week"), (0, 0, 14, "month", "month"), (0, 0, 15, "month", "month"), (0, 6, 0, "year", "year"), (0, 6, 1, "year", "year")] {
                let (yy, mm) = (y + dy + (mo - 1 + dm) / 12, (mo - 1 + dm) % 12 + 1);
                let e = temporal_rs::verif_hooks::epoch_days_from_gregorian_date(yy as i32, mm as u8, d as u8) as i128 + dd;
                let (a, b, c) = temporal_rs::verif_hooks::ymd_from_epoch_milliseconds((e * 86_400_000) as i64);
                for op in ["pd_until", "pd_since"] {
                    v.push(format!("{op} {y} {mo} {d} {a} {b} {c} {l} {su} 1 {m}"));
                    v.push(format!("{op} {a} {b} {c} {y} {mo} {d} {l} {su} 1 {m}"));
                }
            }
        }
    }
    let n = if thorough { 400_000 } else { 50_000 };
    for k in 0..n {
        let (y, m, d) = pick_date(rng);
        let du = date_dur(rng);
        let ov = if rng.chance(1, 2) { "constrain" } else { "reject" };
        let dus = du.iter().map(|x| f64_int(*x).to_string()).collect::<Vec<_>>().join(" ");
        let op = if k % 3 == 0 { "pd_sub" } else { "pd_add" };
        v.push(format!("{op} {y} {m} {d} {dus} {ov}"));
        let (y2, m2, d2) = if rng.chance(1, 4) {
            // same month-end neighbourhood
            let (yy, mm, dd) = ymd_of((temporal_rs::verif_hooks::epoch_days_from_gregorian_date(y as i32, m as u8, d.min(28) as u8) as i128 + rng.range(-800, 800)).clamp(LO, HI));
            (yy as i128, mm as i128, dd as i128)
        } else {
            pick_date(rng)
        };
        let l = *rng.pick(&LARGEST);
        let op = if k % 2 == 0 { "pd_until" } else { "pd_since" };
        v.push(format!("{op} {y} {m} {d} {y2} {m2} {d2} {l} - - {}", rng.pick(&MOPT)));
        if k % 8 == 0 {
            // option errors / explicit smallest unit day
            v.push(format!("{op} {y} {m} {d} {y2} {m2} {d2} {} {} {} {}", rng.pick(&UOPT), rng.pick(&["-", "day", "hour", "auto"]), rng.pick(&["-", "1"]), rng.pick(&MOPT)));
        }
        v.push(format!("pd_law_inv {y} {m} {d} {y2} {m2} {d2} {}", rng.pick(&LARGEST)));
    }
    v
}
