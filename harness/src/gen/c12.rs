//! C12: parsers against the Temporal grammar. `p_<type> <hex utf-8>`: the parser's verdict and value in a canonical
//! rendering, compared with the specification reader (Spec/Grammar*.lean).
//! Strings: grammar-generated in every syntactic variant, single/multi-character mutations, symbol soups.
use crate::common::*;
use super::c03::{hex, unhex};
use std::str::FromStr;
use temporal_rs::{Duration, Instant, MonthCode, PlainDate, PlainDateTime, PlainMonthDay, PlainTime, PlainYearMonth, UtcOffset};

const TYPES: [&str; 10] = ["date", "datetime", "time", "yearmonth", "monthday", "instant", "duration", "offset", "monthcode", "tz"];

fn year(rng: &mut Rng) -> String {
    match rng.below(10) {
        0 => format!("+{:06}", rng.range(0, 275760)),
        1 => format!("-{:06}", rng.range(1, 271821)),
        2 => "-000000".into(),
        3 => "+000000".into(),
        4 => format!("{:04}", rng.range(0, 9999)),
        5 => format!("{}", rng.range(0, 99999)), // wrong width
        _ => format!("{:04}", rng.range(1900, 2100)),
    }
}
fn two(rng: &mut Rng, lo: i128, hi: i128, slack: i128) -> String {
    let v = if rng.chance(1, 8) { rng.range(lo - slack.min(lo), hi + slack) } else { rng.range(lo, hi) };
    format!("{:02}", v.max(0))
}
fn date(rng: &mut Rng) -> String {
    let y = year(rng);
    let m = two(rng, 1, 12, 2);
    let d = if rng.chance(1, 4) { format!("{:02}", rng.pick(&[28i128, 29, 30, 31, 0, 32])) } else { two(rng, 1, 28, 0) };
    if rng.chance(1, 4) { format!("{y}{m}{d}") } else if rng.chance(1, 12) { format!("{y}-{m}{d}") } else { format!("{y}-{m}-{d}") }
}
fn fraction(rng: &mut Rng) -> String {
    if rng.chance(1, 2) {
        return String::new();
    }
    let n = *rng.pick(&[1usize, 2, 3, 6, 9, 9, 10, 0]);
    let digits: String = (0..n).map(|_| char::from(b'0' + rng.below(10) as u8)).collect();
    format!("{}{digits}", rng.pick(&['.', '.', ',']))
}
fn time(rng: &mut Rng) -> String {
    let h = two(rng, 0, 23, 1);
    let mi = two(rng, 0, 59, 1);
    let s = if rng.chance(1, 6) { "60".to_string() } else { two(rng, 0, 59, 2) };
    match rng.below(7) {
        0 => h,
        1 => format!("{h}:{mi}"),
        2 => format!("{h}{mi}"),
        3 => format!("{h}{mi}{s}{}", fraction(rng)),
        4 => format!("{h}:{mi}{s}"),
        _ => format!("{h}:{mi}:{s}{}", fraction(rng)),
    }
}
fn offset(rng: &mut Rng) -> String {
    let sg = *rng.pick(&["+", "-", "+", "-", "\u{2212}"]);
    let h = two(rng, 0, 23, 1);
    let mi = two(rng, 0, 59, 1);
    let s = two(rng, 0, 59, 1);
    match rng.below(8) {
        0 => "Z".into(),
        1 => "z".into(),
        2 => format!("{sg}{h}"),
        3 => format!("{sg}{h}{mi}"),
        4 => format!("{sg}{h}:{mi}:{s}{}", fraction(rng)),
        5 => format!("{sg}{h}{mi}{s}{}", fraction(rng)),
        6 => format!("{sg}{h}:{mi}{s}"),
        _ => format!("{sg}{h}:{mi}"),
    }
}
fn annotations(rng: &mut Rng) -> String {
    let mut s = String::new();
    if rng.chance(1, 3) {
        let crit = if rng.chance(1, 4) { "!" } else { "" };
        let body = match rng.below(8) {
            0 => "UTC".to_string(),
            1 => "America/New_York".into(),
            2 => "+01:00".into(),
            3 => "-0800".into(),
            4 => "+01:00:30".into(),
            5 => "Etc/GMT+5".into(),
            6 => "1Bad/Name".into(),
            _ => "Europe/Nowhere_At_All".into(),
        };
        s.push_str(&format!("[{crit}{body}]"));
    }
    for _ in 0..rng.below(3) {
        let crit = if rng.chance(1, 4) { "!" } else { "" };
        let (k, v) = match rng.below(9) {
            0 | 1 => ("u-ca", "iso8601"),
            2 => ("u-ca", "gregory"),
            3 => ("u-ca", "ISO8601"),
            4 => ("u-ca", "notacal"),
            5 => ("foo", "bar"),
            6 => ("U-CA", "iso8601"),
            7 => ("x_y-1", "a-b-c"),
            _ => ("u-ca", "hebrew"),
        };
        s.push_str(&format!("[{crit}{k}={v}]"));
    }
    s
}
fn duration(rng: &mut Rng) -> String {
    let mut s = String::new();
    s.push_str(*rng.pick(&["", "", "-", "+"]));
    s.push_str(*rng.pick(&["P", "P", "p"]));
    let num = |rng: &mut Rng| match rng.below(6) { 0 => "0".to_string(), 1 => rng.range(0, 5_000_000_000).to_string(), 2 => "4294967295".into(), _ => rng.range(0, 400).to_string() };
    for u in ["Y", "M", "W", "D"] {
        if rng.chance(1, 3) {
            s.push_str(&format!("{}{}", num(rng), if rng.chance(1, 6) { u.to_lowercase() } else { u.to_string() }));
        }
    }
    if rng.chance(2, 3) {
        s.push_str(*rng.pick(&["T", "T", "t"]));
        let mut had_frac = false;
        for u in ["H", "M", "S"] {
            if rng.chance(1, 2) {
                let f = if !had_frac && rng.chance(1, 3) { had_frac = true; fraction(rng) } else { String::new() };
                s.push_str(&format!("{}{f}{u}", num(rng)));
            }
        }
    }
    s
}

fn valid(rng: &mut Rng, ty: &str) -> String {
    match ty {
        "duration" => duration(rng),
        "offset" => offset(rng),
        // a time zone string: an identifier (offset of minute precision, name), or any ISO string carrying a zone
        "tz" => match rng.below(8) {
            0 => offset(rng),
            1 => rng.pick(&["UTC", "Z", "z", "America/New_York", "europe/paris", "Etc/GMT+5", "Etc/GMT-14", "1Bad/Name", "A", "_x/y.z", "GMT0", "EST5EDT", "+", "-", ""]).to_string(),
            2 => format!("{}{}{}{}", rng.pick(&["T", "t", ""]), time(rng), offset(rng), annotations(rng)),
            3 => format!("{}{}{}{}", year(rng), rng.pick(&["-", ""]), two(rng, 1, 12, 2), annotations(rng)),
            4 => format!("{}{}{}{}{}", rng.pick(&["--", ""]), two(rng, 1, 12, 2), rng.pick(&["-", ""]), two(rng, 1, 31, 2), annotations(rng)),
            _ => datetime(rng),
        },
        "monthcode" => format!("M{}{}", two(rng, 1, 13, 2), rng.pick(&["", "", "L", "l", "LL"])),
        "time" => match rng.below(4) {
            0 => format!("{}{}", rng.pick(&["T", "t", ""]), time(rng)),
            1 => format!("{}{}{}{}", rng.pick(&["T", ""]), time(rng), if rng.chance(1, 2) { offset(rng) } else { String::new() }, annotations(rng)),
            _ => datetime(rng),
        },
        "yearmonth" => match rng.below(3) {
            0 => format!("{}{}{}{}", year(rng), rng.pick(&["-", ""]), two(rng, 1, 12, 2), annotations(rng)),
            _ => datetime(rng),
        },
        "monthday" => match rng.below(3) {
            0 => format!("{}{}{}{}{}", rng.pick(&["--", ""]), two(rng, 1, 12, 2), rng.pick(&["-", ""]), two(rng, 1, 31, 2), annotations(rng)),
            _ => datetime(rng),
        },
        _ => datetime(rng),
    }
}
fn datetime(rng: &mut Rng) -> String {
    let d = date(rng);
    let t = if rng.chance(2, 3) { format!("{}{}{}", rng.pick(&["T", "T", "t", " ", "_"]), time(rng), if rng.chance(1, 2) { offset(rng) } else { String::new() }) } else { String::new() };
    format!("{d}{t}{}", annotations(rng))
}

fn mutate(rng: &mut Rng, s: &str) -> String {
    let mut cs: Vec<char> = s.chars().collect();
    for _ in 0..(1 + rng.below(2)) {
        let pos = rng.below(cs.len() as u64 + 1) as usize;
        match rng.below(5) {
            0 if !cs.is_empty() => { cs.remove(pos.min(cs.len() - 1)); }
            1 => cs.insert(pos, *rng.pick(&['0', '9', '-', '+', ':', '.', 'T', 'Z', '[', ']', '!', '=', ' ', 'P', 'é'])),
            2 if !cs.is_empty() => { let p = pos.min(cs.len() - 1); cs[p] = *rng.pick(&['0', '5', '9', '-', ':', 'T', 'Z', '/', 'a']); }
            3 if cs.len() > 1 => { let p = pos.min(cs.len() - 2); cs.swap(p, p + 1); }
            _ => cs.truncate(pos),
        }
    }
    cs.into_iter().collect()
}

pub fn generate(rng: &mut Rng, thorough: bool) -> Vec<String> {
    let mut v = Vec::new();
    // every reader on full date-time strings with each shape of offset and annotation: offsets below one hour with
    // either sign (the sign belongs to the whole offset, not to its hour), second 60, seconds and fractions in the
    // offset, the UTC designator alone and followed by a bracketed zone (plain types refuse it either way)
    for d in ["2019-10-01", "20191001", "-000001-03-04", "+275760-09-13", "1969-12-31", "2016-12-31"] {
        for t in ["T09:00:00", "t23:59:60", "T235960.5", "T00:00", " 12:34:56.789012345", "T23:59:60.9999995"] {
            for o in ["", "Z", "z", "+00:00", "-00:00", "-00:30", "+00:30", "-00:01", "-00:59", "-0045", "-00:00:30", "-00:00:00.5", "-00:30:15.25", "+23:59", "-23:59:59.999999999", "\u{2212}00:30", "-01:00", "-03:30"] {
                for a in ["", "[UTC]", "[America/New_York]", "[+01:00]", "[-00:30]", "[!-03:30]", "[u-ca=iso8601]", "[UTC][u-ca=gregory]", "[!u-ca=iso8601][u-ca=gregory]", "[u-ca=iso8601][!u-ca=gregory]", "[Etc/Unknown]"] {
                    if !thorough && !(o.starts_with("-00") || o == "Z" || o == "z" || o.is_empty() || a.is_empty() || a == "[UTC]") && rng.chance(3, 4) { continue; }
                    let st = format!("{d}{t}{o}{a}");
                    let h = hex(st.as_bytes());
                    for ty in ["date", "datetime", "time", "yearmonth", "monthday", "instant", "tz"] {
                        if thorough || ty == "instant" || ty == "monthday" || rng.chance(1, 3) {
                            v.push(format!("p_{ty} {h}"));
                        }
                    }
                    if (a.starts_with("[UTC]") || a.starts_with("[+") || a.starts_with("[-") || a.starts_with("[!-")) && (thorough || rng.chance(1, 3)) {
                        v.push(format!("p_zdt {h} {} {}", rng.pick(&["compatible", "earlier", "later", "reject"]), rng.pick(&["use", "prefer", "ignore", "reject"])));
                        v.push(format!("p_rel {h}"));
                    }
                }
            }
        }
    }
    let n = if thorough { 40000 } else { 5000 };
    for ty in TYPES {
        for _ in 0..n / 3 {
            let s = valid(rng, ty);
            v.push(format!("p_{ty} {}", hex(s.as_bytes())));
            if rng.chance(1, 2) {
                let m = mutate(rng, &s);
                v.push(format!("p_{ty} {}", hex(m.as_bytes())));
            }
            // ZonedDateTime::from_str / RelativeTo::try_from_str: date-time strings whose zone is an offset or UTC
            if matches!(ty, "datetime" | "instant" | "date") && rng.chance(1, 2) {
                // give the string a zone of the covered kind (or leave it as it is)
                let z = match rng.below(6) {
                    0 => s.clone(),
                    1 => format!("{}[UTC]", s.split('[').next().unwrap_or("")),
                    2 => format!("{}[!UTC][u-ca=iso8601]", s.split('[').next().unwrap_or("")),
                    3 => format!("{}[{}]", s.split('[').next().unwrap_or(""), rng.pick(&["+01:00", "-08:00", "+05:30", "-00:45", "+14:00", "-12", "+0530", "+00:00"])),
                    4 => format!("{}[{}][u-ca={}]", s.split('[').next().unwrap_or(""), rng.pick(&["+01:00", "-03:30", "UTC"]), rng.pick(&["iso8601", "gregory", "hebrew", "notacal"])),
                    _ => format!("{}[-03:30]", s.split('[').next().unwrap_or("")),
                };
                let z = if rng.chance(1, 5) { mutate(rng, &z) } else { z };
                v.push(format!("p_zdt {} {} {}", hex(z.as_bytes()), rng.pick(&["compatible", "earlier", "later", "reject"]), rng.pick(&["use", "prefer", "ignore", "reject"])));
                v.push(format!("p_rel {}", hex(z.as_bytes())));
            }
            // Calendar::from_str reads the calendar annotation of an ISO string of any type, else an identifier
            if matches!(ty, "date" | "datetime" | "time" | "yearmonth" | "monthday" | "tz") && rng.chance(1, 3) {
                v.push(format!("cal_id {}", hex(s.as_bytes())));
                if rng.chance(1, 3) {
                    let m = mutate(rng, &s);
                    v.push(format!("cal_id {}", hex(m.as_bytes())));
                }
            }
            // every parser also sees the other types' strings
            if rng.chance(1, 4) {
                let other = *rng.pick(&TYPES);
                v.push(format!("p_{other} {}", hex(s.as_bytes())));
            }
        }
    }
    // short digit strings that read as a time AND as a month-day or year-month: the whole HHMM / HH:MM / MM-DD /
    // --MM-DD space (every boundary of the ambiguity rule: day 28..31, month 12/13, hour 23/24) and a dense sample of
    // six-digit HHMMSS / YYYYMM strings, with and without the `T` designator and annotations
    for h in 0..=24u32 {
        for m in 0..=60u32 {
            if !thorough && !(h <= 13 || h >= 23) && !(m <= 1 || (27..=33).contains(&m) || m >= 58) && (h * 61 + m) % 7 != (rng.next() % 7) as u32 {
                continue;
            }
            for s in [format!("{h:02}{m:02}"), format!("{h:02}:{m:02}"), format!("{h:02}-{m:02}"), format!("--{h:02}-{m:02}"), format!("--{h:02}{m:02}"), format!("T{h:02}{m:02}"), format!("{h:02}{m:02}[u-ca=iso8601]")] {
                for ty in ["time", "monthday", "yearmonth", "tz"] {
                    v.push(format!("p_{ty} {}", hex(s.as_bytes())));
                }
            }
            // the same digit pairs followed by a short offset: `2020-01` is a year-month, not 20:20 at -01
            for s in [format!("{h:02}{m:02}-01"), format!("{h:02}{m:02}+0130"), format!("{h:02}-{m:02}[+02:00]"), format!("{h:02}:{m:02}-01:30")] {
                v.push(format!("p_tz {}", hex(s.as_bytes())));
            }
        }
    }
    for _ in 0..(if thorough { 6000 } else { 800 }) {
        let (a, b, c) = (rng.range(0, 24), rng.range(0, 60), *rng.pick(&[0i128, 1, 2, 11, 12, 13, 30, 59, 60]));
        let s6 = format!("{a:02}{b:02}{c:02}");
        for s in [s6.clone(), format!("T{s6}"), format!("{a:02}{b:02}-{c:02}"), format!("{s6}Z"), format!("{s6}+01:00")] {
            for ty in ["time", "yearmonth", "monthday"] {
                v.push(format!("p_{ty} {}", hex(s.as_bytes())));
            }
        }
    }
    v
}

fn cal(c: &temporal_rs::Calendar) -> &'static str {
    c.identifier()
}

/// Whether the first bracketed group of a string is an offset or `UTC` (the zones the specification side covers
/// without zone data); strings without any bracket are covered too.
fn covered_zone(s: &str) -> bool {
    match s.find('[') {
        None => true,
        Some(k) => {
            let rest = &s[k + 1..];
            let rest = rest.strip_prefix('!').unwrap_or(rest);
            let body = rest.split(']').next().unwrap_or("");
            body.starts_with(['+', '-', '\u{2212}']) || body == "UTC"
        }
    }
}

pub fn eval(t: &[&str]) -> Option<String> {
    let bytes = unhex(t[1]);
    let Ok(s) = std::str::from_utf8(&bytes) else { return Some("err range".into()) };
    Some(match t[0] {
        "p_date" => render(PlainDate::from_str(s), |d| format!("{} {} {} {}", d.iso_year(), d.iso_month(), d.iso_day(), cal(d.calendar()))),
        "p_datetime" => render(PlainDateTime::from_str(s), |d| format!("{} {} {} {} {} {} {} {} {} {}", d.iso_year(), d.iso_month(), d.iso_day(), d.hour(), d.minute(), d.second(), d.millisecond(), d.microsecond(), d.nanosecond(), cal(d.calendar()))),
        "p_time" => render(PlainTime::from_str(s), |d| format!("{} {} {} {} {} {}", d.hour(), d.minute(), d.second(), d.millisecond(), d.microsecond(), d.nanosecond())),
        "p_yearmonth" => render(PlainYearMonth::from_str(s), |d| format!("{} {}", d.iso_year(), d.iso_month())),
        "p_monthday" => render(PlainMonthDay::from_str(s), |d| format!("{} {}", d.iso_month(), d.iso_day())),
        "p_instant" => render(Instant::from_str(s), |d| d.as_i128().to_string()),
        "p_duration" => render(Duration::from_str(s), |d| fmt_duration(&d)),
        "p_offset" => render(UtcOffset::from_str(s).and_then(|o| o.to_string()), |o| {
            let sign = if o.starts_with('-') { -1 } else { 1 };
            let h: i32 = o[1..3].parse().unwrap();
            let m: i32 = o[4..6].parse().unwrap();
            (sign * (h * 60 + m)).to_string()
        }),
        "p_tz" => render(temporal_rs::TimeZone::try_from_str(s), |z| match z {
            temporal_rs::TimeZone::IanaIdentifier(n) => format!("name {}", hex(n.as_bytes())),
            temporal_rs::TimeZone::UtcOffset(_) => format!("offset {}", z.identifier().unwrap_or_default()),
        }),
        "p_zdt" => {
            if !covered_zone(s) { return Some("skip".into()); }
            let p = temporal_rs::tzdb::FsTzdbProvider::default();
            render(
                temporal_rs::ZonedDateTime::from_str_with_provider(s, super::zone::disamb(t[2]), super::zone::offopt(t[3]), &p),
                |z| format!("{} {}", z.epoch_nanoseconds().as_i128(), cal(z.calendar())),
            )
        }
        "p_rel" => {
            if !covered_zone(s) { return Some("skip".into()); }
            let p = temporal_rs::tzdb::FsTzdbProvider::default();
            render(temporal_rs::options::RelativeTo::try_from_str_with_provider(s, &p), |r| match r {
                temporal_rs::options::RelativeTo::PlainDate(d) => format!("plain {} {} {} {}", d.iso_year(), d.iso_month(), d.iso_day(), cal(d.calendar())),
                temporal_rs::options::RelativeTo::ZonedDateTime(z) => format!("zoned {} {}", z.epoch_nanoseconds().as_i128(), cal(z.calendar())),
            })
        }
        "p_monthcode" => render(MonthCode::from_str(s), |m| m.as_str().to_string()),
        _ => return None,
    })
}
