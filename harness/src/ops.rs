//! `eval_line`: one operation line → canonical outcome on the real implementation.
use crate::common::*;
use std::num::NonZeroU128;
use std::panic::{catch_unwind, AssertUnwindSafe};
use temporal_rs::options::{RoundingIncrement, RoundingOptions};
use temporal_rs::{Instant, PlainTime};

pub fn eval_line(line: &str) -> String {
    let t: Vec<&str> = line.split(' ').filter(|s| !s.is_empty()).collect();
    match catch_unwind(AssertUnwindSafe(|| eval(&t))) {
        Ok(s) => s,
        // surface-sweep lines name the panic site (known findings are identified by call site)
        Err(_) if t.first().is_some_and(|o| o.starts_with("sw_")) => {
            format!("panic@{}", LAST_PANIC.with(|p| p.borrow().clone()))
        }
        Err(_) => "panic".to_string(),
    }
}

thread_local! {
    pub static LAST_PANIC: std::cell::RefCell<String> = const { std::cell::RefCell::new(String::new()) };
}

/// Panic hook: remember `<crate dir or src>/<file>:<line>` of the panic site for the current thread.
pub fn install_panic_hook(verbose: bool) {
    std::panic::set_hook(Box::new(move |info| {
        if verbose {
            eprintln!("PANIC {info}");
        }
        let loc = info
            .location()
            .map(|l| {
                let f = l.file();
                let short = match f.rfind("/src/") {
                    Some(k) => {
                        let head = &f[..k];
                        let krate = head.rsplit('/').next().unwrap_or("");
                        format!("{}{}", krate, &f[k..])
                    }
                    None => f.to_string(),
                };
                format!("{}:{}", short, l.line())
            })
            .unwrap_or_else(|| "?".to_string());
        LAST_PANIC.with(|p| *p.borrow_mut() = loc);
    }));
}

pub fn rounding_options(
    largest: Option<temporal_rs::options::Unit>,
    smallest: Option<temporal_rs::options::Unit>,
    inc: Option<u32>,
    mode: Option<temporal_rs::options::RoundingMode>,
) -> Result<RoundingOptions, temporal_rs::TemporalError> {
    let mut o = RoundingOptions::default();
    o.largest_unit = largest;
    o.smallest_unit = smallest;
    o.rounding_mode = mode;
    o.increment = match inc {
        Some(i) => Some(RoundingIncrement::try_new(i)?),
        None => None,
    };
    Ok(o)
}

fn eval(t: &[&str]) -> String {
    match t[0] {
        // ---- C07 ----
        "rnd_i128" => {
            let x = i(t[1]);
            let inc = NonZeroU128::new(i(t[2]) as u128).unwrap();
            render(temporal_rs::verif_hooks::round_i128(x, inc, mode(t[3])), |v| v.to_string())
        }
        "in_round" => {
            // in_round ns unit inc mode
            let r = Instant::try_new(i(t[1])).and_then(|ins| {
                let o = rounding_options(None, opt_unit(t[2]), Some(i(t[3]) as u32), opt_mode(t[4]))?;
                ins.round(o)
            });
            render(r, |v| v.as_i128().to_string())
        }
        "pt_round" => {
            // pt_round h m s ms us ns unit inc mode
            let r = PlainTime::try_new(
                i(t[1]) as u8, i(t[2]) as u8, i(t[3]) as u8, i(t[4]) as u16, i(t[5]) as u16, i(t[6]) as u16,
            )
            .and_then(|pt| pt.round(unit(t[7]), Some(i(t[8]) as f64), opt_mode(t[9])));
            render(r, |v| fmt_time(&v))
        }
        _ => crate::gen::eval_more(t),
    }
}

pub fn fmt_time(v: &PlainTime) -> String {
    format!(
        "{} {} {} {} {} {}",
        v.hour(), v.minute(), v.second(), v.millisecond(), v.microsecond(), v.nanosecond()
    )
}
