//! Guarded evaluation: op lines are fed to child processes (`harness eval-stream`); a child that produces no answer
//! for a line within `LINE_TIMEOUT` is killed, the line's outcome is `timeout`, and a fresh child continues with the
//! rest. This bounds the cost of calls that loop without bound (a C03 violation in itself).
use std::io::{BufRead, BufReader, Write};
use std::process::{Child, Command, Stdio};
use std::sync::atomic::{AtomicUsize, Ordering};
use std::sync::mpsc;
use std::time::Duration;

const LINE_TIMEOUT: Duration = Duration::from_secs(6);
const BLOCK: usize = 40;

struct Worker {
    child: Child,
    rx: mpsc::Receiver<String>,
}

fn spawn_worker() -> Worker {
    let exe = std::env::current_exe().expect("current exe");
    let mut child = Command::new(exe)
        .arg("eval-stream")
        .stdin(Stdio::piped())
        .stdout(Stdio::piped())
        .stderr(Stdio::null())
        .spawn()
        .expect("spawn eval-stream child");
    let stdout = child.stdout.take().unwrap();
    let (tx, rx) = mpsc::channel();
    std::thread::spawn(move || {
        for l in BufReader::new(stdout).lines() {
            let Ok(l) = l else { break };
            if tx.send(l).is_err() {
                break;
            }
        }
    });
    Worker { child, rx }
}

fn eval_block(lines: &[String]) -> Vec<String> {
    let mut out = Vec::with_capacity(lines.len());
    let mut w = spawn_worker();
    for l in lines {
        let sent = w.child.stdin.as_mut().map(|si| writeln!(si, "{l}").and_then(|_| si.flush()).is_ok()).unwrap_or(false);
        let res = if sent { w.rx.recv_timeout(LINE_TIMEOUT).ok() } else { None };
        match res {
            Some(r) => out.push(r),
            None => {
                // no answer: a call that does not return (or a dead child = abort)
                let dead = matches!(w.child.try_wait(), Ok(Some(_)));
                let _ = w.child.kill();
                let _ = w.child.wait();
                out.push(if dead { "abort".to_string() } else { "timeout".to_string() });
                w = spawn_worker();
            }
        }
    }
    drop(w.child.stdin.take());
    let _ = w.child.kill();
    let _ = w.child.wait();
    out
}

pub fn eval_guarded(lines: &[String]) -> Vec<String> {
    let n = lines.len();
    let threads = std::thread::available_parallelism().map(|x| x.get()).unwrap_or(4).min(16);
    let next = AtomicUsize::new(0);
    let mut parts: Vec<(usize, Vec<String>)> = Vec::new();
    std::thread::scope(|s| {
        let handles: Vec<_> = (0..threads)
            .map(|_| {
                let next = &next;
                s.spawn(move || {
                    let mut mine = Vec::new();
                    loop {
                        let lo = next.fetch_add(BLOCK, Ordering::Relaxed);
                        if lo >= n {
                            break;
                        }
                        let hi = (lo + BLOCK).min(n);
                        mine.push((lo, eval_block(&lines[lo..hi])));
                    }
                    mine
                })
            })
            .collect();
        for h in handles {
            parts.extend(h.join().unwrap());
        }
    });
    parts.sort_by_key(|p| p.0);
    parts.into_iter().flat_map(|p| p.1).collect()
}
