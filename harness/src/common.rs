use std::str::FromStr;
use temporal_rs::error::ErrorKind;
use temporal_rs::options::{ArithmeticOverflow, RoundingMode, Unit};
use temporal_rs::TemporalError;

/// splitmix64 — the single PRNG every generator derives from.
#[derive(Clone)]
pub struct Rng(pub u64);
impl Rng {
    pub fn new(seed: u64) -> Self {
        Rng(seed.wrapping_mul(0x9E3779B97F4A7C15) ^ 0xD1B54A32D192ED03)
    }
    pub fn next(&mut self) -> u64 {
        self.0 = self.0.wrapping_add(0x9E3779B97F4A7C15);
        let mut z = self.0;
        z = (z ^ (z >> 30)).wrapping_mul(0xBF58476D1CE4E5B9);
        z = (z ^ (z >> 27)).wrapping_mul(0x94D049BB133111EB);
        z ^ (z >> 31)
    }
    pub fn below(&mut self, n: u64) -> u64 {
        if n == 0 { 0 } else { self.next() % n }
    }
    /// uniform in [lo, hi]
    pub fn range(&mut self, lo: i128, hi: i128) -> i128 {
        let span = (hi - lo + 1) as u128;
        let r = ((self.next() as u128) << 64 | self.next() as u128) % span;
        lo + r as i128
    }
    pub fn pick<'a, T>(&mut self, xs: &'a [T]) -> &'a T {
        &xs[self.below(xs.len() as u64) as usize]
    }
    pub fn chance(&mut self, num: u64, den: u64) -> bool {
        self.below(den) < num
    }
}

pub fn err_kind(e: &TemporalError) -> &'static str {
    match e.kind() {
        ErrorKind::Generic => "generic",
        ErrorKind::Type => "type",
        ErrorKind::Range => "range",
        ErrorKind::Syntax => "syntax",
        ErrorKind::Assert => "assert",
    }
}

pub fn render<T>(r: Result<T, TemporalError>, f: impl FnOnce(T) -> String) -> String {
    match r {
        Ok(v) => format!("ok {}", f(v)),
        Err(e) => {
            if std::env::var("HARNESS_ERR_MSG").is_ok() {
                eprintln!("ERR {e:?}");
            }
            format!("err {}", err_kind(&e))
        }
    }
}

pub const UNITS: [&str; 11] = [
    "auto", "nanosecond", "microsecond", "millisecond", "second", "minute", "hour", "day", "week",
    "month", "year",
];
pub const MODES: [&str; 9] = [
    "ceil", "floor", "expand", "trunc", "halfCeil", "halfFloor", "halfExpand", "halfTrunc",
    "halfEven",
];

pub fn unit(s: &str) -> Unit {
    match s {
        "auto" => Unit::Auto,
        "nanosecond" => Unit::Nanosecond,
        "microsecond" => Unit::Microsecond,
        "millisecond" => Unit::Millisecond,
        "second" => Unit::Second,
        "minute" => Unit::Minute,
        "hour" => Unit::Hour,
        "day" => Unit::Day,
        "week" => Unit::Week,
        "month" => Unit::Month,
        "year" => Unit::Year,
        _ => panic!("bad unit {s}"),
    }
}
pub fn unit_name(u: Unit) -> &'static str {
    match u {
        Unit::Auto => "auto",
        Unit::Nanosecond => "nanosecond",
        Unit::Microsecond => "microsecond",
        Unit::Millisecond => "millisecond",
        Unit::Second => "second",
        Unit::Minute => "minute",
        Unit::Hour => "hour",
        Unit::Day => "day",
        Unit::Week => "week",
        Unit::Month => "month",
        Unit::Year => "year",
    }
}
pub fn opt_unit(s: &str) -> Option<Unit> {
    if s == "-" { None } else { Some(unit(s)) }
}
pub fn mode(s: &str) -> RoundingMode {
    RoundingMode::from_str(s).unwrap_or_else(|_| panic!("bad mode {s}"))
}
pub fn opt_mode(s: &str) -> Option<RoundingMode> {
    if s == "-" { None } else { Some(mode(s)) }
}
pub fn overflow(s: &str) -> ArithmeticOverflow {
    match s {
        "constrain" => ArithmeticOverflow::Constrain,
        "reject" => ArithmeticOverflow::Reject,
        _ => panic!("bad overflow {s}"),
    }
}

pub fn i(s: &str) -> i128 {
    s.parse::<i128>().unwrap_or_else(|_| panic!("bad int {s}"))
}

/// Evaluate `f` over `items` on all cores, preserving order (dynamic scheduling in blocks of 64 items).
pub fn par_map<T: Sync, R: Send>(items: &[T], f: impl Fn(&T) -> R + Sync) -> Vec<R> {
    use std::sync::atomic::{AtomicUsize, Ordering};
    let n = items.len();
    let threads = std::thread::available_parallelism().map(|x| x.get()).unwrap_or(4).min(16);
    if n < 2000 || threads == 1 {
        return items.iter().map(|x| f(x)).collect();
    }
    const BLOCK: usize = 64;
    let next = AtomicUsize::new(0);
    let mut parts: Vec<(usize, Vec<R>)> = Vec::new();
    std::thread::scope(|s| {
        let handles: Vec<_> = (0..threads)
            .map(|_| {
                let f = &f;
                let next = &next;
                s.spawn(move || {
                    let mut mine: Vec<(usize, Vec<R>)> = Vec::new();
                    loop {
                        let lo = next.fetch_add(BLOCK, Ordering::Relaxed);
                        if lo >= n {
                            break;
                        }
                        let hi = (lo + BLOCK).min(n);
                        mine.push((lo, items[lo..hi].iter().map(|x| f(x)).collect()));
                    }
                    mine
                })
            })
            .collect();
        for h in handles {
            parts.extend(h.join().unwrap());
        }
    });
    parts.sort_by_key(|p| p.0);
    parts.into_iter().flat_map(|p| p.1).collect()
}

/// Exact text of a finite double: integers in decimal, otherwise `<odd mantissa>p<exponent>`.
pub fn fmt_f64(x: f64) -> String {
    if x == 0.0 {
        return "0".to_string();
    }
    if x.fract() == 0.0 && x.abs() < 1e38 {
        return format!("{}", x as i128);
    }
    let bits = x.to_bits();
    let sign = if (bits >> 63) != 0 { -1i128 } else { 1 };
    let exp = ((bits >> 52) & 0x7ff) as i64;
    let frac = (bits & 0xf_ffff_ffff_ffff) as i128;
    let (mut m, mut e) = if exp == 0 { (frac, -1074i64) } else { (frac | (1i128 << 52), exp - 1075) };
    while m != 0 && m % 2 == 0 {
        m /= 2;
        e += 1;
    }
    if e >= 0 {
        // integral but huge
        return format!("{}p{}", sign * m, e);
    }
    format!("{}p{}", sign * m, e)
}

pub fn duration_from(t: &[&str]) -> Result<temporal_rs::Duration, TemporalError> {
    use temporal_rs::primitive::FiniteF64;
    let f = |s: &str| -> Result<FiniteF64, TemporalError> { FiniteF64::try_from(i(s) as f64) };
    temporal_rs::Duration::new(
        f(t[0])?, f(t[1])?, f(t[2])?, f(t[3])?, f(t[4])?, f(t[5])?, f(t[6])?, f(t[7])?, f(t[8])?, f(t[9])?,
    )
}

pub fn fmt_duration(d: &temporal_rs::Duration) -> String {
    [
        d.years(), d.months(), d.weeks(), d.days(), d.hours(), d.minutes(), d.seconds(), d.milliseconds(),
        d.microseconds(), d.nanoseconds(),
    ]
    .iter()
    .map(|x| fmt_f64(x.as_inner()))
    .collect::<Vec<_>>()
    .join(" ")
}

/// A random integer that is exactly representable as a double (rounded through f64).
pub fn f64_int(x: i128) -> i128 {
    (x as f64) as i128
}
