//! Correspondence harness: generates operation lines, evaluates them on the real
//! `temporal_rs` (linked in-process from /repo, hooks on) and prints
//! `<op line>\t<canonical outcome>` per line.
//!
//!   harness gen <suite> <tier> <seed>     generate + evaluate
//!   harness eval                          evaluate op lines read from stdin
//!   harness blocks <suite> <lo> <hi>      block checksums (C01 exhaustive)

mod common;
mod gen;
mod guard;
mod ops;

use std::io::{BufRead, Write};

fn main() {
    ops::install_panic_hook(std::env::var("HARNESS_PANIC_MSG").is_ok());
    let args: Vec<String> = std::env::args().collect();
    if args.len() < 2 {
        eprintln!("usage: harness gen <suite> <tier> <seed> | eval");
        std::process::exit(2);
    }
    let stdout = std::io::stdout();
    let mut out = std::io::BufWriter::with_capacity(1 << 20, stdout.lock());
    match args[1].as_str() {
        "gen" => {
            let suite = &args[2];
            let tier = args.get(3).map(|s| s.as_str()).unwrap_or("quick");
            let seed: u64 = args.get(4).and_then(|s| s.parse().ok()).unwrap_or(1);
            let lines = gen::generate(suite, tier, seed);
            // suites that call into unmodelled (and possibly non-terminating) code run their lines in killable
            // child processes with a per-line watchdog
            let results = if gen::guarded(suite) {
                guard::eval_guarded(&lines)
            } else {
                common::par_map(&lines, |l| ops::eval_line(l))
            };
            for (l, r) in lines.iter().zip(results.iter()) {
                writeln!(out, "{}\t{}", l, r).unwrap();
            }
        }
        "eval-stream" => {
            // child of the guarded evaluator: one result per line, flushed immediately
            let stdin = std::io::stdin();
            for line in stdin.lock().lines() {
                let line = line.unwrap();
                let r = ops::eval_line(line.trim());
                writeln!(out, "{r}").unwrap();
                out.flush().unwrap();
            }
        }
        "eval" => {
            let stdin = std::io::stdin();
            let lines: Vec<String> = stdin
                .lock()
                .lines()
                .map(|l| l.unwrap().split('\t').next().unwrap().trim().to_string())
                .filter(|l| !l.is_empty())
                .collect();
            // sweep lines may not return: evaluate them under the watchdog
            let results = if lines.iter().any(|l| l.starts_with("sw_") || l.starts_with("w20_") || l.starts_with("cal_")) {
                guard::eval_guarded(&lines)
            } else {
                lines.iter().map(|l| ops::eval_line(l)).collect()
            };
            for (l, r) in lines.iter().zip(results.iter()) {
                writeln!(out, "{}\t{}", l, r).unwrap();
            }
        }
        other => {
            if !gen::special(other, args.get(2..).unwrap_or(&[]), &mut out) {
                eprintln!("unknown command {other}");
                std::process::exit(2);
            }
        }
    }
    out.flush().unwrap();
}
