//! Correspondence harness: generates operation lines, evaluates them on the real
//! `temporal_rs` (linked in-process from /repo, hooks on) and prints
//! `<op line>\t<canonical outcome>` per line.
//!
//!   harness gen <suite> <tier> <seed>     generate + evaluate
//!   harness eval                          evaluate op lines read from stdin
//!   harness blocks <suite> <lo> <hi>      block checksums (C01 exhaustive)

mod common;
mod gen;
mod ops;

use std::io::{BufRead, Write};

fn main() {
    ops::install_panic_hook(std::env::var("HARNESS_PANIC_MSG").is_ok());
    let args: Vec<String> = std::env::args().collect();
    if args.len() < 2 {
        eprintln!("usage: harness gen <suite> <tier> <seed> | eval");
        std::process::exit(2);
    }
    let stdout = std::io::stdout();
    let mut out = std::io::BufWriter::with_capacity(1 << 20, stdout.lock());
    match args[1].as_str() {
        "gen" => {
            let suite = &args[2];
            let tier = args.get(3).map(|s| s.as_str()).unwrap_or("quick");
            let seed: u64 = args.get(4).and_then(|s| s.parse().ok()).unwrap_or(1);
            let lines = gen::generate(suite, tier, seed);
            let results = common::par_map(&lines, |l| ops::eval_line(l));
            for (l, r) in lines.iter().zip(results.iter()) {
                writeln!(out, "{}\t{}", l, r).unwrap();
            }
        }
        "eval" => {
            let stdin = std::io::stdin();
            for line in stdin.lock().lines() {
                let line = line.unwrap();
                let l = line.split('\t').next().unwrap().trim();
                if l.is_empty() {
                    continue;
                }
                writeln!(out, "{}\t{}", l, ops::eval_line(l)).unwrap();
            }
        }
        other => {
            if !gen::special(other, &args[2..], &mut out) {
                eprintln!("unknown command {other}");
                std::process::exit(2);
            }
        }
    }
    out.flush().unwrap();
}
