/-
  Model/Round.lean — `IncrementRounder<i128>` of src/rounding.rs, as coded.
  All numbers are mathematical integers; the i128/u128 ranges are not reached by any caller
  (|dividend| < 2^100, divisor ≤ 10^9 · 8.64e13), see DESIGN.md §C07.
-/
import TemporalModel.Model.Prim
namespace TemporalModel

/-- `UnsignedRoundingMode` -/
inductive UMode where
  | infinity | zero | halfInfinity | halfZero | halfEven
  deriving DecidableEq, Repr

/-- `RoundingMode::get_unsigned_round_mode(self, is_positive)` — arm by arm. -/
def RMode.unsigned (m : RMode) (isPositive : Bool) : UMode :=
  match m, isPositive with
  | .ceil, true => .infinity
  | .ceil, false => .zero
  | .trunc, _ => .zero
  | .floor, true => .zero
  | .floor, false => .infinity
  | .expand, _ => .infinity
  | .halfCeil, true => .halfInfinity
  | .halfCeil, false => .halfZero
  | .halfTrunc, _ => .halfZero
  | .halfFloor, true => .halfZero
  | .halfFloor, false => .halfInfinity
  | .halfExpand, _ => .halfInfinity
  | .halfEven, _ => .halfEven

namespace RoundI128

/-- `Roundable::quotient_abs` for i128: `(dividend / divisor).abs()` (truncating `/`). -/
def quotientAbs (dividend divisor : Int) : Int := (Int.tdiv dividend divisor).natAbs
/-- `is_exact`: `dividend.rem_euclid(divisor) == 0` -/
def isExact (dividend divisor : Int) : Bool := dividend % divisor == 0
/-- `compare_remainder`: `((dividend.abs() % divisor) * 2).cmp(&divisor)` -/
def compareRemainder (dividend divisor : Int) : Ordering :=
  compare ((Int.tmod (dividend.natAbs : Int) divisor) * 2) divisor
/-- `is_even_cardinal`: `result_floor.rem_euclid(2) == 0` -/
def isEvenCardinal (dividend divisor : Int) : Bool := quotientAbs dividend divisor % 2 == 0
def resultFloor (dividend divisor : Int) : Int := quotientAbs dividend divisor
def resultCeil (dividend divisor : Int) : Int := quotientAbs dividend divisor + 1

/-- `apply_unsigned_rounding_mode` -/
def applyU (dividend divisor : Int) (u : UMode) : Int :=
  if isExact dividend divisor then resultFloor dividend divisor
  else if u = .zero then resultFloor dividend divisor
  else if u = .infinity then resultCeil dividend divisor
  else match compareRemainder dividend divisor with
    | .lt => resultFloor dividend divisor
    | .gt => resultCeil dividend divisor
    | .eq =>
      if u = .halfZero then resultFloor dividend divisor
      else if u = .halfInfinity then resultCeil dividend divisor
      else if isEvenCardinal dividend divisor then resultFloor dividend divisor
      else resultCeil dividend divisor

/-- `IncrementRounder::<i128>::from_signed_num(number, increment).round(mode)` -/
def round (number increment : Int) (mode : RMode) : Int :=
  let sign := decide (number ≥ 0)
  let rounded := applyU number increment (mode.unsigned sign)
  let rounded := if sign then rounded else -rounded
  rounded * increment

end RoundI128
end TemporalModel
