/-
  Model/TimeOps.lean — PlainTime and Instant arithmetic (src/builtins/core/time.rs, instant.rs), as coded
  (PlainTime::add after the `fix:` that routes it through the normalized duration).
-/
import TemporalModel.Model.Duration
import TemporalModel.Model.IsoTime
namespace TemporalModel

/-- `PlainTime::add_normalized_time_duration(norm)` → (days, time) -/
def timeAddNorm (t : IsoTime) (norm : Int) : Int × IsoTime :=
  let second := t.second + Int.tdiv norm 1000000000
  let nanosecond := t.nanosecond + Int.tmod norm 1000000000
  IsoTime.balance t.hour t.minute second t.millisecond t.microsecond nanosecond

/-- `PlainTime::add(duration)` -/
def plainTimeAdd (t : IsoTime) (d : Dur) : Out IsoTime :=
  if !d.isTimeDuration then .err .range else .ok (timeAddNorm t d.timeNs).2

def plainTimeSubtract (t : IsoTime) (d : Dur) : Out IsoTime := plainTimeAdd t d.negated

/-- `IsoTime::diff` then `to_normalized`: exact nanosecond difference. -/
def timeDiffNs (a b : IsoTime) : Int :=
  (b.hour - a.hour) * 3600000000000 + (b.minute - a.minute) * 60000000000 + (b.second - a.second) * 1000000000
    + (b.millisecond - a.millisecond) * 1000000 + (b.microsecond - a.microsecond) * 1000 + (b.nanosecond - a.nanosecond)

/-- `PlainTime::diff_time(op, other, settings)` -/
def plainTimeDiff (since : Bool) (a b : IsoTime) (raw : RawOptions) : Out Dur := do
  let o ← fromDiffSettings raw since .time .hour .nanosecond
  let n := timeDiffNs a b
  let n ← (if o.smallest ≠ .nanosecond ∨ o.increment ≠ 1 then do
      let (_, r) ← normRound n 0 o
      pure r
    else pure n)
  let r ← timeFromNormalized n o.largest
  pure (if since then r.negated else r)

/-- `Instant::add(duration)` on epoch nanoseconds. -/
def instantAdd (ns : Int) (d : Dur) : Out Int :=
  if !d.isTimeDuration then .err .range else instantTryNew (ns + d.timeNs)

def instantSubtract (ns : Int) (d : Dur) : Out Int :=
  if !d.isTimeDuration then .err .range else instantTryNew (ns + d.negated.timeNs)

/-- `Instant::diff_instant(op, other, settings)` -/
def instantDiff (since : Bool) (a b : Int) (raw : RawOptions) : Out Dur := do
  let o ← fromDiffSettings raw since .time .second .nanosecond
  let diff ← normChecked (b - a)
  let (_, r) ← normRound diff 0 o
  let res ← timeFromNormalized r o.largest
  let res ← Dur.new res
  pure (if since then res.negated else res)

/-- `Instant::epoch_milliseconds` -/
def instantEpochMs (ns : Int) : Int := ns / 1000000

/-- `Instant::from_epoch_milliseconds` -/
def instantFromEpochMs (ms : Int) : Out Int := instantTryNew (ms * 1000000)

end TemporalModel
