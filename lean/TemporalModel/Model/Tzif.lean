/-
  Model/Tzif.lean — what a TZif file says (RFC 8536): the offset in force at every instant — time type 0 before the
  first transition, the table between transitions, the POSIX TZ footer after the last one — and the instants of a
  local date-time.  This is the specification the bundled provider (src/tzdb.rs) is compared with (C15).

  The Gregorian arithmetic is Spec/Gregorian.lean (`dayNumber`, `dim`, `isLeap`).
-/
import TemporalModel.Model.Zone
import TemporalModel.Spec.Gregorian
namespace TemporalModel
open Greg

/-- A date rule of a POSIX TZ string. -/
inductive RuleDay where
  | mwd (m w d : Int)        -- month 1..12, week 1..5 (5 = last), weekday 0..6 (0 = Sunday)
  | julian (n : Int)         -- Jn: 1..365, February 29 is never counted
  | zeroBased (n : Int)      -- n: 0..365, February 29 is counted in leap years
  deriving Repr, DecidableEq

structure DstRule where
  /-- UTC offset of daylight time, seconds east of UTC -/
  offset : Int
  start : RuleDay
  startTime : Int      -- seconds after local (standard) midnight
  stop : RuleDay
  stopTime : Int       -- seconds after local (daylight) midnight
  deriving Repr, DecidableEq

structure PosixTz where
  /-- UTC offset of standard time, seconds east of UTC -/
  std : Int
  dst : Option DstRule
  deriving Repr, DecidableEq

/-- Weekday of an epoch day, 0 = Sunday (1970-01-01 was a Thursday). -/
def weekday0 (n : Int) : Int := (n + 4) % 7

/-- The epoch day denoted by a rule in year `y`. -/
def RuleDay.epochDay (r : RuleDay) (y : Int) : Int :=
  match r with
  | .julian n => yearStart y + (n - 1) + (if isLeap y ∧ n ≥ 60 then 1 else 0)
  | .zeroBased n => yearStart y + n
  | .mwd m w d =>
    let first := dayNumber y m 1
    -- first day of the month with weekday d
    let firstD := first + (d - weekday0 first) % 7
    let cand := firstD + 7 * (w - 1)
    -- week 5 means "the last": step back while beyond the month
    if cand > first + dim y m - 1 then cand - 7 else cand

/-- The two rule transitions of year `y` as (instant, new offset): daylight starts at `startTime` local standard
    time, ends at `stopTime` local daylight time. -/
def DstRule.transitions (r : DstRule) (std : Int) (y : Int) : List (Int × Int) :=
  [(r.start.epochDay y * 86400 + r.startTime - std, r.offset),
   (r.stop.epochDay y * 86400 + r.stopTime - r.offset, std)]

/-- Year of the epoch second `t` (civil year of the UTC date). -/
def yearOfEpochSecond (t : Int) : Int := (NS.ymdFromEpochDays (t / 86400)).1

/-- The offset a POSIX TZ string prescribes at instant `t`: build the rule transitions of the surrounding three
    years and take the last one at or before `t`. -/
def PosixTz.offsetAt (p : PosixTz) (t : Int) : Int :=
  match p.dst with
  | none => p.std
  | some r =>
    let y := yearOfEpochSecond t
    let trs := (r.transitions p.std (y - 1) ++ r.transitions p.std y ++ r.transitions p.std (y + 1)).mergeSort
      (fun a b => a.1 ≤ b.1)
    -- before the earliest of them the other offset is in force
    let initial := match trs.head? with
      | some (_, o) => if o = r.offset then p.std else r.offset
      | none => p.std
    (Zone.lookup ⟨initial, trs⟩ t).1

structure RawZone where
  /-- (UTC offset, is-dst) per local time type -/
  types : Array (Int × Bool)
  /-- (transition instant, type index), ascending -/
  trans : List (Int × Nat)
  footer : Option PosixTz
  deriving Repr

def RawZone.typeOffset (z : RawZone) (i : Nat) : Int := (z.types[i]?.getD (0, false)).1

/-- The table part: time type 0 before the first transition, else the type of the last transition at or before `t`. -/
def RawZone.tableOffset (z : RawZone) (t : Int) : Int :=
  z.trans.foldl (fun acc tr => if tr.1 ≤ t then z.typeOffset tr.2 else acc) (z.typeOffset 0)

/-- **The offset in force at epoch second `t`** according to the file. -/
def RawZone.offsetAt (z : RawZone) (t : Int) : Int :=
  match z.trans.getLast? with
  | none =>
    match z.footer with
    | some p => p.offsetAt t
    | none => z.typeOffset 0
  | some (lastT, lastI) =>
    if t ≥ lastT then
      match z.footer with
      | some p => p.offsetAt t
      | none => z.typeOffset lastI
    else z.tableOffset t

/-- All offsets the zone can ever use. -/
def RawZone.offsets (z : RawZone) : List Int :=
  let fromTypes := z.types.toList.map (·.1)
  let fromFooter := match z.footer with
    | none => []
    | some p => p.std :: (match p.dst with | some r => [r.offset] | none => [])
  (fromTypes ++ fromFooter).eraseDups

/-- **The instants (epoch seconds) whose local reading is `localSec`** (the date-time read as UTC), ascending. -/
def RawZone.possible (z : RawZone) (localSec : Int) : List Int :=
  (z.offsets.filterMap (fun o => let t := localSec - o; if z.offsetAt t = o then some t else none)).mergeSort (· ≤ ·)

/-! ### The provider's cache -/

/-- The file-system provider keeps the zones it has read (`FsTzdbProvider::cache`). `read` is the file system. -/
abbrev ZoneCache := List (String × RawZone)

/-- `FsTzdbProvider::get`: answer from the cache, else read the file and remember it. -/
def cacheGet (read : String → Option RawZone) (c : ZoneCache) (id : String) : Option RawZone × ZoneCache :=
  match c.lookup id with
  | some z => (some z, c)
  | none =>
    match read id with
    | some z => (some z, (id, z) :: c)
    | none => (none, c)

/-- Run a history of queries through the cache, collecting the answers. -/
def cacheRun (read : String → Option RawZone) : ZoneCache → List String → List (Option RawZone)
  | _, [] => []
  | c, id :: rest => (cacheGet read c id).1 :: cacheRun read (cacheGet read c id).2 rest

/-! ### Reading the footer text -/

namespace PosixParse

def isAlpha (c : Char) : Bool := c.isAlpha
def isDigit (c : Char) : Bool := c.isDigit

/-- name: `<…>` or 3+ letters; returns the rest. -/
def name : List Char → Option (List Char)
  | '<' :: cs => match cs.dropWhile (· ≠ '>') with
    | '>' :: rest => some rest
    | _ => none
  | cs => let n := cs.takeWhile isAlpha; if n.length ≥ 3 then some (cs.dropWhile isAlpha) else none

def number (cs : List Char) : Option (Int × List Char) :=
  let ds := cs.takeWhile isDigit
  if ds.isEmpty then none
  else some (((ds.foldl (fun acc c => acc * 10 + (c.toNat - 48)) 0 : Nat) : Int), cs.dropWhile isDigit)

/-- `[+-]hh[:mm[:ss]]` in seconds (sign as written). -/
def hms (cs : List Char) : Option (Int × List Char) := do
  let (sign, cs) := match cs with
    | '-' :: r => ((-1 : Int), r)
    | '+' :: r => (1, r)
    | r => (1, r)
  let (h, cs) ← number cs
  match cs with
  | ':' :: cs => do
    let (m, cs) ← number cs
    match cs with
    | ':' :: cs => do
      let (s, cs) ← number cs
      pure (sign * (h * 3600 + m * 60 + s), cs)
    | _ => pure (sign * (h * 3600 + m * 60), cs)
  | _ => pure (sign * (h * 3600), cs)

def ruleDay (cs : List Char) : Option (RuleDay × List Char) :=
  match cs with
  | 'M' :: cs => do
    let (m, cs) ← number cs
    match cs with
    | '.' :: cs => do
      let (w, cs) ← number cs
      match cs with
      | '.' :: cs => do
        let (d, cs) ← number cs
        pure (.mwd m w d, cs)
      | _ => none
    | _ => none
  | 'J' :: cs => do let (n, cs) ← number cs; pure (.julian n, cs)
  | cs => do let (n, cs) ← number cs; pure (.zeroBased n, cs)

/-- `date[/time]`, default time 02:00:00. -/
def rule (cs : List Char) : Option (RuleDay × Int × List Char) := do
  let (d, cs) ← ruleDay cs
  match cs with
  | '/' :: cs => do let (t, cs) ← hms cs; pure (d, t, cs)
  | _ => pure (d, 7200, cs)

/-- A POSIX TZ string. Offsets are written west-positive; stored east-positive. Daylight time defaults to one hour
    ahead of standard time. -/
def tzChars (input : List Char) : Option PosixTz := do
  let cs ← name input
  let (stdW, cs) ← hms cs
  let std := -stdW
  if cs.isEmpty then pure ⟨std, none⟩ else do
  let cs ← name cs
  let (dstOff, cs) := match hms cs with
    | some (w, rest) => (-w, rest)
    | none => (std + 3600, cs)
  match cs with
  | ',' :: cs => do
    let (sd, st, cs) ← rule cs
    match cs with
    | ',' :: cs => do
      let (ed, et, cs) ← rule cs
      if cs.isEmpty then pure ⟨std, some ⟨dstOff, sd, st, ed, et⟩⟩ else none
    | _ => none
  | _ => none

def tz (s : String) : Option PosixTz := tzChars s.toList

end PosixParse

end TemporalModel
