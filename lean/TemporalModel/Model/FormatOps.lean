/-
  Model/FormatOps.lean — the `to_ixdtf_string` / `as_temporal_string` operations: option resolution, rounding, then
  the writers of Model/Format.lean (src/builtins/core/{date,time,datetime,instant,duration,zoneddatetime}.rs).
-/
import TemporalModel.Model.Format
import TemporalModel.Model.Zone
namespace TemporalModel

/-- `ResolvedRoundingOptions::from_to_string_options` -/
def ResolvedToString.rounding (r : ResolvedToString) : Resolved := ⟨.auto, r.smallest, r.increment, r.mode⟩

/-- `PlainTime::to_ixdtf_string(options)` -/
def plainTimeToString (t : IsoTime) (p : Precision) (s : Option TUnit) (m : Option RMode) : Out (List Char) := do
  let r ← toStringResolve p s m
  let (_, rounded) ← t.round r.rounding
  pure (Fmt.time rounded r.precision)

/-- `PlainDateTime::to_ixdtf_string(options, display_calendar)` -/
def plainDateTimeToString (dt : IsoDateTime) (p : Precision) (s : Option TUnit) (m : Option RMode) (cal : String)
    (show_ : Fmt.ShowCal) : Out (List Char) := do
  let r ← toStringResolve p s m
  let (days, time) ← dt.time.round r.rounding
  let date := IsoDate.balance dt.date.year dt.date.month (dt.date.day + wrapI32 days)
  if !(isoDtWithinValidLimits date time) then .err .range
  else pure (Fmt.plainDateTime ⟨date, time⟩ r.precision cal show_)

/-- `Instant::to_ixdtf_string(timezone, options)`: `none` = UTC with a `Z`, `some m` = a fixed offset of `m` minutes. -/
def instantToString (ns : Int) (offMinutes : Option Int) (p : Precision) (s : Option TUnit) (m : Option RMode) :
    Out (List Char) := do
  let r ← toStringResolve p s m
  let rounded ← roundInstant ns r.rounding
  let rounded ← instantTryNew rounded
  match offMinutes with
  | none => do
    let dt ← IsoDateTime.fromEpochNanos rounded 0
    pure (Fmt.date dt.date ++ ['T'] ++ Fmt.time dt.time r.precision ++ ['Z'])
  | some mn => do
    let dt ← IsoDateTime.fromEpochNanos rounded (mn * 60000000000)
    pure (Fmt.date dt.date ++ ['T'] ++ Fmt.time dt.time r.precision ++
      Fmt.offsetMinutes (Fmt.offsetNsToMinutes (mn * 60000000000)))

/-- `ZonedDateTime::to_ixdtf_string` for a fixed-offset zone (after the fix: the *rounded* instant is printed). -/
def zonedToString (ns : Int) (offMinutes : Int) (showOffset : Bool) (tzShow : Option Bool) (p : Precision)
    (s : Option TUnit) (m : Option RMode) (cal : String) (calShow : Fmt.ShowCal) : Out (List Char) := do
  let r ← toStringResolve p s m
  let rounded ← roundInstant ns r.rounding
  let rounded ← instantTryNew rounded
  let off := offMinutes * 60000000000
  let dt ← IsoDateTime.fromEpochNanos rounded off
  let id := Fmt.offsetMinutes offMinutes
  pure (Fmt.date dt.date ++ ['T'] ++ Fmt.time dt.time r.precision ++
    (if showOffset then Fmt.offsetMinutes (Fmt.offsetNsToMinutes off) else []) ++
    (match tzShow with
      | none => []
      | some crit => ['['] ++ (if crit then ['!'] else []) ++ id ++ [']']) ++
    Fmt.calendar cal calShow)

/-- `ZonedDateTime::to_ixdtf_string` for any zone: the offset in force at the rounded instant is rounded half-expand
    to whole minutes for display; `id` is the zone's identifier. -/
def zonedToStringTz (ns : Int) (tz : TZ) (id : List Char) (showOffset : Bool) (tzShow : Option Bool) (p : Precision)
    (s : Option TUnit) (m : Option RMode) (cal : String) (calShow : Fmt.ShowCal) : Out (List Char) := do
  let r ← toStringResolve p s m
  let rounded ← roundInstant ns r.rounding
  let rounded ← instantTryNew rounded
  let off := tz.offsetNanosFor rounded
  let dt ← IsoDateTime.fromEpochNanos rounded off
  pure (Fmt.date dt.date ++ ['T'] ++ Fmt.time dt.time r.precision ++
    (if showOffset then Fmt.offsetMinutes (Fmt.offsetNsToMinutes off) else []) ++
    (match tzShow with
      | none => []
      | some crit => ['['] ++ (if crit then ['!'] else []) ++ id ++ [']']) ++
    Fmt.calendar cal calShow)

/-- `Duration::as_temporal_string(options)` -/
def durationToString (d : Dur) (p : Precision) (s : Option TUnit) (m : Option RMode) : Out (List Char) :=
  if s = some .hour ∨ s = some .minute then .err .range else do
  let r ← toStringResolve p s m
  if r.smallest = .nanosecond ∧ r.increment = 1 then pure (Fmt.durationOf d r.precision) else do
  let date := dateDur d.years d.months d.weeks d.days
  let td := d.timeNs
  if date.sign ≠ 0 ∧ td ≠ 0 ∧ ((date.sign < 0) ≠ (td < 0)) then .err .range else do
  let (_, rounded) ← normRound td 0 r.rounding
  if date.sign ≠ 0 ∧ rounded ≠ 0 ∧ ((date.sign < 0) ≠ (rounded < 0)) then .err .range else do
  let res ← durFromNormalized date rounded (d.defaultLargestUnit.max .second)
  pure (Fmt.durationOf res r.precision)

end TemporalModel
