/-
  Model/Gregorian.lean — date ↔ epoch-day kernels of src/utils/neri_schneider.rs, src/utils.rs and
  src/iso.rs, as coded. Unsigned/`u32`/`u64` intermediates are modelled as mathematical integers; that they
  fit their machine types inside the window `InWin` is a side condition discharged in Lemmas/.
-/
import TemporalModel.Model.Prim
namespace TemporalModel
namespace NS

def EPOCH_COMPUTATIONAL_RATA_DIE : Int := 719468
def DAYS_IN_A_400Y_CYCLE : Int := 146097
def SHIFT_CONSTANT : Int := 3670
def TWO_POWER_THIRTY_NINE : Int := 549755813888
def TWO_POWER_THIRTY_TWO : Int := 4294967296
def TWO_POWER_SIXTEEN : Int := 65536

/-- `rata_die_first_equations(year, month, day)` → (comp_year, comp_month, comp_day, century) -/
def rataDieFirstEquations (year month day : Int) : Int × Int × Int × Int :=
  let j : Int := if month ≤ 2 then 1 else 0
  let computationalYear := (year + 400 * SHIFT_CONSTANT) - j
  let computationMonth := month + 12 * j
  let computationDay := day - 1
  (computationalYear, computationMonth, computationDay, computationalYear / 100)

/-- `epoch_days_from_gregorian_date(year, month, day)` -/
def epochDaysFromGregorianDate (year month day : Int) : Int :=
  let shift := SHIFT_CONSTANT * DAYS_IN_A_400Y_CYCLE + EPOCH_COMPUTATIONAL_RATA_DIE
  let (compYear, compMonth, compDay, century) := rataDieFirstEquations year month day
  let yStar := 1461 * compYear / 4 - century + century / 4
  let mStar := Int.tdiv (979 * compMonth - 2919) 32
  (yStar + mStar + compDay) - shift

/-- `rata_die_for_epoch_days(epoch_days)` → (rata_die, 400 * SHIFT_CONSTANT) -/
def rataDieForEpochDays (epochDays : Int) : Int × Int :=
  (epochDays + EPOCH_COMPUTATIONAL_RATA_DIE + DAYS_IN_A_400Y_CYCLE * SHIFT_CONSTANT, 400 * SHIFT_CONSTANT)

def nOne (rataDie : Int) : Int := 4 * rataDie + 3

/-- `first_equations` → (century_num, century_rem) -/
def firstEquations (rataDie : Int) : Int × Int :=
  let n1 := nOne rataDie
  (n1 / DAYS_IN_A_400Y_CYCLE, n1 % 146097)

/-- `x | 3` on a non-negative integer. -/
def or3 (x : Int) : Int := ((x.toNat ||| 3 : Nat) : Int)

/-- `second_equations` → (year, day_of_year) -/
def secondEquations (rataDie : Int) : Int × Int :=
  let (century, rem) := firstEquations rataDie
  let n2 := or3 rem
  let p2 := 2939745 * n2
  let yearOfCentury := p2 / TWO_POWER_THIRTY_TWO
  let dayOfYear := p2 % TWO_POWER_THIRTY_TWO / 2939745 / 4
  (100 * century + yearOfCentury, dayOfYear)

/-- `third_equations` → (year, month, day, day_of_year) -/
def thirdEquations (rataDie : Int) : Int × Int × Int × Int :=
  let (year, dayOfYear) := secondEquations rataDie
  let n3 := 2141 * dayOfYear + 197913
  (year, n3 / TWO_POWER_SIXTEEN, n3 % TWO_POWER_SIXTEEN / 2141, dayOfYear)

/-- `gregorian_ymd` -/
def gregorianYmd (rataDie : Int) : Int × Int × Int :=
  let (year, month, day, dayOfYear) := thirdEquations rataDie
  let j : Int := if dayOfYear ≥ 306 then 1 else 0
  (year + j, month - 12 * j, day + 1)

/-- `ymd_from_epoch_days(epoch_days)` -/
def ymdFromEpochDays (epochDays : Int) : Int × Int × Int :=
  let (rataDie, yearShift) := rataDieForEpochDays epochDays
  let (year, month, day) := gregorianYmd rataDie
  (year - yearShift, month, day)

/-- The separately coded year chain used for leap years: `computational_year_of_century`,
    `computational_day_of_year`, `computational_year`, `j`, `year`. -/
def nTwo (rataDie : Int) : Int := or3 (nOne rataDie % DAYS_IN_A_400Y_CYCLE)
def computationalYearOfCentury (rataDie : Int) : Int := 376287347 * nTwo rataDie / TWO_POWER_THIRTY_NINE
def computationalDayOfYear (rataDie : Int) : Int :=
  (nTwo rataDie - 1461 * computationalYearOfCentury rataDie) / 4
def computationalYear (rataDie : Int) : Int :=
  100 * (nOne rataDie / DAYS_IN_A_400Y_CYCLE) + computationalYearOfCentury rataDie
def jOf (rataDie : Int) : Int := if computationalDayOfYear rataDie ≥ 306 then 1 else 0
def year (rataDie shift : Int) : Int := (computationalYear rataDie + jOf rataDie) - shift

end NS

def MS_PER_DAY : Int := 86400000

/-- `utils::epoch_days_for_year` -/
def epochDaysForYear (y : Int) : Int :=
  365 * (y - 1970) + (y - 1969) / 4 - (y - 1901) / 100 + (y - 1601) / 400

/-- `utils::mathematical_days_in_year` (Rust `%` is truncating); the final `assert_eq!` is a panic site. -/
def mathematicalDaysInYear (y : Int) : Out Int :=
  if Int.tmod y 4 ≠ 0 then .ok 365
  else if Int.tmod y 4 = 0 ∧ Int.tmod y 100 ≠ 0 then .ok 366
  else if Int.tmod y 100 = 0 ∧ Int.tmod y 400 ≠ 0 then .ok 365
  else if Int.tmod y 400 = 0 then .ok 366 else .panic

/-- `utils::epoch_time_to_epoch_year(t)` -/
def epochTimeToEpochYear (t : Int) : Int :=
  let r := NS.rataDieForEpochDays (t / MS_PER_DAY)
  NS.year r.1 r.2

/-- `utils::iso_days_in_month(year, month)`; other months hit `unreachable!`. -/
def isoDaysInMonth (year month : Int) : Out Int :=
  if month = 1 ∨ month = 3 ∨ month = 5 ∨ month = 7 ∨ month = 8 ∨ month = 10 ∨ month = 12 then .ok 31
  else if month = 4 ∨ month = 6 ∨ month = 9 ∨ month = 11 then .ok 30
  else if month = 2 then do
    -- the year is first reduced modulo the 400-year period of the leap rule (keeps the 32-bit day arithmetic in range)
    let diy ← mathematicalDaysInYear (epochTimeToEpochYear (MS_PER_DAY * epochDaysForYear (year % 400 + 2000)))
    pure (28 + (diy - 365))
  else .panic

/-- `iso::iso_date_to_epoch_days(year, month, day)` (month may be any integer). -/
def isoDateToEpochDays (year month day : Int) : Int :=
  let resolvedYear := year + month / 12
  let resolvedMonth := month % 12
  NS.epochDaysFromGregorianDate resolvedYear resolvedMonth 1 + day - 1

/-- `IsoDate::balance(year, month, day)` -/
def isoDateBalance (year month day : Int) : Int × Int × Int :=
  let epochDays := isoDateToEpochDays year month day
  let ms := epochDays * MS_PER_DAY + 0
  NS.ymdFromEpochDays (ms / MS_PER_DAY)

end TemporalModel
