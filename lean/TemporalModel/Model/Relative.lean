/-
  Model/Relative.lean — rounding / totalling / comparing durations relative to a plain date
  (src/builtins/core/duration/normalized.rs nudge_* / bubble / round_relative_duration / total_relative_duration,
  datetime.rs diff_dt_with_rounding / diff_dt_with_total, duration.rs round/total/compare with RelativeTo::PlainDate,
  duration/date.rs DateDuration::days), as coded after the `fix:` commits.
-/
import TemporalModel.Model.DateTime
namespace TemporalModel

def intSign (x : Int) : Int := if x < 0 then -1 else if x > 0 then 1 else 0

/-- `NormalizedDurationRecord::sign` (after the fix: the time part decides when the date part is zero). -/
def recordSign (date : Dur) (norm : Int) : Int := if date.sign ≠ 0 then date.sign else intSign norm

/-- `Sign::as_sign_multiplier` -/
def signMul (s : Int) : Int := if s = 0 then 1 else s

/-- Truncate an integral double to a multiple of the increment (the f64 rounder with `Trunc`). -/
def truncToIncrement (x inc : Int) : Int := Int.tdiv x inc * inc

/-- A date-only duration. -/
def dateDur (y mo w d : Int) : Dur := ⟨y, mo, w, d, 0, 0, 0, 0, 0, 0⟩

structure NudgeRecord where
  date : Dur
  norm : Int
  nudgeEpochNs : Int
  expanded : Bool
  /-- exact bracket data for `total`: r1, sign·inc, numerator, denominator -/
  totalParts : Option (Int × Int × Int × Int)
  deriving Repr

/-- The exact rounding inside `nudge_calendar_unit`: the value `r1 + step·num/D` (a rational, `D > 0`) rounded to a
    multiple of `inc`, computed on the numerator over the common denominator `D`. -/
def nudgeRounded (r1 step num D inc : Int) (mode : RMode) : Int :=
  Int.tdiv (RoundI128.round (r1 * D + step * num) (inc * D) mode) D

/-- `dt.iso.add_date_duration(calendar, &duration, ZeroTimeDuration, None)` then `as_nanoseconds`. -/
def addDateToDt (dt : IsoDateTime) (d : Dur) : Out IsoDateTime := dt.addDateDuration d .constrain

/-- The bracket `[r1, r2]` around the duration's smallest-unit field and the two date durations that realise it
    (first half of `NudgeToCalendarUnit`). -/
def nudgeBracket (sign : Int) (dt : IsoDateTime) (date : Dur) (o : Resolved) : Out (Int × Int × Dur × Dur) :=
  let inc := o.increment
  let step := inc * signMul sign
  match o.smallest with
  | .year =>
    let r1 := truncToIncrement date.years inc
    Out.ok (r1, r1 + step, dateDur r1 0 0 0, dateDur (r1 + step) 0 0 0)
  | .month =>
    let r1 := truncToIncrement date.months inc
    .ok (r1, r1 + step, dateDur date.years r1 0 0, dateDur date.years (r1 + step) 0 0)
  | .week => do
    -- weeksStart = date + years/months (constrain); weeksEnd = weeksStart + days
    let ws ← dt.date.addDateDuration date.years date.months 0 0 .constrain
    let dv ← asDateValue date.days
    let we := IsoDate.balance ws.year ws.month (ws.day + dv)
    let ws ← plainDateTryNew ws.year ws.month ws.day
    let we ← plainDateTryNew we.year we.month we.day
    let untilR ← plainDateInternalDiff ws we .week
    let r1 := truncToIncrement (F64.ofInt (date.weeks + untilR.weeks)) inc
    pure (r1, r1 + step, dateDur date.years date.months r1 0, dateDur date.years date.months (r1 + step) 0)
  | .day =>
    let r1 := truncToIncrement date.days inc
    .ok (r1, r1 + step, dateDur date.years date.months date.weeks r1,
         dateDur date.years date.months date.weeks (r1 + step))
  | _ => .panic

/-- `NudgeToCalendarUnit` (no time zone). -/
def nudgeCalendarUnit (sign : Int) (destNs : Int) (dt : IsoDateTime) (date : Dur) (o : Resolved) : Out NudgeRecord := do
  let inc := o.increment
  let step := inc * signMul sign
  let (r1, r2, startD, endD) ← nudgeBracket sign dt date o
  let startD ← Dur.new startD
  let endD ← Dur.new endD
  let start ← addDateToDt dt startD
  let end_ ← addDateToDt dt endD
  let startNs ← start.utcEpochNs
  let endNs ← end_.utcEpochNs
  if endNs = startNs then .err .range else
  let num := destNs - startNs
  let den := endNs - startNs
  -- exact rounding of  r1 + (num/den)·inc·sign  to a multiple of inc
  let rounded := nudgeRounded r1 step (num * intSign den) den.natAbs inc o.mode
  let parts := some (r1, step, num * intSign den, (den.natAbs : Int))
  if rounded = r2 then pure ⟨endD, 0, endNs, true, parts⟩ else pure ⟨startD, 0, startNs, false, parts⟩

/-- `NudgeToDayOrTime` -/
def nudgeToDayOrTime (destNs : Int) (date : Dur) (norm : Int) (o : Resolved) : Out NudgeRecord := do
  let n ← normChecked (norm + F64.toI64Sat date.days * NS_PER_DAY)
  match o.smallest.asNanoseconds with
  | none => .err .assert
  | some len =>
    let rounded ← normChecked (RoundI128.round n (len * o.increment) o.mode)
    let diff ← normChecked (rounded - n)
    let wholeDays := Int.tdiv n NS_PER_DAY
    let rwd := Int.tdiv rounded NS_PER_DAY
    let rrem := Int.tmod rounded NS_PER_DAY
    let delta := rwd - wholeDays
    let didExpand := decide (intSign delta = intSign n)
    let nudged := diff + destNs
    let (days, rem) := if o.largest.max .day = o.largest then (rwd, rrem) else (0, rounded)
    let d ← Dur.new (dateDur date.years date.months date.weeks (F64.ofInt days))
    if d.sign ≠ 0 ∧ rem ≠ 0 ∧ ((d.sign < 0) ≠ (rem < 0)) then .err .range
    else pure ⟨d, rem, nudged, didExpand, none⟩

/-- `Unit + 1` -/
def TUnit.succ : TUnit → TUnit
  | .auto => .nanosecond | .nanosecond => .microsecond | .microsecond => .millisecond | .millisecond => .second
  | .second => .minute | .minute => .hour | .hour => .day | .day => .week | .week => .month | .month => .year
  | .year => .auto

/-- `BubbleRelativeDuration` (after the fix): carry an expanded smallest unit into the larger units up to `largest`. -/
def bubbleLoop (sign nudgeNs : Int) (dt : IsoDateTime) (largest : TUnit) : Nat → TUnit → Dur → Out Dur
  | 0, _, d => .ok d
  | fuel + 1, unit, d =>
    if unit = .auto ∨ ¬ (unit ≤ largest) then .ok d
    else if unit = .week ∧ largest ≠ .week then bubbleLoop sign nudgeNs dt largest fuel unit.succ d
    else do
      let endD ← (match unit with
        | .year => Dur.new (dateDur (d.years + signMul sign) 0 0 0)
        | .month => Dur.new (dateDur d.years (d.months + signMul sign) 0 0)
        | .week => Dur.new (dateDur d.years d.months (d.weeks + signMul sign) 0)
        | .day => Dur.new (dateDur d.years d.months d.weeks (d.days + signMul sign))
        | _ => .panic)
      let end_ ← addDateToDt dt endD
      let endNs ← end_.utcEpochNs
      let beyond := nudgeNs - endNs
      if intSign beyond ≠ -(signMul sign) then bubbleLoop sign nudgeNs dt largest fuel unit.succ endD
      else .ok d

def bubbleRelativeDuration (sign nudgeNs : Int) (dt : IsoDateTime) (date : Dur) (norm : Int)
    (largest smallest : TUnit) : Out (Dur × Int) :=
  if smallest = .year then .ok (date, norm) else do
    -- when a unit is adopted the record becomes date-only (`from_date_duration`): the time part is dropped
    let d ← bubbleLoop sign nudgeNs dt largest 6 smallest.succ date
    pure (d, if d = date then norm else 0)

/-- `RoundRelativeDuration` (no time zone) → (date part, normalized time). -/
def roundRelativeDuration (date : Dur) (norm : Int) (destNs : Int) (dt : IsoDateTime) (o : Resolved) :
    Out (Dur × Int) := do
  let sign := recordSign date norm
  let nr ← (if o.smallest.isCalendarUnit then nudgeCalendarUnit sign destNs dt date o
            else nudgeToDayOrTime destNs date norm o)
  if nr.expanded ∧ o.smallest ≠ .week then
    bubbleRelativeDuration sign nr.nudgeEpochNs dt nr.date nr.norm o.largest (o.smallest.max .day)
  else pure (nr.date, nr.norm)

/-- `PlainDateTime::diff_dt_with_rounding` -/
def diffDtWithRounding (a b : IsoDateTime) (o : Resolved) : Out (Dur × Int) :=
  if a.cmp b = 0 then .ok (Dur.zero, 0) else do
    let (date, td) ← a.diff b o.largest
    if o.smallest = .nanosecond ∧ o.increment = 1 then pure (date, td) else do
      let dest ← b.utcEpochNs
      roundRelativeDuration date td dest a o

/-- `PlainDateTime::diff(op, other, settings)` — complete (rounding included). -/
def plainDateTimeDiffFull (since : Bool) (a b : IsoDateTime) (raw : RawOptions) : Out Dur := do
  let o ← fromDiffSettings raw since .dateTime .day .nanosecond
  if a = b then pure Dur.zero else do
    let (date, td) ← diffDtWithRounding a b o
    let r ← durFromNormalized date td o.largest
    pure (if since then r.negated else r)

/-- `PlainDate::diff_date(op, other, settings)` — complete. -/
def plainDateDiffFull (since : Bool) (a b : IsoDate) (raw : RawOptions) : Out Dur := do
  let o ← fromDiffSettings raw since .date .day .day
  if a = b then pure Dur.zero else do
    let r ← plainDateInternalDiff a b o.largest
    let date := dateDur r.years r.months r.weeks r.days
    let (date, td) ← (if o.smallest = .day ∧ o.increment = 1 then pure (date, (0 : Int))
      else do
        let dest ← (⟨b, IsoTime.midnight⟩ : IsoDateTime).utcEpochNs
        roundRelativeDuration date 0 dest ⟨a, IsoTime.midnight⟩ o : Out (Dur × Int))
    let res ← durFromNormalized date td .day
    pure (if since then res.negated else res)

/-- `PlainYearMonth::diff` — complete (after the fixes: both operands at the first of their month). -/
def yearMonthDiffFull (since : Bool) (a b : IsoDate) (raw : RawOptions) : Out Dur :=
  if raw.largest = some .week ∨ raw.largest = some .day ∨ raw.smallest = some .week ∨ raw.smallest = some .day then
    .err .range
  else do
    let o ← fromDiffSettings raw since .date .year .month
    if a = b then pure Dur.zero else do
      let a1 : IsoDate := ⟨a.year, a.month, 1⟩
      let b1 : IsoDate := ⟨b.year, b.month, 1⟩
      let r ← a1.diffIsoDate b1 o.largest
      let date := dateDur r.years r.months r.weeks r.days
      let (date, td) ← (if o.smallest = .month ∧ o.increment = 1 then pure (date, (0 : Int))
        else do
          let dest ← (⟨b1, IsoTime.midnight⟩ : IsoDateTime).utcEpochNs
          roundRelativeDuration date 0 dest ⟨a1, IsoTime.midnight⟩ o : Out (Dur × Int))
      let res ← durFromNormalized date td .day
      pure (if since then res.negated else res)

/-- `Duration::round_with_provider(options, Some(RelativeTo::PlainDate(d)), _)` -/
def Dur.roundRelPlainDate (d : Dur) (raw : RawOptions) (rel : IsoDate) : Out Dur := do
  let existing := d.defaultLargestUnit
  let o ← fromDurationOptions raw existing
  let calendarUnitsPresent := !(d.years = 0 && d.months = 0 && d.weeks = 0)
  let hoursToDays := decide (d.hours.natAbs ≥ 24)
  let isNoop := o.smallest = .nanosecond ∧ o.increment = 1
  if isNoop ∧ o.largest = existing ∧ !calendarUnitsPresent ∧ !hoursToDays ∧ d.minutes.natAbs < 60 ∧
      d.seconds.natAbs < 60 ∧ d.milliseconds.natAbs < 1000 ∧ d.microseconds.natAbs < 1000 ∧
      d.nanoseconds.natAbs < 1000 then .ok d
  else if (d.timeNs.natAbs : Int) > NS_PER_DAY * 2 * MAX_EPOCH_DAYS then .err .range  -- `check_day_carry`
  else do
    let (bdays, time) := timeAddNorm IsoTime.midnight d.timeNs
    let bdays := wrapI32 bdays
    let dd ← Dur.new (dateDur d.years d.months d.weeks (F64.ofInt (d.days + bdays)))
    let target ← plainDateAdd rel dd .constrain
    let plainDt ← IsoDateTime.new rel IsoTime.midnight
    let targetDt ← IsoDateTime.new target time
    let (date, td) ← diffDtWithRounding plainDt targetDt o
    durFromNormalized date td o.largest

/-- `total` of `nudge_calendar_unit` with increment 1: `r1 as f64 + progress * 1.0 * sign`, where
    `progress = (dest − start) as f64 / (end − start) as f64`. -/
def nudgeTotalF64 (r1 step num den : Int) : F64.Dyadic :=
  let progress := F64.ofRat (F64.ofInt num) (F64.ofInt den).toNat
  let signed : F64.Dyadic := if step < 0 then ⟨-progress.m, progress.e⟩ else progress
  F64.add (F64.ofIntD r1) signed

/-- `TotalRelativeDuration` (no time zone). -/
def totalRelativeDuration (date : Dur) (norm : Int) (destNs : Int) (dt : IsoDateTime) (unit : TUnit) :
    Out F64.Dyadic :=
  if unit.isCalendarUnit then do
    let sign := recordSign date norm
    let nr ← nudgeCalendarUnit sign destNs dt date ⟨unit, unit, 1, .trunc⟩
    match nr.totalParts with
    | some (r1, step, num, den) => pure (nudgeTotalF64 r1 step num den)
    | none => .err .assert
  else do
    let n ← normChecked (norm + F64.toI64Sat date.days * NS_PER_DAY)
    match unit.asNanoseconds with
    | some len => pure (durationTotal n len)
    | none => .err .range

/-- `PlainDateTime::diff_dt_with_total(other, unit)` -/
def diffDtWithTotal (a b : IsoDateTime) (unit : TUnit) : Out F64.Dyadic :=
  if a.cmp b = 0 then .ok ⟨0, 0⟩
  else if !(isoDtWithinValidLimits a.date a.time) || !(isoDtWithinValidLimits b.date b.time) then .err .range
  else do
    let (date, td) ← a.diff b unit
    if unit = .nanosecond then pure (F64.ofIntD td) else do
      let dest ← b.utcEpochNs
      totalRelativeDuration date td dest a unit

/-- `Duration::total_with_provider(unit, Some(RelativeTo::PlainDate(d)), _)` -/
def Dur.totalRelPlainDate (d : Dur) (unit : TUnit) (rel : IsoDate) : Out F64.Dyadic :=
  if (d.timeNs.natAbs : Int) > NS_PER_DAY * 2 * MAX_EPOCH_DAYS then .err .range else do  -- `check_day_carry`
  let (bdays, time) := timeAddNorm IsoTime.midnight d.timeNs
  let bdays := wrapI32 bdays
  let dd ← Dur.new (dateDur d.years d.months d.weeks (F64.ofInt (d.days + bdays)))
  let target ← plainDateAdd rel dd .constrain
  diffDtWithTotal ⟨rel, IsoTime.midnight⟩ ⟨target, time⟩ unit

/-- `DateDuration::days(relative_to)` (after the fix): the days the date part spans from the reference date. -/
def dateDurationDays (d : Dur) (rel : IsoDate) : Out Int :=
  if d.years = 0 ∧ d.months = 0 ∧ d.weeks = 0 then .ok (F64.toI64Sat d.days)
  else do
    let later ← plainDateAdd rel (dateDur d.years d.months d.weeks 0) .constrain
    let e1 := isoDateToEpochDays rel.year rel.month rel.day
    let e2 := isoDateToEpochDays later.year later.month later.day
    pure (F64.toI64Sat d.days + (e2 - e1))

/-- `Duration::compare_with_provider(other, Some(RelativeTo::PlainDate(d)), _)` -/
def Dur.compareRelPlainDate (a b : Dur) (rel : IsoDate) : Out Int :=
  if a = b then .ok 0 else do
    let l1 := a.defaultLargestUnit
    let l2 := b.defaultLargestUnit
    let (d1, d2) ← (if l1.isCalendarUnit ∨ l2.isCalendarUnit then do
        let x ← dateDurationDays a rel; let y ← dateDurationDays b rel; pure (x, y)
      else pure (F64.toI64Sat a.days, F64.toI64Sat b.days) : Out (Int × Int))
    let t1 ← normChecked (a.timeNs + d1 * NS_PER_DAY)
    let t2 ← normChecked (b.timeNs + d2 * NS_PER_DAY)
    pure (if t1 < t2 then -1 else if t1 > t2 then 1 else 0)

end TemporalModel
