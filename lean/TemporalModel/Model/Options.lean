/-
  Model/Options.lean — option resolution of src/options.rs and src/options/increment.rs, as coded.
-/
import TemporalModel.Model.Prim
namespace TemporalModel

/-- `RoundingIncrement::try_new` / the range part of `TryFrom<f64>` (integral input). -/
def incrementTryNew (inc : Int) : Out Int :=
  if inc < 1 ∨ inc > 1000000000 then .err .range else .ok inc

/-- `RoundingIncrement::validate(self, dividend, inclusive)` -/
def incrementValidate (inc : Int) (dividend : Int) (inclusive : Bool) : Out Unit :=
  let max := dividend - (if inclusive then 0 else 1)
  if inc > max then .err .range
  else if dividend % inc ≠ 0 then .err .range
  else .ok ()

/-- `Unit::to_maximum_rounding_increment` (after the fix: `Auto` has no maximum instead of `unreachable!()`). -/
def TUnit.maxRoundingIncrement : TUnit → Out (Option Int)
  | .year | .month | .week | .day | .auto => .ok none
  | .hour => .ok (some 24)
  | .minute | .second => .ok (some 60)
  | .millisecond | .microsecond | .nanosecond => .ok (some 1000)

inductive UnitGroup where | date | time | dateTime
  deriving DecidableEq, Repr

/-- `UnitGroup::validate_unit(self, unit, extra_unit)` -/
def UnitGroup.validateUnit (g : UnitGroup) (unit extra : Option TUnit) : Out Unit :=
  match g with
  | .date =>
    match unit with
    | none => .ok ()
    | some u => if u.isDateUnit then .ok () else if unit = extra then .ok () else .err .range
  | .time =>
    match unit with
    | none => .ok ()
    | some u => if u.isTimeUnit then .ok () else if unit = extra then .ok () else .err .range
  | .dateTime =>
    match unit with
    | some .auto => if extra = some .auto then .ok () else .err .range
    | _ => .ok ()

/-- `UnitGroup::validate_required_unit` -/
def UnitGroup.validateRequiredUnit (g : UnitGroup) (unit extra : Option TUnit) : Out TUnit :=
  match unit with
  | none => .err .range
  | some u => do g.validateUnit (some u) extra; pure u

/-- `ResolvedRoundingOptions` -/
structure Resolved where
  largest : TUnit
  smallest : TUnit
  increment : Int
  mode : RMode
  deriving DecidableEq, Repr

def Resolved.render (r : Resolved) : String :=
  s!"{r.largest.name} {r.smallest.name} {r.increment} {r.mode.name}"

/-- Raw options as the public structs carry them (`increment` already a `RoundingIncrement`). -/
structure RawOptions where
  largest : Option TUnit
  smallest : Option TUnit
  increment : Option Int
  mode : Option RMode
  deriving DecidableEq, Repr

/-- `ResolvedRoundingOptions::from_instant_options` -/
def fromInstantOptions (o : RawOptions) : Out Resolved := do
  let increment := o.increment.getD 1
  let mode := o.mode.getD .halfExpand
  let smallest ← UnitGroup.time.validateRequiredUnit o.smallest none
  let maximum ← (match smallest with
    | .hour => Out.ok (24 : Int)
    | .minute => .ok (24 * 60)
    | .second => .ok (24 * 3600)
    | .millisecond => .ok 86400000
    | .microsecond => .ok (86400000 * 1000)
    | .nanosecond => .ok 86400000000000
    | _ => .err .range)
  incrementValidate increment maximum true
  pure { largest := .auto, smallest, increment, mode }

/-- `ResolvedRoundingOptions::from_datetime_options` -/
def fromDatetimeOptions (o : RawOptions) : Out Resolved := do
  let increment := o.increment.getD 1
  let mode := o.mode.getD .halfExpand
  let smallest ← UnitGroup.time.validateRequiredUnit o.smallest (some .day)
  let (maximum, inclusive) ← (if smallest = .day then Out.ok ((1 : Int), true) else do
      let m ← smallest.maxRoundingIncrement
      match m with
      | some m => Out.ok (m, false)
      | none => .err .range)
  incrementValidate increment maximum inclusive
  pure { largest := .auto, smallest, increment, mode }

/-- `if let Some(max) = smallest_unit.to_maximum_rounding_increment() { increment.validate(max, false)? }` -/
def checkIncrement (smallest : TUnit) (increment : Int) : Out Unit := do
  let maximum ← smallest.maxRoundingIncrement
  match maximum with
  | some max => incrementValidate increment max false
  | none => pure ()

/-- `Option<Unit>::unwrap_unit_or` -/
def unwrapUnitOr (u : Option TUnit) (d : TUnit) : TUnit :=
  match u with
  | some .auto => d
  | some x => x
  | none => d

/-- `ResolvedRoundingOptions::from_diff_settings(options, operation, unit_group, fallback_largest, fallback_smallest)` -/
def fromDiffSettings (o : RawOptions) (since : Bool) (g : UnitGroup) (fallbackLargest fallbackSmallest : TUnit) :
    Out Resolved := do
  g.validateUnit o.largest (some .auto)
  let increment := o.increment.getD 1
  let mode := if since then (o.mode.getD .trunc).negate else o.mode.getD .trunc
  g.validateUnit o.smallest none
  let smallest := o.smallest.getD fallbackSmallest
  let largest := unwrapUnitOr o.largest (smallest.max fallbackLargest)
  if largest < smallest then .err .range else do
  checkIncrement smallest increment
  pure { largest, smallest, increment, mode }

/-- `ResolvedRoundingOptions::from_duration_options(options, existing_largest)` -/
def fromDurationOptions (o : RawOptions) (existingLargest : TUnit) : Out Resolved := do
  if o.largest.isNone && o.smallest.isNone then .err .range else do
  let increment := o.increment.getD 1
  let mode := o.mode.getD .halfExpand
  UnitGroup.dateTime.validateUnit o.largest (some .auto)
  UnitGroup.dateTime.validateUnit o.smallest none
  let smallest := o.smallest.getD .nanosecond
  let defaultLargest := existingLargest.max smallest
  let largest := unwrapUnitOr o.largest defaultLargest  -- `Some(Auto) | None => default, Some(u) => u`
  if largest < smallest then .err .range else do
  checkIncrement smallest increment
  pure { largest, smallest, increment, mode }

/-- `Precision` of src/parsers.rs -/
inductive Precision where
  | auto | minute | digit (d : Nat)
  deriving DecidableEq, Repr

def Precision.render : Precision → String
  | .auto => "auto" | .minute => "minute" | .digit d => toString d

structure ResolvedToString where
  precision : Precision
  smallest : TUnit
  mode : RMode
  increment : Int
  deriving DecidableEq, Repr

def ResolvedToString.render (r : ResolvedToString) : String :=
  s!"{r.precision.render} {r.smallest.name} {r.mode.name} {r.increment}"

/-- `ToStringRoundingOptions::resolve` (digit is a `u8`). -/
def toStringResolve (precision : Precision) (smallest : Option TUnit) (mode : Option RMode) :
    Out ResolvedToString :=
  let mode := mode.getD .trunc
  match smallest with
  | some .minute => .ok ⟨.minute, .minute, mode, 1⟩
  | some .second => .ok ⟨.digit 0, .second, mode, 1⟩
  | some .millisecond => .ok ⟨.digit 3, .millisecond, mode, 1⟩
  | some .microsecond => .ok ⟨.digit 6, .microsecond, mode, 1⟩
  | some .nanosecond => .ok ⟨.digit 9, .nanosecond, mode, 1⟩
  | none =>
    match precision with
    | .auto => .ok ⟨.auto, .nanosecond, mode, 1⟩
    | .digit 0 => .ok ⟨.digit 0, .second, mode, 1⟩
    | .digit d =>
      if 1 ≤ d ∧ d ≤ 3 then .ok ⟨.digit d, .millisecond, mode, 10 ^ (3 - d)⟩
      else if 4 ≤ d ∧ d ≤ 6 then .ok ⟨.digit d, .microsecond, mode, 10 ^ (6 - d)⟩
      else if 7 ≤ d ∧ d ≤ 9 then .ok ⟨.digit d, .nanosecond, mode, 10 ^ (9 - d)⟩
      else .err .range
    | .minute => .err .range
  | some _ => .err .range

end TemporalModel
