/-
  Model/Options.lean — option resolution of src/options.rs and src/options/increment.rs, as coded.
-/
import TemporalModel.Model.Prim
namespace TemporalModel

/-- `RoundingIncrement::try_new` / the range part of `TryFrom<f64>` (integral input). -/
def incrementTryNew (inc : Int) : Out Int :=
  if inc < 1 ∨ inc > 1000000000 then .err .range else .ok inc

/-- `RoundingIncrement::validate(self, dividend, inclusive)` -/
def incrementValidate (inc : Int) (dividend : Int) (inclusive : Bool) : Out Unit :=
  let max := dividend - (if inclusive then 0 else 1)
  if inc > max then .err .range
  else if dividend % inc ≠ 0 then .err .range
  else .ok ()

/-- `Unit::to_maximum_rounding_increment`; `Auto` hits `unreachable!()`. -/
def TUnit.maxRoundingIncrement : TUnit → Out (Option Int)
  | .year | .month | .week | .day => .ok none
  | .hour => .ok (some 24)
  | .minute | .second => .ok (some 60)
  | .millisecond | .microsecond | .nanosecond => .ok (some 1000)
  | .auto => .panic

inductive UnitGroup where | date | time | dateTime
  deriving DecidableEq, Repr

/-- `UnitGroup::validate_unit(self, unit, extra_unit)` -/
def UnitGroup.validateUnit (g : UnitGroup) (unit extra : Option TUnit) : Out Unit :=
  match g with
  | .date =>
    match unit with
    | none => .ok ()
    | some u => if !u.isTimeUnit then .ok () else if unit = extra then .ok () else .err .range
  | .time =>
    match unit with
    | none => .ok ()
    | some u => if u.isTimeUnit then .ok () else if unit = extra then .ok () else .err .range
  | .dateTime => .ok ()

/-- `UnitGroup::validate_required_unit` -/
def UnitGroup.validateRequiredUnit (g : UnitGroup) (unit extra : Option TUnit) : Out TUnit :=
  match unit with
  | none => .err .range
  | some u => do g.validateUnit (some u) extra; pure u

/-- `ResolvedRoundingOptions` -/
structure Resolved where
  largest : TUnit
  smallest : TUnit
  increment : Int
  mode : RMode
  deriving DecidableEq, Repr

def Resolved.render (r : Resolved) : String :=
  s!"{r.largest.name} {r.smallest.name} {r.increment} {r.mode.name}"

/-- Raw options as the public structs carry them (`increment` already a `RoundingIncrement`). -/
structure RawOptions where
  largest : Option TUnit
  smallest : Option TUnit
  increment : Option Int
  mode : Option RMode
  deriving DecidableEq, Repr

/-- `ResolvedRoundingOptions::from_instant_options` -/
def fromInstantOptions (o : RawOptions) : Out Resolved := do
  let increment := o.increment.getD 1
  let mode := o.mode.getD .halfExpand
  let smallest ← UnitGroup.time.validateRequiredUnit o.smallest none
  let maximum ← (match smallest with
    | .hour => Out.ok (24 : Int)
    | .minute => .ok (24 * 60)
    | .second => .ok (24 * 3600)
    | .millisecond => .ok 86400000
    | .microsecond => .ok (86400000 * 1000)
    | .nanosecond => .ok 86400000000000
    | _ => .err .range)
  incrementValidate increment maximum true
  pure { largest := .auto, smallest, increment, mode }

/-- `ResolvedRoundingOptions::from_datetime_options` -/
def fromDatetimeOptions (o : RawOptions) : Out Resolved := do
  let increment := o.increment.getD 1
  let mode := o.mode.getD .halfExpand
  let smallest ← UnitGroup.time.validateRequiredUnit o.smallest (some .day)
  let (maximum, inclusive) ← (if smallest = .day then Out.ok ((1 : Int), true) else do
      let m ← smallest.maxRoundingIncrement
      match m with
      | some m => Out.ok (m, false)
      | none => .err .range)
  incrementValidate increment maximum inclusive
  pure { largest := .auto, smallest, increment, mode }

end TemporalModel
