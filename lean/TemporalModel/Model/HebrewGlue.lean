/-
  Model/HebrewGlue.lean — the crate's `from_partial` for the Hebrew calendar: the crate's own field resolution
  (Model/CalGlue.lean) followed by the library's `date_from_codes` / `date_to_iso` as modelled in Model/Hebrew.lean.
-/
import TemporalModel.Model.CalGlue
import TemporalModel.Model.Hebrew
namespace TemporalModel
namespace Cal

/-- `Calendar::date_from_partial` for `hebrew` (same shape as `dateFromPartialCal`). -/
def dateFromPartialHeb (p : CalPartial) (ov : Overflow) : Out IsoDate := do
  let r ← resolveFields .hebrew p
  if r.2.1 < -MAX_CALENDAR_YEAR ∨ r.2.1 > MAX_CALENDAR_YEAR then .err .range else
  match (hebrewFromCodes r.1 r.2.1 r.2.2.1 r.2.2.2).bind isoOfDay with
  | none => .err .range
  | some iso => IsoDate.newWithOverflow iso.year iso.month iso.day ov

/-- `PlainDate::from_partial(partial, overflow)` with the Hebrew calendar. -/
def plainDateFromPartialHeb (p : CalPartial) (ov : Option Overflow) : Out IsoDate :=
  let yearCheck := p.year.isSome || (p.era.isSome && p.eraYear.isSome)
  let monthCheck := p.month.isSome || p.monthCode.isSome
  if !yearCheck || !monthCheck || p.day.isNone then .err .type
  else dateFromPartialHeb p (ov.getD .constrain)

end Cal
end TemporalModel
