/-
  Model/Prim.lean — shared vocabulary of the executable model.
  No imports beyond core: everything here links into the `driver` executable.
-/
namespace TemporalModel

/-- Error kinds of `TemporalError` (src/error.rs `ErrorKind`). -/
inductive ErrKind where
  | generic | type | range | syntax | assert
  deriving DecidableEq, Repr, Inhabited

def ErrKind.name : ErrKind → String
  | .generic => "generic" | .type => "type" | .range => "range"
  | .syntax => "syntax" | .assert => "assert"

/-- Outcome alphabet shared by model and harness: value, error kind, or panic. -/
inductive Out (α : Type) where
  | ok (a : α)
  | err (k : ErrKind)
  | panic
  deriving DecidableEq, Repr, Inhabited

namespace Out
def map {α β} (f : α → β) : Out α → Out β
  | .ok a => .ok (f a) | .err k => .err k | .panic => .panic
def bind {α β} (x : Out α) (f : α → Out β) : Out β :=
  match x with | .ok a => f a | .err k => .err k | .panic => .panic
instance : Monad Out where
  pure := .ok
  bind := bind
def isOk {α} : Out α → Bool | .ok _ => true | _ => false
def render {α} (f : α → String) : Out α → String
  | .ok a => "ok " ++ f a
  | .err k => "err " ++ k.name
  | .panic => "panic"
@[simp] theorem pure_eq_ok {α} (a : α) : (pure a : Out α) = Out.ok a := rfl
@[simp] theorem bind_ok {α β} (a : α) (f : α → Out β) : (Out.ok a >>= f) = f a := rfl
@[simp] theorem bind_err {α β} (k : ErrKind) (f : α → Out β) : (Out.err k >>= f) = Out.err k := rfl
@[simp] theorem bind_panic {α β} (f : α → Out β) : (Out.panic >>= f) = Out.panic := rfl
end Out

/-- `Unit` of src/options.rs, in declaration (= `Ord`) order. -/
inductive TUnit where
  | auto | nanosecond | microsecond | millisecond | second | minute | hour | day | week | month | year
  deriving DecidableEq, Repr, Inhabited

namespace TUnit
def toNat : TUnit → Nat
  | auto => 0 | nanosecond => 1 | microsecond => 2 | millisecond => 3 | second => 4
  | minute => 5 | hour => 6 | day => 7 | week => 8 | month => 9 | year => 10
def all : List TUnit :=
  [auto, nanosecond, microsecond, millisecond, second, minute, hour, day, week, month, year]
def name : TUnit → String
  | auto => "auto" | nanosecond => "nanosecond" | microsecond => "microsecond"
  | millisecond => "millisecond" | second => "second" | minute => "minute" | hour => "hour"
  | day => "day" | week => "week" | month => "month" | year => "year"
def ofName? (s : String) : Option TUnit := all.find? (fun u => u.name == s)
instance : LT TUnit := ⟨fun a b => a.toNat < b.toNat⟩
instance : LE TUnit := ⟨fun a b => a.toNat ≤ b.toNat⟩
instance (a b : TUnit) : Decidable (a < b) := inferInstanceAs (Decidable (a.toNat < b.toNat))
instance (a b : TUnit) : Decidable (a ≤ b) := inferInstanceAs (Decidable (a.toNat ≤ b.toNat))
/-- `Ord::max` on `Unit`. -/
def max (a b : TUnit) : TUnit := if a.toNat ≤ b.toNat then b else a
def isTimeUnit : TUnit → Bool
  | hour | minute | second | millisecond | microsecond | nanosecond => true
  | _ => false
def isDateUnit : TUnit → Bool
  | day | week | month | year => true
  | _ => false
def isCalendarUnit : TUnit → Bool
  | week | month | year => true
  | _ => false
/-- `Unit::as_nanoseconds` -/
def asNanoseconds : TUnit → Option Nat
  | year | month | week | auto => none
  | day => some 86400000000000
  | hour => some 3600000000000
  | minute => some 60000000000
  | second => some 1000000000
  | millisecond => some 1000000
  | microsecond => some 1000
  | nanosecond => some 1
end TUnit

/-- `RoundingMode` of src/options.rs. -/
inductive RMode where
  | ceil | floor | expand | trunc | halfCeil | halfFloor | halfExpand | halfTrunc | halfEven
  deriving DecidableEq, Repr, Inhabited

namespace RMode
def all : List RMode :=
  [ceil, floor, expand, trunc, halfCeil, halfFloor, halfExpand, halfTrunc, halfEven]
def name : RMode → String
  | ceil => "ceil" | floor => "floor" | expand => "expand" | trunc => "trunc"
  | halfCeil => "halfCeil" | halfFloor => "halfFloor" | halfExpand => "halfExpand"
  | halfTrunc => "halfTrunc" | halfEven => "halfEven"
def ofName? (s : String) : Option RMode := all.find? (fun u => u.name == s)
/-- `RoundingMode::negate` -/
def negate : RMode → RMode
  | ceil => floor | floor => ceil | halfCeil => halfFloor | halfFloor => halfCeil
  | trunc => trunc | expand => expand | halfTrunc => halfTrunc | halfExpand => halfExpand
  | halfEven => halfEven
end RMode

/-- `ArithmeticOverflow` -/
inductive Overflow where | constrain | reject
  deriving DecidableEq, Repr, Inhabited

def Overflow.ofName? : String → Option Overflow
  | "constrain" => some .constrain | "reject" => some .reject | _ => none

/-- Truncating division and remainder (Rust `/`, `%` on signed integers). -/
abbrev tdiv (a b : Int) : Int := Int.tdiv a b
abbrev tmod (a b : Int) : Int := Int.tmod a b

/-- Clamp (Rust `Ord::clamp`). -/
def clamp (x lo hi : Int) : Int := if x < lo then lo else if x > hi then hi else x

def optStr {α} (f : α → String) : Option α → String
  | none => "-" | some a => f a

end TemporalModel
