/-
  Model/Shared.lean — the process-wide provider behind the convenience API (src/builtins/mod.rs `TZ_PROVIDER`,
  src/tzdb.rs `FsTzdbProvider`), as a state machine.

  A convenience call locks the provider, performs zone look-ups through the cache (`cacheGet`, Model/Tzif.lean),
  computes its answer from the zones it got, and unlocks.  Calls of different threads are serialised by the lock, so
  an execution of the whole program is an interleaving of the threads' call sequences.  A call may also panic while
  it holds the lock (fault injection hook): the mutex is then poisoned.
-/
import TemporalModel.Model.Tzif
namespace TemporalModel

/-- What a call asks of the provider: the zones it looks up, in order. Its answer is a function of what it got. -/
structure Call where
  thread : Nat
  zones : List String
  /-- the call panics after its look-ups, while it still holds the lock -/
  panics : Bool := false
  deriving Repr

/-- The shared state: the cache and the poison flag of the mutex. -/
structure Shared where
  cache : ZoneCache
  poisoned : Bool

/-- What the caller observes: the zones it was given, or a failure to acquire the lock, or its own panic. -/
inductive Observed where
  | answered (zs : List (Option RawZone))
  | lockFailed
  | panicked

/-- Look the zones up one after the other through the cache. -/
def lookupAll (read : String → Option RawZone) : ZoneCache → List String → List (Option RawZone) × ZoneCache
  | c, [] => ([], c)
  | c, id :: rest =>
    let r := cacheGet read c id
    let (zs, c') := lookupAll read r.2 rest
    (r.1 :: zs, c')

/-- One call under the lock, **as coded after the fix**: the poison flag is ignored when locking. -/
def stepRecover (read : String → Option RawZone) (s : Shared) (c : Call) : Shared × Observed :=
  let (zs, cache) := lookupAll read s.cache c.zones
  if c.panics then (⟨cache, true⟩, .panicked) else (⟨cache, s.poisoned⟩, .answered zs)

/-- One call **as coded before the fix**: a poisoned mutex refuses every later call. -/
def stepStrict (read : String → Option RawZone) (s : Shared) (c : Call) : Shared × Observed :=
  if s.poisoned then (s, .lockFailed) else stepRecover read s c

/-- Run a history (an interleaving of all threads' calls), collecting what each call observed. -/
def runShared (step : Shared → Call → Shared × Observed) : Shared → List Call → List Observed
  | _, [] => []
  | s, c :: rest => (step s c).2 :: runShared step (step s c).1 rest

/-- The same call made alone, on a fresh provider. -/
def alone (read : String → Option RawZone) (c : Call) : Observed :=
  if c.panics then .panicked else .answered (c.zones.map read)

/-- `h` is an interleaving of the per-thread sequences `ts`: it contains exactly their calls, each thread's in order. -/
def IsInterleaving (h : List Call) (ts : List (List Call)) : Prop :=
  ∀ k, h.filter (fun c => c.thread = k) = (ts.flatten).filter (fun c => c.thread = k)

end TemporalModel
