/-
  Model/F64.lean — the two facts about IEEE-754 binary64 the model needs, on exact integers/rationals:
  `ofInt` (int → nearest double, ties to even; what `as f64` / `f64::from_i128` do) and `ofRat` (nearest
  double to a rational num/den, used for `total`). Doubles are represented by their exact value as
  (mantissa, exponent) pairs only when non-integral; integral doubles are plain `Int`.
-/
import TemporalModel.Model.Prim
namespace TemporalModel
namespace F64

/-- Number of binary digits of a natural number. -/
def bitLen (n : Nat) : Nat := if n = 0 then 0 else Nat.log2 n + 1

/-- Round a natural number to a 53-bit significand, ties to even. -/
def roundNat (n : Nat) : Nat :=
  let b := bitLen n
  if b ≤ 53 then n else
  let sh := b - 53
  let q := n >>> sh
  let r := n - (q <<< sh)
  let half := 1 <<< (sh - 1)
  let q' := if r > half then q + 1 else if r < half then q else (if q % 2 = 0 then q else q + 1)
  q' <<< sh

/-- Nearest double to an integer (exact below 2^53). -/
def ofInt (x : Int) : Int := if x ≥ 0 then (roundNat x.toNat : Int) else -((roundNat (-x).toNat : Nat) : Int)

/-- `f64 as i64`: saturating (the double is integral here). -/
def toI64Sat (x : Int) : Int := clamp x (-9223372036854775808) 9223372036854775807

/-- `f64 as i128` saturating. -/
def toI128Sat (x : Int) : Int :=
  clamp x (-170141183460469231731687303715884105728) 170141183460469231731687303715884105727

/-- A finite double as an exact dyadic rational `m · 2^e` with `m` odd or zero (canonical form). -/
structure Dyadic where
  m : Int
  e : Int
  deriving DecidableEq, Repr

/-- Canonicalise: strip factors of two from the mantissa. -/
partial def Dyadic.norm (d : Dyadic) : Dyadic :=
  if d.m = 0 then ⟨0, 0⟩ else if d.m % 2 = 0 then Dyadic.norm ⟨d.m / 2, d.e + 1⟩ else d

/-- Nearest double (ties to even) to the non-negative rational `num/den`, as a dyadic. Assumes the result is a
    normal double (true for every use here: magnitudes between 2^-60 and 2^100). -/
def ofRatNonneg (num den : Nat) : Dyadic :=
  if num = 0 ∨ den = 0 then ⟨0, 0⟩ else
  -- scale so that the integer quotient has at least 55 bits, then round to 53
  let k : Nat := 56 + bitLen den
  let scaled := num <<< k
  let q := scaled / den
  let rem := scaled % den
  -- q has ≥ 55 significant bits when num ≥ 1; sticky bit from the remainder
  let b := bitLen q
  let sh := b - 53
  let top := q >>> sh
  let low := q - (top <<< sh)
  let half := 1 <<< (sh - 1)
  let gt := low > half ∨ (low = half ∧ rem > 0)
  let lt := low < half
  let top' := if gt then top + 1 else if lt then top else (if top % 2 = 0 then top else top + 1)
  Dyadic.norm ⟨(top' : Int), (sh : Int) - (k : Int)⟩

/-- Round an exact dyadic m·2^e to the nearest double (ties to even); assumes a normal result. -/
def roundDyadic (d : Dyadic) : Dyadic :=
  let a := d.m.natAbs
  let b := bitLen a
  if b ≤ 53 then d.norm else
  let sh := b - 53
  let top := a >>> sh
  let low := a - (top <<< sh)
  let half := 1 <<< (sh - 1)
  let top' := if low > half then top + 1 else if low < half then top else (if top % 2 = 0 then top else top + 1)
  let m' : Int := if d.m < 0 then -(top' : Int) else (top' : Int)
  Dyadic.norm ⟨m', d.e + sh⟩

/-- Exact sum of two dyadics. -/
def addExact (a b : Dyadic) : Dyadic :=
  let e := if a.e ≤ b.e then a.e else b.e
  ⟨a.m * 2 ^ (a.e - e).toNat + b.m * 2 ^ (b.e - e).toNat, e⟩

/-- IEEE `+` on doubles. -/
def add (a b : Dyadic) : Dyadic := roundDyadic (addExact a b)

def ofIntD (x : Int) : Dyadic := Dyadic.norm ⟨ofInt x, 0⟩

def ofRat (num : Int) (den : Nat) : Dyadic :=
  if num ≥ 0 then ofRatNonneg num.toNat den
  else let d := ofRatNonneg (-num).toNat den; ⟨-d.m, d.e⟩

/-- Canonical text of a dyadic: `m e` (value m·2^e), integers as `m 0`-style after normalisation. -/
def Dyadic.render (d : Dyadic) : String :=
  let d := d.norm
  -- present integers as plain integers for readability
  if d.e ≥ 0 then s!"{d.m * 2 ^ d.e.toNat}" else s!"{d.m}p{d.e}"

end F64
end TemporalModel
