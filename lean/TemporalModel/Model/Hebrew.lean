/-
  Model/Hebrew.lean — the Hebrew calendar as the calendrical library computes it
  (calendrical_calculations 0.1.3 src/hebrew_keviyah.rs; icu_calendar 2.0.0-beta2 src/hebrew.rs): the molad of
  Tishrei in ḥalakim (1/25920 day) since the week of Beharad, the Four Gates table that turns the molad's place in
  the week and the year's place in the 19-year cycle into one of the fourteen keviyot, and from the keviyah the
  weekday of the new year, the length of the year and of each month.  Everything is integer arithmetic.

  The library's `year_containing_rd` starts from a floating-point estimate `1 + floor(days / (35975351/98496))` and
  corrects it by at most one year; the model uses the exact rational estimate (the two can differ only when the
  quotient is within rounding of a whole number, and the correction step gives the same final year in both cases;
  the correspondence run probes exactly those days).
-/
import TemporalModel.Model.Calendar
namespace TemporalModel
namespace Cal
namespace Heb

/-- `months_preceding_molad`: lunations before the molad of Tishrei of year `y`. -/
def monthsPreceding (y : Int) : Int := (235 * (y - 1) + 1) / 19

/-- ḥalakim from the start of the week of Beharad to the molad of Tishrei of year `y`. -/
def molad (y : Int) : Int := 31524 + monthsPreceding y * 765433

def HALAKIM_IN_WEEK : Int := 181440

/-- ḥal!(7-18-0): Saturday 18 h, the start of the first gate. -/
def GATE0 : Int := 174960

/-- whole weeks / ḥalakim into the week of the molad (`molad_details`) -/
def weeks0 (y : Int) : Int := molad y / 181440
def inWeek (y : Int) : Int := molad y % 181440

/-- `MetonicCycleType::for_h_year`. -/
inductive Cycle where
  | lMinusOne | lPlusOne | lPlusMinusOne | leap
  deriving DecidableEq, Repr

def cycle (y : Int) : Cycle :=
  let r := y % 19
  if r = 2 ∨ r = 5 ∨ r = 10 ∨ r = 13 ∨ r = 16 then .lMinusOne
  else if r = 1 ∨ r = 4 ∨ r = 9 ∨ r = 12 ∨ r = 15 then .lPlusOne
  else if r = 7 ∨ r = 18 then .lPlusMinusOne
  else .leap

def isLeap (y : Int) : Bool := cycle y = .leap

/-- index 0..6 of the keviyah pair chosen by `keviyah_for`, given gates 1..6 of the cycle type's Four Gates table
    (gate 0 is Saturday 18 h = 174960 in all four tables) -/
def gateIdx (g1 g2 g3 g4 g5 g6 h : Int) : Nat :=
  if h ≥ 174960 then 0
  else if h < g1 then 0
  else if h < g2 then 1
  else if h < g3 then 2
  else if h < g4 then 3
  else if h < g5 then 4
  else if h < g6 then 5
  else 6

/-- `keviyah_for(cycle type, ḥalakim)` with the four tables `FOUR_GATES_*` -/
def gateIndex (c : Cycle) (h : Int) : Nat :=
  match c with
  | .lMinusOne => gateIdx 9924 45360 61764 113604 123120 139524 h
  | .lPlusOne => gateIdx 9924 42709 61764 113604 123120 130008 h
  | .lPlusMinusOne => gateIdx 9924 42709 61764 113604 123120 139524 h
  | .leap => gateIdx 22091 45360 71280 90335 123120 151691 h

/-- `Keviyah::start_of_year` (Monday = 2 … Saturday = 7), by pair index -/
def startOfYear : Nat → Int
  | 0 => 2 | 1 => 2 | 2 => 3 | 3 => 5 | 4 => 5 | 5 => 7 | _ => 7

/-- `Keviyah::year_type().length_correction()`: −1 deficient, 0 regular, +1 complete -/
def correction (leap : Bool) : Nat → Int
  | 0 => -1 | 1 => 1 | 2 => 0
  | 3 => if leap then -1 else 0
  | 4 => 1 | 5 => -1 | _ => 1

/-- the keviyah of year `y`: (pair index, leap) -/
def kevIndex (y : Int) : Nat := gateIndex (cycle y) (inWeek y)

/-- length correction of year `y` -/
def corr (y : Int) : Int := correction (isLeap y) (kevIndex y)

/-- `Keviyah::year_length` -/
def yearLength (y : Int) : Int := (if isLeap y then 384 else 354) + corr y

/-- the Hebrew epoch (R.D. −1373427) as an epoch day: 1970-01-01 is R.D. 719163 -/
def EPOCH : Int := -2092590

/-- `YearInfo::new_year` as an epoch day: the keviyah postpones a molad at or after Saturday 18 h (`>= 174960`), the
    week count moves on only for a molad after it (`> 174960`, as coded). -/
def newYear (y : Int) : Int :=
  EPOCH + 7 * (weeks0 y + (if inWeek y > 174960 then 1 else 0)) + startOfYear (kevIndex y) - 2

/-- The new year with the week count moved on exactly when the keviyah postpones (`>= 174960`): what the calendar's
    rules give.  Differs from `newYear` (by a week) only for a molad exactly at Saturday 18 h 0 p. -/
def newYearSpec (y : Int) : Int :=
  EPOCH + 7 * (weeks0 y + (if inWeek y ≥ 174960 then 1 else 0)) + startOfYear (kevIndex y) - 2

/-- `Keviyah::month_len(ordinal month)` -/
def monthLen (y : Int) (m : Nat) : Int :=
  let leap := isLeap y
  if leap ∧ m = 6 then 30
  else
    let n := if leap ∧ m > 6 then m - 1 else m
    if n = 2 then (if corr y = 1 then 30 else 29)
    else if n = 3 then (if corr y = -1 then 29 else 30)
    else if n = 1 ∨ n = 5 ∨ n = 7 ∨ n = 9 ∨ n = 11 then 30
    else if n = 4 ∨ n = 6 ∨ n = 8 ∨ n = 10 ∨ n = 12 then 29
    else 30

/-- `year_containing_rd` over a new-year function (see the file header for the estimate). -/
def yearOfWith (ny : Int → Int) (n : Int) : Int :=
  let a := 1 + (98496 * (n - EPOCH)) / 35975351
  if n < ny a then a - 1
  else if n ≥ ny a + yearLength a then a + 1
  else a

def yearOf (n : Int) : Int := yearOfWith newYear n

/-- `Keviyah::month_day_for(day of year)`: walk the thirteen month slots; a day that fits no month (the caller
    saturates a negative offset to 65535) ends on the last day of the year. -/
def monthDayFor (y : Int) : Nat → Nat → Int → Nat × Int
  | 0, _, _ => (if isLeap y then 13 else 12, 29)
  | f + 1, m, day =>
    if day ≤ 255 ∧ day ≤ monthLen y m then (m, day) else monthDayFor y f (m + 1) (day - monthLen y m)

/-- `Hebrew::date_from_iso`: (year, ordinal month, day) of an epoch day, as coded (`u16::try_from(..)` saturates). -/
def ofDay (n : Int) : Int × Nat × Int :=
  let y := yearOf n
  let d0 := n - newYear y + 1
  let day := if d0 < 0 ∨ d0 > 65535 then 65535 else d0
  let md := monthDayFor y 13 1 day
  (y, md.1, md.2)

/-- The same in a build with debug assertions: `year_containing_rd` asserts that the year it settled on (after one
    correction step) contains the day, and panics otherwise. -/
def ofDayChecked (n : Int) : Out (Int × Nat × Int) :=
  let y := yearOf n
  if n < newYear y ∨ n ≥ newYear y + yearLength y then .panic else .ok (ofDay n)

/-- `Keviyah::days_preceding(ordinal month)`: the closed form `date_to_iso` uses (a table of the regular lengths,
    plus the year's length correction after Kislev, plus Adar I from Adar on in a leap year). -/
def daysPreceding (y : Int) (m : Nat) : Int :=
  let leap := isLeap y
  if leap ∧ m = 6 then 148 + corr y
  else
    let n := if leap ∧ m > 6 then m - 1 else m
    let days : Int :=
      if n = 1 then 0 else if n = 2 then 30 else if n = 3 then 30 + (if corr y = 1 then 30 else 29)
      else if n = 4 then 89 else if n = 5 then 118 else if n = 6 then 148 else if n = 7 then 177
      else if n = 8 then 207 else if n = 9 then 236 else if n = 10 then 266 else if n = 11 then 295 else 325
    let days := if n > 3 then days + corr y else days
    if n ≥ 6 ∧ leap then days + 30 else days

/-- The month code the library reports for ordinal month `m` of year `y` (`standard_code`). -/
def codeOf (y : Int) (m : Nat) : MonthCode :=
  if isLeap y then (if m = 6 then ⟨5, true⟩ else if m > 6 then ⟨m - 1, false⟩ else ⟨m, false⟩) else ⟨m, false⟩

/-- The ordinal month `date_from_codes` gives a month code in year `y` (none: UnknownMonthCode). -/
def ordOf (y : Int) (c : MonthCode) : Option Nat :=
  if isLeap y then
    (if c.leap then (if c.num = 5 then some 6 else if c.num = 6 then some 7 else none)
     else if 1 ≤ c.num ∧ c.num ≤ 5 then some c.num
     else if 6 ≤ c.num ∧ c.num ≤ 12 then some (c.num + 1) else none)
  else (if c.leap then none else if 1 ≤ c.num ∧ c.num ≤ 12 then some c.num else none)

end Heb

/-- The Hebrew calendar by its rules (new year postponed exactly when the keviyah says so). -/
def hebrewSpec : ACal where
  months := fun y => if Heb.isLeap y then 13 else 12
  dim := Heb.monthLen
  yearStart := Heb.newYearSpec
  yearOf := Heb.yearOfWith Heb.newYearSpec

/-- Fields of (y, m, d) in the Hebrew calendar (era `hebrew`, era year = year). -/
def hebrewFieldsOf (ymd : Int × Nat × Int) : CalFields :=
  let y := ymd.1
  let m := ymd.2.1
  let d := ymd.2.2
  { era := some "hebrew", eraYear := some y, year := y, month := m, monthCode := Heb.codeOf y m, day := d,
    dayOfYear := hebrewSpec.before y (m - 1) + d, daysInMonth := Heb.monthLen y m, daysInYear := Heb.yearLength y,
    monthsInYear := hebrewSpec.months y, inLeapYear := Heb.isLeap y }

/-- Fields the crate reports for epoch day `n` in the Hebrew calendar (as coded). -/
def hebrewFields (n : Int) : CalFields := hebrewFieldsOf (Heb.ofDay n)

/-- The same in a build with debug assertions. -/
def hebrewFieldsChecked (n : Int) : Out CalFields :=
  match Heb.ofDayChecked n with
  | .ok ymd => .ok (hebrewFieldsOf ymd)
  | .err k => .err k
  | .panic => .panic

/-- The same by the calendar's rules. -/
def hebrewFieldsSpec (n : Int) : CalFields := hebrewFieldsOf (hebrewSpec.ofDay n)

/-- `Hebrew::date_from_codes(era, year, month code, day)` then `date_to_iso`, as an epoch day (as coded). -/
def hebrewFromCodes (era : Option String) (y : Int) (code : MonthCode) (d : Int) : Option Int :=
  if ¬ (era = none ∨ era = some "hebrew" ∨ era = some "am") then none
  else match Heb.ordOf y code with
    | none => none
    | some m => if d ≤ 0 ∨ d > Heb.monthLen y m then none
                else some (Heb.newYear y + Heb.daysPreceding y m + (d - 1))

end Cal
end TemporalModel
