/-
  Model/EpochConv.lean — `EpochNanoseconds::try_from` for the three numeric argument types
  (src/epoch_nanoseconds.rs).  The argument is the mathematical value of the i128 / u128 / (integral) f64 given.
-/
import TemporalModel.Model.IsoTime
namespace TemporalModel

/-- `TryFrom<i128>` -/
def enFromI128 (v : Int) : Out Int := instantTryNew v

/-- `TryFrom<u128>` (`v ≥ 0`): compared as an unsigned number with the upper limit only. -/
def enFromU128 (v : Int) : Out Int := if nsMaxInstant < v then .err .range else .ok v

/-- `TryFrom<f64>` for an integral double: `i128::from_f64` (none outside the i128 range), then the i128 route. -/
def enFromF64 (v : Int) : Out Int :=
  if -170141183460469231731687303715884105728 ≤ v ∧ v < 170141183460469231731687303715884105728 then enFromI128 v
  else .err .range

/-- All three accept exactly the values of the instant range and return the value itself. -/
theorem enFrom_spec (v : Int) :
    (enFromI128 v = if -nsMaxInstant ≤ v ∧ v ≤ nsMaxInstant then .ok v else .err .range) ∧
    (0 ≤ v → enFromU128 v = if -nsMaxInstant ≤ v ∧ v ≤ nsMaxInstant then .ok v else .err .range) ∧
    (enFromF64 v = if -nsMaxInstant ≤ v ∧ v ≤ nsMaxInstant then .ok v else .err .range) := by
  refine ⟨rfl, ?_, ?_⟩
  · intro h0
    unfold enFromU128 nsMaxInstant
    split <;> split <;> first | rfl | omega
  · unfold enFromF64 enFromI128 instantTryNew nsMaxInstant
    split <;> split <;> first | rfl | omega

end TemporalModel
