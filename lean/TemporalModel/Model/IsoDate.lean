/-
  Model/IsoDate.lean — `IsoDate` / `IsoDateTime` of src/iso.rs: regulate, limits, epoch nanoseconds; as coded.
-/
import TemporalModel.Model.Gregorian
import TemporalModel.Model.IsoTime
namespace TemporalModel

structure IsoDate where
  year : Int
  month : Int
  day : Int
  deriving DecidableEq, Repr, Inhabited

structure IsoDateTime where
  date : IsoDate
  time : IsoTime
  deriving DecidableEq, Repr, Inhabited

namespace IsoDate

def render (d : IsoDate) : String := s!"{d.year} {d.month} {d.day}"

/-- `IsoDate::to_epoch_days` -/
def toEpochDays (d : IsoDate) : Int := NS.epochDaysFromGregorianDate d.year d.month d.day

/-- `derive(Ord)`: lexicographic compare, as -1/0/1. -/
def cmp (a b : IsoDate) : Int :=
  if a.year < b.year then -1 else if a.year > b.year then 1
  else if a.month < b.month then -1 else if a.month > b.month then 1
  else if a.day < b.day then -1 else if a.day > b.day then 1 else 0

/-- `IsoDate::balance` -/
def balance (year month day : Int) : IsoDate :=
  let r := isoDateBalance year month day
  ⟨r.1, r.2.1, r.2.2⟩

end IsoDate

def NS_PER_DAY : Int := 86400000000000
def NS_MAX_INSTANT : Int := 8640000000000000000000
def MAX_EPOCH_DAYS : Int := 100000001

/-- `IsoTime::to_epoch_ms` -/
def IsoTime.toEpochMs (t : IsoTime) : Int :=
  t.hour * 3600000 + t.minute * 60000 + t.second * 1000 + t.millisecond

/-- `to_unchecked_epoch_nanoseconds(date, time)` -/
def toUncheckedEpochNanoseconds (d : IsoDate) (t : IsoTime) : Int :=
  let ms := t.toEpochMs
  let epochMs := d.toEpochDays * MS_PER_DAY + ms
  epochMs * 1000000 + t.microsecond * 1000 + t.nanosecond

/-- `iso_dt_within_valid_limits(date, time)` -/
def isoDtWithinValidLimits (d : IsoDate) (t : IsoTime) : Bool :=
  if ¬ (-271821 ≤ d.year ∧ d.year ≤ 275760) then false
  else if d.toEpochDays.natAbs > MAX_EPOCH_DAYS then false
  else
    let ns := toUncheckedEpochNanoseconds d t
    let max := NS_MAX_INSTANT + NS_PER_DAY
    let min := -NS_MAX_INSTANT - NS_PER_DAY
    decide (min < ns) && decide (max > ns)

/-- `is_valid_epoch_nanos` -/
def isValidEpochNanos (ns : Int) : Bool := decide (-NS_MAX_INSTANT ≤ ns) && decide (ns ≤ NS_MAX_INSTANT)

/-- `utc_epoch_nanos` / `IsoDateTime::as_nanoseconds` -/
def IsoDateTime.asNanoseconds (dt : IsoDateTime) : Out Int :=
  let ns := toUncheckedEpochNanoseconds dt.date dt.time
  if isValidEpochNanos ns then .ok ns else .err .range

/-- `IsoDateTime::utc_epoch_nanoseconds`: `GetUTCEpochNanoseconds` as the difference and rounding operations use it, a
    plain number (no instant range check). Kept in `Out` so that the call sites read as in the code. -/
def IsoDateTime.utcEpochNs (dt : IsoDateTime) : Out Int := .ok (toUncheckedEpochNanoseconds dt.date dt.time)

/-- `is_valid_iso_day` / `is_valid_date` (month checked first). -/
def isValidDate (year month day : Int) : Out Bool :=
  if ¬ (1 ≤ month ∧ month ≤ 12) then .ok false else do
    let dim ← isoDaysInMonth year month
    pure (decide (1 ≤ day ∧ day ≤ dim))

/-- `constrain_iso_day` -/
def constrainIsoDay (year month day : Int) : Out Int := do
  let dim ← isoDaysInMonth year month
  pure (clamp day 1 dim)

/-- `IsoDate::regulate(year, month, day, overflow)` (month, day are `u8`). -/
def IsoDate.regulate (year month day : Int) (ov : Overflow) : Out IsoDate :=
  match ov with
  | .constrain => do
    let m := clamp month 1 12
    let d ← constrainIsoDay year m day
    pure ⟨year, m, d⟩
  | .reject => do
    let v ← isValidDate year month day
    if v then pure ⟨year, month, day⟩ else .err .range

/-- `IsoDate::new_with_overflow` -/
def IsoDate.newWithOverflow (year month day : Int) (ov : Overflow) : Out IsoDate := do
  let d ← IsoDate.regulate year month day ov
  if isoDtWithinValidLimits d IsoTime.noon then pure d else .err .range

/-- `IsoDateTime::new` -/
def IsoDateTime.new (d : IsoDate) (t : IsoTime) : Out IsoDateTime :=
  if isoDtWithinValidLimits d t then .ok ⟨d, t⟩ else .err .range

/-- `IsoDateTime::balance` -/
def IsoDateTime.balance (year month day hour minute second ms us ns : Int) : IsoDateTime :=
  let (overflowDay, time) := IsoTime.balance hour minute second ms us ns
  ⟨IsoDate.balance year month (day + overflowDay), time⟩

/-- `IsoDateTime::from_epoch_nanos(epoch_nanoseconds, offset)` (the `micros < 1000` assertion cannot fail). -/
def IsoDateTime.fromEpochNanos (epochNs offset : Int) : Out IsoDateTime :=
  let remainderNanos := epochNs % 1000000
  let epochMillis := (epochNs - remainderNanos) / 1000000
  let ymd := NS.ymdFromEpochDays (epochMillis / MS_PER_DAY)
  let hour := epochMillis / 3600000 % 24
  let minute := epochMillis / 60000 % 60
  let second := epochMillis / 1000 % 60
  let millis := epochMillis % 1000
  let micros := remainderNanos / 1000
  if ¬ (micros < 1000) then .err .assert else
  let nanos := remainderNanos % 1000
  .ok (IsoDateTime.balance ymd.1 ymd.2.1 ymd.2.2 hour minute second millis micros (nanos + offset))

def IsoDateTime.render (dt : IsoDateTime) : String := dt.date.render ++ " " ++ dt.time.render

end TemporalModel
