/-
  Model/Partial.lean — building/updating values from partial records, ISO calendar
  (src/builtins/core/{date,datetime,time,year_month,month_day}.rs, calendar.rs *_from_partial,
  calendar/types.rs ResolvedCalendarFields / resolve_iso_month / MonthCode), as coded (after the `fix:` commits).
-/
import TemporalModel.Model.DateTime
namespace TemporalModel

/-- `MonthCode`: "Mdd" or "MddL" — two digits and a leap flag. -/
structure MonthCode where
  num : Nat
  leap : Bool
  deriving DecidableEq, Repr

def MonthCode.render (c : MonthCode) : String :=
  s!"M{c.num / 10}{c.num % 10}" ++ (if c.leap then "L" else "")

/-- `PartialDate` with an ISO calendar. `era` only records whether an era was supplied (ISO has none). -/
structure PartialDate where
  year : Option Int
  month : Option Int
  monthCode : Option MonthCode
  day : Option Int
  era : Bool
  eraYear : Option Int
  deriving DecidableEq, Repr

def PartialDate.isEmpty (p : PartialDate) : Bool :=
  p.year.isNone && p.month.isNone && p.monthCode.isNone && p.day.isNone && !p.era && p.eraYear.isNone

structure PartialTime where
  hour : Option Int
  minute : Option Int
  second : Option Int
  millisecond : Option Int
  microsecond : Option Int
  nanosecond : Option Int
  deriving DecidableEq, Repr

def PartialTime.isEmpty (p : PartialTime) : Bool :=
  p.hour.isNone && p.minute.isNone && p.second.isNone && p.millisecond.isNone && p.microsecond.isNone &&
    p.nanosecond.isNone

/-- `month_to_month_code(month)`: months outside 1..=13 are RangeErrors. -/
def monthToMonthCode (m : Int) : Out MonthCode :=
  if 1 ≤ m ∧ m ≤ 13 then .ok ⟨m.toNat, false⟩ else .err .range

/-- `MonthCode::validate` for the ISO calendar: only M01..M12. -/
def MonthCode.validateIso (c : MonthCode) : Out Unit :=
  if !c.leap ∧ 1 ≤ c.num ∧ c.num ≤ 12 then .ok () else .err .range

/-- `impl_with_fallback_method!`: merge a partial with a receiver's (year, month, day). `withDay = false` is the
    year-month instantiation (the day is not carried). After the fixes: a year designation among the given fields
    (year, era or era year) replaces the receiver's (an ISO receiver has no era, so its designation is its year), and
    the receiver's month is carried by its month code alone. -/
def PartialDate.withFallback (p : PartialDate) (fy fm fd : Int) (withDay : Bool) : Out PartialDate := do
  let (month, code) ← (match p.month, p.monthCode with
    | some m, some c => Out.ok (some m, some c)
    | some m, none => Out.ok (some m, none)          -- after the fix: the month code is derived later, after clamping
    | none, some c => .ok (some (c.num : Int), some c)
    | none, none => do let c ← monthToMonthCode fm; pure (none, some c) : Out (Option Int × Option MonthCode))
  let year := if p.year.isSome ∨ p.era ∨ p.eraYear.isSome then p.year else some fy
  pure { year := year, month := month, monthCode := code,
         day := if withDay then some (p.day.getD fd) else none, era := p.era, eraYear := p.eraYear }

/-- `EraYear::try_from_partial_date` for the ISO calendar → the year. -/
def eraYearIso (p : PartialDate) : Out Int :=
  match p.year, p.era, p.eraYear with
  | some y, false, none => .ok y
  | none, true, some _ => .err .range      -- ISO knows no era: `get_era_info` returns None
  | _, _, _ => .err .type

/-- The `match (month_code, month)` of `resolve_iso_month`. -/
def resolveIsoMonthCode (p : PartialDate) (ov : Overflow) : Out MonthCode :=
  match p.monthCode, p.month with
  | none, none => Out.err .type
  | none, some m =>
    if ov = .constrain then monthToMonthCode (clamp m 1 12)
    else if ¬ (1 ≤ m ∧ m ≤ 12) then .err .range else monthToMonthCode m
  | some c, none => .ok c
  | some c, some m => if m ≠ (c.num : Int) then .err .range else .ok c

/-- `resolve_iso_month(partial, overflow)` -/
def resolveIsoMonth (p : PartialDate) (ov : Overflow) : Out MonthCode := do
  let code ← resolveIsoMonthCode p ov
  code.validateIso
  pure code

inductive ResolutionType where | date | yearMonth | monthDay
  deriving DecidableEq

/-- `resolve_day(day, is_year_month)` (after the fix: a year-month always resolves to day 1). -/
def resolveDay (d : Option Int) (isYearMonth : Bool) : Out Int :=
  if isYearMonth then .ok 1
  else match d with
    | some d => .ok d
    | none => .err .type

/-- `ResolvedCalendarFields::try_from_partial` (ISO) → (year, month, day). -/
def resolvedFieldsIso (p : PartialDate) (ov : Overflow) (rt : ResolutionType) : Out (Int × Int × Int) := do
  let year ← eraYearIso p
  let code ← resolveIsoMonth p ov
  let day ← resolveDay p.day (rt = .yearMonth)
  let m : Int := code.num
  let day ← (if ov = .constrain then constrainIsoDay year m day
             else do
               let dim ← isoDaysInMonth year m
               if 1 ≤ day ∧ day ≤ dim then pure day else Out.err .range)
  pure (year, m, day)

/-- `Calendar::date_from_partial` (ISO). -/
def dateFromPartial (p : PartialDate) (ov : Overflow) : Out IsoDate := do
  let (y, m, d) ← resolvedFieldsIso p ov .date
  IsoDate.newWithOverflow y m d ov

/-- `PlainDate::from_partial(partial, overflow)` -/
def plainDateFromPartial (p : PartialDate) (ov : Option Overflow) : Out IsoDate :=
  let yearCheck := p.year.isSome || (p.era && p.eraYear.isSome)
  let monthCheck := p.month.isSome || p.monthCode.isSome
  if !yearCheck || !monthCheck || p.day.isNone then .err .type
  else dateFromPartial p (ov.getD .constrain)

/-- `PlainDate::with(partial, overflow)` -/
def plainDateWith (r : IsoDate) (p : PartialDate) (ov : Option Overflow) : Out IsoDate :=
  if p.isEmpty then .err .type else do
    let merged ← p.withFallback r.year r.month r.day true
    dateFromPartial merged (ov.getD .constrain)

/-- `IsoTime::new(h, m, s, ms, us, ns, overflow)` (fields are `u8`/`u16`). -/
def isoTimeNew (h mi s ms us ns : Int) (ov : Overflow) : Out IsoTime :=
  match ov with
  | .constrain => .ok ⟨clamp h 0 23, clamp mi 0 59, clamp s 0 59, clamp ms 0 999, clamp us 0 999, clamp ns 0 999⟩
  | .reject => let t : IsoTime := ⟨h, mi, s, ms, us, ns⟩; if t.isValid then .ok t else .err .range

/-- `IsoTime::with(partial, overflow)` -/
def isoTimeWith (t : IsoTime) (p : PartialTime) (ov : Overflow) : Out IsoTime :=
  isoTimeNew (p.hour.getD t.hour) (p.minute.getD t.minute) (p.second.getD t.second)
    (p.millisecond.getD t.millisecond) (p.microsecond.getD t.microsecond) (p.nanosecond.getD t.nanosecond) ov

/-- `PlainTime::from_partial(partial, overflow)` -/
def plainTimeFromPartial (p : PartialTime) (ov : Option Overflow) : Out IsoTime :=
  if p.isEmpty then .err .type else isoTimeWith IsoTime.midnight p (ov.getD .constrain)

/-- `PlainTime::with(partial, overflow)` -/
def plainTimeWith (t : IsoTime) (p : PartialTime) (ov : Option Overflow) : Out IsoTime :=
  if p.isEmpty then .err .type else isoTimeWith t p (ov.getD .constrain)

/-- `PlainDateTime::from_partial` -/
def plainDateTimeFromPartial (pd : PartialDate) (pt : PartialTime) (ov : Option Overflow) : Out IsoDateTime :=
  if pd.isEmpty && pt.isEmpty then .err .type else do
    let date ← plainDateFromPartial pd ov
    let time ← isoTimeWith IsoTime.midnight pt (ov.getD .constrain)
    IsoDateTime.new date time

/-- `PlainDateTime::with` -/
def plainDateTimeWith (r : IsoDateTime) (pd : PartialDate) (pt : PartialTime) (ov : Option Overflow) :
    Out IsoDateTime :=
  if pd.isEmpty && pt.isEmpty then .err .type else do
    let merged ← pd.withFallback r.date.year r.date.month r.date.day true
    let date ← dateFromPartial merged (ov.getD .constrain)
    let time ← isoTimeWith r.time pt (ov.getD .constrain)
    IsoDateTime.new date time

/-! ### Year-months and month-days (C18) -/

/-- `year_month_within_limits` -/
def yearMonthWithinLimits (y m : Int) : Bool :=
  if ¬ (-271821 ≤ y ∧ y ≤ 275760) then false
  else if y = -271821 ∧ m < 4 then false
  else if y = 275760 ∧ m > 9 then false
  else true

/-- `PlainYearMonth::new_with_overflow(year, month, reference_day, calendar, overflow)` -/
def yearMonthNew (y m : Int) (refDay : Option Int) (ov : Overflow) : Out IsoDate := do
  let iso ← IsoDate.regulate y m (refDay.getD 1) ov
  if yearMonthWithinLimits iso.year iso.month then pure iso else .err .range

/-- `Calendar::year_month_from_partial` (ISO) -/
def yearMonthFromPartial (p : PartialDate) (ov : Overflow) : Out IsoDate := do
  let (y, m, d) ← resolvedFieldsIso p ov .yearMonth
  yearMonthNew y m (some d) ov

/-- `PlainYearMonth::with(partial, overflow)` -/
def yearMonthWith (r : IsoDate) (p : PartialDate) (ov : Option Overflow) : Out IsoDate := do
  let merged ← p.withFallback r.year r.month r.day false
  yearMonthFromPartial merged (ov.getD .constrain)

/-- `PartialDate::try_from_year_month` (ISO): year, month, month code, day 1. -/
def partialOfYearMonth (r : IsoDate) : Out PartialDate := do
  pure { year := some r.year, month := some r.month, monthCode := some ⟨r.month.toNat, false⟩, day := some 1,
         era := false, eraYear := none }

/-- `PlainMonthDay::new_with_overflow(month, day, calendar, overflow, ref_year)` -/
def monthDayNew (m d : Int) (ov : Overflow) (refYear : Option Int) : Out IsoDate :=
  IsoDate.newWithOverflow (refYear.getD 1972) m d ov

/-- `Calendar::month_day_from_partial` (ISO): the day is regulated in the year the record gives, then the month-day
    is held in the reference year. -/
def monthDayFromPartial (p : PartialDate) (ov : Overflow) : Out IsoDate := do
  let (_, m, d) ← resolvedFieldsIso p ov .monthDay
  monthDayNew m d ov none

/-- `PlainDate::to_plain_year_month` -/
def dateToYearMonth (r : IsoDate) : Out IsoDate := do
  let p ← ({ year := none, month := none, monthCode := none, day := none, era := false, eraYear := none } : PartialDate).withFallback
    r.year r.month r.day true
  yearMonthFromPartial p .constrain

/-- `PlainDate::to_plain_month_day` -/
def dateToMonthDay (r : IsoDate) : Out IsoDate := do
  let p ← ({ year := none, month := none, monthCode := none, day := none, era := false, eraYear := none } : PartialDate).withFallback
    r.year r.month r.day true
  let (_, m, d) ← resolvedFieldsIso p .constrain .monthDay
  monthDayNew m d .constrain none

/-- `PlainYearMonth::add_or_subtract_duration` (after the fix: weeks/days are refused). -/
def yearMonthAdd (r : IsoDate) (du : Dur) (ov : Overflow) : Out IsoDate := do
  let bal ← timeFromNormalized du.timeNs .day
  if du.weeks ≠ 0 ∨ F64.ofInt (du.days + bal.days) ≠ 0 then .err .range else do
  let p ← partialOfYearMonth r
  let inter ← dateFromPartial p ov
  let added ← plainDateAdd inter du ov
  let fields ← ({ year := none, month := none, monthCode := none, day := none, era := false, eraYear := none } : PartialDate).withFallback
    added.year added.month added.day true
  yearMonthFromPartial fields ov

def yearMonthSubtract (r : IsoDate) (du : Dur) (ov : Overflow) : Out IsoDate := yearMonthAdd r du.negated ov

/-- `PlainYearMonth::diff` for the no-rounding case (smallest month, increment 1); `none` = rounding path (C08). -/
def yearMonthDiff (since : Bool) (a b : IsoDate) (raw : RawOptions) : Option (Out Dur) :=
  if raw.largest = some .week ∨ raw.largest = some .day ∨ raw.smallest = some .week ∨ raw.smallest = some .day then
    some (.err .range)
  else
  match fromDiffSettings raw since .date .year .month with
  | .err k => some (.err k)
  | .panic => some .panic
  | .ok o =>
    if a = b then some (.ok Dur.zero)
    else if ¬ (o.smallest = .month ∧ o.increment = 1) then none
    else some (do
      -- after the fix: measured between the first days of the two months
      let r ← (⟨a.year, a.month, 1⟩ : IsoDate).diffIsoDate ⟨b.year, b.month, 1⟩ o.largest
      let r ← durFromNormalized r 0 .day
      pure (if since then r.negated else r))

end TemporalModel
