/-
  Model/Calendar.lean — the non-ISO calendars whose rules are plain arithmetic, as the calendrical library
  (icu_calendar 2.0.0-beta2 / calendrical_calculations 0.1.3) computes them, and the fields `Calendar` reports
  through it (src/builtins/core/calendar.rs:366-513).

  Modelled: iso8601, gregory, buddhist, roc, japanese (all four are the ISO date under another year numbering),
  coptic, ethiopic, ethioaa, indian, islamic-civil, islamic-tbla, persian (day-count calendars).
  Modelled separately: hebrew (Model/Hebrew.lean: molad arithmetic, gate tables, keviyot).
  Not modelled (astronomical or table driven inside the library): chinese, dangi, islamic, islamic-umalqura,
  japanext — for those only the crate's own glue (Model/CalGlue.lean) is modelled and the laws of
  Spec/CalLaws.lean are evaluated on the fields the implementation reports.
-/
import TemporalModel.Model.Partial
import TemporalModel.Spec.Gregorian
namespace TemporalModel
namespace Cal

/-! ### A calendar given by year starts and month lengths -/

/-- An arithmetic calendar on the epoch-day line (1970-01-01 ↦ 0). -/
structure ACal where
  /-- months in year `y` -/
  months : Int → Nat
  /-- days in month `m` (1-based) of year `y` -/
  dim : Int → Nat → Int
  /-- epoch day of the first day of year `y` -/
  yearStart : Int → Int
  /-- the year an epoch day falls in (the library's closed form) -/
  yearOf : Int → Int

/-- Days in the first `k` months of year `y`. -/
def ACal.before (c : ACal) (y : Int) : Nat → Int
  | 0 => 0
  | k + 1 => c.before y k + c.dim y (k + 1)

/-- Days in year `y`. -/
def ACal.diy (c : ACal) (y : Int) : Int := c.before y (c.months y)

/-- (year, month, day) → epoch day. -/
def ACal.toDay (c : ACal) (y : Int) (m : Nat) (d : Int) : Int := c.yearStart y + c.before y (m - 1) + (d - 1)

/-- Walk the months: `r` is the 0-based offset left after `k` whole months. -/
def ACal.findMonth (c : ACal) (y : Int) : Nat → Nat → Int → Nat × Int
  | 0, k, r => (k + 1, r + 1)
  | fuel + 1, k, r =>
    if r < c.dim y (k + 1) then (k + 1, r + 1) else c.findMonth y fuel (k + 1) (r - c.dim y (k + 1))

/-- epoch day → (year, month, day). -/
def ACal.ofDay (c : ACal) (n : Int) : Int × Nat × Int :=
  let y := c.yearOf n
  let md := c.findMonth y (c.months y - 1) 0 (n - c.yearStart y)
  (y, md.1, md.2)

def ACal.Valid (c : ACal) (y : Int) (m : Nat) (d : Int) : Prop :=
  1 ≤ m ∧ m ≤ c.months y ∧ 1 ≤ d ∧ d ≤ c.dim y m

instance (c : ACal) (y : Int) (m : Nat) (d : Int) : Decidable (c.Valid y m d) := by
  unfold ACal.Valid; infer_instance

/-- The day after (y, m, d). -/
def ACal.next (c : ACal) (y : Int) (m : Nat) (d : Int) : Int × Nat × Int :=
  if d < c.dim y m then (y, m, d + 1) else if m < c.months y then (y, m + 1, 1) else (y + 1, 1, 1)

/-! ### The day-count calendars -/

/-- Coptic-style year: twelve months of 30 days and 5 (6 when `y mod 4 = 3`) epagomenal days. -/
def copticDim (y : Int) (m : Nat) : Int := if m ≤ 12 then 30 else if y % 4 = 3 then 6 else 5

/-- Coptic 0001-01-01 = Julian 284-08-29 = RD 103605 = epoch day −615558. -/
def COPTIC_EPOCH : Int := -615558
/-- Ethiopic (Amete Mihret) 0001-01-01 = Julian 8-08-29 = RD 2796. -/
def ETHIOPIC_EPOCH : Int := -716367

def copticLike (epoch : Int) : ACal where
  months := fun _ => 13
  dim := copticDim
  yearStart := fun y => epoch + 365 * (y - 1) + y / 4
  yearOf := fun n => (4 * (n - epoch) + 1463) / 1461

def coptic : ACal := copticLike COPTIC_EPOCH
def ethiopic : ACal := copticLike ETHIOPIC_EPOCH

def islamicLeap (y : Int) : Bool := (14 + 11 * y) % 30 < 11

def islamicDim (y : Int) (m : Nat) : Int :=
  if m = 12 then (if islamicLeap y then 30 else 29) else if m % 2 = 1 then 30 else 29

/-- 1 Muharram 1 AH, civil (Friday) epoch = Julian 622-07-16 = RD 227015. -/
def ISLAMIC_CIVIL_EPOCH : Int := -492148
/-- tabular (Thursday) epoch, one day earlier -/
def ISLAMIC_TBLA_EPOCH : Int := -492149

def islamicLike (epoch : Int) : ACal where
  months := fun _ => 12
  dim := islamicDim
  yearStart := fun y => epoch + 354 * (y - 1) + (3 + 11 * y) / 30
  yearOf := fun n => (30 * (n - epoch) + 10646) / 10631

def islamicCivil : ACal := islamicLike ISLAMIC_CIVIL_EPOCH
def islamicTbla : ACal := islamicLike ISLAMIC_TBLA_EPOCH

/-- Indian national (Saka) calendar: year `y` begins on day 81 of the Gregorian year `y + 78`; the first month has
    31 days in a (Gregorian) leap year, the next five have 31, the last six 30. -/
def indianDim (y : Int) (m : Nat) : Int :=
  if m = 1 then (if Greg.isLeap (y + 78) then 31 else 30) else if m ≤ 6 then 31 else 30

def indian : ACal where
  months := fun _ => 12
  dim := indianDim
  yearStart := fun y => Greg.yearStart (y + 78) + 80
  yearOf := fun n =>
    let gy := (NS.ymdFromEpochDays n).1
    if n - Greg.yearStart gy < 80 then gy - 79 else gy - 78

/-- Persian (Solar Hijri) calendar as the library computes it: the 33-year arithmetic rule, corrected by a table of
    years which that rule makes leap although the astronomical calendar does not (the day moves to the next year). -/
def persianTable : List Int :=
  [1502, 1601, 1634, 1667, 1700, 1733, 1766, 1799, 1832, 1865, 1898, 1931, 1964, 1997, 2030, 2059,
   2063, 2096, 2129, 2158, 2162, 2191, 2195, 2224, 2228, 2257, 2261, 2290, 2294, 2323, 2327, 2356,
   2360, 2389, 2393, 2422, 2426, 2455, 2459, 2488, 2492, 2521, 2525, 2554, 2558, 2587, 2591, 2620,
   2624, 2653, 2657, 2686, 2690, 2719, 2723, 2748, 2752, 2756, 2781, 2785, 2789, 2818, 2822, 2847,
   2851, 2855, 2880, 2884, 2888, 2913, 2917, 2921, 2946, 2950, 2954, 2979, 2983, 2987]

def inTable (y : Int) : Bool := persianTable.contains y

/-- the new year of `y` is one day early when the year before is in the table -/
def persianCorr (y : Int) : Int := if inTable (y - 1) then 1 else 0

def persianLeap (y : Int) : Bool :=
  if inTable y then false else if inTable (y - 1) then true else (25 * y + 11) % 33 < 8

def persianDim (y : Int) (m : Nat) : Int :=
  if m ≤ 6 then 31 else if m ≤ 11 then 30 else if persianLeap y then 30 else 29

/-- 1 Farvardin 1 AP by the 33-year rule = Julian 622-03-19 minus one day = RD 226895. -/
def PERSIAN_EPOCH : Int := -492268

def persianStart33 (y : Int) : Int := PERSIAN_EPOCH + 365 * (y - 1) + (8 * y + 21) / 33

def persian : ACal where
  months := fun _ => 12
  dim := persianDim
  yearStart := fun y => persianStart33 y - persianCorr y
  yearOf := fun n =>
    let y0 := 1 + (33 * (n - PERSIAN_EPOCH) + 3) / 12053
    if n - (persianStart33 y0 - persianCorr y0) = 365 ∧ inTable y0 then y0 + 1 else y0

/-! ### Calendar identifiers -/

inductive CalId where
  | iso8601 | buddhist | chinese | coptic | dangi | ethioaa | ethiopic | gregory | hebrew | indian | islamic
  | islamicCivil | islamicTbla | islamicUmalqura | japanese | japanext | persian | roc
  deriving DecidableEq, Repr

def CalId.all : List CalId :=
  [.iso8601, .buddhist, .chinese, .coptic, .dangi, .ethioaa, .ethiopic, .gregory, .hebrew, .indian, .islamic,
   .islamicCivil, .islamicTbla, .islamicUmalqura, .japanese, .japanext, .persian, .roc]

/-- The canonical identifier (`Calendar::identifier`). -/
def CalId.name : CalId → String
  | .iso8601 => "iso8601" | .buddhist => "buddhist" | .chinese => "chinese" | .coptic => "coptic" | .dangi => "dangi"
  | .ethioaa => "ethioaa" | .ethiopic => "ethiopic" | .gregory => "gregory" | .hebrew => "hebrew"
  | .indian => "indian" | .islamic => "islamic" | .islamicCivil => "islamic-civil" | .islamicTbla => "islamic-tbla"
  | .islamicUmalqura => "islamic-umalqura" | .japanese => "japanese" | .japanext => "japanext"
  | .persian => "persian" | .roc => "roc"

/-- The day-count calendar behind an identifier. -/
def CalId.arith : CalId → Option ACal
  | .coptic => some Cal.coptic
  | .ethiopic | .ethioaa => some Cal.ethiopic
  | .indian => some Cal.indian
  | .islamicCivil => some Cal.islamicCivil
  | .islamicTbla => some Cal.islamicTbla
  | .persian => some Cal.persian
  | _ => none

/-- Calendars that are the ISO date under another year numbering. -/
def CalId.isoBased : CalId → Bool
  | .iso8601 | .gregory | .buddhist | .roc | .japanese => true
  | _ => false

def CalId.modelled (c : CalId) : Bool := c.isoBased || c.arith.isSome

/-! ### Japanese eras (the five modern eras are hard-coded in the library) -/

/-- (code, start, start of the next era), oldest first. -/
def japaneseEras : List (String × (Int × Int × Int) × Option (Int × Int × Int)) :=
  [("meiji", (1868, 9, 8), some (1912, 7, 30)), ("taisho", (1912, 7, 30), some (1926, 12, 25)),
   ("showa", (1926, 12, 25), some (1989, 1, 8)), ("heisei", (1989, 1, 8), some (2019, 5, 1)),
   ("reiwa", (2019, 5, 1), none)]

def ymdLe (a b : Int × Int × Int) : Bool :=
  a.1 < b.1 || (a.1 = b.1 && (a.2.1 < b.2.1 || (a.2.1 = b.2.1 && a.2.2 ≤ b.2.2)))

/-- (era, era year) of an ISO date in the `japanese` calendar (the library's hard-coded fast path for the modern
    eras); before Meiji the Gregorian eras are used. -/
def japaneseEraYear (y m d : Int) : String × Int :=
  if ymdLe (2019, 5, 1) (y, m, d) then ("reiwa", y - 2018)
  else if ymdLe (1989, 1, 8) (y, m, d) then ("heisei", y - 1988)
  else if ymdLe (1926, 12, 25) (y, m, d) then ("showa", y - 1925)
  else if ymdLe (1912, 7, 30) (y, m, d) then ("taisho", y - 1911)
  else if ymdLe (1868, 9, 8) (y, m, d) then ("meiji", y - 1867)
  else if y ≤ 0 then ("bce", 1 - y) else ("ce", y)

/-! ### The reported fields -/

structure CalFields where
  era : Option String
  eraYear : Option Int
  year : Int
  month : Int
  monthCode : MonthCode
  day : Int
  dayOfYear : Int
  daysInMonth : Int
  daysInYear : Int
  monthsInYear : Int
  inLeapYear : Bool
  deriving DecidableEq, Repr

def CalFields.render (f : CalFields) : String :=
  s!"{f.era.getD "-"} {optStr toString f.eraYear} {f.year} {f.month} {f.monthCode.render} {f.day} {f.dayOfYear} " ++
  s!"{f.daysInMonth} {f.daysInYear} {f.monthsInYear} {if f.inLeapYear then 1 else 0}"

/-- (era, era year, year) the library reports for its internal year `y` (for `japanese`: of the ISO date). -/
def yearInfo (cal : CalId) (y m d : Int) : Option String × Option Int × Int :=
  match cal with
  | .iso8601 => (none, none, y)
  | .gregory => if y > 0 then (some "gregory", some y, y) else (some "gregory-inverse", some (1 - y), y)
  | .buddhist => (some "buddhist", some (y + 543), y + 543)
  | .roc => if y > 1911 then (some "roc", some (y - 1911), y) else (some "roc-inverse", some (1912 - y), y)
  | .japanese => let e := japaneseEraYear y m d; (some e.1, some e.2, y)
  | .coptic => if y > 0 then (some "coptic", some y, y) else (some "coptic-inverse", some (1 - y), y)
  | .ethiopic => if y > 0 then (some "ethiopic", some y, y) else (some "ethiopic-inverse", some (1 - y), y)
  | .ethioaa => (some "ethioaa", some (y + 5500), y)
  | .indian => (some "saka", some y, y)
  | .islamicCivil => (some "islamic-civil", some y, y)
  | .islamicTbla => (some "islamic-tbla", some y, y)
  | .persian => (some "persian", some y, y)
  | _ => (none, none, y)

def calLeap (cal : CalId) (y : Int) : Bool :=
  match cal with
  | .coptic | .ethiopic | .ethioaa => y % 4 = 3
  | .indian => Greg.isLeap (y + 78)
  | .islamicCivil | .islamicTbla => islamicLeap y
  | .persian => persianLeap y
  | _ => Greg.isLeap y

/-- Fields of a day-count calendar at epoch day `n`. -/
def arithFields (cal : CalId) (c : ACal) (n : Int) : CalFields :=
  let ymd := c.ofDay n
  let y := ymd.1
  let m := ymd.2.1
  let d := ymd.2.2
  let yi := yearInfo cal y m d
  { era := yi.1, eraYear := yi.2.1, year := yi.2.2, month := m, monthCode := ⟨m, false⟩, day := d,
    dayOfYear := c.before y (m - 1) + d, daysInMonth := c.dim y m, daysInYear := c.diy y,
    monthsInYear := c.months y, inLeapYear := calLeap cal y }

/-- Fields of an ISO-based calendar. -/
def isoFields (cal : CalId) (y m d : Int) : CalFields :=
  let yi := yearInfo cal y m d
  { era := yi.1, eraYear := yi.2.1, year := yi.2.2, month := m, monthCode := ⟨m.toNat, false⟩, day := d,
    dayOfYear := Greg.dayOfYear y m d, daysInMonth := Greg.dim y m, daysInYear := Greg.diy y, monthsInYear := 12,
    inLeapYear := Greg.isLeap y }

/-- **The calendar fields of an ISO date** (none: the calendar is not modelled). -/
def fields (cal : CalId) (iso : IsoDate) : Option CalFields :=
  if cal.isoBased then some (isoFields cal iso.year iso.month iso.day)
  else match cal.arith with
    | some c => some (arithFields cal c (Greg.dayNumber iso.year iso.month iso.day))
    | none => none

/-! ### `Calendar::date_from_codes` of the library → ISO date (none = any DateError, surfaced as a RangeError) -/

/-- `Date::try_new_iso` / `ArithmeticDate::<Iso>::new_from_codes`: month 1..12, day 1..days-in-month. -/
def tryNewIso (y : Int) (m : Nat) (d : Int) : Option IsoDate :=
  if 1 ≤ m ∧ m ≤ 12 ∧ 1 ≤ d ∧ d ≤ Greg.dim y m then some ⟨y, m, d⟩ else none

/-- ISO date of an epoch day in a window a year wider than Temporal's limits: date constructors refuse everything
    outside the limits, a year-month is limited by its month only, so the first day of its calendar month may lie
    a few days before the first representable day (beyond the window every constructor refuses anyway). -/
def isoOfDay (n : Int) : Option IsoDate :=
  if -(MAX_EPOCH_DAYS + 400) ≤ n ∧ n ≤ MAX_EPOCH_DAYS + 400 then
    let r := NS.ymdFromEpochDays n
    some ⟨r.1, r.2.1, r.2.2⟩
  else none

/-- `ArithmeticDate::new_from_codes` + `date_to_iso` for a day-count calendar. -/
def arithFromCodes (c : ACal) (y : Int) (code : MonthCode) (d : Int) : Option IsoDate :=
  if code.leap ∨ code.num > c.months y then none
  else if d ≤ 0 ∨ d > c.dim y code.num then none
  else isoOfDay (c.toDay y code.num d)

def japaneseFromCodes (era : Option String) (year : Int) (code : MonthCode) (d : Int) : Option IsoDate :=
  let era := era.getD "japanese"
  if code.leap ∨ code.num > 12 then none
  else if era = "bce" ∨ era = "japanese-inverse" then (if year ≤ 0 then none else tryNewIso (1 - year) code.num d)
  else if era = "ce" ∨ era = "japanese" then (if year ≤ 0 then none else tryNewIso year code.num d)
  else match japaneseEras.find? (fun e => e.1 = era) with
    | none => none
    | some (_, start, next) =>
      let iso : Int × Int × Int := (start.1 + year - 1, code.num, d)
      if ¬ ymdLe start iso then none
      else if (match next with | some nx => ymdLe nx iso | none => false) then none
      else tryNewIso iso.1 code.num d

/-- **`AnyCalendar::date_from_codes(era, year, month code, day)` then `date_to_iso`**, per calendar, with exactly
    the era codes that calendar accepts. -/
def fromCodes (cal : CalId) (era : Option String) (year : Int) (code : MonthCode) (d : Int) : Option IsoDate :=
  match cal with
  | .gregory =>
    (if era = none then some year
     else if era = some "ce" then (if year ≤ 0 then none else some year)
     else if era = some "bce" then (if year ≤ 0 then none else some (1 - year))
     else none).bind (fun y => if code.leap then none else tryNewIso y code.num d)
  | .buddhist =>
    if era = none ∨ era = some "be" then (if code.leap then none else tryNewIso (year - 543) code.num d) else none
  | .roc =>
    (if era = none then some year
     else if era = some "roc" then (if year ≤ 0 then none else some (year + 1911))
     else if era = some "roc-inverse" then (if year ≤ 0 then none else some (1 - year + 1911))
     else none).bind (fun y => if code.leap then none else tryNewIso y code.num d)
  | .japanese => japaneseFromCodes era year code d
  | .coptic =>
    (if era = none then some year
     else if era = some "ad" ∨ era = some "coptic" then (if year ≤ 0 then none else some year)
     else if era = some "bd" ∨ era = some "coptic-inverse" then (if year ≤ 0 then none else some (1 - year))
     else none).bind (fun y => arithFromCodes Cal.coptic y code d)
  | .ethiopic | .ethioaa =>
    (if era = none then some year
     else if era = some "incar" ∨ era = some "ethiopic" then (if year ≤ 0 then none else some year)
     else if era = some "pre-incar" ∨ era = some "ethiopic-inverse" then (if year ≤ 0 then none else some (1 - year))
     else if era = some "mundi" ∨ era = some "ethioaa" then some (year - 5500)
     else none).bind (fun y => arithFromCodes Cal.ethiopic y code d)
  | .indian =>
    if era = none ∨ era = some "saka" ∨ era = some "indian" then arithFromCodes Cal.indian year code d else none
  | .islamicCivil =>
    if era = none ∨ era = some "islamic-civil" ∨ era = some "islamicc" ∨ era = some "islamic" ∨ era = some "ah"
    then arithFromCodes Cal.islamicCivil year code d else none
  | .islamicTbla =>
    if era = none ∨ era = some "islamic-tbla" ∨ era = some "islamic" ∨ era = some "ah"
    then arithFromCodes Cal.islamicTbla year code d else none
  | .persian =>
    if era = none ∨ era = some "ah" ∨ era = some "persian" then arithFromCodes Cal.persian year code d else none
  | _ => none

end Cal
end TemporalModel
