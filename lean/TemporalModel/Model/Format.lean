/-
  Model/Format.lean — the writers of src/parsers.rs (Formattable*), as coded after the `fix:` commits, on lists of
  characters, and the readers of the canonical forms they produce (used to state the round trip, C11).
-/
import TemporalModel.Model.Options
import TemporalModel.Model.IsoDate
import TemporalModel.Model.Duration
namespace TemporalModel
namespace Fmt

def digitChar (d : Nat) : Char := Char.ofNat (48 + d % 10)

/-- `w` decimal digits of `n`, most significant first (zero padded; higher digits are dropped). -/
def digits (n : Nat) : Nat → List Char
  | 0 => []
  | w + 1 => digits (n / 10) w ++ [digitChar n]

/-- Decimal digits without padding (`n.write_to`). -/
def natStr (n : Nat) : List Char := (toString n).toList

def charVal (c : Char) : Nat := c.toNat - 48
def isDigit (c : Char) : Bool := 48 ≤ c.toNat ∧ c.toNat ≤ 57

/-- Read a run of digits as a number. -/
def readNat (cs : List Char) : Nat := cs.foldl (fun acc c => acc * 10 + charVal c) 0

/-- `write_year`: four digits for 0..9999, otherwise a sign and six digits. -/
def year (y : Int) : List Char :=
  if 0 ≤ y ∧ y ≤ 9999 then digits y.toNat 4
  else (if y < 0 then '-' else '+') :: digits y.natAbs 6

/-- `FormattableDate` -/
def date (d : IsoDate) : List Char :=
  year d.year ++ ['-'] ++ digits d.month.toNat 2 ++ ['-'] ++ digits d.day.toNat 2

/-- Number of significant fractional digits of `ns` < 10^9 (`u32_to_digits`' second result). -/
def sigDigits (ns : Nat) : Nat :=
  if ns % 1000000000 = 0 then 0
  else if ns % 100000000 = 0 then 1 else if ns % 10000000 = 0 then 2 else if ns % 1000000 = 0 then 3
  else if ns % 100000 = 0 then 4 else if ns % 10000 = 0 then 5 else if ns % 1000 = 0 then 6
  else if ns % 100 = 0 then 7 else if ns % 10 = 0 then 8 else 9

/-- `write_nanosecond`: the first `k` of the nine fractional digits (k = requested digits, or the minimal number). -/
def fraction (ns : Nat) (p : Precision) : List Char :=
  let k := match p with
    | .digit d => if d ≤ 9 then d else sigDigits ns
    | _ => sigDigits ns
  (digits ns 9).take k

/-- `FormattableTime` with separators. `ns` is the sub-second part in nanoseconds. -/
def timeOf (h mi s : Int) (ns : Nat) (p : Precision) : List Char :=
  let hm := digits h.toNat 2 ++ [':'] ++ digits mi.toNat 2
  match p with
  | .minute => hm
  | _ =>
    let hms := hm ++ [':'] ++ digits s.toNat 2
    if (ns = 0 ∧ p = .auto) ∨ p = .digit 0 then hms else hms ++ ['.'] ++ fraction ns p

def subNs (t : IsoTime) : Nat := (t.millisecond * 1000000 + t.microsecond * 1000 + t.nanosecond).toNat

/-- `IxdtfStringBuilder::with_time` -/
def time (t : IsoTime) (p : Precision) : List Char := timeOf t.hour t.minute t.second (subNs t) p

/-- `with_minute_offset`: ±HH:MM -/
def offsetMinutes (minutes : Int) : List Char :=
  (if minutes < 0 then '-' else '+') :: (digits (minutes.natAbs / 60) 2 ++ [':'] ++ digits (minutes.natAbs % 60) 2)

/-- `nanoseconds_to_formattable_offset_minutes`: the offset rounded half-expand to whole minutes. -/
def offsetNsToMinutes (ns : Int) : Int := Int.tdiv (RoundI128.round ns 60000000000 .halfExpand) 60000000000

inductive ShowCal where | auto | always | never | critical
  deriving DecidableEq, Repr

/-- `FormattableCalendar` -/
def calendar (cal : String) (s : ShowCal) : List Char :=
  if s = .never ∨ (s = .auto ∧ cal = "iso8601") then []
  else ['['] ++ (if s = .critical then ['!'] else []) ++ "u-ca=".toList ++ cal.toList ++ [']']

/-- `PlainDate::to_ixdtf_string` -/
def plainDate (d : IsoDate) (cal : String) (s : ShowCal) : List Char := date d ++ calendar cal s

/-- date 'T' time calendar -/
def plainDateTime (dt : IsoDateTime) (p : Precision) (cal : String) (s : ShowCal) : List Char :=
  date dt.date ++ ['T'] ++ time dt.time p ++ calendar cal s

/-- `FormattableYearMonth`: the reference day is shown only with a calendar annotation or a non-ISO calendar. -/
def yearMonth (d : IsoDate) (cal : String) (s : ShowCal) : List Char :=
  year d.year ++ ['-'] ++ digits d.month.toNat 2 ++
    (if s = .always ∨ s = .critical ∨ cal ≠ "iso8601" then ['-'] ++ digits d.day.toNat 2 else []) ++ calendar cal s

/-- `FormattableMonthDay`: the reference year likewise. -/
def monthDay (d : IsoDate) (cal : String) (s : ShowCal) : List Char :=
  (if s = .always ∨ s = .critical ∨ cal ≠ "iso8601" then year d.year ++ ['-'] else []) ++
    digits d.month.toNat 2 ++ ['-'] ++ digits d.day.toNat 2 ++ calendar cal s

/-- `FormattableDuration` (the `Seconds` variant, which is the only one `duration_to_formattable` builds).
    `d` must already be the absolute value; `neg` its sign. -/
def duration (neg : Bool) (years months weeks days hours minutes seconds : Nat) (ns : Nat) (p : Precision) :
    List Char :=
  let hasDate := years + months + weeks + days ≠ 0
  let unit (v : Nat) (c : Char) : List Char := if v = 0 then [] else natStr v ++ [c]
  let datePart := if hasDate then unit years 'Y' ++ unit months 'M' ++ unit weeks 'W' ++ unit days 'D' else []
  let belowMinute : Bool := decide (¬ hasDate ∧ hours = 0 ∧ minutes = 0)
  let isDigitPrec := match p with | .digit _ => true | _ => false
  let writeSecond : Bool := decide (seconds ≠ 0) || decide (ns ≠ 0) || belowMinute || isDigitPrec
  let timePart :=
    (if hours ≠ 0 ∨ minutes ≠ 0 ∨ writeSecond then ['T'] else []) ++ unit hours 'H' ++ unit minutes 'M' ++
    (if writeSecond then
        natStr seconds ++ (if p = .digit 0 ∨ (p = .auto ∧ ns = 0) then ['S'] else ['.'] ++ fraction ns p ++ ['S'])
      else [])
  (if neg then ['-'] else []) ++ ['P'] ++ datePart ++ timePart

/-- `duration_to_formattable` + `Display`: sub-second fields are folded into seconds. -/
def durationOf (d : Dur) (p : Precision) : List Char :=
  let a := d.abs
  let sub := a.seconds * 1000000000 + a.milliseconds * 1000000 + a.microseconds * 1000 + a.nanoseconds
  duration (d.sign < 0) a.years.toNat a.months.toNat a.weeks.toNat a.days.toNat a.hours.toNat a.minutes.toNat
    (sub / 1000000000).toNat (sub % 1000000000).toNat p

/-! ### Readers of the canonical forms -/

/-- Split off exactly `n` digit characters. -/
def takeDigits (n : Nat) (cs : List Char) : Option (Nat × List Char) :=
  if cs.length ≥ n ∧ (cs.take n).all isDigit then some (readNat (cs.take n), cs.drop n) else none

/-- Canonical year: `YYYY` or `±YYYYYY`. -/
def readYear (cs : List Char) : Option (Int × List Char) :=
  match cs with
  | '+' :: r => (takeDigits 6 r).map (fun p => ((p.1 : Int), p.2))
  | '-' :: r => (takeDigits 6 r).map (fun p => (-(p.1 : Int), p.2))
  | r => (takeDigits 4 r).map (fun p => ((p.1 : Int), p.2))

/-- Canonical date `Y-MM-DD`. -/
def readDate (cs : List Char) : Option (IsoDate × List Char) := do
  let (y, cs) ← readYear cs
  match cs with
  | '-' :: cs => do
    let (m, cs) ← takeDigits 2 cs
    match cs with
    | '-' :: cs => do
      let (d, cs) ← takeDigits 2 cs
      pure (⟨y, m, d⟩, cs)
    | _ => none
  | _ => none

end Fmt
end TemporalModel
