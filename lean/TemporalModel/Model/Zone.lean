/-
  Model/Zone.lean — time zones: the semantics of a zone's rule set (what a provider must answer) and the core's
  wall-clock ↔ instant logic on top of it (src/builtins/core/timezone.rs, zoneddatetime.rs), as coded after the
  `fix:` commits.

  A zone is an initial offset and a list of transitions (instant in epoch seconds, new offset in seconds), instants
  strictly increasing.  Fixed-offset zones carry whole minutes.
-/
import TemporalModel.Model.Relative
namespace TemporalModel

structure Zone where
  initial : Int
  trans : List (Int × Int)
  deriving Repr, DecidableEq

namespace Zone

/-- Offset (seconds) in force at epoch second `t` and the transition that started it, if any. -/
def lookup (z : Zone) (t : Int) : Int × Option Int :=
  z.trans.foldl (fun acc tr => if tr.1 ≤ t then (tr.2, some tr.1) else acc) (z.initial, none)

def offsetAt (z : Zone) (t : Int) : Int := (z.lookup t).1

/-- All offsets the zone ever uses. -/
def offsets (z : Zone) : List Int := (z.initial :: z.trans.map (·.2)).eraseDups

/-- The instants (epoch nanoseconds) whose wall-clock reading in the zone is the given local reading
    (`local` = nanoseconds of the date-time read as UTC), ascending. -/
def possible (z : Zone) (localNs : Int) : List Int :=
  let cands := z.offsets.filterMap (fun o =>
    let t := localNs - o * 1000000000
    if z.offsetAt (t / 1000000000) = o then some t else none)
  cands.mergeSort (· ≤ ·)

end Zone

/-- `TimeZone` -/
inductive TZ where
  | offset (minutes : Int)
  | named (z : Zone)
  deriving Repr

inductive Disamb where | compatible | earlier | later | reject
  deriving DecidableEq, Repr
inductive OffsetOpt where | use | prefer | ignore | reject
  deriving DecidableEq, Repr

namespace TZ

/-- `TimeZone::get_offset_nanos_for` -/
def offsetNanosFor (tz : TZ) (ns : Int) : Int :=
  match tz with
  | .offset m => m * 60000000000
  | .named z => z.offsetAt (ns / 1000000000) * 1000000000

/-- `TimeZone::get_iso_datetime_for(instant)` -/
def isoDateTimeFor (tz : TZ) (ns : Int) : Out IsoDateTime :=
  IsoDateTime.fromEpochNanos ns (tz.offsetNanosFor ns)

/-- `IsoDate::is_valid_day_range` -/
def validDayRange (d : IsoDate) : Out Unit :=
  if (d.toEpochDays.natAbs : Int) > 100000000 then .err .range else .ok ()

/-- `EpochNanoseconds::try_from` -/
def epochNs (x : Int) : Out Int := if isValidEpochNanos x then .ok x else .err .range

/-- `TimeZone::get_possible_epoch_ns_for(iso)` -/
def possibleFor (tz : TZ) (iso : IsoDateTime) : Out (List Int) :=
  match tz with
  | .offset m => do
    let b := IsoDateTime.balance iso.date.year iso.date.month iso.date.day iso.time.hour (iso.time.minute - m)
      iso.time.second iso.time.millisecond iso.time.microsecond iso.time.nanosecond
    validDayRange b.date
    let e ← b.asNanoseconds
    pure [e]
  | .named z => do
    validDayRange iso.date
    -- the provider (synthetic or tzdb) answers per the zone's rules; its results are checked epoch nanoseconds
    let localNs := toUncheckedEpochNanoseconds iso.date iso.time
    (z.possible localNs).foldr (fun t acc => do let xs ← acc; let e ← epochNs t; pure (e :: xs)) (pure [])

/-- `TimeZone::disambiguate_possible_epoch_nanos` (after the fix: probes one day before / after). -/
def disambiguate (tz : TZ) (nanos : List Int) (iso : IsoDateTime) (d : Disamb) : Out Int :=
  match nanos with
  | [x] => .ok x
  | x :: _ :: _ =>
    match d with
    | .compatible | .earlier => .ok x
    | .later => .ok (nanos.getLast?.getD x)
    | .reject => .err .range
  | [] =>
    if d = .reject then .err .range else do
    let utc := toUncheckedEpochNanoseconds iso.date iso.time
    let before := tz.offsetNanosFor (utc - NS_PER_DAY)
    let after := tz.offsetNanosFor (utc + NS_PER_DAY)
    let nanoseconds := after - before
    let shift := if d = .earlier then -nanoseconds else nanoseconds
    let (days, time) := timeAddNorm iso.time shift
    let date := IsoDate.balance iso.date.year iso.date.month (iso.date.day + days)
    let possible ← tz.possibleFor ⟨date, time⟩
    if d = .earlier then
      match possible.head? with | some x => .ok x | none => .err .range
    else
      match possible.getLast? with | some x => .ok x | none => .err .range

/-- `TimeZone::get_epoch_nanoseconds_for(iso, disambiguation)` -/
def epochNsFor (tz : TZ) (iso : IsoDateTime) (d : Disamb) : Out Int := do
  let p ← tz.possibleFor iso
  tz.disambiguate p iso d

/-- `TimeZone::get_start_of_day(date)` (after the fix: the transition is read one day later). -/
def startOfDay (tz : TZ) (date : IsoDate) : Out Int := do
  let iso : IsoDateTime := ⟨date, IsoTime.midnight⟩
  let p ← tz.possibleFor iso
  match p.head? with
  | some x => pure x
  | none =>
    match tz with
    | .offset _ => .panic   -- debug_assert!(false) in the code; unreachable: an offset zone has one instant
    | .named z =>
      let utc := toUncheckedEpochNanoseconds date IsoTime.midnight
      match (z.lookup ((utc + NS_PER_DAY) / 1000000000)).2 with
      | some t => epochNs (t * 1000000000)
      | none => .err .type

end TZ

/-- `interpret_isodatetime_offset(date, time, is_exact, offset_nanos, tz, disambiguation, offset_option,
    match_minutes = true)`. -/
def interpretOffset (date : IsoDate) (time : Option IsoTime) (isExact : Bool) (offsetNs : Option Int) (tz : TZ)
    (d : Disamb) (oo : OffsetOpt) : Out Int :=
  match time with
  | none => if offsetNs.isSome then .err .assert else tz.startOfDay date
  | some time =>
    let exact : Option Int := if isExact then some (offsetNs.getD 0) else if oo = .use then offsetNs else none
    match exact, offsetNs with
    | some off, _ => do
      let b := IsoDateTime.balance date.year date.month date.day time.hour time.minute time.second time.millisecond
        time.microsecond (time.nanosecond - off)
      TZ.validDayRange b.date
      b.asNanoseconds
    | none, some off =>
      if oo = .prefer ∨ oo = .reject then do
        TZ.validDayRange date
        let iso : IsoDateTime := ⟨date, time⟩
        let utc ← iso.asNanoseconds
        let possible ← tz.possibleFor iso
        match possible.find? (fun c =>
            utc - c = off ∨ RoundI128.round (utc - c) 60000000000 .halfExpand = off) with
        | some c => pure c
        | none => if oo = .reject then .err .range else tz.disambiguate possible iso d
      else tz.epochNsFor ⟨date, time⟩ d
    | none, none => tz.epochNsFor ⟨date, time⟩ d

/-- `interpret_isodatetime_offset(.., match_minutes = false, ..)` with a time record: the route of a record of fields
    (`ZonedDateTime::from_partial`), whose offset is matched exactly. Tied by correspondence (`tz_partial`). -/
def interpretOffsetExact (date : IsoDate) (time : IsoTime) (offsetNs : Option Int) (tz : TZ)
    (d : Disamb) (oo : OffsetOpt) : Out Int :=
  let exact : Option Int := if oo = .use then offsetNs else none
  match exact, offsetNs with
  | some off, _ => do
    let b := IsoDateTime.balance date.year date.month date.day time.hour time.minute time.second time.millisecond
      time.microsecond (time.nanosecond - off)
    TZ.validDayRange b.date
    b.asNanoseconds
  | none, some off =>
    if oo = .prefer ∨ oo = .reject then do
      TZ.validDayRange date
      let iso : IsoDateTime := ⟨date, time⟩
      let utc ← iso.asNanoseconds
      let possible ← tz.possibleFor iso
      match possible.find? (fun c => utc - c = off) with
      | some c => pure c
      | none => if oo = .reject then .err .range else tz.disambiguate possible iso d
    else tz.epochNsFor ⟨date, time⟩ d
  | none, none => tz.epochNsFor ⟨date, time⟩ d

/-! ### ZonedDateTime operations (C14) -/

/-- `Instant::add_to_instant(time_duration)` -/
def addToInstant (ns : Int) (du : Dur) : Out Int := TZ.epochNs (ns + du.timeNs)

/-- `ZonedDateTime::add_as_instant(duration, overflow)` → epoch nanoseconds. -/
def zdtAdd (tz : TZ) (ns : Int) (du : Dur) (ov : Overflow) : Out Int :=
  if (dateDur du.years du.months du.weeks du.days).sign = 0 then addToInstant ns du else do
    let iso ← tz.isoDateTimeFor ns
    let added ← plainDateAdd iso.date (dateDur du.years du.months du.weeks du.days) ov   -- the date part only
    let inter : IsoDateTime := ⟨added, iso.time⟩
    if !(isoDtWithinValidLimits inter.date inter.time) then .err .range else do
    let ins ← tz.epochNsFor inter .compatible
    addToInstant ins du

/-- `NormalizedTimeDuration::from_nanosecond_difference` -/
def nsDifference (a b : Int) : Out Int := normChecked (a - b)

/-- The day-correction loop of `diff_zoned_datetime` (at most three rounds; fuel exhaustion would be a panic). -/
def dayCorrectionLoop (tz : TZ) (start end_ : IsoDateTime) (ns2 sign : Int) (maxCorr : Int) :
    Nat → Int → Out (IsoDateTime × Int)
  | 0, _ => .panic
  | fuel + 1, corr => do
    let inter := IsoDate.balance end_.date.year end_.date.month (end_.date.day - corr * sign)
    let idt : IsoDateTime := ⟨inter, start.time⟩
    let ins ← tz.epochNsFor idt .compatible
    let td ← nsDifference ns2 ins
    if sign ≠ -(intSign td) ∨ corr + 1 > maxCorr then pure (idt, td)
    else dayCorrectionLoop tz start end_ ns2 sign maxCorr fuel (corr + 1)

/-- `ZonedDateTime::diff_zoned_datetime(other, largest_unit)` → (date part, time part). -/
def zdtDiffZoned (tz : TZ) (ns1 ns2 : Int) (largest : TUnit) : Out (Dur × Int) :=
  if ns1 = ns2 then .ok (Dur.zero, 0) else do
    let start ← tz.isoDateTimeFor ns1
    let end_ ← tz.isoDateTimeFor ns2
    let sign : Int := if ns2 - ns1 < 0 then -1 else 1
    let maxCorr : Int := if sign = 1 then 2 else 1
    let timeSign := intSign (timeDiffNs start.time end_.time)
    let corr0 : Int := if timeSign = -sign then 1 else 0
    let (idt, td) ← dayCorrectionLoop tz start end_ ns2 sign maxCorr 4 corr0
    let dateLargest := largest.max .day
    let sd ← plainDateTryNew start.date.year start.date.month start.date.day
    let ed ← plainDateTryNew idt.date.year idt.date.month idt.date.day
    let dd ← plainDateInternalDiff sd ed dateLargest
    let date := dateDur dd.years dd.months dd.weeks dd.days
    if date.sign ≠ 0 ∧ td ≠ 0 ∧ ((date.sign < 0) ≠ (td < 0)) then .err .range else pure (date, td)

/-- The time-largest-unit branch of `diff_internal_with_provider`: `DifferenceInstant`, then balancing. -/
def zdtDiffTime (since : Bool) (ns1 ns2 : Int) (o : Resolved) : Out Dur := do
  let diff ← nsDifference ns2 ns1
  let (_, r) ← normRound diff 0 o
  let res ← durFromNormalized Dur.zero r o.largest
  pure (if since then res.negated else res)

/-- `ZonedDateTime::until / since` for the no-rounding case (smallest unit nanosecond, increment 1) and for time
    largest units with rounding. `none` = the zoned rounding path (not modelled). -/
def zdtDiff (since : Bool) (tz : TZ) (ns1 ns2 : Int) (raw : RawOptions) : Option (Out Dur) :=
  match fromDiffSettings raw since .dateTime .hour .nanosecond with
  | .err k => some (.err k)
  | .panic => some .panic
  | .ok o =>
    if o.largest.isTimeUnit then some (zdtDiffTime since ns1 ns2 o)
    else if ns1 = ns2 then some (.ok Dur.zero)
    else if ¬ (o.smallest = .nanosecond ∧ o.increment = 1) then none
    else some (do
      let (date, td) ← zdtDiffZoned tz ns1 ns2 o.largest
      let res ← durFromNormalized date td .hour
      pure (if since then res.negated else res))

/-- `ZonedDateTime::start_of_day` → epoch nanoseconds. -/
def zdtStartOfDay (tz : TZ) (ns : Int) : Out Int := do
  let iso ← tz.isoDateTimeFor ns
  let e ← tz.startOfDay iso.date
  TZ.epochNs e

/-- `ZonedDateTime::hours_in_day` (after the fix) — whole hours, truncated, as a `u8`. -/
def zdtHoursInDay (tz : TZ) (ns : Int) : Out Int := do
  let iso ← tz.isoDateTimeFor ns
  let today := iso.date
  let tomorrow := IsoDate.balance today.year today.month (today.day + 1)
  let t0 ← tz.startOfDay today
  let t1 ← tz.startOfDay tomorrow
  let diff ← nsDifference t1 t0
  pure ((Int.tdiv diff 3600000000000) % 256)

/-- `ZonedDateTime::with_plain_time` → epoch nanoseconds. -/
def zdtWithPlainTime (tz : TZ) (ns : Int) (t : IsoTime) : Out Int := do
  let iso ← tz.isoDateTimeFor ns
  tz.epochNsFor ⟨iso.date, t⟩ .compatible

end TemporalModel
