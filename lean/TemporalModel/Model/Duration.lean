/-
  Model/Duration.lean — `Duration` with integral-double fields (src/builtins/core/duration.rs,
  duration/time.rs, duration/normalized.rs) — the reference-date-free part (C06, C09).
-/
import TemporalModel.Model.F64
import TemporalModel.Model.Round
import TemporalModel.Model.Options
namespace TemporalModel

/-- The ten fields; every field is an integral double, represented by its exact value. -/
structure Dur where
  years : Int
  months : Int
  weeks : Int
  days : Int
  hours : Int
  minutes : Int
  seconds : Int
  milliseconds : Int
  microseconds : Int
  nanoseconds : Int
  deriving DecidableEq, Repr, Inhabited

namespace Dur

def zero : Dur := ⟨0, 0, 0, 0, 0, 0, 0, 0, 0, 0⟩

def fields (d : Dur) : List Int :=
  [d.years, d.months, d.weeks, d.days, d.hours, d.minutes, d.seconds, d.milliseconds, d.microseconds, d.nanoseconds]

def render (d : Dur) : String := " ".intercalate (d.fields.map toString)

/-- `duration_sign`: sign of the first non-zero field. -/
def signOf : List Int → Int
  | [] => 0
  | v :: vs => if v < 0 then -1 else if v > 0 then 1 else signOf vs

def sign (d : Dur) : Int := signOf d.fields

def TWO_POWER_FIFTY_THREE : Int := 9007199254740992
def MAX_TIME_DURATION : Int := 9007199254740991999999999

/-- Total of the day and time fields in nanoseconds, a day counting 24 h (exact). -/
def timeNs (d : Dur) : Int :=
  d.hours * 3600000000000 + d.minutes * 60000000000 + d.seconds * 1000000000 +
    d.milliseconds * 1000000 + d.microseconds * 1000 + d.nanoseconds

def totalNs (d : Dur) : Int := d.days * 86400000000000 + d.timeNs

/-- `is_valid_duration` (as coded after the two `fix:` commits: bound 2^32 for years/months/weeks; exact
    total below 2^53 s computed in nanoseconds, each field's contribution first checked against 2^53·10^9). -/
def isValidFields (f : List Int) (d : Dur) : Bool :=
  let s := signOf f
  let signsOk := f.all (fun v => !(v < 0 && s = 1) && !(v > 0 && s = -1))
  let maxField : Int := TWO_POWER_FIFTY_THREE * 1000000000
  signsOk &&
  decide (d.years.natAbs < 4294967296) && decide (d.months.natAbs < 4294967296) &&
  decide (d.weeks.natAbs < 4294967296) &&
  [d.days * 86400000000000, d.hours * 3600000000000, d.minutes * 60000000000, d.seconds * 1000000000,
   d.milliseconds * 1000000, d.microseconds * 1000, d.nanoseconds].all
    (fun v => decide ((v.natAbs : Int) < maxField)) &&
  decide ((d.totalNs.natAbs : Int) < maxField)

def isValid (d : Dur) : Bool := isValidFields d.fields d

/-- `Duration::new` -/
def new (d : Dur) : Out Dur := if d.isValid then .ok d else .err .range

def negated (d : Dur) : Dur :=
  ⟨-d.years, -d.months, -d.weeks, -d.days, -d.hours, -d.minutes, -d.seconds, -d.milliseconds,
   -d.microseconds, -d.nanoseconds⟩

def abs (d : Dur) : Dur :=
  ⟨d.years.natAbs, d.months.natAbs, d.weeks.natAbs, d.days.natAbs, d.hours.natAbs, d.minutes.natAbs,
   d.seconds.natAbs, d.milliseconds.natAbs, d.microseconds.natAbs, d.nanoseconds.natAbs⟩

/-- `default_largest_unit`: unit of the first non-zero field, `Nanosecond` if none. -/
def defaultLargestUnit (d : Dur) : TUnit :=
  if d.years ≠ 0 then .year else if d.months ≠ 0 then .month else if d.weeks ≠ 0 then .week
  else if d.days ≠ 0 then .day else if d.hours ≠ 0 then .hour else if d.minutes ≠ 0 then .minute
  else if d.seconds ≠ 0 then .second else if d.milliseconds ≠ 0 then .millisecond
  else if d.microseconds ≠ 0 then .microsecond else .nanosecond

def isTimeDuration (d : Dur) : Bool := d.years = 0 && d.months = 0 && d.weeks = 0 && d.days = 0

end Dur

/-- The cascade of `div_rem_euclid` steps of `TimeDuration::from_normalized` on |norm|:
    depth 6 = up to days, 5 = hours, 4 = minutes, 3 = seconds, 2 = ms, 1 = µs, 0 = nanoseconds only. -/
def splitNs (ns : Int) (depth : Nat) : Dur :=
  let (us, n0) := if depth ≥ 1 then (ns / 1000, ns % 1000) else (0, ns)
  let (ms, us) := if depth ≥ 2 then (us / 1000, us % 1000) else (0, us)
  let (s, ms) := if depth ≥ 3 then (ms / 1000, ms % 1000) else (0, ms)
  let (mi, s) := if depth ≥ 4 then (s / 60, s % 60) else (0, s)
  let (h, mi) := if depth ≥ 5 then (mi / 60, mi % 60) else (0, mi)
  let (d, h) := if depth ≥ 6 then (h / 24, h % 24) else (0, h)
  ⟨0, 0, 0, d, h, mi, s, ms, us, n0⟩

def balanceDepth : TUnit → Option Nat
  | .year | .month | .week | .day => some 6
  | .hour => some 5 | .minute => some 4 | .second => some 3 | .millisecond => some 2
  | .microsecond => some 1 | .nanosecond => some 0
  | .auto => none

/-- Apply `f64::from_i128(x).copysign(sign)` to every field. -/
def Dur.signedF64 (sign : Int) (r : Dur) : Dur :=
  let f (x : Int) : Int := sign * F64.ofInt x
  ⟨0, 0, 0, f r.days, f r.hours, f r.minutes, f r.seconds, f r.milliseconds, f r.microseconds, f r.nanoseconds⟩

/-- `TimeDuration::from_normalized(norm, largest_unit)` → (days, hours … nanoseconds), each field converted
    with `f64::from_i128` (nearest double), then re-validated. -/
def timeFromNormalized (norm : Int) (largest : TUnit) : Out Dur :=
  let sign : Int := if norm < 0 then -1 else if norm > 0 then 1 else 0
  match balanceDepth largest with
  | none => .err .assert
  | some depth =>
    let r := (splitNs norm.natAbs depth).signedF64 sign
    if r.isValid then .ok r else .err .range

/-- checked add on normalized time durations (`abs > MAX_TIME_DURATION` ⇒ RangeError). -/
def normChecked (x : Int) : Out Int :=
  if (x.natAbs : Int) > Dur.MAX_TIME_DURATION then .err .range else .ok x

/-- `Duration::add` -/
def Dur.add (a b : Dur) : Out Dur := do
  let largest := a.defaultLargestUnit.max b.defaultLargestUnit
  if largest.isCalendarUnit then .err .range else do
  let n ← normChecked (a.timeNs + b.timeNs)
  let days := F64.toI64Sat (F64.ofInt (a.days + b.days))
  let r ← normChecked (n + days * 86400000000000)
  timeFromNormalized r largest

def Dur.subtract (a b : Dur) : Out Dur := a.add b.negated

/-- `Duration::compare_with_provider(other, None, _)` → -1/0/1 -/
def Dur.compareNoRel (a b : Dur) : Out Int :=
  if a = b then .ok 0 else
  let l1 := a.defaultLargestUnit
  let l2 := b.defaultLargestUnit
  if l1.isCalendarUnit ∨ l2.isCalendarUnit then .err .range else do
  let t1 ← normChecked (a.timeNs + a.days * 86400000000000)
  let t2 ← normChecked (b.timeNs + b.days * 86400000000000)
  pure (if t1 < t2 then -1 else if t1 > t2 then 1 else 0)

end TemporalModel

namespace TemporalModel

/-- The exact quantity `NormalizedTimeDuration::round` works on for `smallest = day`:
    `days + as_fractional_days` — modelled on exact rationals as total nanoseconds over 86400e9. -/
def roundDaysExact (totalNs : Int) (inc : Int) (mode : RMode) : Int :=
  Int.tdiv (RoundI128.round totalNs (inc * 86400000000000) mode) 86400000000000

/-- `NormalizedTimeDuration::round(days, options)` → (days, rounded time norm). -/
def normRound (norm : Int) (days : Int) (o : Resolved) : Out (Int × Int) :=
  match o.smallest with
  | .day =>
    -- f64 instantiation of the rounder, modelled exactly (see DESIGN §C07 on the float region)
    let d := roundDaysExact (days * 86400000000000 + norm) o.increment o.mode
    .ok (d, 0)
  | .hour | .minute | .second | .millisecond | .microsecond | .nanosecond =>
    match o.smallest.asNanoseconds with
    | some div => do
      let r ← normChecked (RoundI128.round norm (div * o.increment) o.mode)
      -- NormalizedDurationRecord::new: signs of date part and time part must agree
      if days ≠ 0 ∧ r ≠ 0 ∧ ((days < 0) ≠ (r < 0)) then .err .range else pure (days, r)
    | none => .err .assert
  | _ => .err .assert

/-- The general path of `Duration::round_with_provider(options, None, _)`: no calendar units without a reference;
    the exact total (a day counting 24 h) is rounded and re-balanced up to the largest unit. -/
def Dur.roundNoRelSlow (d : Dur) (o : Resolved) : Out Dur :=
  let calendarUnitsPresent := !(d.years = 0 && d.months = 0 && d.weeks = 0)
  if calendarUnitsPresent ∨ o.largest.isCalendarUnit then .err .range
  else if o.smallest.isCalendarUnit then .err .assert
  else do
    let n ← normChecked (d.timeNs + F64.toI64Sat d.days * 86400000000000)
    let (days, r) ← normRound n 0 o
    -- DateDuration::new(0,0,0,days) validity
    let _ ← Dur.new ⟨0, 0, 0, days, 0, 0, 0, 0, 0, 0⟩
    let nd ← normChecked (r + F64.toI64Sat days * 86400000000000)
    timeFromNormalized nd o.largest

/-- The condition of the "nothing to do" shortcut of `Duration::round`. -/
def Dur.roundIsNoop (d : Dur) (o : Resolved) : Prop :=
  (o.smallest = .nanosecond ∧ o.increment = 1) ∧ o.largest = d.defaultLargestUnit ∧
    !(!(d.years = 0 && d.months = 0 && d.weeks = 0)) ∧ !(decide (d.hours.natAbs ≥ 24)) ∧ d.minutes.natAbs < 60 ∧
    d.seconds.natAbs < 60 ∧ d.milliseconds.natAbs < 1000 ∧ d.microseconds.natAbs < 1000 ∧ d.nanoseconds.natAbs < 1000

instance (d : Dur) (o : Resolved) : Decidable (d.roundIsNoop o) := by unfold Dur.roundIsNoop; infer_instance

/-- `Duration::round_with_provider(options, None, _)` (no relativeTo). -/
def Dur.roundNoRel (d : Dur) (raw : RawOptions) : Out Dur := do
  let o ← fromDurationOptions raw d.defaultLargestUnit
  if d.roundIsNoop o then .ok d else d.roundNoRelSlow o

/-- `DurationTotal::new(ns, unit).to_fractional_total()`: the double nearest to `ns / unit`, rounded once (after the
    fix; the code's three cases - exact operands, integer part with a sticky bit, 64 fraction bits with a sticky bit -
    are tied to this by the correspondence run). -/
def durationTotal (ns : Int) (unit : Nat) : F64.Dyadic := F64.ofRat ns unit

/-- `Duration::total_with_provider(unit, None, _)` (after the fix: days count 24 h). -/
def Dur.totalNoRel (d : Dur) (unit : TUnit) : Out F64.Dyadic :=
  if d.defaultLargestUnit.isCalendarUnit ∨ unit.isCalendarUnit then .err .range
  else match unit.asNanoseconds with
    | none => .err .range
    | some u => do
      let n ← normChecked (d.timeNs + F64.toI64Sat d.days * 86400000000000)
      pure (durationTotal n u)

end TemporalModel
