/-
  Model/PlainDateBasic.lean — observable ISO-calendar getters of PlainDate, expressed through the
  Gregorian specification (Spec/Gregorian.lean) — this is the oracle for the icu_calendar-backed getters.
-/
import TemporalModel.Model.IsoDate
import TemporalModel.Spec.Gregorian
namespace TemporalModel
open Greg

/-- `PlainDate::try_new(y, m, d, iso)` -/
def plainDateTryNew (y m d : Int) : Out IsoDate := IsoDate.newWithOverflow y m d .reject

structure DateInfo where
  dayOfWeek : Int
  dayOfYear : Int
  weekOfYear : Int
  yearOfWeek : Int
  daysInMonth : Int
  daysInYear : Int
  inLeapYear : Bool
  deriving DecidableEq, Repr

def dateInfo (d : IsoDate) : DateInfo :=
  let n := dayNumber d.year d.month d.day
  let w := weekInfo d.year d.month d.day
  { dayOfWeek := Greg.dayOfWeek n, dayOfYear := Greg.dayOfYear d.year d.month d.day,
    weekOfYear := w.1, yearOfWeek := w.2, daysInMonth := dim d.year d.month, daysInYear := diy d.year,
    inLeapYear := isLeap d.year }

def DateInfo.render (i : DateInfo) : String :=
  s!"{i.dayOfWeek} {i.dayOfYear} {i.weekOfYear} {i.yearOfWeek} {i.daysInMonth} {i.daysInYear} {if i.inLeapYear then 1 else 0}"

/-- Adding `k` days with no other units: `IsoDate::add_date_duration` then `PlainDate::try_new`
    (|k| small enough for the `i32` intermediates, see C03/C04 for the general model). -/
def plainDateAddDays (d : IsoDate) (k : Int) : Out IsoDate := do
  let i ← IsoDate.newWithOverflow d.year d.month d.day .constrain
  let r := IsoDate.balance i.year i.month (i.day + k)
  plainDateTryNew r.year r.month r.day

/-- `days_until` -/
def plainDateUntilDays (a b : IsoDate) : Int := b.toEpochDays - a.toEpochDays

end TemporalModel
