/-
  Model/IsoTime.lean — `IsoTime` of src/iso.rs (balance, round, add, diff), as coded.
-/
import TemporalModel.Model.Round
import TemporalModel.Model.Options
namespace TemporalModel

structure IsoTime where
  hour : Int
  minute : Int
  second : Int
  millisecond : Int
  microsecond : Int
  nanosecond : Int
  deriving DecidableEq, Repr, Inhabited

namespace IsoTime

def midnight : IsoTime := ⟨0, 0, 0, 0, 0, 0⟩
def noon : IsoTime := ⟨12, 0, 0, 0, 0, 0⟩

def render (t : IsoTime) : String :=
  s!"{t.hour} {t.minute} {t.second} {t.millisecond} {t.microsecond} {t.nanosecond}"

/-- `is_valid_time` -/
def isValid (t : IsoTime) : Bool :=
  0 ≤ t.hour && t.hour ≤ 23 && 0 ≤ t.minute && t.minute ≤ 59 && 0 ≤ t.second && t.second ≤ 59 &&
  0 ≤ t.millisecond && t.millisecond ≤ 999 && 0 ≤ t.microsecond && t.microsecond ≤ 999 &&
  0 ≤ t.nanosecond && t.nanosecond ≤ 999

/-- Nanoseconds since midnight. -/
def toNs (t : IsoTime) : Int :=
  ((((t.hour * 60 + t.minute) * 60 + t.second) * 1000 + t.millisecond) * 1000 + t.microsecond) * 1000
    + t.nanosecond

/-- `IsoTime::balance` — six `div_mod` (Euclidean) carries; returns (days, time). -/
def balance (hour minute second millisecond microsecond nanosecond : Int) : Int × IsoTime :=
  let q := nanosecond / 1000
  let nanosecond := nanosecond % 1000
  let microsecond := microsecond + q
  let q := microsecond / 1000
  let microsecond := microsecond % 1000
  let millisecond := millisecond + q
  let q := millisecond / 1000
  let millisecond := millisecond % 1000
  let second := second + q
  let q := second / 60
  let second := second % 60
  let minute := minute + q
  let q := minute / 60
  let minute := minute % 60
  let hour := hour + q
  let days := hour / 24
  let hour := hour % 24
  (days, ⟨hour, minute, second, millisecond, microsecond, nanosecond⟩)

/-- The `quantity` of `IsoTime::round` per smallest unit. -/
def roundQuantity (t : IsoTime) : TUnit → Option Int
  | .day | .hour => some t.toNs
  | .minute => some ((((t.minute * 60 + t.second) * 1000 + t.millisecond) * 1000 + t.microsecond) * 1000 + t.nanosecond)
  | .second => some (((t.second * 1000 + t.millisecond) * 1000 + t.microsecond) * 1000 + t.nanosecond)
  | .millisecond => some ((t.millisecond * 1000 + t.microsecond) * 1000 + t.nanosecond)
  | .microsecond => some (t.microsecond * 1000 + t.nanosecond)
  | .nanosecond => some t.nanosecond
  | _ => none

/-- `IsoTime::round(resolved_options)` → (days, time). -/
def round (t : IsoTime) (r : Resolved) : Out (Int × IsoTime) :=
  match t.roundQuantity r.smallest, r.smallest.asNanoseconds with
  | some quantity, some length =>
    let increment := r.increment * length
    let result := Int.tdiv (RoundI128.round quantity increment r.mode) length
    match r.smallest with
    | .day => .ok (result, midnight)
    | .hour => .ok (balance result 0 0 0 0 0)
    | .minute => .ok (balance t.hour result 0 0 0 0)
    | .second => .ok (balance t.hour t.minute result 0 0 0)
    | .millisecond => .ok (balance t.hour t.minute t.second result 0 0)
    | .microsecond => .ok (balance t.hour t.minute t.second t.millisecond result 0)
    | .nanosecond => .ok (balance t.hour t.minute t.second t.millisecond t.microsecond result)
    | _ => .err .assert
  | _, _ => .err .range

/-- `IsoTime::diff` as six field differences (returned as a list h, m, s, ms, us, ns). -/
def diffFields (a b : IsoTime) : List Int :=
  [b.hour - a.hour, b.minute - a.minute, b.second - a.second,
   b.millisecond - a.millisecond, b.microsecond - a.microsecond, b.nanosecond - a.nanosecond]

end IsoTime

/-- `PlainTime::try_new` (reject overflow). -/
def plainTimeTryNew (h m s ms us ns : Int) : Out IsoTime :=
  let t : IsoTime := ⟨h, m, s, ms, us, ns⟩
  if t.isValid then .ok t else .err .range

/-- `PlainTime::round(smallest_unit, Some(increment as f64), mode)` for integral increments. -/
def plainTimeRound (t : IsoTime) (smallest : TUnit) (inc : Int) (mode : Option RMode) : Out IsoTime := do
  let increment ← incrementTryNew inc
  let mode := mode.getD .halfExpand
  let max ← smallest.maxRoundingIncrement
  match max with
  | none => .err .range
  | some max =>
    incrementValidate increment max false
    let (_, res) ← t.round { largest := .auto, smallest, increment, mode }
    pure res

/-- `Instant::round(options)` on epoch nanoseconds. -/
def nsMaxInstant : Int := 8640000000000000000000

def instantTryNew (ns : Int) : Out Int :=
  if -nsMaxInstant ≤ ns ∧ ns ≤ nsMaxInstant then .ok ns else .err .range

/-- `Instant::round_instant` -/
def roundInstant (ns : Int) (r : Resolved) : Out Int :=
  match r.smallest with
  | .hour | .minute | .second | .millisecond | .microsecond | .nanosecond =>
    match r.smallest.asNanoseconds with
    | some len => .ok (RoundI128.round ns (r.increment * len) r.mode)
    | none => .err .range
  | _ => .err .range

def instantRound (ns : Int) (o : RawOptions) : Out Int := do
  let r ← fromInstantOptions o
  let x ← roundInstant ns r
  instantTryNew x

end TemporalModel
