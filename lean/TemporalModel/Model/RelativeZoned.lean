/-
  Model/RelativeZoned.lean — rounding / totalling / comparing relative to a ZonedDateTime
  (src/builtins/core/duration/normalized.rs nudge_calendar_unit / nudge_to_zoned_time / bubble_relative_duration /
  round_relative_duration / total_relative_duration with a time-zone record; zoneddatetime.rs diff_with_rounding /
  diff_with_total / diff_internal_with_provider; duration.rs round / total / compare with RelativeTo::ZonedDateTime),
  as coded after the `fix:` commits.

  The functions take `tz : Option TZ`: `none` is the plain path of Model/Relative.lean (Lemmas/RelZonedLemmas.lean
  proves the two coincide), `some z` resolves wall-clock readings in the zone with the compatible rule.
-/
import TemporalModel.Model.Zone
namespace TemporalModel

/-- The instant of a wall-clock reading: read as UTC without a zone (`utc_epoch_nanoseconds`), resolved with
    `GetEpochNanosecondsFor(compatible)` with one. -/
def toNsIn (tz : Option TZ) (dt : IsoDateTime) : Out Int :=
  match tz with
  | none => dt.utcEpochNs
  | some z => z.epochNsFor dt .compatible

/-- `NudgeToCalendarUnit` with an optional time zone. -/
def nudgeCalendarUnitZ (tz : Option TZ) (sign : Int) (destNs : Int) (dt : IsoDateTime) (date : Dur) (o : Resolved) :
    Out NudgeRecord := do
  let inc := o.increment
  let step := inc * signMul sign
  let (r1, r2, startD, endD) ← nudgeBracket sign dt date o
  let startD ← Dur.new startD
  let endD ← Dur.new endD
  let start ← addDateToDt dt startD
  let end_ ← addDateToDt dt endD
  let startNs ← toNsIn tz start
  let endNs ← toNsIn tz end_
  if endNs = startNs then .err .range else
  let num := destNs - startNs
  let den := endNs - startNs
  let rounded := nudgeRounded r1 step (num * intSign den) den.natAbs inc o.mode
  let parts := some (r1, step, num * intSign den, (den.natAbs : Int))
  if rounded = r2 then pure ⟨endD, 0, endNs, true, parts⟩ else pure ⟨startD, 0, startNs, false, parts⟩

/-- The two ends of the local day the rounded time falls into (steps 1–6 of `NudgeToZonedTime`): the receiver moved
    by the date part, and one more day in the direction of the duration, both resolved in the zone. -/
def zonedDayBracket (tz : TZ) (sign : Int) (dt : IsoDateTime) (date : Dur) : Out (Int × Int) := do
  let start ← plainDateAdd dt.date (dateDur date.years date.months date.weeks date.days) .constrain
  let endDate := IsoDate.balance start.year start.month (start.day + sign)
  let startNs ← tz.epochNsFor ⟨start, dt.time⟩ .compatible
  let endNs ← tz.epochNsFor ⟨endDate, dt.time⟩ .compatible
  pure (startNs, endNs)

/-- `NudgeToZonedTime` (after the fix: the time beyond the day span is what is rounded again). -/
def nudgeToZonedTime (tz : TZ) (sign : Int) (dt : IsoDateTime) (date : Dur) (norm : Int) (o : Resolved) :
    Out NudgeRecord := do
  let (startNs, endNs) ← zonedDayBracket tz sign dt date
  let daySpan ← nsDifference endNs startNs
  match o.smallest.asNanoseconds with
  | none => .err .assert
  | some len =>
    let rounded ← normChecked (RoundI128.round norm (len * o.increment) o.mode)
    let beyond ← normChecked (rounded - daySpan)
    if intSign beyond ≠ -sign then do
      let rounded' ← normChecked (RoundI128.round beyond (len * o.increment) o.mode)
      let nudged ← normChecked (rounded' + endNs)
      let d ← Dur.new (dateDur date.years date.months date.weeks (date.days + sign))
      if d.sign ≠ 0 ∧ rounded' ≠ 0 ∧ ((d.sign < 0) ≠ (rounded' < 0)) then .err .range
      else pure ⟨d, rounded', nudged, true, none⟩
    else do
      let nudged ← normChecked (rounded + startNs)
      let d ← Dur.new (dateDur date.years date.months date.weeks date.days)
      if d.sign ≠ 0 ∧ rounded ≠ 0 ∧ ((d.sign < 0) ≠ (rounded < 0)) then .err .range
      else pure ⟨d, rounded, nudged, false, none⟩

/-- `BubbleRelativeDuration` with an optional time zone. -/
def bubbleLoopZ (tz : Option TZ) (sign nudgeNs : Int) (dt : IsoDateTime) (largest : TUnit) :
    Nat → TUnit → Dur → Out Dur
  | 0, _, d => .ok d
  | fuel + 1, unit, d =>
    if unit = .auto ∨ ¬ (unit ≤ largest) then .ok d
    else if unit = .week ∧ largest ≠ .week then bubbleLoopZ tz sign nudgeNs dt largest fuel unit.succ d
    else do
      let endD ← (match unit with
        | .year => Dur.new (dateDur (d.years + signMul sign) 0 0 0)
        | .month => Dur.new (dateDur d.years (d.months + signMul sign) 0 0)
        | .week => Dur.new (dateDur d.years d.months (d.weeks + signMul sign) 0)
        | .day => Dur.new (dateDur d.years d.months d.weeks (d.days + signMul sign))
        | _ => .panic)
      let end_ ← addDateToDt dt endD
      let endNs ← toNsIn tz end_
      let beyond := nudgeNs - endNs
      if intSign beyond ≠ -(signMul sign) then bubbleLoopZ tz sign nudgeNs dt largest fuel unit.succ endD
      else .ok d

def bubbleRelativeDurationZ (tz : Option TZ) (sign nudgeNs : Int) (dt : IsoDateTime) (date : Dur) (norm : Int)
    (largest smallest : TUnit) : Out (Dur × Int) :=
  if smallest = .year then .ok (date, norm) else do
    let d ← bubbleLoopZ tz sign nudgeNs dt largest 6 smallest.succ date
    pure (d, if d = date then norm else 0)

/-- `RoundRelativeDuration` with an optional time zone → (date part, normalized time). With a zone a day is an
    irregular unit, and time units are rounded inside the local day. -/
def roundRelativeDurationZ (tz : Option TZ) (date : Dur) (norm : Int) (destNs : Int) (dt : IsoDateTime)
    (o : Resolved) : Out (Dur × Int) := do
  let sign := recordSign date norm
  let irregular := o.smallest.isCalendarUnit || (tz.isSome && o.smallest == .day)
  let nr ← (if irregular then nudgeCalendarUnitZ tz sign destNs dt date o
            else match tz with
              | some z => nudgeToZonedTime z sign dt date norm o
              | none => nudgeToDayOrTime destNs date norm o)
  if nr.expanded ∧ o.smallest ≠ .week then
    bubbleRelativeDurationZ tz sign nr.nudgeEpochNs dt nr.date nr.norm o.largest (o.smallest.max .day)
  else pure (nr.date, nr.norm)

/-- `TotalRelativeDuration` with an optional time zone. -/
def totalRelativeDurationZ (tz : Option TZ) (date : Dur) (norm : Int) (destNs : Int) (dt : IsoDateTime)
    (unit : TUnit) : Out F64.Dyadic :=
  if unit.isCalendarUnit || (tz.isSome && unit == .day) then do
    let sign := recordSign date norm
    let nr ← nudgeCalendarUnitZ tz sign destNs dt date ⟨unit, unit, 1, .trunc⟩
    match nr.totalParts with
    | some (r1, step, num, den) => pure (nudgeTotalF64 r1 step num den)
    | none => .err .assert
  else do
    let n ← normChecked (norm + F64.toI64Sat date.days * NS_PER_DAY)
    match unit.asNanoseconds with
    | some len => pure (durationTotal n len)
    | none => .err .range

/-! ### ZonedDateTime until / since / Duration relative to a ZonedDateTime -/

/-- `ZonedDateTime::diff_with_rounding` → (date part, normalized time). -/
def zdtDiffWithRounding (tz : TZ) (ns1 ns2 : Int) (o : Resolved) : Out (Dur × Int) :=
  if o.largest.isTimeUnit then do
    let diff ← nsDifference ns2 ns1
    let (_, r) ← normRound diff 0 o
    pure (Dur.zero, r)
  else do
    let (date, td) ← zdtDiffZoned tz ns1 ns2 o.largest
    if o.smallest = .nanosecond ∧ o.increment = 1 then pure (date, td) else do
      let iso ← tz.isoDateTimeFor ns1
      roundRelativeDurationZ (some tz) date td ns2 iso o

/-- `ZonedDateTime::until / since` — complete (the zoned rounding path included). -/
def zdtDiffFull (since : Bool) (tz : TZ) (ns1 ns2 : Int) (raw : RawOptions) : Out Dur := do
  let o ← fromDiffSettings raw since .dateTime .hour .nanosecond
  if o.largest.isTimeUnit then zdtDiffTime since ns1 ns2 o
  else if ns1 = ns2 then pure Dur.zero
  else do
    let (date, td) ← zdtDiffWithRounding tz ns1 ns2 o
    let res ← durFromNormalized date td .hour
    pure (if since then res.negated else res)

/-- `ZonedDateTime::until / since` when the other value may live in another time zone: with a time largest unit the
    zones do not matter; with a date largest unit different zones are a RangeError (whatever the instants). -/
def zdtDiffFullZ (since : Bool) (tz : TZ) (sameZone : Bool) (ns1 ns2 : Int) (raw : RawOptions) : Out Dur := do
  let o ← fromDiffSettings raw since .dateTime .hour .nanosecond
  if o.largest.isTimeUnit then zdtDiffTime since ns1 ns2 o
  else if !sameZone then .err .range
  else zdtDiffFull since tz ns1 ns2 raw

/-- `ZonedDateTime::diff_with_total` -/
def zdtDiffWithTotal (tz : TZ) (ns1 ns2 : Int) (unit : TUnit) : Out F64.Dyadic :=
  if unit.isTimeUnit then do
    let diff ← nsDifference ns2 ns1
    match unit.asNanoseconds with
    | some len => pure (durationTotal diff len)
    | none => .err .range
  else do
    let (date, td) ← zdtDiffZoned tz ns1 ns2 unit
    let iso ← tz.isoDateTimeFor ns1
    totalRelativeDurationZ (some tz) date td ns2 iso unit

/-- `Duration::round_with_provider(options, Some(RelativeTo::ZonedDateTime(z)), _)` -/
def Dur.roundRelZoned (d : Dur) (raw : RawOptions) (tz : TZ) (ns : Int) : Out Dur := do
  let existing := d.defaultLargestUnit
  let o ← fromDurationOptions raw existing
  let calendarUnitsPresent := !(d.years = 0 && d.months = 0 && d.weeks = 0)
  let hoursToDays := decide (d.days ≠ 0) || decide (d.hours.natAbs ≥ 24)
  let isNoop := o.smallest = .nanosecond ∧ o.increment = 1
  if isNoop ∧ o.largest = existing ∧ !calendarUnitsPresent ∧ !hoursToDays ∧ d.minutes.natAbs < 60 ∧
      d.seconds.natAbs < 60 ∧ d.milliseconds.natAbs < 1000 ∧ d.microseconds.natAbs < 1000 ∧
      d.nanoseconds.natAbs < 1000 then .ok d
  else do
    let target ← zdtAdd tz ns d .constrain
    let (date, td) ← zdtDiffWithRounding tz ns target o
    -- after the fix: a date largest unit balances the time part up to hours only (days are not 24 h here)
    durFromNormalized date td (if o.largest.isTimeUnit then o.largest else .hour)

/-- `Duration::total_with_provider(unit, Some(RelativeTo::ZonedDateTime(z)), _)` -/
def Dur.totalRelZoned (d : Dur) (unit : TUnit) (tz : TZ) (ns : Int) : Out F64.Dyadic := do
  let target ← zdtAdd tz ns d .constrain
  zdtDiffWithTotal tz ns target unit

/-- `Duration::compare_with_provider(other, Some(RelativeTo::ZonedDateTime(z)), _)` -/
def Dur.compareRelZoned (a b : Dur) (tz : TZ) (ns : Int) : Out Int :=
  if a = b then .ok 0 else
  let l1 := a.defaultLargestUnit
  let l2 := b.defaultLargestUnit
  if !l1.isTimeUnit ∨ !l2.isTimeUnit then do
    let x ← zdtAdd tz ns a .constrain
    let y ← zdtAdd tz ns b .constrain
    pure (if x < y then -1 else if x > y then 1 else 0)
  else do
    let t1 ← normChecked (a.timeNs + F64.toI64Sat a.days * NS_PER_DAY)
    let t2 ← normChecked (b.timeNs + F64.toI64Sat b.days * NS_PER_DAY)
    pure (if t1 < t2 then -1 else if t1 > t2 then 1 else 0)

end TemporalModel
