/-
  Model/DateTime.lean — PlainDateTime arithmetic, difference (no rounding) and rounding
  (src/iso.rs IsoDateTime::{add_date_duration, diff, round}, src/builtins/core/datetime.rs), as coded.
-/
import TemporalModel.Model.DateArith
import TemporalModel.Model.TimeOps
namespace TemporalModel

/-- wrap to `i32` (`as i32` on an `i64`) -/
def wrapI32 (x : Int) : Int := (x + 2147483648) % 4294967296 - 2147483648

/-- `PlainDateTime::try_new` -/
def plainDateTimeTryNew (y m d h mi s ms us ns : Int) : Out IsoDateTime := do
  let t ← plainTimeTryNew h mi s ms us ns
  let dd ← IsoDate.regulate y m d .reject
  IsoDateTime.new dd t

/-- `IsoDateTime::add_date_duration(calendar, date_duration, norm, overflow)` -/
def IsoDateTime.addDateDuration (dt : IsoDateTime) (du : Dur) (ov : Overflow) : Out IsoDateTime := do
  let norm := du.timeNs
  if (norm.natAbs : Int) > NS_PER_DAY * 2 * MAX_EPOCH_DAYS then .err .range else do
  let (days, time) := timeAddNorm dt.time norm
  let days := wrapI32 days
  -- DateDuration::new(years, months, weeks, days + timeResult.days)
  let dd ← Dur.new ⟨du.years, du.months, du.weeks, F64.ofInt (du.days + days), 0, 0, 0, 0, 0, 0⟩
  let added ← plainDateAdd dt.date dd ov
  pure ⟨added, time⟩

/-- `PlainDateTime::add(duration, overflow)` -/
def plainDateTimeAdd (dt : IsoDateTime) (du : Dur) (ov : Overflow) : Out IsoDateTime := do
  let r ← dt.addDateDuration du ov
  if isoDtWithinValidLimits r.date r.time then pure r else .err .range

def plainDateTimeSubtract (dt : IsoDateTime) (du : Dur) (ov : Overflow) : Out IsoDateTime :=
  plainDateTimeAdd dt du.negated ov

/-- `derive(Ord)` on `IsoDateTime` as -1/0/1. -/
def IsoDateTime.cmp (a b : IsoDateTime) : Int :=
  let c := a.date.cmp b.date
  if c ≠ 0 then c else
  let x := a.time.toNs; let y := b.time.toNs
  if x < y then -1 else if x > y then 1 else 0

/-- `IsoDateTime::diff(other, calendar, largest_unit)` → (date part, normalized time). -/
def IsoDateTime.diff (a b : IsoDateTime) (largest : TUnit) : Out (Dur × Int) := do
  let td := timeDiffNs a.time b.time
  let timeSign : Int := if td < 0 then -1 else if td > 0 then 1 else 0
  let dateSign := b.date.cmp a.date
  let (adjusted, td) ←
    (if timeSign = -dateSign then do
        let adj := IsoDate.balance b.date.year b.date.month (b.date.day + timeSign)
        let t ← normChecked (td + (-timeSign) * NS_PER_DAY)
        pure (adj, t)
      else pure (b.date, td) : Out (IsoDate × Int))
  let dateTwo ← plainDateTryNew adjusted.year adjusted.month adjusted.day
  let dateLargest := largest.max .day
  let dd ← plainDateInternalDiff a.date dateTwo dateLargest
  let (days, td) ←
    (if largest = dateLargest then pure (dd.days, td)
     else do
       let t ← normChecked (td + F64.toI64Sat dd.days * NS_PER_DAY)
       pure (0, t) : Out (Int × Int))
  -- NormalizedDurationRecord::new: signs must agree
  let date : Dur := ⟨dd.years, dd.months, dd.weeks, days, 0, 0, 0, 0, 0, 0⟩
  if date.sign ≠ 0 ∧ td ≠ 0 ∧ ((date.sign < 0) ≠ (td < 0)) then .err .range else pure (date, td)

/-- `Duration::from_normalized(record, largest_unit)` -/
def durFromNormalized (date : Dur) (norm : Int) (largest : TUnit) : Out Dur := do
  let t ← timeFromNormalized norm largest
  Dur.new ⟨date.years, date.months, date.weeks, F64.ofInt (date.days + t.days), t.hours, t.minutes, t.seconds,
    t.milliseconds, t.microseconds, t.nanoseconds⟩

/-- `PlainDateTime::diff(op, other, settings)` for the no-rounding case (smallest nanosecond, increment 1);
    `none` = the rounding path (C08). -/
def plainDateTimeDiff (since : Bool) (a b : IsoDateTime) (raw : RawOptions) : Option (Out Dur) :=
  match fromDiffSettings raw since .dateTime .day .nanosecond with
  | .err k => some (.err k)
  | .panic => some .panic
  | .ok o =>
    if a = b then some (.ok Dur.zero)
    else if ¬ (o.smallest = .nanosecond ∧ o.increment = 1) then none
    else some (do
      let (date, td) ← a.diff b o.largest
      let r ← durFromNormalized date td o.largest
      pure (if since then r.negated else r))

/-- `IsoDateTime::round(resolved)` / `PlainDateTime::round(options)` -/
def plainDateTimeRound (dt : IsoDateTime) (raw : RawOptions) : Out IsoDateTime := do
  let o ← fromDatetimeOptions raw
  let (days, time) ← dt.time.round o
  let days := wrapI32 days
  let date := IsoDate.balance dt.date.year dt.date.month (dt.date.day + days)
  IsoDateTime.new date time

end TemporalModel
