/-
  Model/CalGlue.lean — the crate's own calendar code on top of the calendrical library, as coded after the `fix:`
  commits: the era table (calendar/era.rs, calendar.rs get_era_info), month-code validation (calendar/types.rs
  MonthCode::validate, month_to_month_code), `ResolvedCalendarFields::try_from_partial` for a non-ISO calendar,
  `Calendar::date_from_partial`, `PlainDate::from_partial`, and identifier parsing (calendar.rs from_utf8).
-/
import TemporalModel.Model.Calendar
namespace TemporalModel
namespace Cal

/-! ### Era table -/

structure EraInfo where
  /-- the code handed to the library's `date_from_codes` -/
  name : String
  /-- valid era years (none = unbounded on that side) -/
  lo : Option Int
  hi : Option Int
  deriving DecidableEq, Repr

structure EraRow where
  cals : List CalId
  aliases : List String
  info : EraInfo
  deriving Repr

/-- `Calendar::get_era_info`, one row per match arm, in the order of the arms. -/
def eraTable : List EraRow := [
  ⟨[.buddhist], ["buddhist", "be"], ⟨"be", none, none⟩⟩,
  ⟨[.chinese], ["chinese"], ⟨"chinese", none, none⟩⟩,
  ⟨[.coptic], ["coptic"], ⟨"coptic", some 1, none⟩⟩,
  ⟨[.coptic], ["coptic-inverse"], ⟨"coptic-inverse", some 1, none⟩⟩,
  ⟨[.dangi], ["dangi"], ⟨"dangi", none, none⟩⟩,
  ⟨[.ethiopic], ["ethiopic", "incar"], ⟨"ethiopic", some 1, none⟩⟩,
  ⟨[.ethiopic], ["ethiopic-inverse", "pre-incar"], ⟨"ethiopic-inverse", some 1, none⟩⟩,
  ⟨[.ethiopic], ["ethioaa", "ethiopic-amete-alem", "mundi"], ⟨"ethioaa", none, some 5500⟩⟩,
  ⟨[.ethioaa], ["ethioaa", "ethiopic-amete-alem", "mundi"], ⟨"ethioaa", none, none⟩⟩,
  ⟨[.gregory], ["gregory", "ce", "ad"], ⟨"ce", some 1, none⟩⟩,
  ⟨[.gregory], ["gregory-inverse", "bc", "bce"], ⟨"bce", some 1, none⟩⟩,
  ⟨[.hebrew], ["hebrew", "am"], ⟨"hebrew", none, none⟩⟩,
  ⟨[.indian], ["indian", "saka"], ⟨"indian", none, none⟩⟩,
  ⟨[.islamicCivil], ["islamic-civil", "islamicc", "ah"], ⟨"islamic-civil", none, none⟩⟩,
  ⟨[.islamic], ["islamic", "ah"], ⟨"islamic", none, none⟩⟩,
  ⟨[.islamicTbla], ["islamic-tbla", "ah"], ⟨"islamic-tbla", none, none⟩⟩,
  ⟨[.islamicUmalqura], ["islamic-umalqura", "ah"], ⟨"islamic-umalqura", none, none⟩⟩,
  ⟨[.iso8601], ["default"], ⟨"default", none, none⟩⟩,
  ⟨[.japanese, .japanext], ["heisei"], ⟨"heisei", some 1, some 31⟩⟩,
  ⟨[.japanese, .japanext], ["japanese", "gregory", "ce", "ad"], ⟨"japanese", some 1, some 1868⟩⟩,
  ⟨[.japanese, .japanext], ["japanese-inverse", "gregory-inverse", "bc", "bce"], ⟨"japanese-inverse", some 1, none⟩⟩,
  ⟨[.japanese, .japanext], ["meiji"], ⟨"meiji", some 1, some 45⟩⟩,
  ⟨[.japanese, .japanext], ["reiwa"], ⟨"reiwa", some 1, none⟩⟩,
  ⟨[.japanese, .japanext], ["showa"], ⟨"showa", some 1, some 64⟩⟩,
  ⟨[.japanese, .japanext], ["taisho"], ⟨"taisho", some 1, some 15⟩⟩,
  ⟨[.persian], ["persian", "ap"], ⟨"persian", none, none⟩⟩,
  ⟨[.roc], ["roc", "minguo"], ⟨"roc", some 1, none⟩⟩,
  ⟨[.roc], ["roc-inverse", "before-roc"], ⟨"roc-inverse", some 1, none⟩⟩]

/-- `Calendar::get_era_info(alias)` -/
def eraInfo (cal : CalId) (alias : String) : Option EraInfo :=
  (eraTable.find? (fun r => r.cals.contains cal && r.aliases.contains alias)).map (·.info)

def EraInfo.contains (e : EraInfo) (y : Int) : Bool :=
  (match e.lo with | some l => decide (l ≤ y) | none => true) &&
  (match e.hi with | some h => decide (y ≤ h) | none => true)

/-- The era codes each calendar of the library accepts in `date_from_codes` (read off icu_calendar 2.0.0-beta2). -/
def libraryAccepts : CalId → List String
  | .gregory => ["ce", "bce"]
  | .buddhist => ["be"]
  | .roc => ["roc", "roc-inverse"]
  | .japanese | .japanext => ["ce", "bce", "japanese", "japanese-inverse", "meiji", "taisho", "showa", "heisei", "reiwa"]
  | .coptic => ["ad", "coptic", "bd", "coptic-inverse"]
  | .ethiopic | .ethioaa => ["incar", "ethiopic", "pre-incar", "ethiopic-inverse", "mundi", "ethioaa"]
  | .indian => ["saka", "indian"]
  | .islamicCivil => ["islamic-civil", "islamicc", "islamic", "ah"]
  | .islamicTbla => ["islamic-tbla", "islamic", "ah"]
  | .islamicUmalqura => ["islamic-umalqura", "islamic", "ah"]
  | .islamic => ["islamic", "ah"]
  | .hebrew => ["hebrew", "am"]
  | .persian => ["ah", "persian"]
  | .chinese => ["chinese"]
  | .dangi => ["dangi"]
  | .iso8601 => ["default"]

/-- The era codes a calendar reports through `Calendar::era` (`standard_era` of the library's year info); for
    `japanext` only the eras it shares with `japanese`. -/
def reportedEras : CalId → List String
  | .gregory => ["gregory", "gregory-inverse"]
  | .buddhist => ["buddhist"]
  | .roc => ["roc", "roc-inverse"]
  | .japanese | .japanext => ["ce", "bce", "meiji", "taisho", "showa", "heisei", "reiwa"]
  | .coptic => ["coptic", "coptic-inverse"]
  | .ethiopic => ["ethiopic", "ethiopic-inverse"]
  | .ethioaa => ["ethioaa"]
  | .indian => ["saka"]
  | .islamicCivil => ["islamic-civil"]
  | .islamicTbla => ["islamic-tbla"]
  | .islamicUmalqura => ["islamic-umalqura"]
  | .islamic => ["islamic"]
  | .hebrew => ["hebrew"]
  | .persian => ["persian"]
  | .chinese | .dangi | .iso8601 => []

/-! ### Field resolution -/

/-- The fields of a `PartialDate` that matter here (the calendar travels separately). -/
structure CalPartial where
  era : Option String
  eraYear : Option Int
  year : Option Int
  month : Option Int
  monthCode : Option MonthCode
  day : Option Int
  deriving DecidableEq, Repr

/-- `EraYear::try_from_partial_date` → (era code for the library, year). -/
def resolveEraYear (cal : CalId) (p : CalPartial) : Out (Option String × Int) :=
  match p.year, p.era, p.eraYear with
  | some y, none, none => .ok (none, y)
  | none, some e, some ey =>
    match eraInfo cal e with
    | none => .err .range
    | some info => if info.contains ey then .ok (some info.name, ey) else .err .range
  | _, _, _ => .err .type

/-- `MonthCode::validate(calendar)` -/
def validateCode (cal : CalId) (c : MonthCode) : Out Unit :=
  if !c.leap ∧ 1 ≤ c.num ∧ c.num ≤ 12 then .ok ()
  else if (cal = .chinese ∨ cal = .dangi) ∧ c.leap ∧ 1 ≤ c.num ∧ c.num ≤ 12 then .ok ()
  else if (cal = .coptic ∨ cal = .ethiopic ∨ cal = .ethioaa) ∧ !c.leap ∧ c.num = 13 then .ok ()
  else if cal = .hebrew ∧ c.leap ∧ c.num = 5 then .ok ()
  else .err .range

/-- `MonthCode::try_from_partial_date` -/
def resolveCode (cal : CalId) (p : CalPartial) : Out MonthCode :=
  match p.month, p.monthCode with
  | some m, none => do let c ← monthToMonthCode m; validateCode cal c; pure c
  | none, some c => do validateCode cal c; pure c
  | some m, some c => if m ≠ (c.num : Int) then .err .range else do validateCode cal c; pure c
  | none, none => .err .type

/-- `ResolvedCalendarFields::try_from_partial(partial, _, Date)` for a non-ISO calendar →
    (era code, year, month code, day): the arguments of the library call. -/
def resolveFields (cal : CalId) (p : CalPartial) : Out (Option String × Int × MonthCode × Int) := do
  let ey ← resolveEraYear cal p
  let code ← resolveCode cal p
  let day ← resolveDay p.day false
  pure (ey.1, ey.2, code, day)

/-- `MAX_CALENDAR_YEAR`: no calendar year or era year beyond it names a representable date. -/
def MAX_CALENDAR_YEAR : Int := 300000

/-- `Calendar::date_from_partial` for a modelled non-ISO calendar: years the library's 32-bit arithmetic could not
    carry are refused first (`check_calendar_year`). -/
def dateFromPartialCal (cal : CalId) (p : CalPartial) (ov : Overflow) : Out IsoDate := do
  let r ← resolveFields cal p
  if r.2.1 < -MAX_CALENDAR_YEAR ∨ r.2.1 > MAX_CALENDAR_YEAR then .err .range else
  match fromCodes cal r.1 r.2.1 r.2.2.1 r.2.2.2 with
  | none => .err .range
  | some iso => IsoDate.newWithOverflow iso.year iso.month iso.day ov

/-- `PlainDate::from_partial(partial, overflow)` with a non-ISO calendar. -/
def plainDateFromPartialCal (cal : CalId) (p : CalPartial) (ov : Option Overflow) : Out IsoDate :=
  let yearCheck := p.year.isSome || (p.era.isSome && p.eraYear.isSome)
  let monthCheck := p.month.isSome || p.monthCode.isSome
  if !yearCheck || !monthCheck || p.day.isNone then .err .type
  else dateFromPartialCal cal p (ov.getD .constrain)

/-! ### Updating a date from a partial record; year-months -/

def CalPartial.isEmpty (p : CalPartial) : Bool :=
  p.era.isNone && p.eraYear.isNone && p.year.isNone && p.month.isNone && p.monthCode.isNone && p.day.isNone

/-- `impl_with_fallback_method!` for a receiver with calendar fields `f` (after the fixes): a year designation among
    the given fields replaces the receiver's, which is its calendar year alone; the receiver's month is carried by its
    month code alone; the day is the given one or the receiver's. -/
def mergeFieldsCal (f : CalFields) (p : CalPartial) : CalPartial :=
  let ye : Option Int × Option String × Option Int :=
    if p.year.isSome ∨ p.era.isSome ∨ p.eraYear.isSome then (p.year, p.era, p.eraYear)
    else (some f.year, none, none)
  let mc : Option Int × Option MonthCode :=
    match p.month, p.monthCode with
    | some m, some c => (some m, some c)
    | some m, none => (some m, none)
    | none, some c => (some (c.num : Int), some c)
    | none, none => (none, some f.monthCode)
  ⟨ye.2.1, ye.2.2, ye.1, mc.1, mc.2, some (p.day.getD f.day)⟩

/-- `PlainDate::with(partial, overflow)` on a date of a modelled non-ISO calendar whose fields are `f`. -/
def plainDateWithCal (cal : CalId) (f : CalFields) (p : CalPartial) (ov : Option Overflow) : Out IsoDate :=
  if p.isEmpty then .err .type else dateFromPartialCal cal (mergeFieldsCal f p) (ov.getD .constrain)

/-- `Calendar::year_month_from_partial` for a modelled non-ISO calendar: the day is always 1 (the first day of the
    calendar month), the result is the ISO date of that day. -/
def yearMonthFromPartialCal (cal : CalId) (p : CalPartial) (ov : Overflow) : Out IsoDate := do
  let ey ← resolveEraYear cal p
  let code ← resolveCode cal p
  if ey.2 < -MAX_CALENDAR_YEAR ∨ ey.2 > MAX_CALENDAR_YEAR then .err .range else
  match fromCodes cal ey.1 ey.2 code 1 with
  | none => .err .range
  | some iso => yearMonthNew iso.year iso.month (some iso.day) ov

/-- `PlainDate::to_plain_year_month` (after the fix: through the same merge as `with`). -/
def dateToYearMonthCal (cal : CalId) (f : CalFields) : Out IsoDate :=
  yearMonthFromPartialCal cal (mergeFieldsCal f ⟨none, none, none, none, none, none⟩) .constrain

/-! ### Identifiers -/

def lowerChar (c : Char) : Char := if 'A' ≤ c ∧ c ≤ 'Z' then Char.ofNat (c.toNat + 32) else c
def asciiLower (s : List Char) : List Char := s.map lowerChar

/-- `AnyCalendarKind::get_for_bcp47_bytes` behind `Calendar::from_utf8` (`iso8601` is caught first). -/
def idTable : List (String × CalId) :=
  [("iso8601", .iso8601), ("buddhist", .buddhist), ("chinese", .chinese), ("coptic", .coptic), ("dangi", .dangi),
   ("ethioaa", .ethioaa), ("ethiopic", .ethiopic), ("gregory", .gregory), ("hebrew", .hebrew), ("indian", .indian),
   ("islamic-civil", .islamicCivil), ("islamicc", .islamicCivil), ("islamic-tbla", .islamicTbla),
   ("islamic-umalqura", .islamicUmalqura), ("islamic", .islamic), ("iso", .iso8601), ("japanese", .japanese),
   ("japanext", .japanext), ("persian", .persian), ("roc", .roc)]

/-- `Calendar::from_utf8(bytes)` -/
def calFromId (s : List Char) : Out CalId :=
  match idTable.find? (fun e => e.1.toList = asciiLower s) with
  | some e => .ok e.2
  | none => .err .range

end Cal
end TemporalModel
