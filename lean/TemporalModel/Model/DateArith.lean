/-
  Model/DateArith.lean — ISO date arithmetic (src/iso.rs add_date_duration / diff_iso_date,
  src/builtins/core/date.rs add_date / internal_diff_date / diff_date, calendar.rs date_add / date_until), as coded.
-/
import TemporalModel.Model.PlainDateBasic
import TemporalModel.Model.Duration
namespace TemporalModel

/-- `FiniteF64::as_date_value`: the double must lie in the `i32` range. -/
def asDateValue (x : Int) : Out Int :=
  if -2147483648 ≤ x ∧ x ≤ 2147483647 then .ok x else .err .range

/-- `balance_iso_year_month_with_range_check(year, month)` on 64-bit sums. -/
def balanceIsoYearMonthChecked (year month : Int) : Out (Int × Int) :=
  let y := year + (month - 1) / 12
  let m := (month - 1) % 12 + 1
  if -2147483648 ≤ y ∧ y ≤ 2147483647 then .ok (y, m) else .err .range

/-- `balance_iso_year_month(year, month)` -/
def balanceIsoYearMonth (year month : Int) : Int × Int :=
  (year + (month - 1) / 12, (month - 1) % 12 + 1)

/-- `IsoDate::add_date_duration(duration, overflow)` with integral-double fields. -/
def IsoDate.addDateDuration (d : IsoDate) (years months weeks days : Int) (ov : Overflow) : Out IsoDate := do
  let ys ← asDateValue years
  let ms ← asDateValue months
  let (y, m) ← balanceIsoYearMonthChecked (d.year + ys) (d.month + ms)
  let inter ← IsoDate.newWithOverflow y m d.day ov
  let dd ← asDateValue days
  let ww ← asDateValue weeks
  let additional := dd + ww * 7
  if (additional.natAbs : Int) > 2 * MAX_EPOCH_DAYS then .err .range
  else pure (IsoDate.balance inter.year inter.month (inter.day + additional))

/-- `PlainDate::add_date(duration, overflow)` → ISO date. -/
def plainDateAdd (d : IsoDate) (du : Dur) (ov : Overflow) : Out IsoDate := do
  let bal ← timeFromNormalized du.timeNs .day
  let days := F64.ofInt (du.days + bal.days)
  if du.years ≠ 0 ∨ du.months ≠ 0 ∨ du.weeks ≠ 0 then do
    let r ← d.addDateDuration du.years du.months du.weeks days ov
    plainDateTryNew r.year r.month r.day
  else do
    let _ ← Dur.new ⟨0, 0, 0, days, 0, 0, 0, 0, 0, 0⟩
    let r ← d.addDateDuration 0 0 0 days ov
    plainDateTryNew r.year r.month r.day

def plainDateSubtract (d : IsoDate) (du : Dur) (ov : Overflow) : Out IsoDate := plainDateAdd d du.negated ov

/-- `iso_date_surpasses(this, other, sign)` -/
def isoDateSurpasses (this other : IsoDate) (sign : Int) : Bool := this.cmp other * sign = 1

/-- The year loop of `diff_iso_date`: advance `candidate` while not surpassing. Returns `years`. -/
def yearLoop (self other : IsoDate) (sign : Int) : Nat → Int → Int → Option Int
  | 0, _, _ => none
  | fuel + 1, years, cand =>
    if isoDateSurpasses ⟨self.year + cand, self.month, self.day⟩ other sign then some years
    else yearLoop self other sign fuel cand (cand + sign)

/-- The month loop. `inter` is the running (year, month). Returns `months`. -/
def monthLoop (self other : IsoDate) (sign : Int) : Nat → Int → Int → (Int × Int) → Option Int
  | 0, _, _, _ => none
  | fuel + 1, months, cand, inter =>
    if isoDateSurpasses ⟨inter.1, inter.2, self.day⟩ other sign then some months
    else monthLoop self other sign fuel cand (cand + sign) (balanceIsoYearMonth inter.1 (inter.2 + sign))

/-- `IsoDate::diff_iso_date(other, largest_unit)` → (years, months, weeks, days). Loops carry fuel; a `none`
    from a loop (fuel exhausted) is reported as a panic so that a disagreement with the code would show. -/
def IsoDate.diffIsoDate (self other : IsoDate) (largest : TUnit) : Out Dur :=
  let sign := -(self.cmp other)
  if sign = 0 then .ok Dur.zero else
  let ym : Option (Int × Int) :=
    if largest = .year ∨ largest = .month then
      let cy0 := other.year - self.year
      let cy := if cy0 ≠ 0 then cy0 - sign else cy0
      match yearLoop self other sign 8 0 cy with
      | none => none
      | some years =>
        match monthLoop self other sign 16 0 sign (balanceIsoYearMonth (self.year + years) (self.month + sign)) with
        | none => none
        | some months => if largest = .month then some (0, months + years * 12) else some (years, months)
    else some (0, 0)
  match ym with
  | none => .panic
  | some (years, months) => do
    let inter := balanceIsoYearMonth (self.year + years) (self.month + months)
    let constrained ← IsoDate.newWithOverflow inter.1 inter.2 self.day .constrain
    let days := other.toEpochDays - constrained.toEpochDays
    let (weeks, days) := if largest = .week then (Int.tdiv days 7, Int.tmod days 7) else (0, days)
    Dur.new ⟨years, months, weeks, days, 0, 0, 0, 0, 0, 0⟩

/-- `PlainDate::internal_diff_date(other, largest_unit)` -/
def plainDateInternalDiff (a b : IsoDate) (largest : TUnit) : Out Dur :=
  if a = b then .ok Dur.zero
  else if largest = .day then Dur.new ⟨0, 0, 0, b.toEpochDays - a.toEpochDays, 0, 0, 0, 0, 0, 0⟩
  else a.diffIsoDate b largest

/-- `PlainDate::diff_date(op, other, settings)` when no rounding is requested (smallest unit day, increment 1);
    the rounding path is the relative-duration machinery of C08 and is signalled here by `none`. -/
def plainDateDiff (since : Bool) (a b : IsoDate) (raw : RawOptions) : Option (Out Dur) :=
  match fromDiffSettings raw since .date .day .day with
  | .err k => some (.err k)
  | .panic => some .panic
  | .ok o =>
    if a = b then some (.ok Dur.zero)
    else if ¬ (o.smallest = .day ∧ o.increment = 1) then none
    else some (do
      let r ← plainDateInternalDiff a b o.largest
      let r ← Dur.new r
      pure (if since then r.negated else r))

end TemporalModel
