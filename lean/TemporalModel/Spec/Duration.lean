/-
  Spec/Duration.lean — property C09 as definitions.
-/
import TemporalModel.Model.Duration
namespace TemporalModel

/-- All fields share one sign. -/
def Dur.signUniform (d : Dur) : Prop := (∀ v ∈ d.fields, 0 ≤ v) ∨ (∀ v ∈ d.fields, v ≤ 0)

/-- IsValidDuration as the property states it. -/
def Dur.ValidSpec (d : Dur) : Prop :=
  d.signUniform ∧ d.years.natAbs < 4294967296 ∧ d.months.natAbs < 4294967296 ∧ d.weeks.natAbs < 4294967296 ∧
  (d.totalNs.natAbs : Int) < 9007199254740992 * 1000000000

def Dur.calendarFree (d : Dur) : Prop := d.years = 0 ∧ d.months = 0 ∧ d.weeks = 0

/-- Three-way comparison as an integer. -/
def cmpInt (a b : Int) : Int := if a < b then -1 else if a > b then 1 else 0

end TemporalModel
