/-
  Spec/Round.lean — the property C07 as a definition: RoundNumberToIncrement over exact integers.
  `r1` is the largest multiple of `inc` not above `x`, `r2 = r1 + inc`.
-/
import TemporalModel.Model.Prim
namespace TemporalModel

/-- The lower neighbouring multiple (floor). -/
def lowerMultiple (x inc : Int) : Int := inc * (x / inc)

/-- The multiple of `inc` prescribed by `mode` for the exact value `x`. -/
def roundSpec (x inc : Int) (mode : RMode) : Int :=
  let r1 := lowerMultiple x inc
  let r2 := r1 + inc
  if x = r1 then x else
  let towardZero := if x ≥ 0 then r1 else r2
  let awayFromZero := if x ≥ 0 then r2 else r1
  let even := if (r1 / inc) % 2 = 0 then r1 else r2
  let half (tie : Int) : Int :=
    if 2 * (x - r1) < inc then r1 else if 2 * (x - r1) > inc then r2 else tie
  match mode with
  | .ceil => r2
  | .floor => r1
  | .expand => awayFromZero
  | .trunc => towardZero
  | .halfCeil => half r2
  | .halfFloor => half r1
  | .halfExpand => half awayFromZero
  | .halfTrunc => half towardZero
  | .halfEven => half even

end TemporalModel
