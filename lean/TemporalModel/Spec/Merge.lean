/-
  Spec/Merge.lean — property C17 as a definition: the reference merge of a partial record into a receiver.
-/
import TemporalModel.Model.Partial
namespace TemporalModel

/-- Month selected by the supplied month / month code (ISO calendar): the code must be M01..M12 and agree with a
    supplied month; a lone month is clamped (constrain) or must be 1..12 (reject); nothing supplied = receiver's. -/
def mergeMonthSpec (recvMonth : Int) (month : Option Int) (code : Option MonthCode) (ov : Overflow) : Out Int :=
  match month, code with
  | some m, some c =>
    if m ≠ (c.num : Int) then .err .range
    else if c.leap ∨ ¬ (1 ≤ c.num ∧ c.num ≤ 12) then .err .range else .ok c.num
  | some m, none =>
    match ov with
    | .constrain => .ok (clamp m 1 12)
    | .reject => if 1 ≤ m ∧ m ≤ 12 then .ok m else .err .range
  | none, some c => if c.leap ∨ ¬ (1 ≤ c.num ∧ c.num ≤ 12) then .err .range else .ok c.num
  | none, none => .ok recvMonth

/-- Day for the resulting year and month: clamped to 1..days-in-month (constrain) or required to be in it. -/
def mergeDaySpec (y m d : Int) (ov : Overflow) : Out Int :=
  match ov with
  | .constrain => .ok (clamp d 1 (Greg.dim y m))
  | .reject => if 1 ≤ d ∧ d ≤ Greg.dim y m then .ok d else .err .range

/-- `PlainDate::with` as the property states it. -/
def mergeDateSpec (r : IsoDate) (p : PartialDate) (ov : Overflow) : Out IsoDate :=
  if p.isEmpty then .err .type
  -- the ISO calendar has no eras: an era with an era year names no era of this calendar (RangeError); an era or an
  -- era year alone, or next to a year, is not a year designation (TypeError)
  else if p.era ∧ p.eraYear.isSome ∧ p.year.isNone then .err .range
  else if p.era ∨ p.eraYear.isSome then .err .type
  else do
    let y := p.year.getD r.year
    let m ← mergeMonthSpec r.month p.month p.monthCode ov
    let d ← mergeDaySpec y m (p.day.getD r.day) ov
    IsoDate.newWithOverflow y m d ov

/-- `PlainTime::with` as the property states it. -/
def mergeTimeSpec (t : IsoTime) (p : PartialTime) (ov : Overflow) : Out IsoTime :=
  if p.isEmpty then .err .type else
  let h := p.hour.getD t.hour; let mi := p.minute.getD t.minute; let s := p.second.getD t.second
  let ms := p.millisecond.getD t.millisecond; let us := p.microsecond.getD t.microsecond
  let ns := p.nanosecond.getD t.nanosecond
  match ov with
  | .constrain => .ok ⟨clamp h 0 23, clamp mi 0 59, clamp s 0 59, clamp ms 0 999, clamp us 0 999, clamp ns 0 999⟩
  | .reject =>
    if 0 ≤ h ∧ h ≤ 23 ∧ 0 ≤ mi ∧ mi ≤ 59 ∧ 0 ≤ s ∧ s ≤ 59 ∧ 0 ≤ ms ∧ ms ≤ 999 ∧ 0 ≤ us ∧ us ≤ 999 ∧ 0 ≤ ns ∧ ns ≤ 999
    then .ok ⟨h, mi, s, ms, us, ns⟩ else .err .range

end TemporalModel
