/-
  Spec/CalLaws.lean — what "the reported fields describe a day" means, for any calendar, stated on the reported
  fields only (no knowledge of the calendar's rules): bounds, and the law relating the fields of two consecutive days.
  Proved for every modelled calendar (Props/C16.lean) and evaluated by the driver on the fields the implementation
  reports for the calendars that are not modelled.
-/
import TemporalModel.Model.Calendar
namespace TemporalModel
namespace Cal

/-- Bounds of one day's fields: the day exists in its month, the month in its year, the day of year in the year; the
    month code agrees with the month (equal, or one less after a leap month; a leap code names the month before). -/
def FieldsOk (f : CalFields) : Prop :=
  1 ≤ f.day ∧ f.day ≤ f.daysInMonth ∧ 1 ≤ f.month ∧ f.month ≤ f.monthsInYear ∧
  1 ≤ f.dayOfYear ∧ f.dayOfYear ≤ f.daysInYear ∧ f.day ≤ f.dayOfYear ∧
  ((f.monthCode.num : Int) = f.month ∨ (f.monthCode.num : Int) + 1 = f.month) ∧
  (f.monthCode.leap = true → (f.monthCode.num : Int) + 1 = f.month) ∧
  (f.era.isSome ↔ f.eraYear.isSome)

instance (f : CalFields) : Decidable (FieldsOk f) := by unfold FieldsOk; infer_instance

/-- The era year moves with the year: inside one era by the same amount (forwards, or backwards in an era that
    counts back from its anchor); when the era changes, the new era starts at year 1 or the old one ended at 1. -/
def EraStep (a b : CalFields) : Prop :=
  match a.era, a.eraYear, b.era, b.eraYear with
  | some ea, some ya, some eb, some yb =>
    if ea = eb then (yb - ya = b.year - a.year ∨ ya - yb = b.year - a.year)
    else (yb = 1 ∨ ya = 1)
  | none, none, none, none => True
  | _, _, _, _ => False

instance (a b : CalFields) : Decidable (EraStep a b) := by
  unfold EraStep; split <;> infer_instance

/-- `b` is the calendar day after `a`: the next day of the month, or the first of the next month when `a` is the
    last day of its month, or the first day of the next year when `a` is the last day of its year. -/
def Consecutive (a b : CalFields) : Prop :=
  EraStep a b ∧
  ((b.year = a.year ∧ b.month = a.month ∧ b.monthCode = a.monthCode ∧ b.day = a.day + 1 ∧
      b.dayOfYear = a.dayOfYear + 1 ∧ b.daysInMonth = a.daysInMonth ∧ b.daysInYear = a.daysInYear ∧
      b.monthsInYear = a.monthsInYear ∧ b.inLeapYear = a.inLeapYear) ∨
   (b.year = a.year ∧ b.month = a.month + 1 ∧ b.monthCode ≠ a.monthCode ∧ a.day = a.daysInMonth ∧ b.day = 1 ∧
      b.dayOfYear = a.dayOfYear + 1 ∧ b.daysInYear = a.daysInYear ∧ b.monthsInYear = a.monthsInYear ∧
      b.inLeapYear = a.inLeapYear) ∨
   (b.year = a.year + 1 ∧ b.month = 1 ∧ a.month = a.monthsInYear ∧ a.day = a.daysInMonth ∧ b.day = 1 ∧
      a.dayOfYear = a.daysInYear ∧ b.dayOfYear = 1))

instance (a b : CalFields) : Decidable (Consecutive a b) := by unfold Consecutive; infer_instance

end Cal
end TemporalModel
