/-
  Spec/Grammar.lean — property C12 as definitions: the Temporal ISO 8601 / RFC 9557 grammar as a deterministic
  reader on character lists, and the type-specific rules on top of it.  `none` = not in the language (RangeError).

  Sources: ECMAScript Temporal, "ISO 8601 grammar" (TemporalDateTimeString, TemporalInstantString,
  TemporalYearMonthString, TemporalMonthDayString, TemporalTimeString, TemporalDurationString) and RFC 9557.
-/
import TemporalModel.Spec.Gregorian
import TemporalModel.Model.Format
namespace TemporalModel
namespace Gram
open Fmt (isDigit readNat)

abbrev P (α : Type) := List Char → Option (α × List Char)

/-- exactly `n` digits -/
def digitsN (n : Nat) : P Nat := fun cs =>
  if cs.length ≥ n ∧ (cs.take n).all isDigit then some (readNat (cs.take n), cs.drop n) else none

/-- `+`, `-`, and U+2212 MINUS SIGN (accepted by the Temporal grammar this crate follows). -/
def isSign (c : Char) : Bool := c = '+' ∨ c = '-' ∨ c = '\u2212'
def isMinus (c : Char) : Bool := c = '-' ∨ c = '\u2212'

/-- DateYear: four digits, or a sign and six digits; `-000000` is not a year. -/
def year : P Int := fun cs =>
  match cs with
  | '+' :: r => (digitsN 6 r).map (fun p => ((p.1 : Int), p.2))
  | c :: r =>
    if isMinus c then
      match digitsN 6 r with
      | some (0, _) => none
      | some (n, r') => some (-(n : Int), r')
      | none => none
    else (digitsN 4 (c :: r)).map (fun p => ((p.1 : Int), p.2))
  | [] => none

structure PDate where
  year : Int
  month : Int
  day : Int
  deriving Repr, DecidableEq

/-- Date: extended (`Y-MM-DD`) or basic (`YMMDD`); month 01..12, day 01..31 and within the month. -/
def date : P PDate := fun cs => do
  let (y, cs) ← year cs
  match cs with
  | '-' :: cs => do
    let (m, cs) ← digitsN 2 cs
    match cs with
    | '-' :: cs => do
      let (d, cs) ← digitsN 2 cs
      if 1 ≤ m ∧ m ≤ 12 ∧ 1 ≤ d ∧ (d : Int) ≤ Greg.dim y m then some (⟨y, m, d⟩, cs) else none
    | _ => none
  | cs => do
    let (m, cs) ← digitsN 2 cs
    let (d, cs) ← digitsN 2 cs
    if 1 ≤ m ∧ m ≤ 12 ∧ 1 ≤ d ∧ (d : Int) ≤ Greg.dim y m then some (⟨y, m, d⟩, cs) else none

/-- Fraction: `.` or `,` and one to nine digits (a tenth digit is not consumed, and then nothing can follow it). -/
def fraction : P Nat := fun cs =>
  match cs with
  | c :: r =>
    if c = '.' ∨ c = ',' then
      let ds := r.takeWhile isDigit
      if 1 ≤ ds.length ∧ ds.length ≤ 9 then
        some (readNat ds * 10 ^ (9 - ds.length), r.drop ds.length)
      else none
    else none
  | [] => none

structure PTime where
  hour : Int
  minute : Int
  second : Int
  ns : Nat
  deriving Repr, DecidableEq

/-- Time: `HH`, `HH:MM`, `HH:MM:SS[.f]`, `HHMM`, `HHMMSS[.f]`; hour 00..23, minute 00..59, second 00..60 (60 reads as 59). -/
def time : P PTime := fun cs => do
  let (h, cs) ← digitsN 2 cs
  if h > 23 then none else
  let sec (s : Nat) (cs : List Char) : Option (PTime × List Char) → Option (PTime × List Char) := id
  match cs with
  | ':' :: cs1 => do
    let (mi, cs1) ← digitsN 2 cs1
    if mi > 59 then none else
    match cs1 with
    | ':' :: cs2 => do
      let (s, cs2) ← digitsN 2 cs2
      if s > 60 then none else
      let s' : Nat := if s = 60 then 59 else s
      match fraction cs2 with
      | some (f, cs3) => some (⟨h, mi, s', f⟩, cs3)
      | none =>
        -- a separator with no (or too many) digits after it is an error, not "no fraction"
        match cs2 with
        | c :: _ => if c = '.' ∨ c = ',' then none else some (⟨h, mi, s', 0⟩, cs2)
        | [] => some (⟨h, mi, s', 0⟩, cs2)
    | _ => some (⟨h, mi, 0, 0⟩, cs1)
  | _ =>
    match digitsN 2 cs with
    | some (mi, cs1) =>
      if mi > 59 then none else
      match digitsN 2 cs1 with
      | some (s, cs2) =>
        if s > 60 then none else
        let s' : Nat := if s = 60 then 59 else s
        match fraction cs2 with
        | some (f, cs3) => some (⟨h, mi, s', f⟩, cs3)
        | none =>
          match cs2 with
          | c :: _ => if c = '.' ∨ c = ',' then none else some (⟨h, mi, s', 0⟩, cs2)
          | [] => some (⟨h, mi, s', 0⟩, cs2)
      | none => some (⟨h, mi, 0, 0⟩, cs1)
    | none => some (⟨h, 0, 0, 0⟩, cs)

/-- UTC offset with optional sub-minute precision → signed nanoseconds. `subMinute = false`: only hours and minutes. -/
def offset (subMinute : Bool) : P Int := fun cs =>
  match cs with
  | sg :: cs =>
    if ¬ isSign sg then none else do
    let sign : Int := if isMinus sg then -1 else 1
    let (h, cs) ← digitsN 2 cs
    if h > 23 then none else
    match cs with
    | ':' :: cs1 => do
      let (mi, cs1) ← digitsN 2 cs1
      if mi > 59 then none else
      match cs1 with
      | ':' :: cs2 =>
        if ¬ subMinute then none else do
        let (s, cs2) ← digitsN 2 cs2
        if s > 59 then none else
        match fraction cs2 with
        | some (f, cs3) => some (sign * (((h * 3600 + mi * 60 + s : Nat) : Int) * 1000000000 + f), cs3)
        | none =>
          match cs2 with
          | c :: _ => if c = '.' ∨ c = ',' then none else some (sign * ((h * 3600 + mi * 60 + s : Nat) : Int) * 1000000000, cs2)
          | [] => some (sign * ((h * 3600 + mi * 60 + s : Nat) : Int) * 1000000000, cs2)
      | _ => some (sign * ((h * 3600 + mi * 60 : Nat) : Int) * 1000000000, cs1)
    | _ =>
      match digitsN 2 cs with
      | some (mi, cs1) =>
        if mi > 59 then none else
        match (if subMinute then digitsN 2 cs1 else none) with
        | some (s, cs2) =>
          if s > 59 then none else
          match fraction cs2 with
          | some (f, cs3) => some (sign * (((h * 3600 + mi * 60 + s : Nat) : Int) * 1000000000 + f), cs3)
          | none =>
            match cs2 with
            | c :: _ => if c = '.' ∨ c = ',' then none else some (sign * ((h * 3600 + mi * 60 + s : Nat) : Int) * 1000000000, cs2)
            | [] => some (sign * ((h * 3600 + mi * 60 + s : Nat) : Int) * 1000000000, cs2)
        | none => some (sign * ((h * 3600 + mi * 60 : Nat) : Int) * 1000000000, cs1)
      | none => some (sign * ((h * 3600 : Nat) : Int) * 1000000000, cs)
  | [] => none

inductive POffset where
  | z
  | num (ns : Int)
  deriving Repr, DecidableEq

def offsetOrZ : P POffset := fun cs =>
  match cs with
  | 'Z' :: r => some (.z, r)
  | 'z' :: r => some (.z, r)
  | _ => (offset true cs).map (fun p => (.num p.1, p.2))

/-- time-zone annotation body -/
inductive TzId where
  | name (s : List Char)
  | off (ns : Int)
  deriving Repr, DecidableEq

def isAlpha (c : Char) : Bool := c.isAlpha
def isAlnum (c : Char) : Bool := c.isAlphanum
def tzLeading (c : Char) : Bool := isAlpha c ∨ c = '.' ∨ c = '_'
def tzChar (c : Char) : Bool := tzLeading c ∨ isDigit c ∨ c = '-' ∨ c = '+'

/-- IANA name: components separated by `/`, each starting with a letter, `.` or `_`. -/
def ianaName (cs : List Char) : Bool :=
  let comps := (String.ofList cs).splitOn "/"
  !cs.isEmpty && comps.all (fun c => match c.toList with
    | [] => false
    | x :: xs => tzLeading x && xs.all tzChar && c ≠ "." && c ≠ "..")

structure Ann where
  critical : Bool
  key : List Char
  value : List Char
  deriving Repr, DecidableEq

def keyLeading (c : Char) : Bool := ('a' ≤ c ∧ c ≤ 'z') ∨ c = '_'
def keyChar (c : Char) : Bool := keyLeading c ∨ isDigit c ∨ c = '-'

/-- annotation value: alphanumeric components separated by `-` -/
def annValue (cs : List Char) : Bool :=
  !cs.isEmpty && ((String.ofList cs).splitOn "-").all (fun c => !c.isEmpty && c.toList.all isAlnum)

/-- One bracketed group: `(critical, body)`. -/
def bracket : P (Bool × List Char) := fun cs =>
  match cs with
  | '[' :: cs =>
    let (crit, cs) := match cs with | '!' :: r => (true, r) | r => (false, r)
    let body := cs.takeWhile (· ≠ ']')
    match cs.drop body.length with
    | ']' :: rest => some ((crit, body), rest)
    | _ => none
  | _ => none

structure Tail where
  tz : Option (Bool × TzId)
  anns : List Ann
  deriving Repr, DecidableEq

/-- TimeZoneAnnotation? Annotation*: the first group is a time zone unless it has a `=`. Every later group must be
    a key=value annotation. -/
def tail (cs : List Char) (fuel : Nat := 64) : Option Tail :=
  let rec anns : Nat → List Char → Option (List Ann)
    | 0, _ => none
    | _, [] => some []
    | f + 1, cs => do
      let ((crit, body), rest) ← bracket cs
      let key := body.takeWhile (· ≠ '=')
      match body.drop key.length with
      | '=' :: value =>
        match key with
        | k :: ks =>
          if keyLeading k ∧ ks.all keyChar ∧ annValue value then do
            let more ← anns f rest
            some (⟨crit, key, value⟩ :: more)
          else none
        | [] => none
      | _ => none
  match cs with
  | [] => some ⟨none, []⟩
  | _ =>
    match bracket cs with
    | none => none
    | some ((crit, body), rest) =>
      if body.contains '=' then (anns fuel cs).map (fun a => ⟨none, a⟩)
      else
        let id : Option TzId :=
          match body with
          | c :: _ =>
            if isSign c then
              match offset false body with
              | some (ns, []) => some (.off ns)
              | _ => none
            else if ianaName body then some (.name body) else none
          | [] => none
        match id with
        | none => none
        | some id => (anns fuel rest).map (fun a => ⟨some (crit, id), a⟩)

/-- The calendar chosen by the annotations, or `none` for a RangeError: unknown critical keys are rejected; the first
    `u-ca` wins; several `u-ca` with any of them critical are rejected. -/
def calendarOf (anns : List Ann) : Option (Option (List Char)) :=
  let cas := anns.filter (fun a => a.key = "u-ca".toList)
  if anns.any (fun a => a.critical ∧ a.key ≠ "u-ca".toList) then none
  else if cas.length ≥ 2 ∧ cas.any (·.critical) then none
  else some (cas.head?.map (·.value))

structure DateTimeRec where
  date : PDate
  time : Option PTime
  offset : Option POffset
  tz : Option (Bool × TzId)
  calendar : Option (List Char)
  deriving Repr, DecidableEq

def isSep (c : Char) : Bool := c = 'T' ∨ c = 't' ∨ c = ' '

/-- AnnotatedDateTime: Date (sep Time Offset?)? TimeZoneAnnotation? Annotations. -/
def dateTime (cs : List Char) : Option DateTimeRec := do
  let (d, cs) ← date cs
  let (t, off, cs) ← (match cs with
    | c :: r =>
      if isSep c then do
        let (t, r) ← time r
        match offsetOrZ r with
        | some (o, r') => some (some t, some o, r')
        | none => some (some t, none, r)
      else some (none, none, cs)
    | [] => some (none, none, cs) : Option (Option PTime × Option POffset × List Char))
  let tl ← tail cs
  let cal ← calendarOf tl.anns
  some ⟨d, t, off, tl.tz, cal⟩

/-- Lower-case ASCII. -/
def lower (cs : List Char) : List Char := cs.map Char.toLower

end Gram
end TemporalModel
