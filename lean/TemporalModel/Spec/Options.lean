/-
  Spec/Options.lean — property C10 as a definition: the option combinations Temporal allows per
  operation, and the resolved defaults. Written as a table oracle, independently of the code's
  control flow.
-/
import TemporalModel.Model.Options
namespace TemporalModel

/-- Units an operation's unit group admits (never `auto`). -/
def UnitGroup.admits (g : UnitGroup) (u : TUnit) : Bool :=
  match g with
  | .date => u.isDateUnit
  | .time => u.isTimeUnit
  | .dateTime => u.isDateUnit || u.isTimeUnit

/-- MaximumTemporalDurationRoundingIncrement. -/
def maxIncrementSpec : TUnit → Option Int
  | .hour => some 24
  | .minute | .second => some 60
  | .millisecond | .microsecond | .nanosecond => some 1000
  | _ => none

/-- ValidateTemporalRoundingIncrement(inc, max, inclusive = false): below the maximum and dividing it. -/
def incrementAllowed (inc : Int) (u : TUnit) : Bool :=
  match maxIncrementSpec u with
  | none => true
  | some m => decide (inc < m) && decide (m % inc = 0)

/-- `auto` or an absent largest unit stand for the default. -/
def largestOrDefault (L : Option TUnit) (d : TUnit) : TUnit :=
  match L with
  | none | some .auto => d
  | some u => u

/-- Is the (optional) unit acceptable for the group; `auto` only where `allowAuto`. -/
def unitAllowed (g : UnitGroup) (allowAuto : Bool) (U : Option TUnit) : Bool :=
  match U with
  | none => true
  | some .auto => allowAuto
  | some u => g.admits u

/-- The resolved settings Temporal's GetDifferenceSettings prescribes, or `none` when the
    combination is not allowed. `inc` is already known to be in 1..10^9. -/
def diffSettingsSpec (g : UnitGroup) (defaultLargest defaultSmallest : TUnit) (since : Bool)
    (L S : Option TUnit) (inc : Option Int) (mode : Option RMode) : Option Resolved :=
  if !(unitAllowed g true L && unitAllowed g false S) then none else
  let s := S.getD defaultSmallest
  let l := largestOrDefault L (TUnit.max defaultLargest s)
  if l < s then none else
  let i := inc.getD 1
  if !incrementAllowed i s then none else
  let m := mode.getD .trunc
  some { largest := l, smallest := s, increment := i, mode := if since then m.negate else m }

/-- Duration.prototype.round option resolution. -/
def durationRoundSpec (existing : TUnit) (L S : Option TUnit) (inc : Option Int) (mode : Option RMode) :
    Option Resolved :=
  if L.isNone && S.isNone then none else
  if S = some .auto then none else
  let s := S.getD .nanosecond
  let l := largestOrDefault L (TUnit.max existing s)
  if l < s then none else
  let i := inc.getD 1
  if !incrementAllowed i s then none else
  some { largest := l, smallest := s, increment := i, mode := mode.getD .halfExpand }

/-- PlainDateTime/ZonedDateTime round: smallest unit required, a time unit or day (then only increment 1). -/
def datetimeRoundSpec (S : Option TUnit) (inc : Option Int) (mode : Option RMode) : Option Resolved :=
  match S with
  | none => none
  | some s =>
    let i := inc.getD 1
    if s = .day then (if i = 1 then some ⟨.auto, s, i, mode.getD .halfExpand⟩ else none)
    else if !s.isTimeUnit then none
    else if !incrementAllowed i s then none
    else some ⟨.auto, s, i, mode.getD .halfExpand⟩

/-- Length of a day in a time unit (Instant.round maximum, inclusive). -/
def dayLengthIn : TUnit → Option Int
  | .hour => some 24 | .minute => some 1440 | .second => some 86400
  | .millisecond => some 86400000 | .microsecond => some 86400000000
  | .nanosecond => some 86400000000000 | _ => none

/-- Instant.round: smallest unit required, a time unit; increment divides the day length (inclusive). -/
def instantRoundSpec (S : Option TUnit) (inc : Option Int) (mode : Option RMode) : Option Resolved :=
  match S with
  | none => none
  | some s =>
    match dayLengthIn s with
    | none => none
    | some d =>
      let i := inc.getD 1
      if i ≤ d ∧ d % i = 0 then some ⟨.auto, s, i, mode.getD .halfExpand⟩ else none

/-- toString precision: smallestUnit (minute … nanosecond) wins over fractionalSecondDigits (auto | 0..9);
    rounding mode defaults to trunc; digit n rounds to 10^(9-n) ns. -/
def toStringSpec (precision : Precision) (S : Option TUnit) (mode : Option RMode) : Option ResolvedToString :=
  let m := mode.getD .trunc
  match S with
  | some .minute => some ⟨.minute, .minute, m, 1⟩
  | some .second => some ⟨.digit 0, .second, m, 1⟩
  | some .millisecond => some ⟨.digit 3, .millisecond, m, 1⟩
  | some .microsecond => some ⟨.digit 6, .microsecond, m, 1⟩
  | some .nanosecond => some ⟨.digit 9, .nanosecond, m, 1⟩
  | some _ => none
  | none =>
    match precision with
    | .auto => some ⟨.auto, .nanosecond, m, 1⟩
    | .minute => none
    | .digit d =>
      if d > 9 then none else
      let u : TUnit := if d = 0 then .second else if d ≤ 3 then .millisecond else if d ≤ 6 then .microsecond else .nanosecond
      let ulen : Nat := if d = 0 then 0 else if d ≤ 3 then 3 else if d ≤ 6 then 6 else 9
      some ⟨.digit d, u, m, 10 ^ (ulen - d)⟩

/-- Nanoseconds the toString increment stands for: digit n ↦ 10^(9−n). -/
def toStringIncrementNs (r : ResolvedToString) : Int :=
  r.increment * (r.smallest.asNanoseconds.getD 1 : Nat)

def ofOption {α} : Option α → Out α
  | some a => .ok a
  | none => .err .range

end TemporalModel
