/-
  Spec/Gregorian.lean — the proleptic Gregorian rule, stated independently of the code.
-/
import TemporalModel.Model.Prim
namespace TemporalModel
namespace Greg

/-- Leap years: divisible by 4, except centuries not divisible by 400. -/
def isLeap (y : Int) : Bool := y % 4 = 0 ∧ (y % 100 ≠ 0 ∨ y % 400 = 0)

/-- Days in month `m` (1..12) of year `y`. -/
def dim (y m : Int) : Int :=
  if m = 2 then (if isLeap y then 29 else 28)
  else if m = 4 ∨ m = 6 ∨ m = 9 ∨ m = 11 then 30 else 31

def diy (y : Int) : Int := if isLeap y then 366 else 365

/-- A calendar day. -/
def Valid (y m d : Int) : Prop := 1 ≤ m ∧ m ≤ 12 ∧ 1 ≤ d ∧ d ≤ dim y m

instance (y m d : Int) : Decidable (Valid y m d) := by unfold Valid; infer_instance

/-- The day after (y, m, d). -/
def nextDay (y m d : Int) : Int × Int × Int :=
  if d < dim y m then (y, m, d + 1)
  else if m < 12 then (y, m + 1, 1)
  else (y + 1, 1, 1)

/-- Days before 1 January of year `y`, counted from 1970-01-01 (closed form of the leap rule). -/
def yearStart (y : Int) : Int :=
  365 * (y - 1970) + (y - 1969) / 4 - (y - 1901) / 100 + (y - 1601) / 400

/-- Days before the first of month `m` within year `y`. -/
def monthStart (y m : Int) : Int :=
  let l : Int := if isLeap y then 1 else 0
  if m = 1 then 0 else if m = 2 then 31 else if m = 3 then 59 + l else if m = 4 then 90 + l
  else if m = 5 then 120 + l else if m = 6 then 151 + l else if m = 7 then 181 + l
  else if m = 8 then 212 + l else if m = 9 then 243 + l else if m = 10 then 273 + l
  else if m = 11 then 304 + l else 334 + l

/-- Position of a calendar day on the day timeline (1970-01-01 ↦ 0). -/
def dayNumber (y m d : Int) : Int := yearStart y + monthStart y m + (d - 1)

/-- Lexicographic order on (y, m, d). -/
def ymdLt (a b : Int × Int × Int) : Prop :=
  a.1 < b.1 ∨ (a.1 = b.1 ∧ (a.2.1 < b.2.1 ∨ (a.2.1 = b.2.1 ∧ a.2.2 < b.2.2)))

/-- ISO day of week, Monday = 1 … Sunday = 7 (1970-01-01 was a Thursday). -/
def dayOfWeek (n : Int) : Int := (n + 3) % 7 + 1

def dayOfYear (y m d : Int) : Int := monthStart y m + d

/-- ISO-8601 week numbering: the week (Mon..Sun) belongs to the year that holds its Thursday. -/
def weekInfo (y m d : Int) : Int × Int :=
  let n := dayNumber y m d
  let dow := dayOfWeek n
  let thursday := n - dow + 4          -- day number of this week's Thursday
  -- year holding that Thursday
  let yy := if thursday < yearStart y then y - 1 else if thursday ≥ yearStart (y + 1) then y + 1 else y
  let week := (thursday - yearStart yy) / 7 + 1
  (week, yy)

end Greg
end TemporalModel
