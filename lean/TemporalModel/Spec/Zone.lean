/-
  Spec/Zone.lean — property C13 as definitions: what the wall clock of an instant is, and which instant a wall-clock
  reading denotes under each disambiguation, for an arbitrary transition table.  All values in nanoseconds; a local
  reading is the date-time read as if it were UTC.
-/
import TemporalModel.Model.Zone
namespace TemporalModel
namespace ZoneSpec

/-- The wall-clock reading of instant `t`: the instant shifted by the offset in force. -/
def wall (z : Zone) (t : Int) : Int := t + z.offsetAt (t / 1000000000) * 1000000000

/-- `t` is an instant whose wall-clock reading is `localNs`. -/
def Matches (z : Zone) (localNs t : Int) : Prop := wall z t = localNs

/-- The transition that skips `localNs`: previous offset `ob`, new offset `oa`, at second `T`, with
    `T + ob ≤ local < T + oa`.  Searches the table in order; returns `(ob, oa)`. -/
def gapOf (localNs : Int) : Int → List (Int × Int) → Option (Int × Int)
  | _, [] => none
  | prev, (T, o) :: rest =>
    if (T + prev) * 1000000000 ≤ localNs ∧ localNs < (T + o) * 1000000000 then some (prev, o)
    else gapOf localNs o rest

/-- The instant a wall-clock reading denotes (C13): the unique match; the earlier / later match of a repeated
    reading; a skipped reading shifted forward (compatible, later) or backward (earlier) by the length of the gap;
    `none` = RangeError (reject with zero or several matches). -/
def instant (z : Zone) (localNs : Int) (d : Disamb) : Option Int :=
  match z.possible localNs with
  | [x] => some x
  | x :: y :: rest =>
    match d with
    | .compatible | .earlier => some x
    | .later => some ((y :: rest).getLast?.getD y)
    | .reject => none
  | [] =>
    match d with
    | .reject => none
    | _ =>
      match gapOf localNs z.initial z.trans with
      | none => none
      | some (ob, oa) =>
        -- forward by the gap, read with the new offset  =  the reading taken with the old offset; and vice versa
        if d = .earlier then some (localNs - oa * 1000000000) else some (localNs - ob * 1000000000)

/-- The first instant of the local calendar day that starts at local reading `dayStart` (C14): the earliest instant
    reading exactly midnight, or — when midnight is skipped — the transition that jumps over it. -/
def startOfDay (z : Zone) (dayStart : Int) : Option Int :=
  let jumps := z.trans.filterMap (fun tr =>
    let t := tr.1 * 1000000000
    if wall z (t - 1) < dayStart ∧ dayStart ≤ wall z t then some t else none)
  (z.possible dayStart ++ jumps).min?

/-- The real elapsed length of the local day, in nanoseconds. -/
def dayLength (z : Zone) (dayStart : Int) : Option Int := do
  let a ← startOfDay z dayStart
  let b ← startOfDay z (dayStart + 86400000000000)
  pure (b - a)

end ZoneSpec
end TemporalModel
