/-
  Spec/GrammarOps.lean — the type-specific rules of C12 on top of Spec/Grammar.lean: which strings each parser
  accepts and the value it assigns.  `none` = RangeError.
-/
import TemporalModel.Spec.Grammar
import TemporalModel.Model.Partial
namespace TemporalModel
namespace Gram
open Fmt (isDigit readNat)

/-- The calendars the crate knows (lower-case identifiers). -/
def knownCalendars : List String :=
  ["iso8601", "gregory", "buddhist", "roc", "japanese", "coptic", "ethiopic", "ethioaa", "indian", "persian", "hebrew",
   "chinese", "dangi", "islamic-civil", "islamic-tbla", "islamic-umalqura", "islamic", "japanext", "islamic-rgsa",
   "islamicc"]

/-- canonical lower-case calendar id of the annotation (default ISO), `none` if unknown. -/
def calendarId (c : Option (List Char)) : Option String :=
  match c with
  | none => some "iso8601"
  | some v => let s := String.ofList (lower v); if knownCalendars.contains s then some s else none

def timeOr0 (t : Option PTime) : PTime := t.getD ⟨0, 0, 0, 0⟩

def isoTimeOf (t : PTime) : IsoTime := ⟨t.hour, t.minute, t.second, t.ns / 1000000, t.ns / 1000 % 1000, t.ns % 1000⟩

/-- `PlainDate::from_str`: a date-time string without `Z`; the date must be representable. -/
def plainDate (cs : List Char) : Option (IsoDate × String) := do
  let r ← dateTime cs
  if r.offset = some .z then none else
  let cal ← calendarId r.calendar
  match plainDateTryNew r.date.year r.date.month r.date.day with
  | .ok d => some (d, cal)
  | _ => none

/-- `PlainDateTime::from_str` -/
def plainDateTime (cs : List Char) : Option (IsoDateTime × String) := do
  let r ← dateTime cs
  if r.offset = some .z then none else
  let cal ← calendarId r.calendar
  let t := isoTimeOf (timeOr0 r.time)
  match plainDateTimeTryNew r.date.year r.date.month r.date.day t.hour t.minute t.second t.millisecond t.microsecond t.nanosecond with
  | .ok d => some (d, cal)
  | _ => none

/-- The short year-month form: DateYear `-`? DateMonth. -/
def yearMonthShort : P (Int × Int) := fun cs => do
  let (y, cs) ← year cs
  let cs := match cs with | '-' :: r => r | r => r
  let (m, cs) ← digitsN 2 cs
  if 1 ≤ m ∧ m ≤ 12 then some ((y, (m : Int)), cs) else none

/-- The short month-day form: `--`? MM `-`? DD (the day must exist in a leap year). -/
def monthDayShort : P (Int × Int) := fun cs => do
  let cs := match cs with | '-' :: '-' :: r => r | r => r
  let (m, cs) ← digitsN 2 cs
  let cs := match cs with | '-' :: r => r | r => r
  let (d, cs) ← digitsN 2 cs
  if 1 ≤ m ∧ m ≤ 12 ∧ 1 ≤ d ∧ (d : Int) ≤ Greg.dim 1972 m then some (((m : Int), (d : Int)), cs) else none

/-- DateSpecMonthDay as pure syntax (day 01..31 whatever the month) — what the ambiguity rule of time strings uses. -/
def monthDaySyntactic : P (Int × Int) := fun cs => do
  let cs := match cs with | '-' :: '-' :: r => r | r => r
  let (m, cs) ← digitsN 2 cs
  let cs := match cs with | '-' :: r => r | r => r
  let (d, cs) ← digitsN 2 cs
  if 1 ≤ m ∧ m ≤ 12 ∧ 1 ≤ d ∧ d ≤ 31 then some (((m : Int), (d : Int)), cs) else none

/-- `PlainTime::from_str`: `T`? Time Offset? annotations, not ambiguous with a year-month or month-day when the `T`
    is absent; or a date-time string that has a time. No `Z`. -/
def plainTime (cs : List Char) : Option IsoTime :=
  let direct : Option IsoTime := do
    let (hasT, body) := match cs with
      | 'T' :: r => (true, r) | 't' :: r => (true, r) | r => (false, r)
    let (t, rest) ← time body
    let (off, rest) : Option POffset × List Char := match offsetOrZ rest with
      | some (o, r') => (some o, r')
      | none => (none, rest)
    if off = some POffset.z then none else
    let tl ← tail rest
    let _ ← calendarOf tl.anns
    -- ambiguity: without the designator the time text (with its offset) must not also read as DateSpecMonthDay or DateSpecYearMonth
    let timeText := body.take (body.length - rest.length)
    let ambiguous := !hasT && ((match monthDaySyntactic timeText with | some (_, []) => true | _ => false) ||
                               (match yearMonthShort timeText with | some (_, []) => true | _ => false))
    if ambiguous then none else some (isoTimeOf t)
  match direct with
  | some t => some t
  | none => do
    let r ← dateTime cs
    if r.offset = some POffset.z then none else
    let t ← r.time
    some (isoTimeOf t)

/-- `PlainYearMonth::from_str` → (year, month); ISO calendar only. -/
def plainYearMonth (cs : List Char) : Option (Int × Int) :=
  let short : Option (Int × Int) := do
    let ((y, m), rest) ← yearMonthShort cs
    let tl ← tail rest
    let cal ← calendarOf tl.anns
    let id ← calendarId cal
    if id ≠ "iso8601" then none else some (y, m)
  let ym := match short with
    | some v => some v
    | none => do
      let r ← dateTime cs
      if r.offset = some POffset.z then none else
      let id ← calendarId r.calendar
      if id ≠ "iso8601" then none else some (r.date.year, r.date.month)
  ym.bind (fun v => if yearMonthWithinLimits v.1 v.2 then some v else none)

/-- `PlainMonthDay::from_str` → (month, day); ISO calendar only. -/
def plainMonthDay (cs : List Char) : Option (Int × Int) :=
  let short : Option (Int × Int) := do
    let (md, rest) ← monthDayShort cs
    let tl ← tail rest
    let cal ← calendarOf tl.anns
    let id ← calendarId cal
    if id ≠ "iso8601" then none else some md
  match short with
  | some v => some v
  | none => do
    let r ← dateTime cs
    if r.offset = some POffset.z then none else
    let id ← calendarId r.calendar
    if id ≠ "iso8601" then none else some (r.date.month, r.date.day)

def offsetNs : POffset → Int | .z => 0 | .num n => n

/-- local reading minus the offset -/
def instantNs (d : PDate) (t : PTime) (off : POffset) : Int :=
  Greg.dayNumber d.year d.month d.day * 86400000000000 + (isoTimeOf t).toNs - offsetNs off

/-- `Instant::from_str`: date, time and an offset or `Z` are all required → epoch nanoseconds. -/
def instant (cs : List Char) : Option Int := do
  let r ← dateTime cs
  let t ← r.time
  let off ← r.offset
  -- the date may lie one day outside the plain-date range as long as the instant is in range
  let ns := instantNs r.date t off
  if -8640000000000000000000 ≤ ns ∧ ns ≤ 8640000000000000000000 then some ns else none

/-- `UtcOffset::from_str`: ±HH, ±HH:MM or ±HHMM (no seconds) → minutes. -/
def utcOffset (cs : List Char) : Option Int :=
  match cs with
  | c :: _ =>
    -- the crate's own reader of offset identifiers takes ASCII signs only
    if c = '+' ∨ c = '-' then
      match offset false cs with
      | some (ns, []) => some (ns / 60000000000)
      | _ => none
    else none
  | [] => none

/-- A time zone named by a string: a whole-minute UTC offset, or an IANA name (kept as written). -/
inductive TzOut where
  | off (minutes : Int)
  | name (s : List Char)
  deriving Repr, DecidableEq

/-- TimeZoneIdentifier: `UTCOffset[~SubMinutePrecision]` (ASCII sign) or TimeZoneIANAName. -/
def timeZoneIdentifier (cs : List Char) : Option TzOut :=
  match utcOffset cs with
  | some m => some (.off m)
  | none =>
    match cs with
    | c :: _ => if c = '+' ∨ c = '-' then none else if ianaName cs then some (.name cs) else none
    | [] => none

/-- The zone an ISO string carries (ParseTemporalTimeZoneString, steps after the identifier attempt): the bracketed
    annotation if there is one; else `Z` = UTC; else the numeric offset, which must be of minute precision — a time
    zone offset has no seconds, and dropping them would change the value; else nothing. -/
def zoneOfParts (off : Option POffset) (tz : Option (Bool × TzId)) : Option TzOut :=
  match tz with
  | some (_, .name n) => some (.name n)
  | some (_, .off ns) => some (.off (ns / 60000000000))
  | none =>
    match off with
    | some .z => some (.name "UTC".toList)
    | some (.num ns) => if ns % 60000000000 = 0 then some (.off (ns / 60000000000)) else none
    | none => none

/-- `TimeZone::try_from_str`: a time zone identifier, or any Temporal ISO string that carries a zone — the goals are
    date-time, time, year-month, month-day; a string that, without the time designator, also reads as a month-day or a
    year-month is not a time string (the same early error as for `PlainTime`); a year-month or month-day must exist. -/
def timeZone (cs : List Char) : Option TzOut :=
  match timeZoneIdentifier cs with
  | some z => some z
  | none =>
    match dateTime cs with
    | some r => zoneOfParts r.offset r.tz
    | none =>
      let timeGoal : Option (Option TzOut) := do
        let (hasT, body) := match cs with
          | 'T' :: r => (true, r) | 't' :: r => (true, r) | r => (false, r)
        let (_, rest) ← time body
        let (off, rest) : Option POffset × List Char := match offsetOrZ rest with
          | some (o, r') => (some o, r')
          | none => (none, rest)
        let tl ← tail rest
        let _ ← calendarOf tl.anns
        let timeText := body.take (body.length - rest.length)
        let ambiguous := !hasT && ((match monthDaySyntactic timeText with | some (_, []) => true | _ => false) ||
                                   (match yearMonthShort timeText with | some (_, []) => true | _ => false))
        if ambiguous then none else some (zoneOfParts off tl.tz)
      -- year-month / month-day strings carry no offset
      let ym : Option (Option TzOut) := do
        let (_, rest) ← yearMonthShort cs
        let tl ← tail rest
        let _ ← calendarOf tl.anns
        some (zoneOfParts none tl.tz)
      let md : Option (Option TzOut) := do
        let (_, rest) ← monthDayShort cs
        let tl ← tail rest
        let _ ← calendarOf tl.anns
        some (zoneOfParts none tl.tz)
      match timeGoal with
      | some z => z
      | none =>
        match ym with
        | some z => z
        | none =>
          match md with
          | some z => z
          | none => none

/-- The calendar annotation an ISO string of any Temporal type carries (ParseTemporalCalendarString, first branch):
    `none` = the text is no such string; `some none` = it is one and has no calendar annotation. The goals and their
    rules are those of `timeZone`. -/
def calendarOfString (cs : List Char) : Option (Option (List Char)) :=
  match dateTime cs with
  | some r => some r.calendar
  | none =>
    let timeGoal : Option (Option (List Char)) := do
      let (hasT, body) := match cs with
        | 'T' :: r => (true, r) | 't' :: r => (true, r) | r => (false, r)
      let (_, rest) ← time body
      let rest : List Char := match offsetOrZ rest with
        | some (_, r') => r'
        | none => rest
      let tl ← tail rest
      let cal ← calendarOf tl.anns
      let timeText := body.take (body.length - rest.length)
      let ambiguous := !hasT && ((match monthDaySyntactic timeText with | some (_, []) => true | _ => false) ||
                                 (match yearMonthShort timeText with | some (_, []) => true | _ => false))
      if ambiguous then none else some cal
    let ym : Option (Option (List Char)) := do
      let (_, rest) ← yearMonthShort cs
      let tl ← tail rest
      calendarOf tl.anns
    let md : Option (Option (List Char)) := do
      let (_, rest) ← monthDayShort cs
      let tl ← tail rest
      calendarOf tl.anns
    match timeGoal with
    | some c => some c
    | none =>
      match ym with
      | some c => some c
      | none => md

def hexDigit (n : Nat) : Char := if n < 10 then Char.ofNat (48 + n) else Char.ofNat (87 + n)

/-- offset zones by their identifier, names as the hexadecimal UTF-8 bytes (they may hold any character) -/
def TzOut.render : TzOut → String
  | .off m => "offset " ++ String.ofList (Fmt.offsetMinutes m)
  | .name n => "name " ++ String.ofList ((String.ofList n).toUTF8.toList.flatMap
      (fun b => [hexDigit (b.toNat / 16), hexDigit (b.toNat % 16)]))

/-- `MonthCode::from_str`: `M` and two digits, optionally followed by `L`; `M00` exists only as `M00L`. -/
def monthCode (cs : List Char) : Option (Nat × Bool) :=
  match cs with
  | 'M' :: a :: b :: rest =>
    if isDigit a ∧ isDigit b then
      let n := readNat [a, b]
      match rest with
      | [] => if n = 0 then none else some (n, false)
      | ['L'] => some (n, true)
      | _ => none
    else none
  | _ => none

/-! ### Durations -/

/-- digits (at least one) -/
def number : P Nat := fun cs =>
  let ds := cs.takeWhile isDigit
  if ds.isEmpty then none else some (readNat ds, cs.drop ds.length)

/-- `n` optionally followed by a fraction, then the designator `u` (either case). Returns (whole, fraction ns?). -/
def component (u : Char) : P (Nat × Option Nat) := fun cs => do
  let (n, cs) ← number cs
  let (f, cs) := match fraction cs with
    | some (f, r) => (some f, r)
    | none => (none, cs)
  match cs with
  | c :: r => if c.toUpper = u then some ((n, f), r) else none
  | [] => none

/-- TemporalDurationString → the ten fields (all of one sign). -/
def duration (cs : List Char) : Option Dur := do
  let (sign, cs) := match cs with
    | '+' :: r => ((1 : Int), r)
    | c :: r => if isMinus c then (-1, r) else (1, c :: r)
    | [] => (1, [])
  let cs ← (match cs with | 'P' :: r => some r | 'p' :: r => some r | _ => none)
  -- date part: each designator at most once, in order
  let take (u : Char) (cs : List Char) : Option (Nat × List Char) :=
    match component u cs with
    | some ((n, none), r) => some (n, r)
    | _ => none
  let (y, cs, any) := match take 'Y' cs with | some (n, r) => (n, r, true) | none => (0, cs, false)
  let (mo, cs, any) := match take 'M' cs with | some (n, r) => (n, r, true) | none => (0, cs, any)
  let (w, cs, any) := match take 'W' cs with | some (n, r) => (n, r, true) | none => (0, cs, any)
  let (d, cs, any) := match take 'D' cs with | some (n, r) => (n, r, true) | none => (0, cs, any)
  match cs with
  | [] => if any then some ⟨sign * y, sign * mo, sign * w, sign * d, 0, 0, 0, 0, 0, 0⟩ else none
  | t :: cs =>
    if t ≠ 'T' ∧ t ≠ 't' then none else
    -- time part: at least one component; a fraction only on the last one
    let (h, cs, anyT, frH) := match component 'H' cs with
      | some ((n, f), r) => (n, r, true, f) | none => (0, cs, false, none)
    let (mi, cs, anyT, frM) := match (if frH.isSome then none else component 'M' cs) with
      | some ((n, f), r) => (n, r, true, f) | none => (0, cs, anyT, none)
    let (s, cs, anyT, frS) := match (if frH.isSome ∨ frM.isSome then none else component 'S' cs) with
      | some ((n, f), r) => (n, r, true, f) | none => (0, cs, anyT, none)
    if ¬ anyT ∨ ¬ cs.isEmpty then none else
    -- fractions cascade downwards: hours → minutes → seconds → sub-second fields
    let extraMinNs : Nat := match frH with | some f => f * 3600 | none => 0          -- in units of 1e-9 minute·60 … nanoseconds of time
    let mi := mi + extraMinNs / 60000000000
    let secNs : Nat := extraMinNs % 60000000000 + (match frM with | some f => f * 60 | none => 0)
    let s := s + secNs / 1000000000
    let subNs : Nat := secNs % 1000000000 + (match frS with | some f => f | none => 0)
    some ⟨sign * y, sign * mo, sign * w, sign * d, sign * h, sign * mi, sign * s,
          sign * (subNs / 1000000), sign * (subNs / 1000 % 1000), sign * (subNs % 1000)⟩

/-- `Duration::from_str`: the grammar, then the duration limits. -/
def durationChecked (cs : List Char) : Option Dur := do
  let d ← duration cs
  match Dur.new d with
  | .ok d => some d
  | _ => none

end Gram
end TemporalModel
