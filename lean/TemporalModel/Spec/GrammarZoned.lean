/-
  Spec/GrammarZoned.lean — what a ZonedDateTime / relativeTo string denotes: the grammar of Spec/Grammar.lean read into
  a date, time, offset, zone and calendar, then resolved by the wall-clock rules of Model/Zone.lean (C13).
  Zones: an offset annotation, or a named zone without transitions (the correspondence run uses `UTC`).
-/
import TemporalModel.Spec.GrammarOps
import TemporalModel.Model.Zone
namespace TemporalModel
namespace Gram

/-- The zone of an annotation, for the purposes of this file. -/
def tzOfId : TzId → TZ
  | .off ns => .offset (ns / 60000000000)
  | .name _ => .named ⟨0, []⟩

/-- `(isExact, offset)` of a parsed offset: `Z` is the exact UTC instant. -/
def offsetParts : Option POffset → Bool × Option Int
  | some .z => (true, none)
  | some (.num n) => (false, some n)
  | none => (false, none)

/-- `ZonedDateTime::from_str(s, disambiguation, offset option)` → (epoch nanoseconds, calendar). A bracketed time
    zone is required; the date must exist and be in range; everything else is a RangeError. -/
def zonedDateTime (cs : List Char) (dis : Disamb) (oo : OffsetOpt) : Out (Int × String) :=
  match dateTime cs with
  | none => .err .range
  | some r =>
    match r.tz, calendarId r.calendar with
    | some (_, id), some cal => do
      let date ← IsoDate.newWithOverflow r.date.year r.date.month r.date.day .reject
      let (isExact, off) := offsetParts r.offset
      let ns ← interpretOffset date (r.time.map isoTimeOf) isExact off (tzOfId id) dis oo
      let ns ← TZ.epochNs ns
      pure (ns, cal)
    | _, _ => .err .range

inductive RelOut where
  | plain (d : IsoDate) (cal : String)
  | zoned (ns : Int) (cal : String)
  deriving Repr, DecidableEq

/-- `RelativeTo::try_from_str`: with a bracketed zone a zoned date-time (compatible; an offset must match), without
    one a plain date (`Z` is then refused). -/
def relativeTo (cs : List Char) : Out RelOut :=
  match dateTime cs with
  | none => .err .range
  | some r =>
    match calendarId r.calendar with
    | none => .err .range
    | some cal =>
      match r.tz with
      | none =>
        if r.offset = some .z then .err .range else do
          let d ← plainDateTryNew r.date.year r.date.month r.date.day
          pure (.plain d cal)
      | some (_, id) => do
        let date ← IsoDate.newWithOverflow r.date.year r.date.month r.date.day .constrain
        let (isExact, off) := offsetParts r.offset
        let ns ← interpretOffset date (r.time.map isoTimeOf) isExact off (tzOfId id) .compatible .reject
        let ns ← TZ.epochNs ns
        pure (.zoned ns cal)

/-- Whether the first bracketed group of a string is an offset or `UTC` (the zones this file covers). -/
def coveredZone (cs : List Char) : Bool :=
  match cs.dropWhile (· ≠ '[') with
  | '[' :: rest =>
    let rest := match rest with | '!' :: r => r | r => r
    let body := rest.takeWhile (· ≠ ']')
    match body with
    | c :: _ => c = '+' ∨ c = '-' ∨ c = '−' ∨ body = "UTC".toList
    | [] => false
  | _ => true

end Gram
end TemporalModel
