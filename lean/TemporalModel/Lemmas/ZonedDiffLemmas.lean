/-
  Lemmas/ZonedDiffLemmas.lean — what `DifferenceZonedDateTime` (Model/Zone.lean zdtDiffZoned) hands to the rounding
  step: a date part that `add` maps from the receiver's wall-clock date onto the intermediate date, and a time part
  measured from the intermediate date-time's instant.
-/
import TemporalModel.Props.C04
import TemporalModel.Lemmas.RelZonedLemmas
namespace TemporalModel
open Greg

/-- The day-correction loop returns the receiver's time of day on some date, resolved in the zone, and the time
    from that instant to the other one. -/
theorem dayCorrectionLoop_spec (tz : TZ) (start end_ : IsoDateTime) (ns2 sign maxCorr : Int) :
    ∀ (fuel : Nat) (corr : Int) (idt : IsoDateTime) (td : Int),
      dayCorrectionLoop tz start end_ ns2 sign maxCorr fuel corr = .ok (idt, td) →
      idt.time = start.time ∧ ∃ ins, tz.epochNsFor idt .compatible = .ok ins ∧ td = ns2 - ins ∧
        (td.natAbs : Int) ≤ Dur.MAX_TIME_DURATION := by
  intro fuel
  induction fuel with
  | zero => intro corr idt td h; simp [dayCorrectionLoop] at h
  | succ n ih =>
    intro corr idt td h
    unfold dayCorrectionLoop at h
    simp only at h
    obtain ⟨ins, h1, h⟩ := Out.bind_eq_ok h
    obtain ⟨t, h2, h⟩ := Out.bind_eq_ok h
    obtain ⟨rfl, hbd⟩ := normChecked_eq_ok (by simpa [nsDifference] using h2)
    split at h
    · cases h
      exact ⟨rfl, ins, h1, rfl, hbd⟩
    · exact ih _ _ _ h

theorem timeFromNormalized_zero_day : timeFromNormalized 0 .day = .ok Dur.zero := by decide +kernel

/-- A successful `add_date_duration` had an `i32`-sized day count. -/
theorem addDateDuration_ok_days {a b : IsoDate} {y m w d : Int} {ov : Overflow}
    (h : a.addDateDuration y m w d ov = .ok b) : -2147483648 ≤ d ∧ d ≤ 2147483647 := by
  unfold IsoDate.addDateDuration at h
  obtain ⟨_, _, h⟩ := Out.bind_eq_ok h
  obtain ⟨_, _, h⟩ := Out.bind_eq_ok h
  obtain ⟨_, _, h⟩ := Out.bind_eq_ok h
  obtain ⟨_, _, h⟩ := Out.bind_eq_ok h
  obtain ⟨dd, hd, _⟩ := Out.bind_eq_ok h
  unfold asDateValue at hd
  split at hd
  · assumption
  · cases hd

/-- `until` then `add` at the level `DifferenceZonedDateTime` uses them: the date difference of two dates in range,
    with any largest unit, is mapped by `add_date_duration` from the first date exactly onto the second. -/
theorem internalDiff_add_inverse (a b : IsoDate) (L : TUnit) (D : Dur) (ha : InRange a) (hb : InRange b)
    (h : plainDateInternalDiff a b L = .ok D) :
    a.addDateDuration D.years D.months D.weeks D.days .constrain = .ok b := by
  unfold plainDateInternalDiff at h
  by_cases hab : a = b
  · rw [if_pos hab] at h
    cases h; subst hab
    exact add_zero_self a ha
  · rw [if_neg hab] at h
    by_cases hL : L = .day
    · rw [if_pos hL] at h
      have := durNew_eq_ok h
      subst this
      have hbal : balanceIsoYearMonth (a.year + 0) (a.month + 0) = (a.year, a.month) := by
        unfold balanceIsoYearMonth; have := ha.1.1; have := ha.1.2.1
        simp only [Int.add_zero, Prod.mk.injEq]; omega
      have hay := inRange_year a ha
      have hby := inRange_year b hb
      have ta : a.toEpochDays = dayNumber a.year a.month a.day :=
        C01_toDays _ _ _ (by unfold InWin; omega) ha.1.1 ha.1.2.1
      have tb : b.toEpochDays = dayNumber b.year b.month b.day :=
        C01_toDays _ _ _ (by unfold InWin; omega) hb.1.1 hb.1.2.1
      apply add_diff_inverse a b 0 0 a ha hb (by decide) (by decide)
      · rw [hbal]; exact newWithOverflow_of_inRange a .constrain ha
      · show b.toEpochDays - a.toEpochDays + 0 * 7 = b.toEpochDays - a.toEpochDays; omega
      · show ((0 : Int).natAbs : Int) < 2147483648; decide
      · show ((b.toEpochDays - a.toEpochDays).natAbs : Int) < 2147483648
        have := ha.2; have := hb.2; omega
    · rw [if_neg hL] at h
      exact diff_add_inverse a b L D ha hb h

/-- The same through `PlainDate::add_date` (what `NudgeToZonedTime` and `AddZonedDateTime` call). -/
theorem plainDateAdd_internalDiff (a b : IsoDate) (L : TUnit) (D : Dur) (ha : InRange a) (hb : InRange b)
    (h : plainDateInternalDiff a b L = .ok D) :
    plainDateAdd a (dateDur D.years D.months D.weeks D.days) .constrain = .ok b := by
  have hinv := internalDiff_add_inverse a b L D ha hb h
  have hdb := addDateDuration_ok_days hinv
  have hof : F64.ofInt (D.days + 0) = D.days := by
    rw [Int.add_zero]; exact ofInt_small _ (by omega)
  have htn : plainDateTryNew b.year b.month b.day = .ok b := newWithOverflow_of_inRange b .reject hb
  unfold plainDateAdd
  have ht : (dateDur D.years D.months D.weeks D.days).timeNs = 0 := rfl
  rw [ht, timeFromNormalized_zero_day]
  simp only [Out.bind_ok]
  show (if D.years ≠ 0 ∨ D.months ≠ 0 ∨ D.weeks ≠ 0 then _ else _) = _
  have e0 : (dateDur D.years D.months D.weeks D.days).days + Dur.zero.days = D.days + 0 := rfl
  by_cases hc : D.years ≠ 0 ∨ D.months ≠ 0 ∨ D.weeks ≠ 0
  · rw [if_pos hc]
    show (do let r ← a.addDateDuration D.years D.months D.weeks (F64.ofInt (D.days + 0)) .constrain
             plainDateTryNew r.year r.month r.day) = _
    rw [hof, hinv]; exact htn
  · rw [if_neg hc]
    have hz : D.years = 0 ∧ D.months = 0 ∧ D.weeks = 0 := by omega
    show (do let _ ← Dur.new ⟨0, 0, 0, F64.ofInt (D.days + 0), 0, 0, 0, 0, 0, 0⟩
             let r ← a.addDateDuration 0 0 0 (F64.ofInt (D.days + 0)) .constrain
             plainDateTryNew r.year r.month r.day) = _
    rw [hof]
    have hnew : Dur.new ⟨0, 0, 0, D.days, 0, 0, 0, 0, 0, 0⟩ = .ok ⟨0, 0, 0, D.days, 0, 0, 0, 0, 0, 0⟩ := by
      unfold Dur.new
      rw [if_pos]
      apply (valid_iff _).mpr
      refine ⟨?_, by show (0:Int).natAbs < 4294967296; decide, by show (0:Int).natAbs < 4294967296; decide,
        by show (0:Int).natAbs < 4294967296; decide, ?_⟩
      · unfold Dur.signUniform
        simp only [Dur.fields, List.mem_cons, List.mem_nil_iff, or_false, forall_eq_or_imp, forall_eq]
        omega
      · simp only [Dur.totalNs, Dur.timeNs]; omega
    rw [hnew]
    simp only [Out.bind_ok]
    rw [hz.1, hz.2.1, hz.2.2] at hinv
    rw [hinv]; exact htn

/-- `PlainDate::try_new` returns the date it was given, and only dates in range. -/
theorem plainDateTryNew_ok {y m d : Int} {r : IsoDate} (h : plainDateTryNew y m d = .ok r) :
    r = ⟨y, m, d⟩ ∧ InRange r := by
  refine ⟨?_, newWithOverflow_inRange _ _ _ _ _ h⟩
  unfold plainDateTryNew IsoDate.newWithOverflow at h
  rw [regulate_reject] at h
  split at h
  · simp only [Out.bind_ok] at h
    split at h
    · cases h; rfl
    · cases h
  · cases h

/-- **What `DifferenceZonedDateTime` hands to the rounding step**: the date part, added to the receiver's wall-clock
    date and resolved in the zone at the receiver's time of day, is an instant from which the time part reaches the
    other instant exactly. -/
theorem zdtDiffZoned_bracket (tz : TZ) (ns1 ns2 : Int) (L : TUnit) (date : Dur) (td : Int) (dt : IsoDateTime)
    (hne : ns1 ≠ ns2) (hd : zdtDiffZoned tz ns1 ns2 L = .ok (date, td)) (hdt : tz.isoDateTimeFor ns1 = .ok dt) :
    ∃ mid ins, plainDateAdd dt.date (dateDur date.years date.months date.weeks date.days) .constrain = .ok mid ∧
      tz.epochNsFor ⟨mid, dt.time⟩ .compatible = .ok ins ∧ ins + td = ns2 ∧
      date = dateDur date.years date.months date.weeks date.days ∧
      (-2147483648 ≤ date.days ∧ date.days ≤ 2147483647) ∧ (td.natAbs : Int) ≤ Dur.MAX_TIME_DURATION ∧
      InRange dt.date := by
  unfold zdtDiffZoned at hd
  rw [if_neg hne, hdt] at hd
  simp only [Out.bind_ok] at hd
  obtain ⟨end_, _, hd⟩ := Out.bind_eq_ok hd
  obtain ⟨⟨idt, td'⟩, hloop, hd⟩ := Out.bind_eq_ok hd
  obtain ⟨htime, ins, hins, htd, htb⟩ := dayCorrectionLoop_spec _ _ _ _ _ _ _ _ _ _ hloop
  simp only at hd
  obtain ⟨sd, hsd, hd⟩ := Out.bind_eq_ok hd
  obtain ⟨ed, hed, hd⟩ := Out.bind_eq_ok hd
  obtain ⟨dd, hdd, hd⟩ := Out.bind_eq_ok hd
  obtain ⟨e1, r1⟩ := plainDateTryNew_ok hsd
  obtain ⟨e2, r2⟩ := plainDateTryNew_ok hed
  have hadd := plainDateAdd_internalDiff sd ed _ dd r1 r2 hdd
  split at hd
  · cases hd
  · cases hd
    have hsd : sd = dt.date := by rw [e1]
    refine ⟨ed, ins, ?_, ?_, by omega, rfl, addDateDuration_ok_days (internalDiff_add_inverse sd ed _ dd r1 r2 hdd), htb,
      hsd ▸ r1⟩
    · have : sd = dt.date := by rw [e1]
      rw [← this]; exact hadd
    · have : (⟨ed, dt.time⟩ : IsoDateTime) = idt := by
        rw [e2, ← htime]
      rw [this]; exact hins

end TemporalModel
