import TemporalModel.Model.Round
import TemporalModel.Spec.Round
namespace TemporalModel
open RoundI128

theorem neg_decomp (x inc : Int) (h : 0 < inc) :
    (-x) / inc = (if x % inc = 0 then -(x / inc) else -(x / inc) - 1) ∧
    (-x) % inc = (if x % inc = 0 then 0 else inc - x % inc) := by
  have h1 := Int.emod_nonneg x (Int.ne_of_gt h)
  have h2 := Int.emod_lt_of_pos x h
  have h3 := Int.mul_ediv_add_emod x inc
  split
  · rename_i h0
    apply (Int.ediv_emod_unique h).2
    refine ⟨?_, by omega, h⟩
    rw [Int.mul_neg]; omega
  · rename_i h0
    apply (Int.ediv_emod_unique h).2
    refine ⟨?_, by omega, by omega⟩
    rw [Int.mul_sub, Int.mul_neg, Int.mul_one]; omega

theorem lower_sign (x inc : Int) (h : 0 < inc) :
    (0 ≤ x → 0 ≤ inc * (x / inc)) ∧ (x < 0 → inc * (x / inc) + inc ≤ 0) := by
  constructor
  · intro hx; exact Int.mul_nonneg (Int.le_of_lt h) (Int.ediv_nonneg hx (Int.le_of_lt h))
  · intro hx
    have : x / inc < 0 := Int.ediv_neg_of_neg_of_pos hx h
    have h2 : inc * (x / inc) ≤ inc * (-1) := Int.mul_le_mul_of_nonneg_left (by omega) (Int.le_of_lt h)
    omega

/-- Non-negative case: the coded rounder equals the specification. -/
theorem round_eq_spec_nonneg (x inc : Int) (mode : RMode) (h : 0 < inc) (hx : 0 ≤ x) :
    RoundI128.round x inc mode = roundSpec x inc mode := by
  have h1 := Int.emod_nonneg x (Int.ne_of_gt h)
  have h2 := Int.emod_lt_of_pos x h
  have h3 := Int.mul_ediv_add_emod x inc
  have hq : 0 ≤ x / inc := Int.ediv_nonneg hx (Int.le_of_lt h)
  have hcancel : inc * (x / inc) / inc = x / inc := Int.mul_ediv_cancel_left _ (Int.ne_of_gt h)
  have hna : ((x.natAbs : Nat) : Int) = x := by omega
  have hqa : (((x / inc).natAbs : Nat) : Int) = x / inc := by omega
  have e1 : (x / inc) * inc = inc * (x / inc) := Int.mul_comm _ _
  have e2 : (x / inc + 1) * inc = inc * (x / inc) + inc := by
    rw [Int.add_mul, Int.one_mul, Int.mul_comm]
  unfold RoundI128.round applyU isExact resultFloor resultCeil compareRemainder isEvenCardinal
    quotientAbs roundSpec lowerMultiple
  simp only [hna, Int.tdiv_eq_ediv_of_nonneg hx, Int.tmod_eq_emod_of_nonneg hx, hqa, hcancel,
    decide_eq_true hx, if_true, beq_iff_eq]
  cases mode <;> simp only [RMode.unsigned, reduceCtorEq, if_false, if_true] <;>
    (repeat (any_goals split)) <;>
    (try simp only [Int.compare_eq_lt, Int.compare_eq_gt, Int.compare_eq_eq] at *) <;> omega

/-- Negative case. -/
theorem round_eq_spec_neg (x inc : Int) (mode : RMode) (h : 0 < inc) (hx : x < 0) :
    RoundI128.round x inc mode = roundSpec x inc mode := by
  have h1 := Int.emod_nonneg x (Int.ne_of_gt h)
  have h2 := Int.emod_lt_of_pos x h
  have h3 := Int.mul_ediv_add_emod x inc
  have ⟨hd1, hd2⟩ := neg_decomp x inc h
  have hnx : 0 ≤ -x := by omega
  have hq : 0 ≤ (-x) / inc := Int.ediv_nonneg hnx (Int.le_of_lt h)
  have hcancel : inc * (x / inc) / inc = x / inc := Int.mul_ediv_cancel_left _ (Int.ne_of_gt h)
  have hna : ((x.natAbs : Nat) : Int) = -x := by omega
  have htd : Int.tdiv x inc = -((-x) / inc) := by
    have : x = -(-x) := by omega
    rw [this, Int.neg_tdiv, Int.tdiv_eq_ediv_of_nonneg hnx]; simp
  have hqa : (((Int.tdiv x inc).natAbs : Nat) : Int) = (-x) / inc := by rw [htd]; omega
  have e1 : ((-x) / inc) * inc = inc * ((-x) / inc) := Int.mul_comm _ _
  have e2 : ((-x) / inc + 1) * inc = inc * ((-x) / inc) + inc := by
    rw [Int.add_mul, Int.one_mul, Int.mul_comm]
  have e3 : (-((-x) / inc)) * inc = - (inc * ((-x) / inc)) := by
    rw [Int.neg_mul, Int.mul_comm]
  have e4 : (-((-x) / inc + 1)) * inc = - (inc * ((-x) / inc)) - inc := by
    rw [Int.neg_mul, Int.add_mul, Int.one_mul, Int.mul_comm]; omega
  have e5 : inc * (-(x / inc)) = - (inc * (x / inc)) := Int.mul_neg _ _
  have e6 : inc * (-(x / inc) - 1) = - (inc * (x / inc)) - inc := by
    rw [Int.mul_sub, Int.mul_neg, Int.mul_one]
  have hnd : ¬ (x ≥ 0) := by omega
  unfold RoundI128.round applyU isExact resultFloor resultCeil compareRemainder isEvenCardinal
    quotientAbs roundSpec lowerMultiple
  simp only [hna, hqa, Int.tmod_eq_emod_of_nonneg hnx, hcancel,
    decide_eq_false hnd, if_false, beq_iff_eq, Bool.false_eq_true]
  by_cases hr : x % inc = 0
  · simp only [hr, if_true] at hd1 hd2
    rw [hd1] at e1 e2 e3 e4 hq
    rw [hd1, hd2]
    cases mode <;> simp only [RMode.unsigned, reduceCtorEq, if_false, if_true] <;>
      (repeat (any_goals split)) <;>
      (try simp only [Int.compare_eq_lt, Int.compare_eq_gt, Int.compare_eq_eq] at *) <;> omega
  · simp only [hr, if_false] at hd1 hd2
    rw [hd1] at e1 e2 e3 e4 hq
    rw [hd1, hd2]
    cases mode <;> simp only [RMode.unsigned, reduceCtorEq, if_false, if_true] <;>
      (repeat (any_goals split)) <;>
      (try simp only [Int.compare_eq_lt, Int.compare_eq_gt, Int.compare_eq_eq] at *) <;> omega

end TemporalModel
