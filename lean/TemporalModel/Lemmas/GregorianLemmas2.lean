import TemporalModel.Lemmas.GregorianLemmas
namespace TemporalModel
open NS Greg

/-- Length of the computational month M (3 = March … 12 = December, 13 = January, 14 = February incl. leap day). -/
def compMonthLen (M : Int) : Int :=
  if M = 14 then 29 else if M = 4 ∨ M = 6 ∨ M = 9 ∨ M = 11 then 30 else 31

theorem monthday_table2 : ∀ k : Fin 366,
    let doy : Int := k.val
    let n3 := 2141 * doy + 197913
    let M := n3 / 65536
    let D := n3 % 65536 / 2141
    D + 1 ≤ compMonthLen M ∧ (M = 14 → D = 28 → doy = 365) := by
  decide +kernel

theorem monthday2 (doy : Int) (h0 : 0 ≤ doy) (h1 : doy ≤ 365) :
    let n3 := 2141 * doy + 197913
    let M := n3 / 65536
    let D := n3 % 65536 / 2141
    D + 1 ≤ compMonthLen M ∧ (M = 14 → D = 28 → doy = 365) := by
  have := monthday_table2 ⟨doy.toNat, by omega⟩
  have e : ((doy.toNat : Nat) : Int) = doy := by omega
  simp only [e] at this
  exact this

/-- The day produced by the reverse kernel exists in its month (leap day only in leap years). -/
theorem fromDays_valid_core (rd C R z r4 yoc e doy f M D : Int)
    (hN1 : 4 * rd + 3 = 146097 * C + R) (hR0 : 0 ≤ R) (hR1 : R < 146097)
    (hz : R = 4 * z + r4) (hr40 : 0 ≤ r4) (hr41 : r4 ≤ 3)
    (hyoc : 4 * z + 3 = 1461 * yoc + e) (he0 : 0 ≤ e) (he1 : e < 1461)
    (hdoy : e = 4 * doy + f) (hf0 : 0 ≤ f) (hf1 : f ≤ 3)
    (hM3 : 3 ≤ M) (hM14 : M ≤ 14) (hD0 : 0 ≤ D)
    (hlen : D + 1 ≤ compMonthLen M) (hfeb : M = 14 → D = 28 → doy = 365) (hj : doy ≥ 306 ↔ M ≥ 13) :
    let j : Int := if doy ≥ 306 then 1 else 0
    D + 1 ≤ dim (100 * C + yoc + j - 400 * 3670) (M - 12 * j) := by
  have hyoc0 : 0 ≤ yoc := by omega
  have hyoc1 : yoc ≤ 99 := by omega
  unfold compMonthLen at hlen
  by_cases hd : doy ≥ 306
  · have hM13 : M ≥ 13 := hj.mp hd
    simp only [hd, if_true]
    have hM : M = 13 ∨ M = 14 := by omega
    rcases hM with rfl | rfl
    · simp [dim] at *; omega
    · by_cases hD : D = 28
      · have h365 := hfeb rfl hD
        -- leap year
        have hl : isLeap (100 * C + yoc + 1 - 400 * 3670) = true := by
          unfold isLeap
          obtain ⟨c4, cr, hCd, hcr0, hcr3⟩ : ∃ c4 cr : Int, C = 4 * c4 + cr ∧ 0 ≤ cr ∧ cr ≤ 3 := ⟨C / 4, C % 4, by omega⟩
          obtain ⟨y4, yr, hYd, hyr0, hyr3⟩ : ∃ y4 yr : Int, yoc = 4 * y4 + yr ∧ 0 ≤ yr ∧ yr ≤ 3 := ⟨yoc / 4, yoc % 4, by omega⟩
          subst hCd hYd
          have hcr : cr = 0 ∨ cr = 1 ∨ cr = 2 ∨ cr = 3 := by omega
          have hyr : yr = 0 ∨ yr = 1 ∨ yr = 2 ∨ yr = 3 := by omega
          simp only [decide_eq_true_eq]
          rcases hcr with rfl | rfl | rfl | rfl <;> rcases hyr with rfl | rfl | rfl | rfl <;> omega
        show D + 1 ≤ dim (100 * C + yoc + 1 - 400 * 3670) 2
        unfold dim; rw [if_pos rfl, hl]; simp only [if_true]; omega
      · have : D ≤ 27 := by simp at hlen; omega
        simp only [dim]
        split <;> (try split) <;> omega
  · have hM12 : ¬ M ≥ 13 := fun h => hd (hj.mpr h)
    simp only [hd, if_false]
    have hM : M = 3 ∨ M = 4 ∨ M = 5 ∨ M = 6 ∨ M = 7 ∨ M = 8 ∨ M = 9 ∨ M = 10 ∨ M = 11 ∨ M = 12 := by omega
    rcases hM with rfl | rfl | rfl | rfl | rfl | rfl | rfl | rfl | rfl | rfl <;> simp [dim] at * <;> omega

/-- The reverse kernel returns an existing calendar day whose day number is the input. -/
theorem fromDays_valid (n : Int) (hn : InDayWin n) :
    ∃ y m d, ymdFromEpochDays n = (y, m, d) ∧ Valid y m d ∧ InWin y ∧ dayNumber y m d = n := by
  obtain ⟨y, m, d, hy, ht, hm1, hm12, hw, hd1, _⟩ := toDays_fromDays n hn
  refine ⟨y, m, d, hy, ⟨hm1, hm12, hd1, ?_⟩, hw, ?_⟩
  · -- d ≤ dim y m
    rw [ymdFromEpochDays_eq] at hy
    unfold ymdExplicit at hy
    simp only at hy
    unfold InDayWin at hn
    generalize hrd : n + 719468 + 146097 * 3670 = rd at *
    have hrd0 : 0 ≤ rd := by omega
    generalize hC : (4 * rd + 3) / 146097 = C at *
    generalize hR : (4 * rd + 3) % 146097 = R at *
    generalize hz : R / 4 = z at *
    generalize hyoc : (4 * z + 3) / 1461 = yoc at *
    generalize he : (4 * z + 3) % 1461 = e at *
    generalize hdoy : e / 4 = doy at *
    have hdoy0 : 0 ≤ doy := by omega
    have hdoy1 : doy ≤ 365 := by omega
    have hmd := monthday doy hdoy0 hdoy1
    have hmd2 := monthday2 doy hdoy0 hdoy1
    simp only at hmd hmd2
    obtain ⟨hM3, hM14, hD0, hD30, hmd1, hj⟩ := hmd
    obtain ⟨hlen, hfeb⟩ := hmd2
    have core := fromDays_valid_core rd C R z (R % 4) yoc e doy (e % 4)
      ((2141 * doy + 197913) / 65536) ((2141 * doy + 197913) % 65536 / 2141)
      (by omega) (by omega) (by omega) (by omega) (by omega) (by omega) (by omega) (by omega) (by omega)
      (by omega) (by omega) (by omega) hM3 hM14 hD0 hlen hfeb hj
    simp only at core
    injection hy with h1 h2
    injection h2 with h2 h3
    subst h1 h2 h3
    exact core
  · rw [← toDays_eq_dayNumber y m d hw hm1 hm12]; exact ht

theorem yearStart_mono (a b : Int) (h : a ≤ b) : yearStart a ≤ yearStart b := by
  unfold yearStart; omega

theorem monthStart_lt (y m : Int) (h1 : 1 ≤ m) (h2 : m ≤ 12) : monthStart y m + dim y m ≤ diy y := by
  have hm : m = 1 ∨ m = 2 ∨ m = 3 ∨ m = 4 ∨ m = 5 ∨ m = 6 ∨ m = 7 ∨ m = 8 ∨ m = 9 ∨ m = 10 ∨ m = 11 ∨ m = 12 := by omega
  rcases hm with rfl | rfl | rfl | rfl | rfl | rfl | rfl | rfl | rfl | rfl | rfl | rfl <;>
    cases hl : isLeap y <;> simp [monthStart, dim, diy, hl]

theorem monthStart_mono (y m1 m2 : Int) (h1 : 1 ≤ m1) (h : m1 < m2) (h2 : m2 ≤ 12) :
    monthStart y m1 + dim y m1 ≤ monthStart y m2 := by
  have hm : m1 = 1 ∨ m1 = 2 ∨ m1 = 3 ∨ m1 = 4 ∨ m1 = 5 ∨ m1 = 6 ∨ m1 = 7 ∨ m1 = 8 ∨ m1 = 9 ∨ m1 = 10 ∨ m1 = 11 := by omega
  have hm2 : m2 = 2 ∨ m2 = 3 ∨ m2 = 4 ∨ m2 = 5 ∨ m2 = 6 ∨ m2 = 7 ∨ m2 = 8 ∨ m2 = 9 ∨ m2 = 10 ∨ m2 = 11 ∨ m2 = 12 := by omega
  rcases hm with rfl | rfl | rfl | rfl | rfl | rfl | rfl | rfl | rfl | rfl | rfl <;>
    rcases hm2 with rfl | rfl | rfl | rfl | rfl | rfl | rfl | rfl | rfl | rfl | rfl <;>
    first | omega | (cases hl : isLeap y <;> simp [monthStart, dim, hl])

theorem monthStart_nonneg (y m : Int) : 0 ≤ monthStart y m := by
  unfold monthStart
  simp only
  have hl : 0 ≤ (if isLeap y = true then (1:Int) else 0) := by split <;> omega
  generalize (if isLeap y = true then (1:Int) else 0) = l at *
  (repeat (any_goals split)) <;> omega

/-- Calendar order agrees with timeline order. -/
theorem dayNumber_lt_of_ymdLt (y1 m1 d1 y2 m2 d2 : Int) (h1 : Valid y1 m1 d1) (h2 : Valid y2 m2 d2)
    (h : ymdLt (y1, m1, d1) (y2, m2, d2)) : dayNumber y1 m1 d1 < dayNumber y2 m2 d2 := by
  obtain ⟨a1, a2, a3, a4⟩ := h1
  obtain ⟨b1, b2, b3, b4⟩ := h2
  unfold ymdLt at h
  simp only at h
  unfold dayNumber
  rcases h with h | ⟨rfl, h | ⟨rfl, h⟩⟩
  · have := yearStart_mono (y1 + 1) y2 (by omega)
    have := yearStart_succ y1
    have := monthStart_lt y1 m1 a1 a2
    have := monthStart_nonneg y2 m2
    omega
  · have := monthStart_mono y1 m1 m2 a1 h b2
    omega
  · omega

theorem ymd_trichotomy (a b : Int × Int × Int) : ymdLt a b ∨ a = b ∨ ymdLt b a := by
  obtain ⟨a1, a2, a3⟩ := a
  obtain ⟨b1, b2, b3⟩ := b
  unfold ymdLt
  simp only [Prod.mk.injEq]
  omega

/-- The day number determines the calendar day (injectivity on valid dates). -/
theorem dayNumber_inj (y1 m1 d1 y2 m2 d2 : Int) (h1 : Valid y1 m1 d1) (h2 : Valid y2 m2 d2)
    (h : dayNumber y1 m1 d1 = dayNumber y2 m2 d2) : (y1, m1, d1) = (y2, m2, d2) := by
  rcases ymd_trichotomy (y1, m1, d1) (y2, m2, d2) with hlt | heq | hgt
  · have := dayNumber_lt_of_ymdLt _ _ _ _ _ _ h1 h2 hlt; omega
  · exact heq
  · have := dayNumber_lt_of_ymdLt _ _ _ _ _ _ h2 h1 hgt; omega

theorem mulshift_year39 (x : Int) (h0 : 0 ≤ x) (h1 : x < 146100) :
    376287347 * x / 549755813888 = x / 1461 := by omega

/-- `neri_schneider::year` (the separately coded year chain) agrees with the year of `ymd_from_epoch_days`. -/
theorem nsYear_eq (n : Int) :
    NS.year (rataDieForEpochDays n).1 (rataDieForEpochDays n).2 = (ymdExplicit n).1 := by
  unfold NS.year computationalYear jOf computationalDayOfYear computationalYearOfCentury nTwo nOne rataDieForEpochDays
    ymdExplicit
  simp only [SHIFT_CONSTANT, DAYS_IN_A_400Y_CYCLE, EPOCH_COMPUTATIONAL_RATA_DIE, TWO_POWER_THIRTY_NINE]
  have hR0 : 0 ≤ (4 * (n + 719468 + 146097 * 3670) + 3) % 146097 := by omega
  have hx0 : 0 ≤ 4 * ((4 * (n + 719468 + 146097 * 3670) + 3) % 146097 / 4) + 3 := by omega
  have hx1 : 4 * ((4 * (n + 719468 + 146097 * 3670) + 3) % 146097 / 4) + 3 < 146100 := by omega
  simp only [or3_eq _ hR0, mulshift_year39 _ hx0 hx1]
  have e : ∀ x : Int, (x - 1461 * (x / 1461)) / 4 = x % 1461 / 4 := by intro x; omega
  simp only [e]

end TemporalModel
