/-
  Lemmas/HebrewYears.lean — which Hebrew years of Temporal's range have their molad of Tishrei exactly at Saturday
  18 h 0 p (where the library's new year is a week early): 765433 (ḥalakim per lunation) is invertible modulo 181440
  (ḥalakim per week), so the number of lunations is fixed modulo 181440; 39 candidates fall into the range and three
  of them are the lunation count of a Tishrei.  Hence `Good n` for every day of Temporal's range outside three
  explicit windows.
-/
import TemporalModel.Lemmas.HebrewLemmas
namespace TemporalModel
namespace Cal
namespace Heb

/-- A molad exactly at Saturday 18 h 0 p: the number of lunations is 30252 modulo the 181440 ḥalakim of a week
    (765433 is invertible modulo 181440). -/
theorem gate_lunations (m q : Int) (h : 31524 + m * 765433 = 181440 * q + 174960) : ∃ t : Int, m = 30252 + 181440 * t := by
  refine ⟨(m - 30252) / 181440, ?_⟩
  omega

set_option maxHeartbeats 4000000 in
theorem gate_years_aux (y m q : Int) (h1 : -268059 ≤ y) (h2 : y ≤ 279518)
    (hm : 19 * m ≤ 235 * (y - 1) + 1 ∧ 235 * (y - 1) + 1 < 19 * m + 19)
    (h : 31524 + m * 765433 = 181440 * q + 174960) : y = -114910 ∨ y = 75795 ∨ y = 193152 := by
  obtain ⟨t, ht⟩ := gate_lunations m q h
  clear h
  subst ht
  have hc : t = -19 ∨ t = -18 ∨ t = -17 ∨ t = -16 ∨ t = -15 ∨ t = -14 ∨ t = -13 ∨ t = -12 ∨ t = -11 ∨ t = -10 ∨
      t = -9 ∨ t = -8 ∨ t = -7 ∨ t = -6 ∨ t = -5 ∨ t = -4 ∨ t = -3 ∨ t = -2 ∨ t = -1 ∨ t = 0 ∨ t = 1 ∨ t = 2 ∨ t = 3 ∨
      t = 4 ∨ t = 5 ∨ t = 6 ∨ t = 7 ∨ t = 8 ∨ t = 9 ∨ t = 10 ∨ t = 11 ∨ t = 12 ∨ t = 13 ∨ t = 14 ∨ t = 15 ∨ t = 16 ∨
      t = 17 ∨ t = 18 ∨ t = 19 := by omega
  rcases hc with e | e | e | e | e | e | e | e | e | e | e | e | e | e | e | e | e | e | e | e | e | e | e | e | e | e |
    e | e | e | e | e | e | e | e | e | e | e | e | e <;> subst e <;> omega

/-- **The Hebrew years of Temporal's range (−268059 … 279518) whose molad of Tishrei falls exactly on Saturday 18 h
    0 p are −114910, 75795 and 193152.** -/
theorem gate_years (y : Int) (h1 : -268059 ≤ y) (h2 : y ≤ 279518) :
    inWeek y = 174960 ↔ (y = -114910 ∨ y = 75795 ∨ y = 193152) := by
  constructor
  · intro h
    have e := Int.emod_add_mul_ediv (molad y) 181440
    unfold inWeek at h
    rw [h] at e
    have hmol : molad y = 31524 + monthsPreceding y * 765433 := rfl
    have hb : 19 * monthsPreceding y ≤ 235 * (y - 1) + 1 ∧ 235 * (y - 1) + 1 < 19 * monthsPreceding y + 19 := by
      unfold monthsPreceding; omega
    refine gate_years_aux y (monthsPreceding y) (molad y / 181440) h1 h2 hb ?_
    rw [← hmol]; omega
  · rintro (e | e | e) <;> subst e <;> decide +kernel

/-- the estimated year of day `n` is one of the three years with a molad at Saturday 18 h 0 p or next to one -/
def InGateWindow (n : Int) : Prop :=
  (-114911 ≤ est n ∧ est n ≤ -114909) ∨ (75794 ≤ est n ∧ est n ≤ 75796) ∨ (193151 ≤ est n ∧ est n ≤ 193153)

instance (n : Int) : Decidable (InGateWindow n) := by unfold InGateWindow; infer_instance

/-- Every day of Temporal's range outside the three windows is `Good`. -/
theorem good_outside_windows (n : Int) (hn : InTemporalDays n) (hw : ¬ InGateWindow n) : Good n := by
  have hb : -268058 ≤ est n ∧ est n ≤ 279517 := by unfold est EPOCH; unfold InTemporalDays at hn; omega
  unfold InGateWindow at hw
  refine ⟨?_, ?_, ?_⟩ <;> intro h <;> rw [gate_years _ (by omega) (by omega)] at h <;> omega

end Heb
end Cal
end TemporalModel
