/-
  Lemmas/LoopLemmas.lean — the two search loops of `diff_iso_date` terminate: the year loop within 3 iterations and
  the month loop within 13, for every pair of dates with months in 1..12.  (In the model the loops carry fuel 8 / 16
  and report fuel exhaustion as a panic; these lemmas show that never happens.)
-/
import TemporalModel.Lemmas.DateLemmas
namespace TemporalModel

theorem surpass_year_beyond (cy m d : Int) (other : IsoDate) (sign : Int) (hs : sign = 1 ∨ sign = -1)
    (h : sign * (cy - other.year) ≥ 1) : isoDateSurpasses ⟨cy, m, d⟩ other sign = true := by
  unfold isoDateSurpasses IsoDate.cmp
  rcases hs with rfl | rfl <;> simp only [decide_eq_true_eq] <;> (repeat' split) <;> omega

/-- What `surpasses` says about the years (and months when the years agree). -/
theorem surpass_elim (y m d : Int) (other : IsoDate) (sign : Int) (hs : sign = 1 ∨ sign = -1)
    (h : isoDateSurpasses ⟨y, m, d⟩ other sign = true) :
    sign * (y - other.year) ≥ 1 ∨ (y = other.year ∧ sign * (m - other.month) ≥ 0) := by
  unfold isoDateSurpasses IsoDate.cmp at h
  simp only [decide_eq_true_eq] at h
  rcases hs with rfl | rfl <;> (repeat' (split at h)) <;> omega

theorem yearLoop_terminates (self other : IsoDate) (sign : Int) (hs : sign = 1 ∨ sign = -1) :
    ∀ (fuel : Nat) (years cand : Int), 0 < fuel → 1 - sign * (self.year + cand - other.year) < fuel →
      yearLoop self other sign fuel years cand ≠ none := by
  intro fuel
  induction fuel with
  | zero => intro _ _ h; omega
  | succ n ih =>
    intro years cand _ hg
    unfold yearLoop
    split
    · simp
    · rename_i hns
      have hnb : ¬ sign * (self.year + cand - other.year) ≥ 1 := fun hb =>
        hns (surpass_year_beyond _ _ _ other sign hs hb)
      have e : sign * (self.year + (cand + sign) - other.year) = sign * (self.year + cand - other.year) + 1 := by
        rcases hs with rfl | rfl <;> omega
      apply ih
      · omega
      · omega

/-- The result of the year loop: either the initial `years` because the first candidate already surpasses, or a
    value whose successor surpasses. -/
theorem yearLoop_result (self other : IsoDate) (sign : Int) :
    ∀ (fuel : Nat) (years cand r : Int), yearLoop self other sign fuel years cand = some r →
      (r = years ∧ isoDateSurpasses ⟨self.year + cand, self.month, self.day⟩ other sign = true) ∨
      isoDateSurpasses ⟨self.year + (r + sign), self.month, self.day⟩ other sign = true := by
  intro fuel
  induction fuel with
  | zero => intro years cand r h; simp [yearLoop] at h
  | succ n ih =>
    intro years cand r h
    unfold yearLoop at h
    split at h
    · rename_i hsur; left; cases h; exact ⟨rfl, hsur⟩
    · rcases ih cand (cand + sign) r h with ⟨rfl, h2⟩ | h2
      · right; exact h2
      · right; exact h2

theorem balanceIsoYearMonth_idx (y m : Int) :
    12 * (balanceIsoYearMonth y m).1 + (balanceIsoYearMonth y m).2 = 12 * y + m ∧
    1 ≤ (balanceIsoYearMonth y m).2 ∧ (balanceIsoYearMonth y m).2 ≤ 12 := by
  unfold balanceIsoYearMonth; simp only; omega

theorem surpass_idx_beyond (y m d : Int) (other : IsoDate) (sign : Int) (hs : sign = 1 ∨ sign = -1)
    (hm : 1 ≤ m ∧ m ≤ 12) (ho : 1 ≤ other.month ∧ other.month ≤ 12)
    (h : sign * (12 * y + m - (12 * other.year + other.month)) ≥ 1) : isoDateSurpasses ⟨y, m, d⟩ other sign = true := by
  unfold isoDateSurpasses IsoDate.cmp
  rcases hs with rfl | rfl <;> simp only [decide_eq_true_eq] <;> (repeat' split) <;> omega

theorem monthLoop_terminates (self other : IsoDate) (sign : Int) (hs : sign = 1 ∨ sign = -1)
    (ho : 1 ≤ other.month ∧ other.month ≤ 12) :
    ∀ (fuel : Nat) (months cand : Int) (inter : Int × Int), 0 < fuel → (1 ≤ inter.2 ∧ inter.2 ≤ 12) →
      1 - sign * (12 * inter.1 + inter.2 - (12 * other.year + other.month)) < fuel →
      monthLoop self other sign fuel months cand inter ≠ none := by
  intro fuel
  induction fuel with
  | zero => intro _ _ _ h; omega
  | succ n ih =>
    intro months cand inter _ hm hg
    unfold monthLoop
    split
    · simp
    · rename_i hns
      have hnb : ¬ sign * (12 * inter.1 + inter.2 - (12 * other.year + other.month)) ≥ 1 := fun hb =>
        hns (surpass_idx_beyond _ _ _ other sign hs hm ho hb)
      have hb := balanceIsoYearMonth_idx inter.1 (inter.2 + sign)
      have e : sign * (12 * (balanceIsoYearMonth inter.1 (inter.2 + sign)).1 +
            (balanceIsoYearMonth inter.1 (inter.2 + sign)).2 - (12 * other.year + other.month)) =
          sign * (12 * inter.1 + inter.2 - (12 * other.year + other.month)) + 1 := by
        rw [show 12 * (balanceIsoYearMonth inter.1 (inter.2 + sign)).1 +
            (balanceIsoYearMonth inter.1 (inter.2 + sign)).2 = 12 * inter.1 + (inter.2 + sign) from hb.1]
        rcases hs with rfl | rfl <;> omega
      apply ih
      · omega
      · exact hb.2
      · omega

/-- **Termination of `diff_iso_date`.**  For two dates with months in 1..12 the year and month searches always
    find their answer within the model's fuel (3 and 13 iterations at most): the outcome is never the fuel-exhaustion
    panic. -/
theorem diffIsoDate_loops_terminate (self other : IsoDate) (hsm : 1 ≤ self.month ∧ self.month ≤ 12)
    (hom : 1 ≤ other.month ∧ other.month ≤ 12) (hne : self.cmp other ≠ 0) :
    ∃ years months,
      yearLoop self other (-(self.cmp other)) 8 0
        (if other.year - self.year ≠ 0 then other.year - self.year - -(self.cmp other) else other.year - self.year)
        = some years ∧
      monthLoop self other (-(self.cmp other)) 16 0 (-(self.cmp other))
        (balanceIsoYearMonth (self.year + years) (self.month + -(self.cmp other))) = some months := by
  have hs : -(self.cmp other) = 1 ∨ -(self.cmp other) = -1 := by
    rcases cmp_sign self other with h | h | h <;> omega
  generalize hsg : -(self.cmp other) = sign at *
  -- the sign follows the years when they differ
  have hyear : other.year - self.year ≠ 0 → sign * (other.year - self.year) ≥ 1 := by
    intro hd
    have : self.cmp other = -sign := by omega
    unfold IsoDate.cmp at this
    rcases hs with rfl | rfl <;> (repeat' (split at this)) <;> omega
  generalize hcy : (if other.year - self.year ≠ 0 then other.year - self.year - sign else other.year - self.year) = cy
  have hcy1 : sign * (self.year + cy - other.year) ≥ -1 ∧ sign * (self.year + cy - other.year) ≤ 0 := by
    rw [← hcy]; split
    · rename_i hd; have := hyear hd; rcases hs with rfl | rfl <;> omega
    · rename_i hd; have : other.year - self.year = 0 := by omega
      rcases hs with rfl | rfl <;> omega
  have hterm := yearLoop_terminates self other sign hs 8 0 cy (by decide) (by omega)
  cases hy : yearLoop self other sign 8 0 cy with
  | none => exact absurd hy hterm
  | some years =>
    refine ⟨years, ?_⟩
    -- the first candidate never surpasses, so the successor of the result does
    have hfirst : ¬ isoDateSurpasses ⟨self.year + cy, self.month, self.day⟩ other sign = true := by
      intro hsur
      rcases surpass_elim _ _ _ other sign hs hsur with h | ⟨h1, h2⟩
      · omega
      · -- same year: then the candidate is `self`, which lies before `other` in direction `sign`
        have hcy0 : cy = 0 := by
          rw [← hcy]; split
          · rename_i hd; have := hyear hd; rcases hs with rfl | rfl <;> omega
          · omega
        subst hcy0
        have hself : self.cmp other = -sign := by omega
        unfold isoDateSurpasses IsoDate.cmp at hsur
        unfold IsoDate.cmp at hself
        simp only [decide_eq_true_eq, Int.add_zero] at hsur
        rcases hs with rfl | rfl <;> (repeat' (split at hsur)) <;> (repeat' (split at hself)) <;> omega
    have hres := yearLoop_result self other sign 8 0 cy years hy
    have hsucc : isoDateSurpasses ⟨self.year + (years + sign), self.month, self.day⟩ other sign = true := by
      rcases hres with ⟨_, h⟩ | h
      · exact absurd h hfirst
      · exact h
    have hel := surpass_elim _ _ _ other sign hs hsucc
    have hb := balanceIsoYearMonth_idx (self.year + years) (self.month + sign)
    have hmt := monthLoop_terminates self other sign hs hom 16 0 sign
      (balanceIsoYearMonth (self.year + years) (self.month + sign)) (by decide) hb.2 (by
        rw [show 12 * (balanceIsoYearMonth (self.year + years) (self.month + sign)).1 +
            (balanceIsoYearMonth (self.year + years) (self.month + sign)).2 =
            12 * (self.year + years) + (self.month + sign) from hb.1]
        rcases hs with rfl | rfl <;> omega)
    cases hm : monthLoop self other sign 16 0 sign (balanceIsoYearMonth (self.year + years) (self.month + sign)) with
    | none => exact absurd hm hmt
    | some months => exact ⟨months, rfl, rfl⟩

end TemporalModel
