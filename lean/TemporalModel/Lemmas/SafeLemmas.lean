/-
  Lemmas/SafeLemmas.lean — every modelled operation is `Safe` (never a panic, never an assertion error), bottom-up.
-/
import TemporalModel.Lemmas.SafeBase
import TemporalModel.Model.Relative
import TemporalModel.Model.Partial
import TemporalModel.Lemmas.LoopLemmas
namespace TemporalModel
open Out

/-- One step of the structural safety argument. -/
macro "safe_step" : tactic => `(tactic| first
  | exact Out.safe_ok _ | exact Out.safe_pure _ | exact Out.safe_range | exact Out.safe_type
  | exact Out.safe_syntax | exact Out.safe_generic
  | assumption
  | (simp only [safe]; done)
  | (apply Out.safe_bind)
  | (intro _ _)
  | (dsimp only)
  | split)

macro "safe_auto" : tactic => `(tactic| repeat' safe_step)

@[safe] theorem incrementTryNew_safe (i : Int) : (incrementTryNew i).Safe := by unfold incrementTryNew; safe_auto
@[safe] theorem incrementValidate_safe (i d : Int) (b : Bool) : (incrementValidate i d b).Safe := by
  unfold incrementValidate; safe_auto
@[safe] theorem maxRoundingIncrement_safe (u : TUnit) : u.maxRoundingIncrement.Safe := by
  cases u <;> exact Out.safe_ok _
@[safe] theorem validateUnit_safe (g : UnitGroup) (u e : Option TUnit) : (g.validateUnit u e).Safe := by
  unfold UnitGroup.validateUnit; safe_auto
@[safe] theorem validateRequiredUnit_safe (g : UnitGroup) (u e : Option TUnit) : (g.validateRequiredUnit u e).Safe := by
  unfold UnitGroup.validateRequiredUnit; safe_auto
@[safe] theorem fromInstantOptions_safe (o : RawOptions) : (fromInstantOptions o).Safe := by
  unfold fromInstantOptions; safe_auto
@[safe] theorem fromDatetimeOptions_safe (o : RawOptions) : (fromDatetimeOptions o).Safe := by
  unfold fromDatetimeOptions; safe_auto
@[safe] theorem checkIncrement_safe (s : TUnit) (i : Int) : (checkIncrement s i).Safe := by
  unfold checkIncrement; safe_auto
@[safe] theorem fromDiffSettings_safe (o : RawOptions) (since : Bool) (g : UnitGroup) (a b : TUnit) :
    (fromDiffSettings o since g a b).Safe := by
  unfold fromDiffSettings; safe_auto
@[safe] theorem fromDurationOptions_safe (o : RawOptions) (e : TUnit) : (fromDurationOptions o e).Safe := by
  unfold fromDurationOptions; safe_auto
@[safe] theorem toStringResolve_safe (p : Precision) (s : Option TUnit) (m : Option RMode) : (toStringResolve p s m).Safe := by
  unfold toStringResolve; safe_auto

/-! ### IsoTime / Instant -/
@[safe] theorem IsoTime.round_safe (t : IsoTime) (r : Resolved) : (t.round r).Safe := by
  unfold IsoTime.round
  cases hs : r.smallest <;> simp [IsoTime.roundQuantity, TUnit.asNanoseconds]
@[safe] theorem plainTimeTryNew_safe (h m s ms us ns : Int) : (plainTimeTryNew h m s ms us ns).Safe := by
  unfold plainTimeTryNew; safe_auto
@[safe] theorem plainTimeRound_safe (t : IsoTime) (u : TUnit) (i : Int) (m : Option RMode) : (plainTimeRound t u i m).Safe := by
  unfold plainTimeRound; safe_auto
@[safe] theorem instantTryNew_safe (n : Int) : (instantTryNew n).Safe := by unfold instantTryNew; safe_auto
@[safe] theorem roundInstant_safe (n : Int) (r : Resolved) : (roundInstant n r).Safe := by
  unfold roundInstant; safe_auto
@[safe] theorem instantRound_safe (n : Int) (o : RawOptions) : (instantRound n o).Safe := by
  unfold instantRound; safe_auto

/-! ### Gregorian helpers: the two panic sites are unreachable -/
@[safe] theorem mathematicalDaysInYear_safe (y : Int) : (mathematicalDaysInYear y).Safe := by
  unfold mathematicalDaysInYear
  have h4 := Int.tmod_tmod_of_dvd y (show (4:Int) ∣ 100 by decide)
  have h100 := Int.tmod_tmod_of_dvd y (show (100:Int) ∣ 400 by decide)
  repeat' split
  all_goals first | exact Out.safe_ok _ | (exfalso; omega)

theorem isoDaysInMonth_safe (y m : Int) (h : 1 ≤ m ∧ m ≤ 12) : (isoDaysInMonth y m).Safe := by
  unfold isoDaysInMonth
  repeat' split
  all_goals first | exact Out.safe_ok _ | (exfalso; omega) | skip
  safe_auto

/-! ### ISO dates -/
@[safe] theorem isValidDate_safe (y m d : Int) : (isValidDate y m d).Safe := by
  unfold isValidDate
  split
  · exact Out.safe_ok _
  · rename_i h
    exact Out.safe_bind (isoDaysInMonth_safe y m (by omega)) (fun _ _ => Out.safe_pure _)
theorem constrainIsoDay_safe (y m d : Int) (h : 1 ≤ m ∧ m ≤ 12) : (constrainIsoDay y m d).Safe :=
  Out.safe_bind (isoDaysInMonth_safe y m h) (fun _ _ => Out.safe_pure _)
@[safe] theorem regulate_safe (y m d : Int) (ov : Overflow) : (IsoDate.regulate y m d ov).Safe := by
  unfold IsoDate.regulate
  cases ov
  · refine Out.safe_bind (constrainIsoDay_safe _ _ _ ?_) (fun _ _ => Out.safe_pure _)
    unfold clamp; repeat' split
    all_goals omega
  · safe_auto
@[safe] theorem newWithOverflow_safe (y m d : Int) (ov : Overflow) : (IsoDate.newWithOverflow y m d ov).Safe := by
  unfold IsoDate.newWithOverflow; safe_auto
@[safe] theorem IsoDateTime.new_safe (d : IsoDate) (t : IsoTime) : (IsoDateTime.new d t).Safe := by
  unfold IsoDateTime.new; safe_auto
@[safe] theorem asNanoseconds_safe (dt : IsoDateTime) : dt.asNanoseconds.Safe := by
  unfold IsoDateTime.asNanoseconds; safe_auto
@[safe] theorem utcEpochNs_safe (dt : IsoDateTime) : dt.utcEpochNs.Safe := Out.safe_ok _
@[safe] theorem fromEpochNanos_safe (n off : Int) : (IsoDateTime.fromEpochNanos n off).Safe := by
  unfold IsoDateTime.fromEpochNanos
  dsimp only
  split
  · rename_i h; exfalso
    have := Int.emod_lt_of_pos n (show (0:Int) < 1000000 by decide)
    have := Int.emod_nonneg n (show (1000000:Int) ≠ 0 by decide)
    omega
  · exact Out.safe_ok _
@[safe] theorem plainDateTryNew_safe (y m d : Int) : (plainDateTryNew y m d).Safe := by
  unfold plainDateTryNew; safe_auto
@[safe] theorem plainDateAddDays_safe (d : IsoDate) (k : Int) : (plainDateAddDays d k).Safe := by
  unfold plainDateAddDays; safe_auto

/-! ### Durations -/
theorem TUnit.max_ne_auto (a b : TUnit) (h : a ≠ .auto ∨ b ≠ .auto) : a.max b ≠ .auto := by
  cases a <;> cases b <;> simp_all [TUnit.max, TUnit.toNat]
theorem defaultLargestUnit_ne_auto (d : Dur) : d.defaultLargestUnit ≠ .auto := by
  unfold Dur.defaultLargestUnit; repeat' split
  all_goals simp
@[safe] theorem Dur.new_safe (d : Dur) : (Dur.new d).Safe := by unfold Dur.new; safe_auto
@[safe] theorem normChecked_safe (x : Int) : (normChecked x).Safe := by unfold normChecked; safe_auto
theorem timeFromNormalized_safe (n : Int) (L : TUnit) (h : L ≠ .auto) : (timeFromNormalized n L).Safe := by
  unfold timeFromNormalized
  cases hb : balanceDepth L with
  | none => cases L <;> simp [balanceDepth] at hb h
  | some k => dsimp only; split <;> safe_auto
@[safe] theorem timeFromNormalized_day_safe (n : Int) : (timeFromNormalized n .day).Safe :=
  timeFromNormalized_safe n .day (by decide)
@[safe] theorem Dur.add_safe (a b : Dur) : (a.add b).Safe := by
  unfold Dur.add
  dsimp only
  split
  · exact Out.safe_range
  · refine Out.safe_bind (normChecked_safe _) (fun _ _ => Out.safe_bind (normChecked_safe _) (fun _ _ => ?_))
    exact timeFromNormalized_safe _ _ (TUnit.max_ne_auto _ _ (Or.inl (defaultLargestUnit_ne_auto a)))
@[safe] theorem Dur.subtract_safe (a b : Dur) : (a.subtract b).Safe := Dur.add_safe a b.negated
@[safe] theorem Dur.compareNoRel_safe (a b : Dur) : (a.compareNoRel b).Safe := by
  unfold Dur.compareNoRel; safe_auto
@[safe] theorem Dur.totalNoRel_safe (d : Dur) (u : TUnit) : (d.totalNoRel u).Safe := by
  unfold Dur.totalNoRel; safe_auto

/-- `normRound` is safe for every smallest unit from day down to nanosecond. -/
theorem normRound_safe (n days : Int) (o : Resolved) (h : o.smallest.asNanoseconds.isSome) : (normRound n days o).Safe := by
  unfold normRound
  cases hs : o.smallest <;> simp [hs, TUnit.asNanoseconds] at h ⊢ <;> safe_auto

/-! ### What a successful option resolution guarantees -/
theorem unwrapUnitOr_ne_auto (L : Option TUnit) (d : TUnit) (h : d ≠ .auto) : unwrapUnitOr L d ≠ .auto := by
  unfold unwrapUnitOr; split <;> simp_all
theorem validateUnit_none_ne_auto (g : UnitGroup) (u : TUnit) (h : g.validateUnit (some u) none = .ok ()) : u ≠ .auto := by
  intro hu; subst hu
  cases g <;> simp [UnitGroup.validateUnit, TUnit.isDateUnit, TUnit.isTimeUnit] at h
theorem getD_ne_auto (g : UnitGroup) (S : Option TUnit) (fb : TUnit) (hfb : fb ≠ .auto)
    (h : g.validateUnit S none = .ok ()) : S.getD fb ≠ .auto := by
  cases S with
  | none => simpa using hfb
  | some u => simpa using validateUnit_none_ne_auto g u h

theorem fromDiffSettings_ok {raw : RawOptions} {since : Bool} {g : UnitGroup} {fl fs : TUnit} {o : Resolved}
    (h : fromDiffSettings raw since g fl fs = .ok o) (hfs : fs ≠ .auto) :
    o.largest ≠ .auto ∧ o.smallest ≠ .auto ∧ ¬ o.largest < o.smallest := by
  unfold fromDiffSettings at h
  cases h1 : g.validateUnit raw.largest (some .auto) with
  | err e => rw [h1] at h; cases h
  | panic => rw [h1] at h; cases h
  | ok u1 =>
    rw [h1] at h; simp only [Out.bind_ok] at h
    cases h2 : g.validateUnit raw.smallest none with
    | err e => rw [h2] at h; cases h
    | panic => rw [h2] at h; cases h
    | ok u2 =>
      rw [h2] at h; simp only [Out.bind_ok] at h
      have hs := getD_ne_auto g raw.smallest fs hfs h2
      split at h
      · cases h
      · rename_i hlt
        cases h3 : checkIncrement (raw.smallest.getD fs) (raw.increment.getD 1) with
        | err e => rw [h3] at h; cases h
        | panic => rw [h3] at h; cases h
        | ok u3 =>
          rw [h3] at h; simp only [Out.bind_ok, Out.pure_eq_ok] at h
          cases h
          exact ⟨unwrapUnitOr_ne_auto _ _ (TUnit.max_ne_auto _ _ (Or.inl hs)), hs, hlt⟩

theorem fromDurationOptions_ok {raw : RawOptions} {e : TUnit} {o : Resolved}
    (h : fromDurationOptions raw e = .ok o) (he : e ≠ .auto) :
    o.largest ≠ .auto ∧ o.smallest ≠ .auto ∧ ¬ o.largest < o.smallest := by
  unfold fromDurationOptions at h
  split at h
  · cases h
  · cases h1 : UnitGroup.dateTime.validateUnit raw.largest (some .auto) with
    | err e => rw [h1] at h; cases h
    | panic => rw [h1] at h; cases h
    | ok u1 =>
      rw [h1] at h; simp only [Out.bind_ok] at h
      cases h2 : UnitGroup.dateTime.validateUnit raw.smallest none with
      | err e => rw [h2] at h; cases h
      | panic => rw [h2] at h; cases h
      | ok u2 =>
        rw [h2] at h; simp only [Out.bind_ok] at h
        have hs := getD_ne_auto .dateTime raw.smallest .nanosecond (by decide) h2
        split at h
        · cases h
        · rename_i hlt
          cases h3 : checkIncrement (raw.smallest.getD .nanosecond) (raw.increment.getD 1) with
          | err e => rw [h3] at h; cases h
          | panic => rw [h3] at h; cases h
          | ok u3 =>
            rw [h3] at h; simp only [Out.bind_ok, Out.pure_eq_ok] at h
            cases h
            exact ⟨unwrapUnitOr_ne_auto _ _ (TUnit.max_ne_auto _ _ (Or.inl he)), hs, hlt⟩

theorem lt_calendar (L S : TUnit) (h : ¬ L < S) (hs : S.isCalendarUnit = true) : L.isCalendarUnit = true := by
  cases L <;> cases S <;> simp_all [TUnit.isCalendarUnit] <;> exact absurd (by decide) h

theorem asNs_of_not_calendar (S : TUnit) (h1 : S ≠ .auto) (h2 : S.isCalendarUnit = false) : S.asNanoseconds.isSome := by
  cases S <;> simp_all [TUnit.isCalendarUnit, TUnit.asNanoseconds]

@[safe] theorem Dur.roundNoRel_safe (d : Dur) (raw : RawOptions) : (d.roundNoRel raw).Safe := by
  unfold Dur.roundNoRel
  refine Out.safe_bind (fromDurationOptions_safe _ _) (fun o ho => ?_)
  obtain ⟨hL, hS, hlt⟩ := fromDurationOptions_ok ho (defaultLargestUnit_ne_auto d)
  split
  · exact Out.safe_ok _
  · unfold Dur.roundNoRelSlow
    dsimp only
    split
    · exact Out.safe_range
    · rename_i hcal
      split
      · rename_i hsc
        exact absurd (Or.inr (lt_calendar _ _ hlt hsc)) hcal
      · rename_i hsc
        refine Out.safe_bind (normChecked_safe _) (fun n _ => ?_)
        refine Out.safe_bind (normRound_safe _ _ _ (asNs_of_not_calendar _ hS (by simpa using hsc))) (fun p _ => ?_)
        obtain ⟨days, r⟩ := p
        dsimp only
        refine Out.safe_bind (Dur.new_safe _) (fun _ _ => Out.safe_bind (normChecked_safe _) (fun _ _ => ?_))
        exact timeFromNormalized_safe _ _ hL

/-! ### PlainTime / Instant arithmetic -/
@[safe] theorem plainTimeAdd_safe (t : IsoTime) (d : Dur) : (plainTimeAdd t d).Safe := by unfold plainTimeAdd; safe_auto
@[safe] theorem plainTimeSubtract_safe (t : IsoTime) (d : Dur) : (plainTimeSubtract t d).Safe := plainTimeAdd_safe _ _
@[safe] theorem instantAdd_safe (n : Int) (d : Dur) : (instantAdd n d).Safe := by unfold instantAdd; safe_auto
@[safe] theorem instantSubtract_safe (n : Int) (d : Dur) : (instantSubtract n d).Safe := by unfold instantSubtract; safe_auto
@[safe] theorem instantFromEpochMs_safe (n : Int) : (instantFromEpochMs n).Safe := instantTryNew_safe _

theorem time_smallest_asNs {raw : RawOptions} {since : Bool} {fl fs : TUnit} {o : Resolved}
    (h : fromDiffSettings raw since .time fl fs = .ok o) (hfs : fs.isTimeUnit = true) : o.smallest.asNanoseconds.isSome := by
  unfold fromDiffSettings at h
  cases h1 : UnitGroup.time.validateUnit raw.largest (some .auto) with
  | err e => rw [h1] at h; cases h
  | panic => rw [h1] at h; cases h
  | ok u1 =>
    rw [h1] at h; simp only [Out.bind_ok] at h
    cases h2 : UnitGroup.time.validateUnit raw.smallest none with
    | err e => rw [h2] at h; cases h
    | panic => rw [h2] at h; cases h
    | ok u2 =>
      rw [h2] at h; simp only [Out.bind_ok] at h
      split at h
      · cases h
      · cases h3 : checkIncrement (raw.smallest.getD fs) (raw.increment.getD 1) with
        | err e => rw [h3] at h; cases h
        | panic => rw [h3] at h; cases h
        | ok u3 =>
          rw [h3] at h; simp only [Out.bind_ok, Out.pure_eq_ok] at h
          cases h
          show (raw.smallest.getD fs).asNanoseconds.isSome
          cases hS : raw.smallest with
          | none => cases fs <;> simp_all [TUnit.isTimeUnit, TUnit.asNanoseconds]
          | some u =>
            rw [hS] at h2
            cases u <;> simp_all [UnitGroup.validateUnit, TUnit.isTimeUnit, TUnit.asNanoseconds]

@[safe] theorem plainTimeDiff_safe (since : Bool) (a b : IsoTime) (raw : RawOptions) : (plainTimeDiff since a b raw).Safe := by
  unfold plainTimeDiff
  refine Out.safe_bind (fromDiffSettings_safe ..) (fun o ho => ?_)
  obtain ⟨hL, hS, hlt⟩ := fromDiffSettings_ok ho (by decide)
  have hns := time_smallest_asNs ho (by decide)
  dsimp only
  refine Out.safe_bind ?_ (fun n _ => Out.safe_bind (timeFromNormalized_safe _ _ hL) (fun _ _ => Out.safe_pure _))
  split
  · exact Out.safe_bind (normRound_safe _ _ _ hns) (fun p _ => by obtain ⟨x, y⟩ := p; exact Out.safe_pure _)
  · exact Out.safe_pure _

@[safe] theorem instantDiff_safe (since : Bool) (a b : Int) (raw : RawOptions) : (instantDiff since a b raw).Safe := by
  unfold instantDiff
  refine Out.safe_bind (fromDiffSettings_safe ..) (fun o ho => ?_)
  obtain ⟨hL, hS, hlt⟩ := fromDiffSettings_ok ho (by decide)
  have hns := time_smallest_asNs ho (by decide)
  refine Out.safe_bind (normChecked_safe _) (fun d _ => Out.safe_bind (normRound_safe _ _ _ hns) (fun p _ => ?_))
  obtain ⟨x, r⟩ := p
  dsimp only
  exact Out.safe_bind (timeFromNormalized_safe _ _ hL) (fun _ _ => Out.safe_bind (Dur.new_safe _) (fun _ _ => Out.safe_pure _))

/-! ### Date arithmetic -/
@[safe] theorem asDateValue_safe (x : Int) : (asDateValue x).Safe := by unfold asDateValue; safe_auto
@[safe] theorem balanceIsoYearMonthChecked_safe (y m : Int) : (balanceIsoYearMonthChecked y m).Safe := by
  unfold balanceIsoYearMonthChecked; safe_auto
@[safe] theorem addDateDuration_safe (d : IsoDate) (y m w dd : Int) (ov : Overflow) : (d.addDateDuration y m w dd ov).Safe := by
  unfold IsoDate.addDateDuration; safe_auto
@[safe] theorem plainDateAdd_safe (d : IsoDate) (du : Dur) (ov : Overflow) : (plainDateAdd d du ov).Safe := by
  unfold plainDateAdd; safe_auto
@[safe] theorem plainDateSubtract_safe (d : IsoDate) (du : Dur) (ov : Overflow) : (plainDateSubtract d du ov).Safe :=
  plainDateAdd_safe _ _ _

/-- `diff_iso_date` never panics: its loops terminate (LoopLemmas) and everything else is range-checked. -/
theorem diffIsoDate_safe (a b : IsoDate) (L : TUnit) (ha : 1 ≤ a.month ∧ a.month ≤ 12) (hb : 1 ≤ b.month ∧ b.month ≤ 12) :
    (a.diffIsoDate b L).Safe := by
  unfold IsoDate.diffIsoDate
  dsimp only
  split
  · exact Out.safe_ok _
  · rename_i hs0
    have hne : a.cmp b ≠ 0 := by omega
    obtain ⟨years, months, hy, hm⟩ := diffIsoDate_loops_terminate a b ha hb hne
    by_cases hL : L = .year ∨ L = .month
    · rw [if_pos hL, hy]; dsimp only; rw [hm]; dsimp only
      by_cases hmo : L = .month
      · rw [if_pos hmo]; safe_auto
      · rw [if_neg hmo]; safe_auto
    · rw [if_neg hL]; safe_auto

theorem plainDateInternalDiff_safe (a b : IsoDate) (L : TUnit) (ha : 1 ≤ a.month ∧ a.month ≤ 12)
    (hb : 1 ≤ b.month ∧ b.month ≤ 12) : (plainDateInternalDiff a b L).Safe := by
  unfold plainDateInternalDiff
  split
  · exact Out.safe_ok _
  · split
    · exact Dur.new_safe _
    · exact diffIsoDate_safe a b L ha hb

/-! ### Date-times -/
/-- The month of a date is 1..12 (all that the termination argument needs of a receiver). -/
def MonthOk (d : IsoDate) : Prop := 1 ≤ d.month ∧ d.month ≤ 12
theorem InRange.monthOk {d : IsoDate} (h : InRange d) : MonthOk d := ⟨h.1.1, h.1.2.1⟩
theorem plainDateTryNew_monthOk {y m d : Int} {c : IsoDate} (h : plainDateTryNew y m d = .ok c) : MonthOk c :=
  (newWithOverflow_inRange y m d .reject c h).monthOk
theorem plainDateAdd_monthOk {d : IsoDate} {du : Dur} {ov : Overflow} {c : IsoDate}
    (h : plainDateAdd d du ov = .ok c) : MonthOk c := by
  unfold plainDateAdd at h
  cases h1 : timeFromNormalized du.timeNs .day with
  | err e => rw [h1] at h; cases h
  | panic => rw [h1] at h; cases h
  | ok bal =>
    rw [h1] at h; simp only [Out.bind_ok] at h
    split at h
    · cases h2 : d.addDateDuration du.years du.months du.weeks (F64.ofInt (du.days + bal.days)) ov with
      | err e => rw [h2] at h; cases h
      | panic => rw [h2] at h; cases h
      | ok r => rw [h2] at h; exact plainDateTryNew_monthOk h
    · cases h3 : Dur.new ⟨0, 0, 0, F64.ofInt (du.days + bal.days), 0, 0, 0, 0, 0, 0⟩ with
      | err e => rw [h3] at h; cases h
      | panic => rw [h3] at h; cases h
      | ok _ =>
        rw [h3] at h; simp only [Out.bind_ok] at h
        cases h2 : d.addDateDuration 0 0 0 (F64.ofInt (du.days + bal.days)) ov with
        | err e => rw [h2] at h; cases h
        | panic => rw [h2] at h; cases h
        | ok r => rw [h2] at h; exact plainDateTryNew_monthOk h

@[safe] theorem plainDateTimeTryNew_safe (y m d h mi s ms us ns : Int) : (plainDateTimeTryNew y m d h mi s ms us ns).Safe := by
  unfold plainDateTimeTryNew; safe_auto
@[safe] theorem dtAddDateDuration_safe (dt : IsoDateTime) (du : Dur) (ov : Overflow) : (dt.addDateDuration du ov).Safe := by
  unfold IsoDateTime.addDateDuration; safe_auto
@[safe] theorem plainDateTimeAdd_safe (dt : IsoDateTime) (du : Dur) (ov : Overflow) : (plainDateTimeAdd dt du ov).Safe := by
  unfold plainDateTimeAdd; safe_auto
@[safe] theorem plainDateTimeSubtract_safe (dt : IsoDateTime) (du : Dur) (ov : Overflow) : (plainDateTimeSubtract dt du ov).Safe :=
  plainDateTimeAdd_safe _ _ _
@[safe] theorem plainDateTimeRound_safe (dt : IsoDateTime) (raw : RawOptions) : (plainDateTimeRound dt raw).Safe := by
  unfold plainDateTimeRound; safe_auto

theorem dtAddDateDuration_monthOk {dt : IsoDateTime} {du : Dur} {ov : Overflow} {r : IsoDateTime}
    (h : dt.addDateDuration du ov = .ok r) : MonthOk r.date := by
  unfold IsoDateTime.addDateDuration at h
  dsimp only at h
  split at h
  · cases h
  · cases h1 : Dur.new ⟨du.years, du.months, du.weeks, F64.ofInt (du.days + wrapI32 (timeAddNorm dt.time du.timeNs).1),
        0, 0, 0, 0, 0, 0⟩ with
    | err e => rw [h1] at h; cases h
    | panic => rw [h1] at h; cases h
    | ok dd =>
      rw [h1] at h; simp only [Out.bind_ok] at h
      cases h2 : plainDateAdd dt.date dd ov with
      | err e => rw [h2] at h; cases h
      | panic => rw [h2] at h; cases h
      | ok added =>
        rw [h2] at h; simp only [Out.bind_ok, Out.pure_eq_ok] at h
        cases h
        exact plainDateAdd_monthOk h2

theorem IsoDateTime.diff_safe (a b : IsoDateTime) (L : TUnit) (ha : MonthOk a.date) : (a.diff b L).Safe := by
  unfold IsoDateTime.diff
  dsimp only
  refine Out.safe_bind ?_ (fun p _ => ?_)
  · split <;> safe_auto
  · obtain ⟨adjusted, td⟩ := p
    dsimp only
    refine Out.safe_bind (plainDateTryNew_safe ..) (fun dateTwo h2 => ?_)
    refine Out.safe_bind (plainDateInternalDiff_safe _ _ _ ha (plainDateTryNew_monthOk h2)) (fun dd _ => ?_)
    safe_auto

theorem durFromNormalized_safe (date : Dur) (n : Int) (L : TUnit) (h : L ≠ .auto) : (durFromNormalized date n L).Safe := by
  unfold durFromNormalized
  exact Out.safe_bind (timeFromNormalized_safe _ _ h) (fun _ _ => Dur.new_safe _)

/-! ### Relative rounding (C08 machinery) -/
@[safe] theorem addDateToDt_safe (dt : IsoDateTime) (d : Dur) : (addDateToDt dt d).Safe := dtAddDateDuration_safe _ _ _

theorem nudgeBracket_safe (sign : Int) (dt : IsoDateTime) (date : Dur) (o : Resolved)
    (hc : o.smallest.isDateUnit = true) : (nudgeBracket sign dt date o).Safe := by
  unfold nudgeBracket
  dsimp only
  cases hs : o.smallest <;> simp [TUnit.isDateUnit, hs] at hc <;> dsimp only
  · exact Out.safe_ok _
  · -- week
    refine Out.safe_bind (addDateDuration_safe ..) (fun ws _ => Out.safe_bind (asDateValue_safe _) (fun dv _ => ?_))
    refine Out.safe_bind (plainDateTryNew_safe ..) (fun ws' h1 => Out.safe_bind (plainDateTryNew_safe ..) (fun we' h2 => ?_))
    exact Out.safe_bind (plainDateInternalDiff_safe _ _ _ (plainDateTryNew_monthOk h1) (plainDateTryNew_monthOk h2))
      (fun _ _ => Out.safe_pure _)
  · exact Out.safe_ok _
  · exact Out.safe_ok _

theorem nudgeCalendarUnit_safe (sign destNs : Int) (dt : IsoDateTime) (date : Dur) (o : Resolved)
    (hc : o.smallest.isDateUnit = true) : (nudgeCalendarUnit sign destNs dt date o).Safe := by
  unfold nudgeCalendarUnit
  dsimp only
  refine Out.safe_bind (nudgeBracket_safe _ _ _ _ hc) (fun p _ => ?_)
  obtain ⟨r1, r2, startD, endD⟩ := p
  dsimp only
  safe_auto

/-- A successful calendar nudge always carries its bracket data (used by `total`). -/
theorem nudgeCalendarUnit_parts {sign destNs : Int} {dt : IsoDateTime} {date : Dur} {o : Resolved} {nr : NudgeRecord}
    (hn : nudgeCalendarUnit sign destNs dt date o = .ok nr) : nr.totalParts.isSome := by
  unfold nudgeCalendarUnit at hn
  dsimp only at hn
  generalize nudgeBracket sign dt date o = br at hn
  cases br with
  | err e => cases hn
  | panic => cases hn
  | ok p =>
    obtain ⟨r1, r2, s, e⟩ := p
    simp only [Out.bind_ok] at hn
    cases h1 : Dur.new s with
    | err e => rw [h1] at hn; cases hn
    | panic => rw [h1] at hn; cases hn
    | ok s' =>
      rw [h1] at hn; simp only [Out.bind_ok] at hn
      cases h2 : Dur.new e with
      | err e => rw [h2] at hn; cases hn
      | panic => rw [h2] at hn; cases hn
      | ok e' =>
        rw [h2] at hn; simp only [Out.bind_ok] at hn
        cases h3 : addDateToDt dt s' with
        | err e => rw [h3] at hn; cases hn
        | panic => rw [h3] at hn; cases hn
        | ok st =>
          rw [h3] at hn; simp only [Out.bind_ok] at hn
          cases h4 : addDateToDt dt e' with
          | err e => rw [h4] at hn; cases hn
          | panic => rw [h4] at hn; cases hn
          | ok en =>
            rw [h4] at hn; simp only [Out.bind_ok] at hn
            cases h5 : st.utcEpochNs with
            | err e => rw [h5] at hn; cases hn
            | panic => rw [h5] at hn; cases hn
            | ok sn =>
              rw [h5] at hn; simp only [Out.bind_ok] at hn
              cases h6 : en.utcEpochNs with
              | err e => rw [h6] at hn; cases hn
              | panic => rw [h6] at hn; cases hn
              | ok enn =>
                rw [h6] at hn; simp only [Out.bind_ok] at hn
                split at hn
                · cases hn
                · split at hn <;> cases hn <;> rfl

theorem nudgeToDayOrTime_safe (destNs : Int) (date : Dur) (norm : Int) (o : Resolved)
    (h : o.smallest.asNanoseconds.isSome) : (nudgeToDayOrTime destNs date norm o).Safe := by
  unfold nudgeToDayOrTime
  refine Out.safe_bind (normChecked_safe _) (fun n _ => ?_)
  cases hl : o.smallest.asNanoseconds with
  | none => rw [hl] at h; cases h
  | some len => dsimp only; safe_auto

theorem bubbleLoop_safe (sign nudgeNs : Int) (dt : IsoDateTime) (largest : TUnit) :
    ∀ (fuel : Nat) (unit : TUnit) (d : Dur), (unit.isCalendarUnit = true ∨ unit = .auto) →
      (bubbleLoop sign nudgeNs dt largest fuel unit d).Safe := by
  intro fuel
  induction fuel with
  | zero => intro _ _ _; exact Out.safe_ok _
  | succ n ih =>
    intro unit d hu
    unfold bubbleLoop
    split
    · exact Out.safe_ok _
    · rename_i hna
      have hua : unit ≠ .auto := fun h => hna (Or.inl h)
      have hsucc : unit.succ.isCalendarUnit = true ∨ unit.succ = .auto := by
        cases unit <;> simp_all [TUnit.succ, TUnit.isCalendarUnit]
      split
      · exact ih _ _ hsucc
      · refine Out.safe_bind ?_ (fun endD _ => Out.safe_bind (addDateToDt_safe ..) (fun e _ =>
          Out.safe_bind (utcEpochNs_safe _) (fun endNs _ => ?_)))
        · cases unit <;> simp_all [TUnit.isCalendarUnit] <;> exact Dur.new_safe _
        · dsimp only; split
          · exact ih _ _ hsucc
          · exact Out.safe_ok _

theorem bubbleRelativeDuration_safe (sign nudgeNs : Int) (dt : IsoDateTime) (date : Dur) (norm : Int) (L S : TUnit)
    (hS : S.isDateUnit = true) : (bubbleRelativeDuration sign nudgeNs dt date norm L S).Safe := by
  unfold bubbleRelativeDuration
  split
  · exact Out.safe_ok _
  · refine Out.safe_bind (bubbleLoop_safe _ _ _ _ _ _ _ ?_) (fun _ _ => Out.safe_pure _)
    cases S <;> simp_all [TUnit.isDateUnit, TUnit.succ, TUnit.isCalendarUnit]

theorem max_day_isDateUnit (S : TUnit) : (S.max .day).isDateUnit = true := by
  cases S <;> simp [TUnit.max, TUnit.toNat, TUnit.isDateUnit]

theorem roundRelativeDuration_safe (date : Dur) (norm destNs : Int) (dt : IsoDateTime) (o : Resolved)
    (hS : o.smallest ≠ .auto) : (roundRelativeDuration date norm destNs dt o).Safe := by
  unfold roundRelativeDuration
  dsimp only
  refine Out.safe_bind ?_ (fun nr _ => ?_)
  · split
    · rename_i hc
      exact nudgeCalendarUnit_safe _ _ _ _ _ (by cases h : o.smallest <;> simp_all [TUnit.isCalendarUnit, TUnit.isDateUnit])
    · rename_i hc
      exact nudgeToDayOrTime_safe _ _ _ _ (asNs_of_not_calendar _ hS (by simpa using hc))
  · split
    · exact bubbleRelativeDuration_safe _ _ _ _ _ _ _ (max_day_isDateUnit _)
    · exact Out.safe_pure _

theorem diffDtWithRounding_safe (a b : IsoDateTime) (o : Resolved) (ha : MonthOk a.date) (hS : o.smallest ≠ .auto) :
    (diffDtWithRounding a b o).Safe := by
  unfold diffDtWithRounding
  split
  · exact Out.safe_ok _
  · refine Out.safe_bind (IsoDateTime.diff_safe _ _ _ ha) (fun p _ => ?_)
    obtain ⟨date, td⟩ := p
    dsimp only
    split
    · exact Out.safe_pure _
    · exact Out.safe_bind (utcEpochNs_safe _) (fun _ _ => roundRelativeDuration_safe _ _ _ _ _ hS)

/-- `PlainDateTime::until / since` never panics (valid receiver, any argument, any options). -/
theorem plainDateTimeDiffFull_safe (since : Bool) (a b : IsoDateTime) (raw : RawOptions) (ha : MonthOk a.date) :
    (plainDateTimeDiffFull since a b raw).Safe := by
  unfold plainDateTimeDiffFull
  refine Out.safe_bind (fromDiffSettings_safe ..) (fun o ho => ?_)
  obtain ⟨hL, hS, _⟩ := fromDiffSettings_ok ho (by decide)
  split
  · exact Out.safe_pure _
  · refine Out.safe_bind (diffDtWithRounding_safe _ _ _ ha hS) (fun p _ => ?_)
    obtain ⟨date, td⟩ := p
    exact Out.safe_bind (durFromNormalized_safe _ _ _ hL) (fun _ _ => Out.safe_pure _)

/-- `PlainDate::until / since` never panics. -/
theorem plainDateDiffFull_safe (since : Bool) (a b : IsoDate) (raw : RawOptions) (ha : MonthOk a) (hb : MonthOk b) :
    (plainDateDiffFull since a b raw).Safe := by
  unfold plainDateDiffFull
  refine Out.safe_bind (fromDiffSettings_safe ..) (fun o ho => ?_)
  obtain ⟨hL, hS, _⟩ := fromDiffSettings_ok ho (by decide)
  split
  · exact Out.safe_pure _
  · refine Out.safe_bind (plainDateInternalDiff_safe _ _ _ ha hb) (fun r _ => ?_)
    dsimp only
    refine Out.safe_bind ?_ (fun p _ => ?_)
    · split
      · exact Out.safe_pure _
      · exact Out.safe_bind (utcEpochNs_safe _) (fun _ _ => roundRelativeDuration_safe _ _ _ _ _ hS)
    · obtain ⟨date, td⟩ := p
      exact Out.safe_bind (durFromNormalized_safe _ _ _ (by decide)) (fun _ _ => Out.safe_pure _)

/-- `PlainYearMonth::until / since` never panics. -/
theorem yearMonthDiffFull_safe (since : Bool) (a b : IsoDate) (raw : RawOptions) (ha : MonthOk a) (hb : MonthOk b) :
    (yearMonthDiffFull since a b raw).Safe := by
  unfold yearMonthDiffFull
  split
  · exact Out.safe_range
  · refine Out.safe_bind (fromDiffSettings_safe ..) (fun o ho => ?_)
    obtain ⟨hL, hS, _⟩ := fromDiffSettings_ok ho (by decide)
    split
    · exact Out.safe_pure _
    · dsimp only
      refine Out.safe_bind (diffIsoDate_safe _ _ _ ha hb) (fun r _ => ?_)
      refine Out.safe_bind ?_ (fun p _ => ?_)
      · split
        · exact Out.safe_pure _
        · exact Out.safe_bind (utcEpochNs_safe _) (fun _ _ => roundRelativeDuration_safe _ _ _ _ _ hS)
      · obtain ⟨date, td⟩ := p
        exact Out.safe_bind (durFromNormalized_safe _ _ _ (by decide)) (fun _ _ => Out.safe_pure _)

theorem IsoDateTime.new_date {d : IsoDate} {t : IsoTime} {r : IsoDateTime} (h : IsoDateTime.new d t = .ok r) : r.date = d := by
  unfold IsoDateTime.new at h; split at h <;> cases h; rfl

/-- `Duration::round` relative to a plain date never panics. -/
theorem roundRelPlainDate_safe (d : Dur) (raw : RawOptions) (rel : IsoDate) (hr : MonthOk rel) :
    (d.roundRelPlainDate raw rel).Safe := by
  unfold Dur.roundRelPlainDate
  refine Out.safe_bind (fromDurationOptions_safe _ _) (fun o ho => ?_)
  obtain ⟨hL, hS, _⟩ := fromDurationOptions_ok ho (defaultLargestUnit_ne_auto d)
  dsimp only
  split
  · exact Out.safe_ok _
  · split
    · exact Out.safe_range
    refine Out.safe_bind (Dur.new_safe _) (fun dd _ => Out.safe_bind (plainDateAdd_safe ..) (fun target _ => ?_))
    refine Out.safe_bind (IsoDateTime.new_safe ..) (fun plainDt h1 => Out.safe_bind (IsoDateTime.new_safe ..) (fun targetDt _ => ?_))
    have hm : MonthOk plainDt.date := by rw [IsoDateTime.new_date h1]; exact hr
    refine Out.safe_bind (diffDtWithRounding_safe _ _ _ hm hS) (fun p _ => ?_)
    obtain ⟨date, td⟩ := p
    exact durFromNormalized_safe _ _ _ hL

theorem totalRelativeDuration_safe (date : Dur) (norm destNs : Int) (dt : IsoDateTime) (u : TUnit) :
    (totalRelativeDuration date norm destNs dt u).Safe := by
  unfold totalRelativeDuration
  split
  · rename_i hc
    dsimp only
    refine Out.safe_bind (nudgeCalendarUnit_safe _ _ _ _ _ (by cases u <;> simp_all [TUnit.isCalendarUnit, TUnit.isDateUnit]))
      (fun nr hn => ?_)
    have := nudgeCalendarUnit_parts hn
    cases hp : nr.totalParts with
    | none => rw [hp] at this; cases this
    | some q => obtain ⟨a, b, c, e⟩ := q; exact Out.safe_pure _
  · refine Out.safe_bind (normChecked_safe _) (fun n _ => ?_)
    split <;> safe_auto

theorem diffDtWithTotal_safe (a b : IsoDateTime) (u : TUnit) (ha : MonthOk a.date) : (diffDtWithTotal a b u).Safe := by
  unfold diffDtWithTotal
  split
  · exact Out.safe_ok _
  · split
    · exact Out.safe_range
    · refine Out.safe_bind (IsoDateTime.diff_safe _ _ _ ha) (fun p _ => ?_)
      obtain ⟨date, td⟩ := p
      dsimp only
      split
      · exact Out.safe_pure _
      · exact Out.safe_bind (utcEpochNs_safe _) (fun _ _ => totalRelativeDuration_safe ..)

/-- `Duration::total` relative to a plain date never panics. -/
theorem totalRelPlainDate_safe (d : Dur) (u : TUnit) (rel : IsoDate) (hr : MonthOk rel) : (d.totalRelPlainDate u rel).Safe := by
  unfold Dur.totalRelPlainDate
  split
  · exact Out.safe_range
  dsimp only
  exact Out.safe_bind (Dur.new_safe _) (fun _ _ => Out.safe_bind (plainDateAdd_safe ..) (fun _ _ =>
    diffDtWithTotal_safe _ _ _ hr))

@[safe] theorem dateDurationDays_safe (d : Dur) (rel : IsoDate) : (dateDurationDays d rel).Safe := by
  unfold dateDurationDays; safe_auto
/-- `Duration::compare` relative to a plain date never panics. -/
@[safe] theorem compareRelPlainDate_safe (a b : Dur) (rel : IsoDate) : (a.compareRelPlainDate b rel).Safe := by
  unfold Dur.compareRelPlainDate
  split
  · exact Out.safe_ok _
  · dsimp only
    refine Out.safe_bind ?_ (fun p _ => ?_)
    · split <;> safe_auto
    · obtain ⟨d1, d2⟩ := p; dsimp only; safe_auto

/-! ### Partial records, year-months, month-days -/
@[safe] theorem monthToMonthCode_safe (m : Int) : (monthToMonthCode m).Safe := by unfold monthToMonthCode; safe_auto
@[safe] theorem validateIso_safe (c : MonthCode) : c.validateIso.Safe := by unfold MonthCode.validateIso; safe_auto
@[safe] theorem withFallback_safe (p : PartialDate) (y m d : Int) (b : Bool) : (p.withFallback y m d b).Safe := by
  unfold PartialDate.withFallback; safe_auto
@[safe] theorem eraYearIso_safe (p : PartialDate) : (eraYearIso p).Safe := by unfold eraYearIso; safe_auto
@[safe] theorem resolveIsoMonthCode_safe (p : PartialDate) (ov : Overflow) : (resolveIsoMonthCode p ov).Safe := by
  unfold resolveIsoMonthCode; safe_auto
@[safe] theorem resolveIsoMonth_safe (p : PartialDate) (ov : Overflow) : (resolveIsoMonth p ov).Safe := by
  unfold resolveIsoMonth; safe_auto
@[safe] theorem resolveDay_safe (d : Option Int) (b : Bool) : (resolveDay d b).Safe := by unfold resolveDay; safe_auto

theorem resolveIsoMonth_ok {p : PartialDate} {ov : Overflow} {c : MonthCode} (h : resolveIsoMonth p ov = .ok c) :
    1 ≤ (c.num : Int) ∧ (c.num : Int) ≤ 12 := by
  unfold resolveIsoMonth at h
  cases h1 : resolveIsoMonthCode p ov with
  | err e => rw [h1] at h; cases h
  | panic => rw [h1] at h; cases h
  | ok code =>
    rw [h1] at h; simp only [Out.bind_ok] at h
    unfold MonthCode.validateIso at h
    split at h
    · rename_i hv; simp only [Out.bind_ok, Out.pure_eq_ok] at h; cases h; omega
    · cases h

@[safe] theorem resolvedFieldsIso_safe (p : PartialDate) (ov : Overflow) (rt : ResolutionType) : (resolvedFieldsIso p ov rt).Safe := by
  unfold resolvedFieldsIso
  refine Out.safe_bind (eraYearIso_safe _) (fun y _ => Out.safe_bind (resolveIsoMonth_safe _ _) (fun c hc =>
    Out.safe_bind (resolveDay_safe _ _) (fun d _ => ?_)))
  have hm := resolveIsoMonth_ok hc
  dsimp only
  refine Out.safe_bind ?_ (fun _ _ => Out.safe_pure _)
  split
  · exact constrainIsoDay_safe _ _ _ hm
  · exact Out.safe_bind (isoDaysInMonth_safe _ _ hm) (fun _ _ => by safe_auto)

@[safe] theorem dateFromPartial_safe (p : PartialDate) (ov : Overflow) : (dateFromPartial p ov).Safe := by
  unfold dateFromPartial; safe_auto
@[safe] theorem plainDateFromPartial_safe (p : PartialDate) (ov : Option Overflow) : (plainDateFromPartial p ov).Safe := by
  unfold plainDateFromPartial; safe_auto
@[safe] theorem plainDateWith_safe (r : IsoDate) (p : PartialDate) (ov : Option Overflow) : (plainDateWith r p ov).Safe := by
  unfold plainDateWith; safe_auto
@[safe] theorem isoTimeNew_safe (h mi s ms us ns : Int) (ov : Overflow) : (isoTimeNew h mi s ms us ns ov).Safe := by
  unfold isoTimeNew; safe_auto
@[safe] theorem isoTimeWith_safe (t : IsoTime) (p : PartialTime) (ov : Overflow) : (isoTimeWith t p ov).Safe := by
  unfold isoTimeWith; safe_auto
@[safe] theorem plainTimeFromPartial_safe (p : PartialTime) (ov : Option Overflow) : (plainTimeFromPartial p ov).Safe := by
  unfold plainTimeFromPartial; safe_auto
@[safe] theorem plainTimeWith_safe (t : IsoTime) (p : PartialTime) (ov : Option Overflow) : (plainTimeWith t p ov).Safe := by
  unfold plainTimeWith; safe_auto
@[safe] theorem plainDateTimeFromPartial_safe (pd : PartialDate) (pt : PartialTime) (ov : Option Overflow) :
    (plainDateTimeFromPartial pd pt ov).Safe := by
  unfold plainDateTimeFromPartial; safe_auto
@[safe] theorem plainDateTimeWith_safe (r : IsoDateTime) (pd : PartialDate) (pt : PartialTime) (ov : Option Overflow) :
    (plainDateTimeWith r pd pt ov).Safe := by
  unfold plainDateTimeWith; safe_auto
@[safe] theorem yearMonthNew_safe (y m : Int) (rd : Option Int) (ov : Overflow) : (yearMonthNew y m rd ov).Safe := by
  unfold yearMonthNew; safe_auto
@[safe] theorem yearMonthFromPartial_safe (p : PartialDate) (ov : Overflow) : (yearMonthFromPartial p ov).Safe := by
  unfold yearMonthFromPartial; safe_auto
@[safe] theorem yearMonthWith_safe (r : IsoDate) (p : PartialDate) (ov : Option Overflow) : (yearMonthWith r p ov).Safe := by
  unfold yearMonthWith; safe_auto
@[safe] theorem partialOfYearMonth_safe (r : IsoDate) : (partialOfYearMonth r).Safe := by
  unfold partialOfYearMonth; safe_auto
@[safe] theorem monthDayNew_safe (m d : Int) (ov : Overflow) (ry : Option Int) : (monthDayNew m d ov ry).Safe := by
  unfold monthDayNew; safe_auto
@[safe] theorem dateToYearMonth_safe (r : IsoDate) : (dateToYearMonth r).Safe := by unfold dateToYearMonth; safe_auto
@[safe] theorem dateToMonthDay_safe (r : IsoDate) : (dateToMonthDay r).Safe := by unfold dateToMonthDay; safe_auto
@[safe] theorem yearMonthAdd_safe (r : IsoDate) (du : Dur) (ov : Overflow) : (yearMonthAdd r du ov).Safe := by
  unfold yearMonthAdd; safe_auto
@[safe] theorem yearMonthSubtract_safe (r : IsoDate) (du : Dur) (ov : Overflow) : (yearMonthSubtract r du ov).Safe :=
  yearMonthAdd_safe _ _ _

end TemporalModel
