import TemporalModel.Lemmas.DurationLemmas
import TemporalModel.Model.TimeOps
namespace TemporalModel
open Dur

theorem isValid_iff (t : IsoTime) : t.isValid = true ↔
    (0 ≤ t.hour ∧ t.hour ≤ 23 ∧ 0 ≤ t.minute ∧ t.minute ≤ 59 ∧ 0 ≤ t.second ∧ t.second ≤ 59 ∧
     0 ≤ t.millisecond ∧ t.millisecond ≤ 999 ∧ 0 ≤ t.microsecond ∧ t.microsecond ≤ 999 ∧
     0 ≤ t.nanosecond ∧ t.nanosecond ≤ 999) := by
  unfold IsoTime.isValid
  simp only [Bool.and_eq_true, decide_eq_true_eq]
  omega

/-- `IsoTime::balance` is exact: days·86400e9 + ns(time) equals the exact total, and the time is valid. -/
theorem balance_exact (h mi s ms us ns : Int) :
    (IsoTime.balance h mi s ms us ns).1 * 86400000000000 + (IsoTime.balance h mi s ms us ns).2.toNs =
      ((((h * 60 + mi) * 60 + s) * 1000 + ms) * 1000 + us) * 1000 + ns ∧
    (IsoTime.balance h mi s ms us ns).2.isValid = true := by
  rw [isValid_iff]
  simp only [IsoTime.balance, IsoTime.toNs]
  omega

theorem timeAddNorm_exact (t : IsoTime) (n : Int) :
    (timeAddNorm t n).1 * 86400000000000 + (timeAddNorm t n).2.toNs = t.toNs + n ∧
    (timeAddNorm t n).2.isValid = true := by
  have hq := Int.mul_tdiv_add_tmod n 1000000000
  have hb := balance_exact t.hour t.minute (t.second + Int.tdiv n 1000000000) t.millisecond t.microsecond
    (t.nanosecond + Int.tmod n 1000000000)
  unfold timeAddNorm
  refine ⟨?_, hb.2⟩
  rw [hb.1]
  unfold IsoTime.toNs
  omega

theorem toNs_range (t : IsoTime) (h : t.isValid = true) : 0 ≤ t.toNs ∧ t.toNs < 86400000000000 := by
  rw [isValid_iff] at h
  unfold IsoTime.toNs
  omega

end TemporalModel
