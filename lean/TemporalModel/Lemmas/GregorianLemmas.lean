import TemporalModel.Model.Gregorian
import TemporalModel.Spec.Gregorian
namespace TemporalModel
open NS Greg

/-- The year window inside which every machine intermediate of the kernels is exact; it strictly
    contains Temporal's range (years −271821 … 275760). -/
def InWin (y : Int) : Prop := -1000000 ≤ y ∧ y ≤ 1000000

theorem year_decomp (y : Int) : ∃ q c k s : Int, y = 400 * q + 100 * c + 4 * k + s ∧
    0 ≤ c ∧ c ≤ 3 ∧ 0 ≤ k ∧ k ≤ 24 ∧ 0 ≤ s ∧ s ≤ 3 :=
  ⟨y / 400, y % 400 / 100, y % 100 / 4, y % 4, by omega⟩

theorem toDays_month1 (y d : Int) (hy : InWin y) :
    epochDaysFromGregorianDate y 1 d = dayNumber y 1 d := by
  obtain ⟨q, c, k, s, rfl, hc0, hc3, hk0, hk24, hs0, hs3⟩ := year_decomp y
  unfold epochDaysFromGregorianDate rataDieFirstEquations dayNumber yearStart monthStart isLeap InWin at *
  simp only [SHIFT_CONSTANT, DAYS_IN_A_400Y_CYCLE, EPOCH_COMPUTATIONAL_RATA_DIE]
  have hc : c = 0 ∨ c = 1 ∨ c = 2 ∨ c = 3 := by omega
  have hs : s = 0 ∨ s = 1 ∨ s = 2 ∨ s = 3 := by omega
  rcases hc with rfl | rfl | rfl | rfl <;> rcases hs with rfl | rfl | rfl | rfl <;> simp <;> omega

theorem toDays_month2 (y d : Int) (hy : InWin y) :
    epochDaysFromGregorianDate y 2 d = dayNumber y 2 d := by
  obtain ⟨q, c, k, s, rfl, hc0, hc3, hk0, hk24, hs0, hs3⟩ := year_decomp y
  unfold epochDaysFromGregorianDate rataDieFirstEquations dayNumber yearStart monthStart isLeap InWin at *
  simp only [SHIFT_CONSTANT, DAYS_IN_A_400Y_CYCLE, EPOCH_COMPUTATIONAL_RATA_DIE]
  have hc : c = 0 ∨ c = 1 ∨ c = 2 ∨ c = 3 := by omega
  have hs : s = 0 ∨ s = 1 ∨ s = 2 ∨ s = 3 := by omega
  rcases hc with rfl | rfl | rfl | rfl <;> rcases hs with rfl | rfl | rfl | rfl <;> simp <;> omega

theorem toDays_month3 (y d : Int) (hy : InWin y) :
    epochDaysFromGregorianDate y 3 d = dayNumber y 3 d := by
  obtain ⟨q, c, k, s, rfl, hc0, hc3, hk0, hk24, hs0, hs3⟩ := year_decomp y
  unfold epochDaysFromGregorianDate rataDieFirstEquations dayNumber yearStart monthStart isLeap InWin at *
  simp only [SHIFT_CONSTANT, DAYS_IN_A_400Y_CYCLE, EPOCH_COMPUTATIONAL_RATA_DIE]
  have hc : c = 0 ∨ c = 1 ∨ c = 2 ∨ c = 3 := by omega
  have hs : s = 0 ∨ s = 1 ∨ s = 2 ∨ s = 3 := by omega
  rcases hc with rfl | rfl | rfl | rfl <;> rcases hs with rfl | rfl | rfl | rfl <;> simp <;> omega

theorem toDays_month4 (y d : Int) (hy : InWin y) :
    epochDaysFromGregorianDate y 4 d = dayNumber y 4 d := by
  obtain ⟨q, c, k, s, rfl, hc0, hc3, hk0, hk24, hs0, hs3⟩ := year_decomp y
  unfold epochDaysFromGregorianDate rataDieFirstEquations dayNumber yearStart monthStart isLeap InWin at *
  simp only [SHIFT_CONSTANT, DAYS_IN_A_400Y_CYCLE, EPOCH_COMPUTATIONAL_RATA_DIE]
  have hc : c = 0 ∨ c = 1 ∨ c = 2 ∨ c = 3 := by omega
  have hs : s = 0 ∨ s = 1 ∨ s = 2 ∨ s = 3 := by omega
  rcases hc with rfl | rfl | rfl | rfl <;> rcases hs with rfl | rfl | rfl | rfl <;> simp <;> omega

theorem toDays_month5 (y d : Int) (hy : InWin y) :
    epochDaysFromGregorianDate y 5 d = dayNumber y 5 d := by
  obtain ⟨q, c, k, s, rfl, hc0, hc3, hk0, hk24, hs0, hs3⟩ := year_decomp y
  unfold epochDaysFromGregorianDate rataDieFirstEquations dayNumber yearStart monthStart isLeap InWin at *
  simp only [SHIFT_CONSTANT, DAYS_IN_A_400Y_CYCLE, EPOCH_COMPUTATIONAL_RATA_DIE]
  have hc : c = 0 ∨ c = 1 ∨ c = 2 ∨ c = 3 := by omega
  have hs : s = 0 ∨ s = 1 ∨ s = 2 ∨ s = 3 := by omega
  rcases hc with rfl | rfl | rfl | rfl <;> rcases hs with rfl | rfl | rfl | rfl <;> simp <;> omega

theorem toDays_month6 (y d : Int) (hy : InWin y) :
    epochDaysFromGregorianDate y 6 d = dayNumber y 6 d := by
  obtain ⟨q, c, k, s, rfl, hc0, hc3, hk0, hk24, hs0, hs3⟩ := year_decomp y
  unfold epochDaysFromGregorianDate rataDieFirstEquations dayNumber yearStart monthStart isLeap InWin at *
  simp only [SHIFT_CONSTANT, DAYS_IN_A_400Y_CYCLE, EPOCH_COMPUTATIONAL_RATA_DIE]
  have hc : c = 0 ∨ c = 1 ∨ c = 2 ∨ c = 3 := by omega
  have hs : s = 0 ∨ s = 1 ∨ s = 2 ∨ s = 3 := by omega
  rcases hc with rfl | rfl | rfl | rfl <;> rcases hs with rfl | rfl | rfl | rfl <;> simp <;> omega

theorem toDays_month7 (y d : Int) (hy : InWin y) :
    epochDaysFromGregorianDate y 7 d = dayNumber y 7 d := by
  obtain ⟨q, c, k, s, rfl, hc0, hc3, hk0, hk24, hs0, hs3⟩ := year_decomp y
  unfold epochDaysFromGregorianDate rataDieFirstEquations dayNumber yearStart monthStart isLeap InWin at *
  simp only [SHIFT_CONSTANT, DAYS_IN_A_400Y_CYCLE, EPOCH_COMPUTATIONAL_RATA_DIE]
  have hc : c = 0 ∨ c = 1 ∨ c = 2 ∨ c = 3 := by omega
  have hs : s = 0 ∨ s = 1 ∨ s = 2 ∨ s = 3 := by omega
  rcases hc with rfl | rfl | rfl | rfl <;> rcases hs with rfl | rfl | rfl | rfl <;> simp <;> omega

theorem toDays_month8 (y d : Int) (hy : InWin y) :
    epochDaysFromGregorianDate y 8 d = dayNumber y 8 d := by
  obtain ⟨q, c, k, s, rfl, hc0, hc3, hk0, hk24, hs0, hs3⟩ := year_decomp y
  unfold epochDaysFromGregorianDate rataDieFirstEquations dayNumber yearStart monthStart isLeap InWin at *
  simp only [SHIFT_CONSTANT, DAYS_IN_A_400Y_CYCLE, EPOCH_COMPUTATIONAL_RATA_DIE]
  have hc : c = 0 ∨ c = 1 ∨ c = 2 ∨ c = 3 := by omega
  have hs : s = 0 ∨ s = 1 ∨ s = 2 ∨ s = 3 := by omega
  rcases hc with rfl | rfl | rfl | rfl <;> rcases hs with rfl | rfl | rfl | rfl <;> simp <;> omega

theorem toDays_month9 (y d : Int) (hy : InWin y) :
    epochDaysFromGregorianDate y 9 d = dayNumber y 9 d := by
  obtain ⟨q, c, k, s, rfl, hc0, hc3, hk0, hk24, hs0, hs3⟩ := year_decomp y
  unfold epochDaysFromGregorianDate rataDieFirstEquations dayNumber yearStart monthStart isLeap InWin at *
  simp only [SHIFT_CONSTANT, DAYS_IN_A_400Y_CYCLE, EPOCH_COMPUTATIONAL_RATA_DIE]
  have hc : c = 0 ∨ c = 1 ∨ c = 2 ∨ c = 3 := by omega
  have hs : s = 0 ∨ s = 1 ∨ s = 2 ∨ s = 3 := by omega
  rcases hc with rfl | rfl | rfl | rfl <;> rcases hs with rfl | rfl | rfl | rfl <;> simp <;> omega

theorem toDays_month10 (y d : Int) (hy : InWin y) :
    epochDaysFromGregorianDate y 10 d = dayNumber y 10 d := by
  obtain ⟨q, c, k, s, rfl, hc0, hc3, hk0, hk24, hs0, hs3⟩ := year_decomp y
  unfold epochDaysFromGregorianDate rataDieFirstEquations dayNumber yearStart monthStart isLeap InWin at *
  simp only [SHIFT_CONSTANT, DAYS_IN_A_400Y_CYCLE, EPOCH_COMPUTATIONAL_RATA_DIE]
  have hc : c = 0 ∨ c = 1 ∨ c = 2 ∨ c = 3 := by omega
  have hs : s = 0 ∨ s = 1 ∨ s = 2 ∨ s = 3 := by omega
  rcases hc with rfl | rfl | rfl | rfl <;> rcases hs with rfl | rfl | rfl | rfl <;> simp <;> omega

theorem toDays_month11 (y d : Int) (hy : InWin y) :
    epochDaysFromGregorianDate y 11 d = dayNumber y 11 d := by
  obtain ⟨q, c, k, s, rfl, hc0, hc3, hk0, hk24, hs0, hs3⟩ := year_decomp y
  unfold epochDaysFromGregorianDate rataDieFirstEquations dayNumber yearStart monthStart isLeap InWin at *
  simp only [SHIFT_CONSTANT, DAYS_IN_A_400Y_CYCLE, EPOCH_COMPUTATIONAL_RATA_DIE]
  have hc : c = 0 ∨ c = 1 ∨ c = 2 ∨ c = 3 := by omega
  have hs : s = 0 ∨ s = 1 ∨ s = 2 ∨ s = 3 := by omega
  rcases hc with rfl | rfl | rfl | rfl <;> rcases hs with rfl | rfl | rfl | rfl <;> simp <;> omega

theorem toDays_month12 (y d : Int) (hy : InWin y) :
    epochDaysFromGregorianDate y 12 d = dayNumber y 12 d := by
  obtain ⟨q, c, k, s, rfl, hc0, hc3, hk0, hk24, hs0, hs3⟩ := year_decomp y
  unfold epochDaysFromGregorianDate rataDieFirstEquations dayNumber yearStart monthStart isLeap InWin at *
  simp only [SHIFT_CONSTANT, DAYS_IN_A_400Y_CYCLE, EPOCH_COMPUTATIONAL_RATA_DIE]
  have hc : c = 0 ∨ c = 1 ∨ c = 2 ∨ c = 3 := by omega
  have hs : s = 0 ∨ s = 1 ∨ s = 2 ∨ s = 3 := by omega
  rcases hc with rfl | rfl | rfl | rfl <;> rcases hs with rfl | rfl | rfl | rfl <;> simp <;> omega

/-- The coded date → day kernel equals the Gregorian day number (any day-of-month value `d`). -/
theorem toDays_eq_dayNumber (y m d : Int) (hy : InWin y) (hm1 : 1 ≤ m) (hm12 : m ≤ 12) :
    epochDaysFromGregorianDate y m d = dayNumber y m d := by
  have hm : m = 1 ∨ m = 2 ∨ m = 3 ∨ m = 4 ∨ m = 5 ∨ m = 6 ∨ m = 7 ∨ m = 8 ∨ m = 9 ∨ m = 10 ∨ m = 11 ∨ m = 12 := by
    omega
  rcases hm with rfl | rfl | rfl | rfl | rfl | rfl | rfl | rfl | rfl | rfl | rfl | rfl
  · exact toDays_month1 y d hy
  · exact toDays_month2 y d hy
  · exact toDays_month3 y d hy
  · exact toDays_month4 y d hy
  · exact toDays_month5 y d hy
  · exact toDays_month6 y d hy
  · exact toDays_month7 y d hy
  · exact toDays_month8 y d hy
  · exact toDays_month9 y d hy
  · exact toDays_month10 y d hy
  · exact toDays_month11 y d hy
  · exact toDays_month12 y d hy

end TemporalModel
