import TemporalModel.Model.Gregorian
import TemporalModel.Spec.Gregorian
namespace TemporalModel
open NS Greg

/-- The year window inside which every machine intermediate of the kernels is exact; it strictly
    contains Temporal's range (years −271821 … 275760). -/
def InWin (y : Int) : Prop := -1200000 ≤ y ∧ y ≤ 1200000

theorem year_decomp (y : Int) : ∃ q c k s : Int, y = 400 * q + 100 * c + 4 * k + s ∧
    0 ≤ c ∧ c ≤ 3 ∧ 0 ≤ k ∧ k ≤ 24 ∧ 0 ≤ s ∧ s ≤ 3 :=
  ⟨y / 400, y % 400 / 100, y % 100 / 4, y % 4, by omega⟩

theorem toDays_month1 (y d : Int) (hy : InWin y) :
    epochDaysFromGregorianDate y 1 d = dayNumber y 1 d := by
  obtain ⟨q, c, k, s, rfl, hc0, hc3, hk0, hk24, hs0, hs3⟩ := year_decomp y
  unfold epochDaysFromGregorianDate rataDieFirstEquations dayNumber yearStart monthStart isLeap InWin at *
  simp only [SHIFT_CONSTANT, DAYS_IN_A_400Y_CYCLE, EPOCH_COMPUTATIONAL_RATA_DIE]
  have hc : c = 0 ∨ c = 1 ∨ c = 2 ∨ c = 3 := by omega
  have hs : s = 0 ∨ s = 1 ∨ s = 2 ∨ s = 3 := by omega
  rcases hc with rfl | rfl | rfl | rfl <;> rcases hs with rfl | rfl | rfl | rfl <;> simp <;> omega

theorem toDays_month2 (y d : Int) (hy : InWin y) :
    epochDaysFromGregorianDate y 2 d = dayNumber y 2 d := by
  obtain ⟨q, c, k, s, rfl, hc0, hc3, hk0, hk24, hs0, hs3⟩ := year_decomp y
  unfold epochDaysFromGregorianDate rataDieFirstEquations dayNumber yearStart monthStart isLeap InWin at *
  simp only [SHIFT_CONSTANT, DAYS_IN_A_400Y_CYCLE, EPOCH_COMPUTATIONAL_RATA_DIE]
  have hc : c = 0 ∨ c = 1 ∨ c = 2 ∨ c = 3 := by omega
  have hs : s = 0 ∨ s = 1 ∨ s = 2 ∨ s = 3 := by omega
  rcases hc with rfl | rfl | rfl | rfl <;> rcases hs with rfl | rfl | rfl | rfl <;> simp <;> omega

theorem toDays_month3 (y d : Int) (hy : InWin y) :
    epochDaysFromGregorianDate y 3 d = dayNumber y 3 d := by
  obtain ⟨q, c, k, s, rfl, hc0, hc3, hk0, hk24, hs0, hs3⟩ := year_decomp y
  unfold epochDaysFromGregorianDate rataDieFirstEquations dayNumber yearStart monthStart isLeap InWin at *
  simp only [SHIFT_CONSTANT, DAYS_IN_A_400Y_CYCLE, EPOCH_COMPUTATIONAL_RATA_DIE]
  have hc : c = 0 ∨ c = 1 ∨ c = 2 ∨ c = 3 := by omega
  have hs : s = 0 ∨ s = 1 ∨ s = 2 ∨ s = 3 := by omega
  rcases hc with rfl | rfl | rfl | rfl <;> rcases hs with rfl | rfl | rfl | rfl <;> simp <;> omega

theorem toDays_month4 (y d : Int) (hy : InWin y) :
    epochDaysFromGregorianDate y 4 d = dayNumber y 4 d := by
  obtain ⟨q, c, k, s, rfl, hc0, hc3, hk0, hk24, hs0, hs3⟩ := year_decomp y
  unfold epochDaysFromGregorianDate rataDieFirstEquations dayNumber yearStart monthStart isLeap InWin at *
  simp only [SHIFT_CONSTANT, DAYS_IN_A_400Y_CYCLE, EPOCH_COMPUTATIONAL_RATA_DIE]
  have hc : c = 0 ∨ c = 1 ∨ c = 2 ∨ c = 3 := by omega
  have hs : s = 0 ∨ s = 1 ∨ s = 2 ∨ s = 3 := by omega
  rcases hc with rfl | rfl | rfl | rfl <;> rcases hs with rfl | rfl | rfl | rfl <;> simp <;> omega

theorem toDays_month5 (y d : Int) (hy : InWin y) :
    epochDaysFromGregorianDate y 5 d = dayNumber y 5 d := by
  obtain ⟨q, c, k, s, rfl, hc0, hc3, hk0, hk24, hs0, hs3⟩ := year_decomp y
  unfold epochDaysFromGregorianDate rataDieFirstEquations dayNumber yearStart monthStart isLeap InWin at *
  simp only [SHIFT_CONSTANT, DAYS_IN_A_400Y_CYCLE, EPOCH_COMPUTATIONAL_RATA_DIE]
  have hc : c = 0 ∨ c = 1 ∨ c = 2 ∨ c = 3 := by omega
  have hs : s = 0 ∨ s = 1 ∨ s = 2 ∨ s = 3 := by omega
  rcases hc with rfl | rfl | rfl | rfl <;> rcases hs with rfl | rfl | rfl | rfl <;> simp <;> omega

theorem toDays_month6 (y d : Int) (hy : InWin y) :
    epochDaysFromGregorianDate y 6 d = dayNumber y 6 d := by
  obtain ⟨q, c, k, s, rfl, hc0, hc3, hk0, hk24, hs0, hs3⟩ := year_decomp y
  unfold epochDaysFromGregorianDate rataDieFirstEquations dayNumber yearStart monthStart isLeap InWin at *
  simp only [SHIFT_CONSTANT, DAYS_IN_A_400Y_CYCLE, EPOCH_COMPUTATIONAL_RATA_DIE]
  have hc : c = 0 ∨ c = 1 ∨ c = 2 ∨ c = 3 := by omega
  have hs : s = 0 ∨ s = 1 ∨ s = 2 ∨ s = 3 := by omega
  rcases hc with rfl | rfl | rfl | rfl <;> rcases hs with rfl | rfl | rfl | rfl <;> simp <;> omega

theorem toDays_month7 (y d : Int) (hy : InWin y) :
    epochDaysFromGregorianDate y 7 d = dayNumber y 7 d := by
  obtain ⟨q, c, k, s, rfl, hc0, hc3, hk0, hk24, hs0, hs3⟩ := year_decomp y
  unfold epochDaysFromGregorianDate rataDieFirstEquations dayNumber yearStart monthStart isLeap InWin at *
  simp only [SHIFT_CONSTANT, DAYS_IN_A_400Y_CYCLE, EPOCH_COMPUTATIONAL_RATA_DIE]
  have hc : c = 0 ∨ c = 1 ∨ c = 2 ∨ c = 3 := by omega
  have hs : s = 0 ∨ s = 1 ∨ s = 2 ∨ s = 3 := by omega
  rcases hc with rfl | rfl | rfl | rfl <;> rcases hs with rfl | rfl | rfl | rfl <;> simp <;> omega

theorem toDays_month8 (y d : Int) (hy : InWin y) :
    epochDaysFromGregorianDate y 8 d = dayNumber y 8 d := by
  obtain ⟨q, c, k, s, rfl, hc0, hc3, hk0, hk24, hs0, hs3⟩ := year_decomp y
  unfold epochDaysFromGregorianDate rataDieFirstEquations dayNumber yearStart monthStart isLeap InWin at *
  simp only [SHIFT_CONSTANT, DAYS_IN_A_400Y_CYCLE, EPOCH_COMPUTATIONAL_RATA_DIE]
  have hc : c = 0 ∨ c = 1 ∨ c = 2 ∨ c = 3 := by omega
  have hs : s = 0 ∨ s = 1 ∨ s = 2 ∨ s = 3 := by omega
  rcases hc with rfl | rfl | rfl | rfl <;> rcases hs with rfl | rfl | rfl | rfl <;> simp <;> omega

theorem toDays_month9 (y d : Int) (hy : InWin y) :
    epochDaysFromGregorianDate y 9 d = dayNumber y 9 d := by
  obtain ⟨q, c, k, s, rfl, hc0, hc3, hk0, hk24, hs0, hs3⟩ := year_decomp y
  unfold epochDaysFromGregorianDate rataDieFirstEquations dayNumber yearStart monthStart isLeap InWin at *
  simp only [SHIFT_CONSTANT, DAYS_IN_A_400Y_CYCLE, EPOCH_COMPUTATIONAL_RATA_DIE]
  have hc : c = 0 ∨ c = 1 ∨ c = 2 ∨ c = 3 := by omega
  have hs : s = 0 ∨ s = 1 ∨ s = 2 ∨ s = 3 := by omega
  rcases hc with rfl | rfl | rfl | rfl <;> rcases hs with rfl | rfl | rfl | rfl <;> simp <;> omega

theorem toDays_month10 (y d : Int) (hy : InWin y) :
    epochDaysFromGregorianDate y 10 d = dayNumber y 10 d := by
  obtain ⟨q, c, k, s, rfl, hc0, hc3, hk0, hk24, hs0, hs3⟩ := year_decomp y
  unfold epochDaysFromGregorianDate rataDieFirstEquations dayNumber yearStart monthStart isLeap InWin at *
  simp only [SHIFT_CONSTANT, DAYS_IN_A_400Y_CYCLE, EPOCH_COMPUTATIONAL_RATA_DIE]
  have hc : c = 0 ∨ c = 1 ∨ c = 2 ∨ c = 3 := by omega
  have hs : s = 0 ∨ s = 1 ∨ s = 2 ∨ s = 3 := by omega
  rcases hc with rfl | rfl | rfl | rfl <;> rcases hs with rfl | rfl | rfl | rfl <;> simp <;> omega

theorem toDays_month11 (y d : Int) (hy : InWin y) :
    epochDaysFromGregorianDate y 11 d = dayNumber y 11 d := by
  obtain ⟨q, c, k, s, rfl, hc0, hc3, hk0, hk24, hs0, hs3⟩ := year_decomp y
  unfold epochDaysFromGregorianDate rataDieFirstEquations dayNumber yearStart monthStart isLeap InWin at *
  simp only [SHIFT_CONSTANT, DAYS_IN_A_400Y_CYCLE, EPOCH_COMPUTATIONAL_RATA_DIE]
  have hc : c = 0 ∨ c = 1 ∨ c = 2 ∨ c = 3 := by omega
  have hs : s = 0 ∨ s = 1 ∨ s = 2 ∨ s = 3 := by omega
  rcases hc with rfl | rfl | rfl | rfl <;> rcases hs with rfl | rfl | rfl | rfl <;> simp <;> omega

theorem toDays_month12 (y d : Int) (hy : InWin y) :
    epochDaysFromGregorianDate y 12 d = dayNumber y 12 d := by
  obtain ⟨q, c, k, s, rfl, hc0, hc3, hk0, hk24, hs0, hs3⟩ := year_decomp y
  unfold epochDaysFromGregorianDate rataDieFirstEquations dayNumber yearStart monthStart isLeap InWin at *
  simp only [SHIFT_CONSTANT, DAYS_IN_A_400Y_CYCLE, EPOCH_COMPUTATIONAL_RATA_DIE]
  have hc : c = 0 ∨ c = 1 ∨ c = 2 ∨ c = 3 := by omega
  have hs : s = 0 ∨ s = 1 ∨ s = 2 ∨ s = 3 := by omega
  rcases hc with rfl | rfl | rfl | rfl <;> rcases hs with rfl | rfl | rfl | rfl <;> simp <;> omega

/-- The coded date → day kernel equals the Gregorian day number (any day-of-month value `d`). -/
theorem toDays_eq_dayNumber (y m d : Int) (hy : InWin y) (hm1 : 1 ≤ m) (hm12 : m ≤ 12) :
    epochDaysFromGregorianDate y m d = dayNumber y m d := by
  have hm : m = 1 ∨ m = 2 ∨ m = 3 ∨ m = 4 ∨ m = 5 ∨ m = 6 ∨ m = 7 ∨ m = 8 ∨ m = 9 ∨ m = 10 ∨ m = 11 ∨ m = 12 := by
    omega
  rcases hm with rfl | rfl | rfl | rfl | rfl | rfl | rfl | rfl | rfl | rfl | rfl | rfl
  · exact toDays_month1 y d hy
  · exact toDays_month2 y d hy
  · exact toDays_month3 y d hy
  · exact toDays_month4 y d hy
  · exact toDays_month5 y d hy
  · exact toDays_month6 y d hy
  · exact toDays_month7 y d hy
  · exact toDays_month8 y d hy
  · exact toDays_month9 y d hy
  · exact toDays_month10 y d hy
  · exact toDays_month11 y d hy
  · exact toDays_month12 y d hy

theorem yearStart_succ (y : Int) : yearStart (y + 1) = yearStart y + diy y := by
  obtain ⟨q, c, k, s, rfl, hc0, hc3, hk0, hk24, hs0, hs3⟩ := year_decomp y
  unfold yearStart diy isLeap
  have hc : c = 0 ∨ c = 1 ∨ c = 2 ∨ c = 3 := by omega
  have hs : s = 0 ∨ s = 1 ∨ s = 2 ∨ s = 3 := by omega
  rcases hc with rfl | rfl | rfl | rfl <;> rcases hs with rfl | rfl | rfl | rfl <;> simp <;> split <;> omega

theorem dayNumber_anchor : dayNumber 1970 1 1 = 0 := by decide

theorem monthStart_succ (y m : Int) (h1 : 1 ≤ m) (h2 : m < 12) :
    monthStart y (m + 1) = monthStart y m + dim y m := by
  have hm : m = 1 ∨ m = 2 ∨ m = 3 ∨ m = 4 ∨ m = 5 ∨ m = 6 ∨ m = 7 ∨ m = 8 ∨ m = 9 ∨ m = 10 ∨ m = 11 := by omega
  rcases hm with rfl | rfl | rfl | rfl | rfl | rfl | rfl | rfl | rfl | rfl | rfl <;>
    cases hl : isLeap y <;> simp [monthStart, dim, hl]

theorem monthStart_dec (y : Int) : monthStart y 12 + 31 = diy y := by
  cases hl : isLeap y <;> simp [monthStart, diy, hl]

theorem dim_dec (y : Int) : dim y 12 = 31 := by simp [dim]
theorem monthStart_jan (y : Int) : monthStart y 1 = 0 := by simp [monthStart]

theorem dayNumber_succ (y m d : Int) (h : Valid y m d) :
    dayNumber (nextDay y m d).1 (nextDay y m d).2.1 (nextDay y m d).2.2 = dayNumber y m d + 1 := by
  obtain ⟨hm1, hm12, hd1, hdm⟩ := h
  unfold nextDay
  split
  · show dayNumber y m (d + 1) = _
    unfold dayNumber; omega
  · split
    · rename_i h1 h2
      show dayNumber y (m + 1) 1 = _
      have := monthStart_succ y m hm1 h2
      unfold dayNumber; omega
    · rename_i h1 h2
      have hm : m = 12 := by omega
      subst hm
      show dayNumber (y + 1) 1 1 = _
      have := yearStart_succ y
      have := monthStart_dec y
      have := dim_dec y
      have := monthStart_jan (y+1)
      unfold dayNumber; omega

theorem nextDay_valid (y m d : Int) (h : Valid y m d) :
    Valid (nextDay y m d).1 (nextDay y m d).2.1 (nextDay y m d).2.2 := by
  obtain ⟨hm1, hm12, hd1, hdm⟩ := h
  have dim_pos : ∀ y m, 28 ≤ dim y m := by
    intro y m; unfold dim; (repeat (any_goals split)) <;> omega
  unfold nextDay
  split
  · show Valid y m (d + 1)
    exact ⟨hm1, hm12, by omega, by omega⟩
  · split
    · show Valid y (m + 1) 1
      exact ⟨by omega, by omega, by omega, by have := dim_pos y (m+1); omega⟩
    · show Valid (y + 1) 1 1
      exact ⟨by omega, by omega, by omega, by have := dim_pos (y+1) 1; omega⟩

theorem or3_eq (x : Int) (hx : 0 ≤ x) : or3 x = 4 * (x / 4) + 3 := by
  unfold or3
  obtain ⟨n, rfl⟩ := Int.eq_ofNat_of_zero_le hx
  simp only [Int.toNat_natCast]
  have h : n ||| 3 = 4 * (n / 4) + 3 := by
    have h1 : n = (n / 4) <<< 2 + n % 4 := by
      rw [Nat.shiftLeft_eq]; omega
    have h2 : n % 4 < 2 ^ 2 := by omega
    conv => lhs; rw [h1]
    rw [Nat.shiftLeft_add_eq_or_of_lt h2, Nat.or_assoc]
    have h3 : n % 4 ||| 3 = 3 := by
      have : n % 4 = 0 ∨ n % 4 = 1 ∨ n % 4 = 2 ∨ n % 4 = 3 := by omega
      rcases this with h | h | h | h <;> rw [h] <;> decide
    rw [h3, ← Nat.shiftLeft_add_eq_or_of_lt (by decide : 3 < 2 ^ 2), Nat.shiftLeft_eq]
    omega
  rw [h]; omega

theorem mulshift_year (x : Int) (h0 : 0 ≤ x) (h1 : x < 146100) :
    2939745 * x / 4294967296 = x / 1461 := by omega
theorem mulshift_rem (x : Int) (h0 : 0 ≤ x) (h1 : x < 146100) :
    2939745 * x % 4294967296 = 2939745 * (x % 1461) + 149 * (x / 1461) := by omega
theorem mulshift_doy (x : Int) (h0 : 0 ≤ x) (h1 : x < 146100) :
    2939745 * x % 4294967296 / 2939745 / 4 = x % 1461 / 4 := by
  rw [mulshift_rem x h0 h1]; omega

theorem monthday_table : ∀ k : Fin 366,
    let doy : Int := k.val
    let n3 := 2141 * doy + 197913
    let M := n3 / 65536
    let D := n3 % 65536 / 2141
    3 ≤ M ∧ M ≤ 14 ∧ 0 ≤ D ∧ D ≤ 30 ∧ Int.tdiv (979 * M - 2919) 32 + D = doy ∧ (doy ≥ 306 ↔ M ≥ 13) := by
  decide +kernel

theorem monthday (doy : Int) (h0 : 0 ≤ doy) (h1 : doy ≤ 365) :
    let n3 := 2141 * doy + 197913
    let M := n3 / 65536
    let D := n3 % 65536 / 2141
    3 ≤ M ∧ M ≤ 14 ∧ 0 ≤ D ∧ D ≤ 30 ∧ Int.tdiv (979 * M - 2919) 32 + D = doy ∧ (doy ≥ 306 ↔ M ≥ 13) := by
  have := monthday_table ⟨doy.toNat, by omega⟩
  have e : ((doy.toNat : Nat) : Int) = doy := by omega
  simp only [e] at this
  exact this

theorem fromDays_core (n rd C R z r4 yoc e doy f M D : Int)
    (hn : -400000000 ≤ n ∧ n ≤ 400000000)
    (hrd : rd = n + 719468 + 146097 * 3670)
    (hN1 : 4 * rd + 3 = 146097 * C + R) (hR0 : 0 ≤ R) (hR1 : R < 146097)
    (hz : R = 4 * z + r4) (hr40 : 0 ≤ r4) (hr41 : r4 ≤ 3)
    (hyoc : 4 * z + 3 = 1461 * yoc + e) (he0 : 0 ≤ e) (he1 : e < 1461)
    (hdoy : e = 4 * doy + f) (hf0 : 0 ≤ f) (hf1 : f ≤ 3)
    (hM3 : 3 ≤ M) (hM14 : M ≤ 14) (hD0 : 0 ≤ D) (hD30 : D ≤ 30)
    (hmd : Int.tdiv (979 * M - 2919) 32 + D = doy) (hj : doy ≥ 306 ↔ M ≥ 13) :
    let j : Int := if doy ≥ 306 then 1 else 0
    epochDaysFromGregorianDate (100 * C + yoc + j - 400 * 3670) (M - 12 * j) (D + 1) = n ∧
      1 ≤ M - 12 * j ∧ M - 12 * j ≤ 12 ∧ InWin (100 * C + yoc + j - 400 * 3670) := by
  have hyoc0 : 0 ≤ yoc := by omega
  have hyoc1 : yoc ≤ 99 := by omega
  unfold epochDaysFromGregorianDate rataDieFirstEquations InWin
  simp only [SHIFT_CONSTANT, DAYS_IN_A_400Y_CYCLE, EPOCH_COMPUTATIONAL_RATA_DIE]
  generalize hms : Int.tdiv (979 * M - 2919) 32 = ms at *
  obtain ⟨c4, cr, hCd, hcr0, hcr3⟩ : ∃ c4 cr : Int, C = 4 * c4 + cr ∧ 0 ≤ cr ∧ cr ≤ 3 := ⟨C / 4, C % 4, by omega⟩
  obtain ⟨y4, yr, hYd, hyr0, hyr3⟩ : ∃ y4 yr : Int, yoc = 4 * y4 + yr ∧ 0 ≤ yr ∧ yr ≤ 3 := ⟨yoc / 4, yoc % 4, by omega⟩
  subst hCd hYd
  have hcr : cr = 0 ∨ cr = 1 ∨ cr = 2 ∨ cr = 3 := by omega
  have hyr : yr = 0 ∨ yr = 1 ∨ yr = 2 ∨ yr = 3 := by omega
  by_cases hd : doy ≥ 306
  · have hM13 : M ≥ 13 := hj.mp hd
    have e1 : (if M - 12 * 1 ≤ 2 then (1:Int) else 0) = 1 := by rw [if_pos]; omega
    simp only [hd, if_true, e1]
    have e2 : M - 12 * 1 + 12 * 1 = M := by omega
    rw [e2, hms]
    refine ⟨?_, by omega, by omega, by omega, by omega⟩
    rcases hcr with rfl | rfl | rfl | rfl <;> rcases hyr with rfl | rfl | rfl | rfl <;> omega
  · have hM12 : ¬ M ≥ 13 := fun h => hd (hj.mpr h)
    have e1 : (if M - 12 * 0 ≤ 2 then (1:Int) else 0) = 0 := by rw [if_neg]; omega
    simp only [hd, if_false, e1]
    have e2 : M - 12 * 0 + 12 * 0 = M := by omega
    rw [e2, hms]
    refine ⟨?_, by omega, by omega, by omega, by omega⟩
    rcases hcr with rfl | rfl | rfl | rfl <;> rcases hyr with rfl | rfl | rfl | rfl <;> omega

/-- Window of day numbers on which the reverse kernel is exact (⊃ Temporal's ±(10^8+1) days). -/
def InDayWin (n : Int) : Prop := -400000000 ≤ n ∧ n ≤ 400000000

/-- Explicit (division-only) form of the coded days → (y, m, d) kernel. -/
def ymdExplicit (n : Int) : Int × Int × Int :=
  let rd := n + 719468 + 146097 * 3670
  let C := (4 * rd + 3) / 146097
  let R := (4 * rd + 3) % 146097
  let z := R / 4
  let yoc := (4 * z + 3) / 1461
  let doy := (4 * z + 3) % 1461 / 4
  let M := (2141 * doy + 197913) / 65536
  let D := (2141 * doy + 197913) % 65536 / 2141
  let j : Int := if doy ≥ 306 then 1 else 0
  (100 * C + yoc + j - 400 * 3670, M - 12 * j, D + 1)

theorem ymdFromEpochDays_eq (n : Int) : ymdFromEpochDays n = ymdExplicit n := by
  unfold ymdFromEpochDays rataDieForEpochDays gregorianYmd thirdEquations secondEquations firstEquations nOne
    ymdExplicit
  simp only [SHIFT_CONSTANT, DAYS_IN_A_400Y_CYCLE, EPOCH_COMPUTATIONAL_RATA_DIE, TWO_POWER_THIRTY_TWO, TWO_POWER_SIXTEEN]
  have hR0 : 0 ≤ (4 * (n + 719468 + 146097 * 3670) + 3) % 146097 := by omega
  have hx0 : 0 ≤ 4 * ((4 * (n + 719468 + 146097 * 3670) + 3) % 146097 / 4) + 3 := by omega
  have hx1 : 4 * ((4 * (n + 719468 + 146097 * 3670) + 3) % 146097 / 4) + 3 < 146100 := by omega
  simp only [or3_eq _ hR0, mulshift_year _ hx0 hx1, mulshift_doy _ hx0 hx1]

/-- Round trip days → (y, m, d) → days through the two coded kernels, with the field ranges. -/
theorem toDays_fromDays (n : Int) (hn : InDayWin n) :
    ∃ y m d, ymdFromEpochDays n = (y, m, d) ∧ epochDaysFromGregorianDate y m d = n ∧
      1 ≤ m ∧ m ≤ 12 ∧ InWin y ∧ 1 ≤ d ∧ d ≤ 31 := by
  rw [ymdFromEpochDays_eq]
  unfold ymdExplicit
  simp only
  unfold InDayWin at hn
  generalize hrd : n + 719468 + 146097 * 3670 = rd at *
  have hrd0 : 0 ≤ rd := by omega
  generalize hC : (4 * rd + 3) / 146097 = C at *
  generalize hR : (4 * rd + 3) % 146097 = R at *
  generalize hz : R / 4 = z at *
  generalize hyoc : (4 * z + 3) / 1461 = yoc at *
  generalize he : (4 * z + 3) % 1461 = e at *
  generalize hdoy : e / 4 = doy at *
  have hdoy0 : 0 ≤ doy := by omega
  have hdoy1 : doy ≤ 365 := by omega
  have hmd := monthday doy hdoy0 hdoy1
  simp only at hmd
  obtain ⟨hM3, hM14, hD0, hD30, hmd1, hj⟩ := hmd
  have core := fromDays_core n rd C R z (R % 4) yoc e doy (e % 4)
    ((2141 * doy + 197913) / 65536) ((2141 * doy + 197913) % 65536 / 2141)
    hn hrd.symm (by omega) (by omega) (by omega) (by omega) (by omega) (by omega) (by omega) (by omega) (by omega)
    (by omega) (by omega) (by omega) hM3 hM14 hD0 hD30 hmd1 hj
  simp only at core
  obtain ⟨c1, c2, c3, c4⟩ := core
  exact ⟨_, _, _, rfl, c1, c2, c3, c4, by omega, by omega⟩

end TemporalModel
