/-
  Lemmas/CalRebuild.lean — rebuilding a date from its reported fields: the library half (`fromCodes` inverts the
  reported fields) for each family of modelled calendars, and the shape of the reported fields the crate's
  resolution relies on.
-/
import TemporalModel.Lemmas.CalFieldLemmas
import TemporalModel.Model.CalGlue
namespace TemporalModel
namespace Cal
open Greg NS

theorem tryNewIso_valid (y m d : Int) (hv : Valid y m d) : tryNewIso y m.toNat d = some ⟨y, m, d⟩ := by
  obtain ⟨h1, h2, h3, h4⟩ := hv
  unfold tryNewIso
  have e : ((m.toNat : Nat) : Int) = m := by omega
  have c : 1 ≤ m.toNat ∧ m.toNat ≤ 12 ∧ 1 ≤ d ∧ d ≤ dim y (m.toNat : Int) := by rw [e]; omega
  rw [if_pos c, e]

/-- day number → ISO date, for a date in range -/
theorem isoOfDay_dayNumber (iso : IsoDate) (hr : InRange iso) :
    isoOfDay (dayNumber iso.year iso.month iso.day) = some iso := by
  obtain ⟨hv, h1, h2⟩ := hr
  have hy := inRange_year iso ⟨hv, h1, h2⟩
  have hw : InWin iso.year := by unfold InWin; omega
  have hd : InDayWin (dayNumber iso.year iso.month iso.day) := by unfold InDayWin; omega
  have hi := C01_inverse iso.year iso.month iso.day hv hw hd
  rw [C01_toDays _ _ _ hw hv.1 hv.2.1] at hi
  unfold isoOfDay
  have c : -(MAX_EPOCH_DAYS + 400) ≤ dayNumber iso.year iso.month iso.day ∧
      dayNumber iso.year iso.month iso.day ≤ MAX_EPOCH_DAYS + 400 := by unfold MAX_EPOCH_DAYS; omega
  rw [if_pos c]
  simp only [hi]

/-- The library rebuilds a day-count date from the (year, month, day) it reported. -/
theorem arithFromCodes_roundtrip {c : ACal} (h : c.Lawful InDayWin) (iso : IsoDate) (hr : InRange iso) :
    arithFromCodes c (c.ofDay (dayNumber iso.year iso.month iso.day)).1
      ⟨(c.ofDay (dayNumber iso.year iso.month iso.day)).2.1, false⟩
      (c.ofDay (dayNumber iso.year iso.month iso.day)).2.2 = some iso := by
  have hw : InDayWin (dayNumber iso.year iso.month iso.day) := by
    obtain ⟨_, h1, h2⟩ := hr; unfold InDayWin; omega
  obtain ⟨⟨v1, v2, v3, v4⟩, ht⟩ := ofDay_spec h _ hw
  unfold arithFromCodes
  simp only [Bool.false_eq_true, false_or]
  rw [if_neg (by omega), if_neg (by omega), ht]
  exact isoOfDay_dayNumber iso hr

/-! ### Which fields a modelled calendar reports -/

theorem fields_iso (cal : CalId) (h : cal.isoBased = true) (iso : IsoDate) :
    fields cal iso = some (isoFields cal iso.year iso.month iso.day) := by
  simp [fields, h]

theorem fields_arith (cal : CalId) (c : ACal) (h : cal.arith = some c) (iso : IsoDate) :
    fields cal iso = some (arithFields cal c (dayNumber iso.year iso.month iso.day)) := by
  have hi : cal.isoBased = false := by cases cal <;> simp [CalId.arith] at h <;> rfl
  simp [fields, hi, h]

/-! ### The library inverts the year it reports (no era given) -/

theorem lib_year_iso (cal : CalId) (hc : cal = .gregory ∨ cal = .buddhist ∨ cal = .roc) (y m d : Int)
    (hv : Valid y m d) :
    fromCodes cal none (isoFields cal y m d).year (isoFields cal y m d).monthCode (isoFields cal y m d).day =
      some ⟨y, m, d⟩ := by
  have ht := tryNewIso_valid y m d hv
  rcases hc with rfl | rfl | rfl
  · simp [fromCodes, isoFields, yearInfo_year, ht]
  · simp [fromCodes, isoFields, yearInfo_year, ht]
  · simp [fromCodes, isoFields, yearInfo_year, ht]

theorem lib_year_japanese (y m d : Int) (hv : Valid y m d) (hy : 1 ≤ y) :
    fromCodes .japanese none (isoFields .japanese y m d).year (isoFields .japanese y m d).monthCode
      (isoFields .japanese y m d).day = some ⟨y, m, d⟩ := by
  have ht := tryNewIso_valid y m d hv
  have h12 : ¬ (m.toNat > 12) := by have := hv.2.1; omega
  have hy' : ¬ y ≤ 0 := by omega
  simp [fromCodes, japaneseFromCodes, isoFields, yearInfo_year, ht, h12, hy']

theorem lib_year_arith (cal : CalId) (c : ACal) (hc : cal.arith = some c) (h : c.Lawful InDayWin) (iso : IsoDate)
    (hr : InRange iso) :
    fromCodes cal none (arithFields cal c (dayNumber iso.year iso.month iso.day)).year
      (arithFields cal c (dayNumber iso.year iso.month iso.day)).monthCode
      (arithFields cal c (dayNumber iso.year iso.month iso.day)).day = some iso := by
  have hrt := arithFromCodes_roundtrip h iso hr
  cases cal <;> simp [CalId.arith] at hc <;> subst hc <;>
    simp [fromCodes, arithFields, yearInfo_year, hrt]

/-! ### The era route: the crate's era table, then the library -/

/-- Rebuilding from (era, era year, month code, day) -/
def byEra (f : CalFields) : CalPartial := ⟨f.era, f.eraYear, none, none, some f.monthCode, some f.day⟩

/-- The era route works: the reported era is in the table, the reported era year is inside its bounds, and the
    library, given the table's code for it, returns the date. -/
def EraRouteOk (cal : CalId) (f : CalFields) (iso : IsoDate) : Prop :=
  ∃ e ey, resolveEraYear cal (byEra f) = .ok (e, ey) ∧ (-300000 ≤ ey ∧ ey ≤ 300000) ∧
    fromCodes cal e ey f.monthCode f.day = some iso

theorem era_route_gregory (y m d : Int) (hv : Valid y m d) (hy : -271821 ≤ y ∧ y ≤ 275760) :
    EraRouteOk .gregory (isoFields .gregory y m d) ⟨y, m, d⟩ := by
  have ht := tryNewIso_valid y m d hv
  have e1 : eraInfo .gregory "gregory" = some ⟨"ce", some 1, none⟩ := by decide +kernel
  have e2 : eraInfo .gregory "gregory-inverse" = some ⟨"bce", some 1, none⟩ := by decide +kernel
  by_cases h : y > 0
  · refine ⟨some "ce", y, ?_, by omega, ?_⟩
    · have : 1 ≤ y := by omega
      simp [resolveEraYear, byEra, isoFields, yearInfo, h, e1, EraInfo.contains, this]
    · have : ¬ y ≤ 0 := by omega
      simp [fromCodes, isoFields, this, ht]
  · refine ⟨some "bce", 1 - y, ?_, by omega, ?_⟩
    · have : 1 ≤ 1 - y := by omega
      simp [resolveEraYear, byEra, isoFields, yearInfo, h, e2, EraInfo.contains, this]
    · have : ¬ 1 - y ≤ 0 := by omega
      have e : 1 - (1 - y) = y := by omega
      simp [fromCodes, isoFields, this, e, ht]

theorem era_route_buddhist (y m d : Int) (hv : Valid y m d) (hy : -271821 ≤ y ∧ y ≤ 275760) :
    EraRouteOk .buddhist (isoFields .buddhist y m d) ⟨y, m, d⟩ := by
  have ht := tryNewIso_valid y m d hv
  have e1 : eraInfo .buddhist "buddhist" = some ⟨"be", none, none⟩ := by decide +kernel
  refine ⟨some "be", y + 543, ?_, by omega, ?_⟩
  · simp [resolveEraYear, byEra, isoFields, yearInfo, e1, EraInfo.contains]
  · simp [fromCodes, isoFields, ht]

theorem era_route_roc (y m d : Int) (hv : Valid y m d) (hy : -271821 ≤ y ∧ y ≤ 275760) :
    EraRouteOk .roc (isoFields .roc y m d) ⟨y, m, d⟩ := by
  have ht := tryNewIso_valid y m d hv
  have e1 : eraInfo .roc "roc" = some ⟨"roc", some 1, none⟩ := by decide +kernel
  have e2 : eraInfo .roc "roc-inverse" = some ⟨"roc-inverse", some 1, none⟩ := by decide +kernel
  by_cases h : y > 1911
  · refine ⟨some "roc", y - 1911, ?_, by omega, ?_⟩
    · have : 1 ≤ y - 1911 := by omega
      simp [resolveEraYear, byEra, isoFields, yearInfo, h, e1, EraInfo.contains, this]
    · have : ¬ y - 1911 ≤ 0 := by omega
      have e : y - 1911 + 1911 = y := by omega
      simp [fromCodes, isoFields, this, e, ht]
  · refine ⟨some "roc-inverse", 1912 - y, ?_, by omega, ?_⟩
    · have : 1 ≤ 1912 - y := by omega
      simp [resolveEraYear, byEra, isoFields, yearInfo, h, e2, EraInfo.contains, this]
    · have : ¬ 1912 - y ≤ 0 := by omega
      have e : 1 - (1912 - y) + 1911 = y := by omega
      simp [fromCodes, isoFields, this, e, ht]

theorem era_route_japanese (y m d : Int) (hv : Valid y m d) (hy : -271821 ≤ y ∧ y ≤ 275760) :
    EraRouteOk .japanese (isoFields .japanese y m d) ⟨y, m, d⟩ := by
  have ht := tryNewIso_valid y m d hv
  have h12 : ¬ (m.toNat > 12) := by have := hv.2.1; omega
  have em : ((m.toNat : Nat) : Int) = m := by have := hv.1; omega
  have i1 : eraInfo .japanese "reiwa" = some ⟨"reiwa", some 1, none⟩ := by decide +kernel
  have i2 : eraInfo .japanese "heisei" = some ⟨"heisei", some 1, some 31⟩ := by decide +kernel
  have i3 : eraInfo .japanese "showa" = some ⟨"showa", some 1, some 64⟩ := by decide +kernel
  have i4 : eraInfo .japanese "taisho" = some ⟨"taisho", some 1, some 15⟩ := by decide +kernel
  have i5 : eraInfo .japanese "meiji" = some ⟨"meiji", some 1, some 45⟩ := by decide +kernel
  have i6 : eraInfo .japanese "bce" = some ⟨"japanese-inverse", some 1, none⟩ := by decide +kernel
  have i7 : eraInfo .japanese "ce" = some ⟨"japanese", some 1, some 1868⟩ := by decide +kernel
  rcases japaneseEraYear_cases y m d with ⟨a1, ea⟩ | ⟨a1, a2, ea⟩ | ⟨a1, a2, ea⟩ | ⟨a1, a2, ea⟩ | ⟨a1, a2, ea⟩ |
      ⟨a1, a2, ea⟩ | ⟨a1, a2, ea⟩
  · have b1 := (ymdLe_iff _ _).mp a1
    simp only at b1
    have c1 : 1 ≤ y - 2018 := by omega
    have ey : 2019 + (y - 2018) - 1 = y := by omega
    refine ⟨some "reiwa", y - 2018, ?_, by omega, ?_⟩
    · simp [resolveEraYear, byEra, isoFields, yearInfo, ea, i1, EraInfo.contains, c1]
    · simp [fromCodes, japaneseFromCodes, japaneseEras, isoFields, h12, ey, em, a1, ht]
  · have b1 := (ymdLe_false_iff _ _).mp a1
    have b2 := (ymdLe_iff _ _).mp a2
    simp only at b1 b2
    have c1 : 1 ≤ y - 1988 := by omega
    have c2 : y - 1988 ≤ 31 := by omega
    have ey : 1989 + (y - 1988) - 1 = y := by omega
    refine ⟨some "heisei", y - 1988, ?_, by omega, ?_⟩
    · simp [resolveEraYear, byEra, isoFields, yearInfo, ea, i2, EraInfo.contains, c1, c2]
    · simp [fromCodes, japaneseFromCodes, japaneseEras, isoFields, h12, ey, em, a1, a2, ht]
  · have b1 := (ymdLe_false_iff _ _).mp a1
    have b2 := (ymdLe_iff _ _).mp a2
    simp only at b1 b2
    have c1 : 1 ≤ y - 1925 := by omega
    have c2 : y - 1925 ≤ 64 := by omega
    have ey : 1926 + (y - 1925) - 1 = y := by omega
    refine ⟨some "showa", y - 1925, ?_, by omega, ?_⟩
    · simp [resolveEraYear, byEra, isoFields, yearInfo, ea, i3, EraInfo.contains, c1, c2]
    · simp [fromCodes, japaneseFromCodes, japaneseEras, isoFields, h12, ey, em, a1, a2, ht]
  · have b1 := (ymdLe_false_iff _ _).mp a1
    have b2 := (ymdLe_iff _ _).mp a2
    simp only at b1 b2
    have c1 : 1 ≤ y - 1911 := by omega
    have c2 : y - 1911 ≤ 15 := by omega
    have ey : 1912 + (y - 1911) - 1 = y := by omega
    refine ⟨some "taisho", y - 1911, ?_, by omega, ?_⟩
    · simp [resolveEraYear, byEra, isoFields, yearInfo, ea, i4, EraInfo.contains, c1, c2]
    · simp [fromCodes, japaneseFromCodes, japaneseEras, isoFields, h12, ey, em, a1, a2, ht]
  · have b1 := (ymdLe_false_iff _ _).mp a1
    have b2 := (ymdLe_iff _ _).mp a2
    simp only at b1 b2
    have c1 : 1 ≤ y - 1867 := by omega
    have c2 : y - 1867 ≤ 45 := by omega
    have ey : 1868 + (y - 1867) - 1 = y := by omega
    refine ⟨some "meiji", y - 1867, ?_, by omega, ?_⟩
    · simp [resolveEraYear, byEra, isoFields, yearInfo, ea, i5, EraInfo.contains, c1, c2]
    · simp [fromCodes, japaneseFromCodes, japaneseEras, isoFields, h12, ey, em, a1, a2, ht]
  · have c1 : 1 ≤ 1 - y := by omega
    have c2 : ¬ 1 - y ≤ 0 := by omega
    have ey : 1 - (1 - y) = y := by omega
    refine ⟨some "japanese-inverse", 1 - y, ?_, by omega, ?_⟩
    · simp [resolveEraYear, byEra, isoFields, yearInfo, ea, i6, EraInfo.contains, c1]
    · simp [fromCodes, japaneseFromCodes, isoFields, h12, c2, ey, ht]
  · have b1 := (ymdLe_false_iff _ _).mp a1
    simp only at b1
    have c1 : 1 ≤ y := by omega
    have c2 : y ≤ 1868 := by omega
    have c3 : ¬ y ≤ 0 := by omega
    refine ⟨some "japanese", y, ?_, by omega, ?_⟩
    · simp [resolveEraYear, byEra, isoFields, yearInfo, ea, i7, EraInfo.contains, c1, c2]
    · simp [fromCodes, japaneseFromCodes, isoFields, h12, c3, ht]

/-- day-count calendars: what the era route needs from each calendar, given the library's year route -/
theorem era_route_arith (cal : CalId) (c : ACal) (hc : cal.arith = some c) (h : c.Lawful InDayWin) (iso : IsoDate)
    (hr : InRange iso)
    (hyb : -290000 ≤ (c.ofDay (dayNumber iso.year iso.month iso.day)).1 ∧
      (c.ofDay (dayNumber iso.year iso.month iso.day)).1 ≤ 290000) :
    EraRouteOk cal (arithFields cal c (dayNumber iso.year iso.month iso.day)) iso := by
  have hrt := arithFromCodes_roundtrip h iso hr
  unfold EraRouteOk byEra arithFields
  simp only
  generalize (c.ofDay (dayNumber iso.year iso.month iso.day)) = ymd at hrt hyb ⊢
  have j1 : eraInfo .coptic "coptic" = some ⟨"coptic", some 1, none⟩ := by decide +kernel
  have j2 : eraInfo .coptic "coptic-inverse" = some ⟨"coptic-inverse", some 1, none⟩ := by decide +kernel
  have j3 : eraInfo .ethiopic "ethiopic" = some ⟨"ethiopic", some 1, none⟩ := by decide +kernel
  have j4 : eraInfo .ethiopic "ethiopic-inverse" = some ⟨"ethiopic-inverse", some 1, none⟩ := by decide +kernel
  have j5 : eraInfo .ethioaa "ethioaa" = some ⟨"ethioaa", none, none⟩ := by decide +kernel
  have j6 : eraInfo .indian "saka" = some ⟨"indian", none, none⟩ := by decide +kernel
  have j7 : eraInfo .islamicCivil "islamic-civil" = some ⟨"islamic-civil", none, none⟩ := by decide +kernel
  have j8 : eraInfo .islamicTbla "islamic-tbla" = some ⟨"islamic-tbla", none, none⟩ := by decide +kernel
  have j9 : eraInfo .persian "persian" = some ⟨"persian", none, none⟩ := by decide +kernel
  cases cal <;> simp [CalId.arith] at hc <;> subst hc
  case coptic =>
    by_cases hy : ymd.1 > 0
    · have c1 : 1 ≤ ymd.1 := by omega
      have c2 : ¬ ymd.1 ≤ 0 := by omega
      refine ⟨some "coptic", ymd.1, ?_, by omega, ?_⟩
      · simp [resolveEraYear, yearInfo, hy, j1, EraInfo.contains, c1]
      · simp [fromCodes, c2, hrt]
    · have c1 : 1 ≤ 1 - ymd.1 := by omega
      have c2 : ¬ 1 - ymd.1 ≤ 0 := by omega
      have e : 1 - (1 - ymd.1) = ymd.1 := by omega
      refine ⟨some "coptic-inverse", 1 - ymd.1, ?_, by omega, ?_⟩
      · simp [resolveEraYear, yearInfo, hy, j2, EraInfo.contains, c1]
      · simp [fromCodes, c2, e, hrt]
  case ethiopic =>
    by_cases hy : ymd.1 > 0
    · have c1 : 1 ≤ ymd.1 := by omega
      have c2 : ¬ ymd.1 ≤ 0 := by omega
      refine ⟨some "ethiopic", ymd.1, ?_, by omega, ?_⟩
      · simp [resolveEraYear, yearInfo, hy, j3, EraInfo.contains, c1]
      · simp [fromCodes, c2, hrt]
    · have c1 : 1 ≤ 1 - ymd.1 := by omega
      have c2 : ¬ 1 - ymd.1 ≤ 0 := by omega
      have e : 1 - (1 - ymd.1) = ymd.1 := by omega
      refine ⟨some "ethiopic-inverse", 1 - ymd.1, ?_, by omega, ?_⟩
      · simp [resolveEraYear, yearInfo, hy, j4, EraInfo.contains, c1]
      · simp [fromCodes, c2, e, hrt]
  case ethioaa =>
    refine ⟨some "ethioaa", ymd.1 + 5500, ?_, by omega, ?_⟩
    · simp [resolveEraYear, yearInfo, j5, EraInfo.contains]
    · simp [fromCodes, hrt]
  case indian =>
    refine ⟨some "indian", ymd.1, ?_, by omega, ?_⟩
    · simp [resolveEraYear, yearInfo, j6, EraInfo.contains]
    · simp [fromCodes, hrt]
  case islamicCivil =>
    refine ⟨some "islamic-civil", ymd.1, ?_, by omega, ?_⟩
    · simp [resolveEraYear, yearInfo, j7, EraInfo.contains]
    · simp [fromCodes, hrt]
  case islamicTbla =>
    refine ⟨some "islamic-tbla", ymd.1, ?_, by omega, ?_⟩
    · simp [resolveEraYear, yearInfo, j8, EraInfo.contains]
    · simp [fromCodes, hrt]
  case persian =>
    refine ⟨some "persian", ymd.1, ?_, by omega, ?_⟩
    · simp [resolveEraYear, yearInfo, j9, EraInfo.contains]
    · simp [fromCodes, hrt]

end Cal
end TemporalModel
