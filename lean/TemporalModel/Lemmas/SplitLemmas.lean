/-
  Lemmas/SplitLemmas.lean — the balancing cascade of `TimeDuration::from_normalized` is the inverse of recombination:
  fields that are already balanced up to a depth are returned unchanged.
-/
import TemporalModel.Lemmas.DurationLemmas
namespace TemporalModel
open Dur

/-- one step of the cascade: a quotient and a remainder below the modulus are recovered -/
theorem ediv_emod_step (q r m : Int) (hm : 0 < m) (h0 : 0 ≤ r) (h1 : r < m) :
    (q * m + r) / m = q ∧ (q * m + r) % m = r := by
  constructor
  · rw [Int.add_comm, Int.add_mul_ediv_right _ _ (Int.ne_of_gt hm), Int.ediv_eq_zero_of_lt h0 h1]; omega
  · rw [Int.add_comm, Int.add_mul_emod_self_right, Int.emod_eq_of_lt h0 h1]

theorem splitNs_depth0 (n : Int)  :
    splitNs (n) 0 = ⟨0, 0, 0, 0, 0, 0, 0, 0, 0, n⟩ := by
  simp [splitNs]

theorem splitNs_depth1 (us n : Int) (n0 : 0 ≤ n) (nb : n < 1000) :
    splitNs (us * 1000 + n) 1 = ⟨0, 0, 0, 0, 0, 0, 0, 0, us, n⟩ := by
  have e : us * 1000 + n = (us) * 1000 + n := by omega
  rw [e]
  have st0 := ediv_emod_step (us) n 1000 (by omega) n0 nb
  simp [splitNs, st0.1, st0.2]

theorem splitNs_depth2 (ms us n : Int) (n0 : 0 ≤ n) (nb : n < 1000) (us0 : 0 ≤ us) (usb : us < 1000) :
    splitNs (ms * 1000000 + us * 1000 + n) 2 = ⟨0, 0, 0, 0, 0, 0, 0, ms, us, n⟩ := by
  have e : ms * 1000000 + us * 1000 + n = ((ms) * 1000 + us) * 1000 + n := by omega
  rw [e]
  have st0 := ediv_emod_step ((ms) * 1000 + us) n 1000 (by omega) n0 nb
  have st1 := ediv_emod_step (ms) us 1000 (by omega) us0 usb
  simp [splitNs, st0.1, st0.2, st1.1, st1.2]

theorem splitNs_depth3 (s ms us n : Int) (n0 : 0 ≤ n) (nb : n < 1000) (us0 : 0 ≤ us) (usb : us < 1000) (ms0 : 0 ≤ ms) (msb : ms < 1000) :
    splitNs (s * 1000000000 + ms * 1000000 + us * 1000 + n) 3 = ⟨0, 0, 0, 0, 0, 0, s, ms, us, n⟩ := by
  have e : s * 1000000000 + ms * 1000000 + us * 1000 + n = (((s) * 1000 + ms) * 1000 + us) * 1000 + n := by omega
  rw [e]
  have st0 := ediv_emod_step (((s) * 1000 + ms) * 1000 + us) n 1000 (by omega) n0 nb
  have st1 := ediv_emod_step ((s) * 1000 + ms) us 1000 (by omega) us0 usb
  have st2 := ediv_emod_step (s) ms 1000 (by omega) ms0 msb
  simp [splitNs, st0.1, st0.2, st1.1, st1.2, st2.1, st2.2]

theorem splitNs_depth4 (mi s ms us n : Int) (n0 : 0 ≤ n) (nb : n < 1000) (us0 : 0 ≤ us) (usb : us < 1000) (ms0 : 0 ≤ ms) (msb : ms < 1000) (s0 : 0 ≤ s) (sb : s < 60) :
    splitNs (mi * 60000000000 + s * 1000000000 + ms * 1000000 + us * 1000 + n) 4 = ⟨0, 0, 0, 0, 0, mi, s, ms, us, n⟩ := by
  have e : mi * 60000000000 + s * 1000000000 + ms * 1000000 + us * 1000 + n = ((((mi) * 60 + s) * 1000 + ms) * 1000 + us) * 1000 + n := by omega
  rw [e]
  have st0 := ediv_emod_step ((((mi) * 60 + s) * 1000 + ms) * 1000 + us) n 1000 (by omega) n0 nb
  have st1 := ediv_emod_step (((mi) * 60 + s) * 1000 + ms) us 1000 (by omega) us0 usb
  have st2 := ediv_emod_step ((mi) * 60 + s) ms 1000 (by omega) ms0 msb
  have st3 := ediv_emod_step (mi) s 60 (by omega) s0 sb
  simp [splitNs, st0.1, st0.2, st1.1, st1.2, st2.1, st2.2, st3.1, st3.2]

theorem splitNs_depth5 (h mi s ms us n : Int) (n0 : 0 ≤ n) (nb : n < 1000) (us0 : 0 ≤ us) (usb : us < 1000) (ms0 : 0 ≤ ms) (msb : ms < 1000) (s0 : 0 ≤ s) (sb : s < 60) (mi0 : 0 ≤ mi) (mib : mi < 60) :
    splitNs (h * 3600000000000 + mi * 60000000000 + s * 1000000000 + ms * 1000000 + us * 1000 + n) 5 = ⟨0, 0, 0, 0, h, mi, s, ms, us, n⟩ := by
  have e : h * 3600000000000 + mi * 60000000000 + s * 1000000000 + ms * 1000000 + us * 1000 + n = (((((h) * 60 + mi) * 60 + s) * 1000 + ms) * 1000 + us) * 1000 + n := by omega
  rw [e]
  have st0 := ediv_emod_step (((((h) * 60 + mi) * 60 + s) * 1000 + ms) * 1000 + us) n 1000 (by omega) n0 nb
  have st1 := ediv_emod_step ((((h) * 60 + mi) * 60 + s) * 1000 + ms) us 1000 (by omega) us0 usb
  have st2 := ediv_emod_step (((h) * 60 + mi) * 60 + s) ms 1000 (by omega) ms0 msb
  have st3 := ediv_emod_step ((h) * 60 + mi) s 60 (by omega) s0 sb
  have st4 := ediv_emod_step (h) mi 60 (by omega) mi0 mib
  simp [splitNs, st0.1, st0.2, st1.1, st1.2, st2.1, st2.2, st3.1, st3.2, st4.1, st4.2]

theorem splitNs_depth6 (dd h mi s ms us n : Int) (n0 : 0 ≤ n) (nb : n < 1000) (us0 : 0 ≤ us) (usb : us < 1000) (ms0 : 0 ≤ ms) (msb : ms < 1000) (s0 : 0 ≤ s) (sb : s < 60) (mi0 : 0 ≤ mi) (mib : mi < 60) (h0 : 0 ≤ h) (hb : h < 24) :
    splitNs (dd * 86400000000000 + h * 3600000000000 + mi * 60000000000 + s * 1000000000 + ms * 1000000 + us * 1000 + n) 6 = ⟨0, 0, 0, dd, h, mi, s, ms, us, n⟩ := by
  have e : dd * 86400000000000 + h * 3600000000000 + mi * 60000000000 + s * 1000000000 + ms * 1000000 + us * 1000 + n = ((((((dd) * 24 + h) * 60 + mi) * 60 + s) * 1000 + ms) * 1000 + us) * 1000 + n := by omega
  rw [e]
  have st0 := ediv_emod_step ((((((dd) * 24 + h) * 60 + mi) * 60 + s) * 1000 + ms) * 1000 + us) n 1000 (by omega) n0 nb
  have st1 := ediv_emod_step (((((dd) * 24 + h) * 60 + mi) * 60 + s) * 1000 + ms) us 1000 (by omega) us0 usb
  have st2 := ediv_emod_step ((((dd) * 24 + h) * 60 + mi) * 60 + s) ms 1000 (by omega) ms0 msb
  have st3 := ediv_emod_step (((dd) * 24 + h) * 60 + mi) s 60 (by omega) s0 sb
  have st4 := ediv_emod_step ((dd) * 24 + h) mi 60 (by omega) mi0 mib
  have st5 := ediv_emod_step (dd) h 24 (by omega) h0 hb
  simp [splitNs, st0.1, st0.2, st1.1, st1.2, st2.1, st2.2, st3.1, st3.2, st4.1, st4.2, st5.1, st5.2]

theorem tfn_depth0_nonneg (L : TUnit) (hL : balanceDepth L = some 0) (n : Int) (n0 : 0 ≤ n) (ns : n ≤ 9007199254740992)
    (hv : (⟨0, 0, 0, 0, 0, 0, 0, 0, 0, n⟩ : Dur).isValid = true) :
    timeFromNormalized (n) L = .ok ⟨0, 0, 0, 0, 0, 0, 0, 0, 0, n⟩ := by
  unfold timeFromNormalized
  rw [hL]
  simp only
  have hna : ((((n) : Int).natAbs : Nat) : Int) = n := by omega
  rw [hna, splitNs_depth0 n]
  have hz : (0 : Int) = F64.ofInt 0 := (ofInt_small 0 (by decide)).symm
  by_cases h0 : n = 0
  · have h_n : n = 0 := by omega
    subst h_n
    simp only [Dur.signedF64, ← hz, Int.mul_zero, Int.zero_mul, if_pos]
    simp [Dur.signedF64] at hv ⊢
    first | exact hv | (intro; exact absurd rfl (by simpa using hv)) | skip
  · have hpos : n > 0 := by omega
    have hn : ¬ (n < 0) := by omega
    simp only [if_neg hn, if_pos hpos, Dur.signedF64, Int.one_mul, ← hz, ofInt_small n (by omega)]
    rw [if_pos hv]

theorem tfn_depth1_nonneg (L : TUnit) (hL : balanceDepth L = some 1) (us n : Int) (n0 : 0 ≤ n) (nb : n < 1000) (us0 : 0 ≤ us) (uss : us ≤ 9007199254740992)
    (hv : (⟨0, 0, 0, 0, 0, 0, 0, 0, us, n⟩ : Dur).isValid = true) :
    timeFromNormalized (us * 1000 + n) L = .ok ⟨0, 0, 0, 0, 0, 0, 0, 0, us, n⟩ := by
  unfold timeFromNormalized
  rw [hL]
  simp only
  have hna : ((((us * 1000 + n) : Int).natAbs : Nat) : Int) = us * 1000 + n := by omega
  rw [hna, splitNs_depth1 us n n0 nb]
  have hz : (0 : Int) = F64.ofInt 0 := (ofInt_small 0 (by decide)).symm
  by_cases h0 : us * 1000 + n = 0
  · have hall : n = 0 ∧ us = 0 := by omega
    obtain ⟨h_n, h_us⟩ := hall
    subst h_n h_us
    simp only [Dur.signedF64, ← hz, Int.mul_zero, Int.zero_mul, if_pos]
    simp [Dur.signedF64] at hv ⊢
    first | exact hv | (intro; exact absurd rfl (by simpa using hv)) | skip
  · have hpos : us * 1000 + n > 0 := by omega
    have hn : ¬ (us * 1000 + n < 0) := by omega
    simp only [if_neg hn, if_pos hpos, Dur.signedF64, Int.one_mul, ← hz, ofInt_small n (by omega), ofInt_small us (by omega)]
    rw [if_pos hv]

theorem tfn_depth2_nonneg (L : TUnit) (hL : balanceDepth L = some 2) (ms us n : Int) (n0 : 0 ≤ n) (nb : n < 1000) (us0 : 0 ≤ us) (usb : us < 1000) (ms0 : 0 ≤ ms) (mss : ms ≤ 9007199254740992)
    (hv : (⟨0, 0, 0, 0, 0, 0, 0, ms, us, n⟩ : Dur).isValid = true) :
    timeFromNormalized (ms * 1000000 + us * 1000 + n) L = .ok ⟨0, 0, 0, 0, 0, 0, 0, ms, us, n⟩ := by
  unfold timeFromNormalized
  rw [hL]
  simp only
  have hna : ((((ms * 1000000 + us * 1000 + n) : Int).natAbs : Nat) : Int) = ms * 1000000 + us * 1000 + n := by omega
  rw [hna, splitNs_depth2 ms us n n0 nb us0 usb]
  have hz : (0 : Int) = F64.ofInt 0 := (ofInt_small 0 (by decide)).symm
  by_cases h0 : ms * 1000000 + us * 1000 + n = 0
  · have hall : n = 0 ∧ us = 0 ∧ ms = 0 := by omega
    obtain ⟨h_n, h_us, h_ms⟩ := hall
    subst h_n h_us h_ms
    simp only [Dur.signedF64, ← hz, Int.mul_zero, Int.zero_mul, if_pos]
    simp [Dur.signedF64] at hv ⊢
    first | exact hv | (intro; exact absurd rfl (by simpa using hv)) | skip
  · have hpos : ms * 1000000 + us * 1000 + n > 0 := by omega
    have hn : ¬ (ms * 1000000 + us * 1000 + n < 0) := by omega
    simp only [if_neg hn, if_pos hpos, Dur.signedF64, Int.one_mul, ← hz, ofInt_small n (by omega), ofInt_small us (by omega), ofInt_small ms (by omega)]
    rw [if_pos hv]

theorem tfn_depth3_nonneg (L : TUnit) (hL : balanceDepth L = some 3) (s ms us n : Int) (n0 : 0 ≤ n) (nb : n < 1000) (us0 : 0 ≤ us) (usb : us < 1000) (ms0 : 0 ≤ ms) (msb : ms < 1000) (s0 : 0 ≤ s) (ss : s ≤ 9007199254740992)
    (hv : (⟨0, 0, 0, 0, 0, 0, s, ms, us, n⟩ : Dur).isValid = true) :
    timeFromNormalized (s * 1000000000 + ms * 1000000 + us * 1000 + n) L = .ok ⟨0, 0, 0, 0, 0, 0, s, ms, us, n⟩ := by
  unfold timeFromNormalized
  rw [hL]
  simp only
  have hna : ((((s * 1000000000 + ms * 1000000 + us * 1000 + n) : Int).natAbs : Nat) : Int) = s * 1000000000 + ms * 1000000 + us * 1000 + n := by omega
  rw [hna, splitNs_depth3 s ms us n n0 nb us0 usb ms0 msb]
  have hz : (0 : Int) = F64.ofInt 0 := (ofInt_small 0 (by decide)).symm
  by_cases h0 : s * 1000000000 + ms * 1000000 + us * 1000 + n = 0
  · have hall : n = 0 ∧ us = 0 ∧ ms = 0 ∧ s = 0 := by omega
    obtain ⟨h_n, h_us, h_ms, h_s⟩ := hall
    subst h_n h_us h_ms h_s
    simp only [Dur.signedF64, ← hz, Int.mul_zero, Int.zero_mul, if_pos]
    simp [Dur.signedF64] at hv ⊢
    first | exact hv | (intro; exact absurd rfl (by simpa using hv)) | skip
  · have hpos : s * 1000000000 + ms * 1000000 + us * 1000 + n > 0 := by omega
    have hn : ¬ (s * 1000000000 + ms * 1000000 + us * 1000 + n < 0) := by omega
    simp only [if_neg hn, if_pos hpos, Dur.signedF64, Int.one_mul, ← hz, ofInt_small n (by omega), ofInt_small us (by omega), ofInt_small ms (by omega), ofInt_small s (by omega)]
    rw [if_pos hv]

theorem tfn_depth4_nonneg (L : TUnit) (hL : balanceDepth L = some 4) (mi s ms us n : Int) (n0 : 0 ≤ n) (nb : n < 1000) (us0 : 0 ≤ us) (usb : us < 1000) (ms0 : 0 ≤ ms) (msb : ms < 1000) (s0 : 0 ≤ s) (sb : s < 60) (mi0 : 0 ≤ mi) (mis : mi ≤ 9007199254740992)
    (hv : (⟨0, 0, 0, 0, 0, mi, s, ms, us, n⟩ : Dur).isValid = true) :
    timeFromNormalized (mi * 60000000000 + s * 1000000000 + ms * 1000000 + us * 1000 + n) L = .ok ⟨0, 0, 0, 0, 0, mi, s, ms, us, n⟩ := by
  unfold timeFromNormalized
  rw [hL]
  simp only
  have hna : ((((mi * 60000000000 + s * 1000000000 + ms * 1000000 + us * 1000 + n) : Int).natAbs : Nat) : Int) = mi * 60000000000 + s * 1000000000 + ms * 1000000 + us * 1000 + n := by omega
  rw [hna, splitNs_depth4 mi s ms us n n0 nb us0 usb ms0 msb s0 sb]
  have hz : (0 : Int) = F64.ofInt 0 := (ofInt_small 0 (by decide)).symm
  by_cases h0 : mi * 60000000000 + s * 1000000000 + ms * 1000000 + us * 1000 + n = 0
  · have hall : n = 0 ∧ us = 0 ∧ ms = 0 ∧ s = 0 ∧ mi = 0 := by omega
    obtain ⟨h_n, h_us, h_ms, h_s, h_mi⟩ := hall
    subst h_n h_us h_ms h_s h_mi
    simp only [Dur.signedF64, ← hz, Int.mul_zero, Int.zero_mul, if_pos]
    simp [Dur.signedF64] at hv ⊢
    first | exact hv | (intro; exact absurd rfl (by simpa using hv)) | skip
  · have hpos : mi * 60000000000 + s * 1000000000 + ms * 1000000 + us * 1000 + n > 0 := by omega
    have hn : ¬ (mi * 60000000000 + s * 1000000000 + ms * 1000000 + us * 1000 + n < 0) := by omega
    simp only [if_neg hn, if_pos hpos, Dur.signedF64, Int.one_mul, ← hz, ofInt_small n (by omega), ofInt_small us (by omega), ofInt_small ms (by omega), ofInt_small s (by omega), ofInt_small mi (by omega)]
    rw [if_pos hv]

theorem tfn_depth5_nonneg (L : TUnit) (hL : balanceDepth L = some 5) (h mi s ms us n : Int) (n0 : 0 ≤ n) (nb : n < 1000) (us0 : 0 ≤ us) (usb : us < 1000) (ms0 : 0 ≤ ms) (msb : ms < 1000) (s0 : 0 ≤ s) (sb : s < 60) (mi0 : 0 ≤ mi) (mib : mi < 60) (h0 : 0 ≤ h) (hs : h ≤ 9007199254740992)
    (hv : (⟨0, 0, 0, 0, h, mi, s, ms, us, n⟩ : Dur).isValid = true) :
    timeFromNormalized (h * 3600000000000 + mi * 60000000000 + s * 1000000000 + ms * 1000000 + us * 1000 + n) L = .ok ⟨0, 0, 0, 0, h, mi, s, ms, us, n⟩ := by
  unfold timeFromNormalized
  rw [hL]
  simp only
  have hna : ((((h * 3600000000000 + mi * 60000000000 + s * 1000000000 + ms * 1000000 + us * 1000 + n) : Int).natAbs : Nat) : Int) = h * 3600000000000 + mi * 60000000000 + s * 1000000000 + ms * 1000000 + us * 1000 + n := by omega
  rw [hna, splitNs_depth5 h mi s ms us n n0 nb us0 usb ms0 msb s0 sb mi0 mib]
  have hz : (0 : Int) = F64.ofInt 0 := (ofInt_small 0 (by decide)).symm
  by_cases h0 : h * 3600000000000 + mi * 60000000000 + s * 1000000000 + ms * 1000000 + us * 1000 + n = 0
  · have hall : n = 0 ∧ us = 0 ∧ ms = 0 ∧ s = 0 ∧ mi = 0 ∧ h = 0 := by omega
    obtain ⟨h_n, h_us, h_ms, h_s, h_mi, h_h⟩ := hall
    subst h_n h_us h_ms h_s h_mi h_h
    simp only [Dur.signedF64, ← hz, Int.mul_zero, Int.zero_mul, if_pos]
    simp [Dur.signedF64] at hv ⊢
    first | exact hv | (intro; exact absurd rfl (by simpa using hv)) | skip
  · have hpos : h * 3600000000000 + mi * 60000000000 + s * 1000000000 + ms * 1000000 + us * 1000 + n > 0 := by omega
    have hn : ¬ (h * 3600000000000 + mi * 60000000000 + s * 1000000000 + ms * 1000000 + us * 1000 + n < 0) := by omega
    simp only [if_neg hn, if_pos hpos, Dur.signedF64, Int.one_mul, ← hz, ofInt_small n (by omega), ofInt_small us (by omega), ofInt_small ms (by omega), ofInt_small s (by omega), ofInt_small mi (by omega), ofInt_small h (by omega)]
    rw [if_pos hv]

theorem tfn_depth6_nonneg (L : TUnit) (hL : balanceDepth L = some 6) (dd h mi s ms us n : Int) (n0 : 0 ≤ n) (nb : n < 1000) (us0 : 0 ≤ us) (usb : us < 1000) (ms0 : 0 ≤ ms) (msb : ms < 1000) (s0 : 0 ≤ s) (sb : s < 60) (mi0 : 0 ≤ mi) (mib : mi < 60) (h0 : 0 ≤ h) (hb : h < 24) (dd0 : 0 ≤ dd) (dds : dd ≤ 9007199254740992)
    (hv : (⟨0, 0, 0, dd, h, mi, s, ms, us, n⟩ : Dur).isValid = true) :
    timeFromNormalized (dd * 86400000000000 + h * 3600000000000 + mi * 60000000000 + s * 1000000000 + ms * 1000000 + us * 1000 + n) L = .ok ⟨0, 0, 0, dd, h, mi, s, ms, us, n⟩ := by
  unfold timeFromNormalized
  rw [hL]
  simp only
  have hna : ((((dd * 86400000000000 + h * 3600000000000 + mi * 60000000000 + s * 1000000000 + ms * 1000000 + us * 1000 + n) : Int).natAbs : Nat) : Int) = dd * 86400000000000 + h * 3600000000000 + mi * 60000000000 + s * 1000000000 + ms * 1000000 + us * 1000 + n := by omega
  rw [hna, splitNs_depth6 dd h mi s ms us n n0 nb us0 usb ms0 msb s0 sb mi0 mib h0 hb]
  have hz : (0 : Int) = F64.ofInt 0 := (ofInt_small 0 (by decide)).symm
  by_cases h0 : dd * 86400000000000 + h * 3600000000000 + mi * 60000000000 + s * 1000000000 + ms * 1000000 + us * 1000 + n = 0
  · have hall : n = 0 ∧ us = 0 ∧ ms = 0 ∧ s = 0 ∧ mi = 0 ∧ h = 0 ∧ dd = 0 := by omega
    obtain ⟨h_n, h_us, h_ms, h_s, h_mi, h_h, h_dd⟩ := hall
    subst h_n h_us h_ms h_s h_mi h_h h_dd
    simp only [Dur.signedF64, ← hz, Int.mul_zero, Int.zero_mul, if_pos]
    simp [Dur.signedF64] at hv ⊢
    first | exact hv | (intro; exact absurd rfl (by simpa using hv)) | skip
  · have hpos : dd * 86400000000000 + h * 3600000000000 + mi * 60000000000 + s * 1000000000 + ms * 1000000 + us * 1000 + n > 0 := by omega
    have hn : ¬ (dd * 86400000000000 + h * 3600000000000 + mi * 60000000000 + s * 1000000000 + ms * 1000000 + us * 1000 + n < 0) := by omega
    simp only [if_neg hn, if_pos hpos, Dur.signedF64, Int.one_mul, ← hz, ofInt_small n (by omega), ofInt_small us (by omega), ofInt_small ms (by omega), ofInt_small s (by omega), ofInt_small mi (by omega), ofInt_small h (by omega), ofInt_small dd (by omega)]
    rw [if_pos hv]

theorem tfn_depth0_nonpos (L : TUnit) (hL : balanceDepth L = some 0) (n : Int) (n0 : n ≤ 0) (ns : -9007199254740992 ≤ n)
    (hv : (⟨0, 0, 0, 0, 0, 0, 0, 0, 0, n⟩ : Dur).isValid = true) :
    timeFromNormalized (n) L = .ok ⟨0, 0, 0, 0, 0, 0, 0, 0, 0, n⟩ := by
  unfold timeFromNormalized
  rw [hL]
  simp only
  have hna : ((((n) : Int).natAbs : Nat) : Int) = (-n) := by omega
  rw [hna, splitNs_depth0 (-n)]
  have hz : (0 : Int) = F64.ofInt 0 := (ofInt_small 0 (by decide)).symm
  by_cases h0 : n = 0
  · have hall : n = 0 := by omega
    have h_n := hall
    subst h_n
    simp only [Dur.signedF64, ← hz, Int.mul_zero, Int.zero_mul, Int.neg_zero]
    simp at hv ⊢
    first | exact hv | (intro; exact absurd rfl (by simpa using hv)) | skip
  · have hneg : n < 0 := by omega
    simp only [if_pos hneg, Dur.signedF64, ofInt_small (-n) (by omega), ← hz, Int.mul_zero]
    have e : ∀ x : Int, -1 * -x = x := by intro x; omega
    simp only [e]
    rw [if_pos hv]

theorem tfn_depth1_nonpos (L : TUnit) (hL : balanceDepth L = some 1) (us n : Int) (n0 : n ≤ 0) (nb : -1000 < n) (us0 : us ≤ 0) (uss : -9007199254740992 ≤ us)
    (hv : (⟨0, 0, 0, 0, 0, 0, 0, 0, us, n⟩ : Dur).isValid = true) :
    timeFromNormalized (us * 1000 + n) L = .ok ⟨0, 0, 0, 0, 0, 0, 0, 0, us, n⟩ := by
  unfold timeFromNormalized
  rw [hL]
  simp only
  have hna : ((((us * 1000 + n) : Int).natAbs : Nat) : Int) = (-us) * 1000 + (-n) := by omega
  rw [hna, splitNs_depth1 (-us) (-n) (by omega) (by omega)]
  have hz : (0 : Int) = F64.ofInt 0 := (ofInt_small 0 (by decide)).symm
  by_cases h0 : us * 1000 + n = 0
  · have hall : n = 0 ∧ us = 0 := by omega
    obtain ⟨h_n, h_us⟩ := hall
    subst h_n h_us
    simp only [Dur.signedF64, ← hz, Int.mul_zero, Int.zero_mul, Int.neg_zero]
    simp at hv ⊢
    first | exact hv | (intro; exact absurd rfl (by simpa using hv)) | skip
  · have hneg : us * 1000 + n < 0 := by omega
    simp only [if_pos hneg, Dur.signedF64, ofInt_small (-n) (by omega), ofInt_small (-us) (by omega), ← hz, Int.mul_zero]
    have e : ∀ x : Int, -1 * -x = x := by intro x; omega
    simp only [e]
    rw [if_pos hv]

theorem tfn_depth2_nonpos (L : TUnit) (hL : balanceDepth L = some 2) (ms us n : Int) (n0 : n ≤ 0) (nb : -1000 < n) (us0 : us ≤ 0) (usb : -1000 < us) (ms0 : ms ≤ 0) (mss : -9007199254740992 ≤ ms)
    (hv : (⟨0, 0, 0, 0, 0, 0, 0, ms, us, n⟩ : Dur).isValid = true) :
    timeFromNormalized (ms * 1000000 + us * 1000 + n) L = .ok ⟨0, 0, 0, 0, 0, 0, 0, ms, us, n⟩ := by
  unfold timeFromNormalized
  rw [hL]
  simp only
  have hna : ((((ms * 1000000 + us * 1000 + n) : Int).natAbs : Nat) : Int) = (-ms) * 1000000 + (-us) * 1000 + (-n) := by omega
  rw [hna, splitNs_depth2 (-ms) (-us) (-n) (by omega) (by omega) (by omega) (by omega)]
  have hz : (0 : Int) = F64.ofInt 0 := (ofInt_small 0 (by decide)).symm
  by_cases h0 : ms * 1000000 + us * 1000 + n = 0
  · have hall : n = 0 ∧ us = 0 ∧ ms = 0 := by omega
    obtain ⟨h_n, h_us, h_ms⟩ := hall
    subst h_n h_us h_ms
    simp only [Dur.signedF64, ← hz, Int.mul_zero, Int.zero_mul, Int.neg_zero]
    simp at hv ⊢
    first | exact hv | (intro; exact absurd rfl (by simpa using hv)) | skip
  · have hneg : ms * 1000000 + us * 1000 + n < 0 := by omega
    simp only [if_pos hneg, Dur.signedF64, ofInt_small (-n) (by omega), ofInt_small (-us) (by omega), ofInt_small (-ms) (by omega), ← hz, Int.mul_zero]
    have e : ∀ x : Int, -1 * -x = x := by intro x; omega
    simp only [e]
    rw [if_pos hv]

theorem tfn_depth3_nonpos (L : TUnit) (hL : balanceDepth L = some 3) (s ms us n : Int) (n0 : n ≤ 0) (nb : -1000 < n) (us0 : us ≤ 0) (usb : -1000 < us) (ms0 : ms ≤ 0) (msb : -1000 < ms) (s0 : s ≤ 0) (ss : -9007199254740992 ≤ s)
    (hv : (⟨0, 0, 0, 0, 0, 0, s, ms, us, n⟩ : Dur).isValid = true) :
    timeFromNormalized (s * 1000000000 + ms * 1000000 + us * 1000 + n) L = .ok ⟨0, 0, 0, 0, 0, 0, s, ms, us, n⟩ := by
  unfold timeFromNormalized
  rw [hL]
  simp only
  have hna : ((((s * 1000000000 + ms * 1000000 + us * 1000 + n) : Int).natAbs : Nat) : Int) = (-s) * 1000000000 + (-ms) * 1000000 + (-us) * 1000 + (-n) := by omega
  rw [hna, splitNs_depth3 (-s) (-ms) (-us) (-n) (by omega) (by omega) (by omega) (by omega) (by omega) (by omega)]
  have hz : (0 : Int) = F64.ofInt 0 := (ofInt_small 0 (by decide)).symm
  by_cases h0 : s * 1000000000 + ms * 1000000 + us * 1000 + n = 0
  · have hall : n = 0 ∧ us = 0 ∧ ms = 0 ∧ s = 0 := by omega
    obtain ⟨h_n, h_us, h_ms, h_s⟩ := hall
    subst h_n h_us h_ms h_s
    simp only [Dur.signedF64, ← hz, Int.mul_zero, Int.zero_mul, Int.neg_zero]
    simp at hv ⊢
    first | exact hv | (intro; exact absurd rfl (by simpa using hv)) | skip
  · have hneg : s * 1000000000 + ms * 1000000 + us * 1000 + n < 0 := by omega
    simp only [if_pos hneg, Dur.signedF64, ofInt_small (-n) (by omega), ofInt_small (-us) (by omega), ofInt_small (-ms) (by omega), ofInt_small (-s) (by omega), ← hz, Int.mul_zero]
    have e : ∀ x : Int, -1 * -x = x := by intro x; omega
    simp only [e]
    rw [if_pos hv]

theorem tfn_depth4_nonpos (L : TUnit) (hL : balanceDepth L = some 4) (mi s ms us n : Int) (n0 : n ≤ 0) (nb : -1000 < n) (us0 : us ≤ 0) (usb : -1000 < us) (ms0 : ms ≤ 0) (msb : -1000 < ms) (s0 : s ≤ 0) (sb : -60 < s) (mi0 : mi ≤ 0) (mis : -9007199254740992 ≤ mi)
    (hv : (⟨0, 0, 0, 0, 0, mi, s, ms, us, n⟩ : Dur).isValid = true) :
    timeFromNormalized (mi * 60000000000 + s * 1000000000 + ms * 1000000 + us * 1000 + n) L = .ok ⟨0, 0, 0, 0, 0, mi, s, ms, us, n⟩ := by
  unfold timeFromNormalized
  rw [hL]
  simp only
  have hna : ((((mi * 60000000000 + s * 1000000000 + ms * 1000000 + us * 1000 + n) : Int).natAbs : Nat) : Int) = (-mi) * 60000000000 + (-s) * 1000000000 + (-ms) * 1000000 + (-us) * 1000 + (-n) := by omega
  rw [hna, splitNs_depth4 (-mi) (-s) (-ms) (-us) (-n) (by omega) (by omega) (by omega) (by omega) (by omega) (by omega) (by omega) (by omega)]
  have hz : (0 : Int) = F64.ofInt 0 := (ofInt_small 0 (by decide)).symm
  by_cases h0 : mi * 60000000000 + s * 1000000000 + ms * 1000000 + us * 1000 + n = 0
  · have hall : n = 0 ∧ us = 0 ∧ ms = 0 ∧ s = 0 ∧ mi = 0 := by omega
    obtain ⟨h_n, h_us, h_ms, h_s, h_mi⟩ := hall
    subst h_n h_us h_ms h_s h_mi
    simp only [Dur.signedF64, ← hz, Int.mul_zero, Int.zero_mul, Int.neg_zero]
    simp at hv ⊢
    first | exact hv | (intro; exact absurd rfl (by simpa using hv)) | skip
  · have hneg : mi * 60000000000 + s * 1000000000 + ms * 1000000 + us * 1000 + n < 0 := by omega
    simp only [if_pos hneg, Dur.signedF64, ofInt_small (-n) (by omega), ofInt_small (-us) (by omega), ofInt_small (-ms) (by omega), ofInt_small (-s) (by omega), ofInt_small (-mi) (by omega), ← hz, Int.mul_zero]
    have e : ∀ x : Int, -1 * -x = x := by intro x; omega
    simp only [e]
    rw [if_pos hv]

theorem tfn_depth5_nonpos (L : TUnit) (hL : balanceDepth L = some 5) (h mi s ms us n : Int) (n0 : n ≤ 0) (nb : -1000 < n) (us0 : us ≤ 0) (usb : -1000 < us) (ms0 : ms ≤ 0) (msb : -1000 < ms) (s0 : s ≤ 0) (sb : -60 < s) (mi0 : mi ≤ 0) (mib : -60 < mi) (h0 : h ≤ 0) (hs : -9007199254740992 ≤ h)
    (hv : (⟨0, 0, 0, 0, h, mi, s, ms, us, n⟩ : Dur).isValid = true) :
    timeFromNormalized (h * 3600000000000 + mi * 60000000000 + s * 1000000000 + ms * 1000000 + us * 1000 + n) L = .ok ⟨0, 0, 0, 0, h, mi, s, ms, us, n⟩ := by
  unfold timeFromNormalized
  rw [hL]
  simp only
  have hna : ((((h * 3600000000000 + mi * 60000000000 + s * 1000000000 + ms * 1000000 + us * 1000 + n) : Int).natAbs : Nat) : Int) = (-h) * 3600000000000 + (-mi) * 60000000000 + (-s) * 1000000000 + (-ms) * 1000000 + (-us) * 1000 + (-n) := by omega
  rw [hna, splitNs_depth5 (-h) (-mi) (-s) (-ms) (-us) (-n) (by omega) (by omega) (by omega) (by omega) (by omega) (by omega) (by omega) (by omega) (by omega) (by omega)]
  have hz : (0 : Int) = F64.ofInt 0 := (ofInt_small 0 (by decide)).symm
  by_cases h0 : h * 3600000000000 + mi * 60000000000 + s * 1000000000 + ms * 1000000 + us * 1000 + n = 0
  · have hall : n = 0 ∧ us = 0 ∧ ms = 0 ∧ s = 0 ∧ mi = 0 ∧ h = 0 := by omega
    obtain ⟨h_n, h_us, h_ms, h_s, h_mi, h_h⟩ := hall
    subst h_n h_us h_ms h_s h_mi h_h
    simp only [Dur.signedF64, ← hz, Int.mul_zero, Int.zero_mul, Int.neg_zero]
    simp at hv ⊢
    first | exact hv | (intro; exact absurd rfl (by simpa using hv)) | skip
  · have hneg : h * 3600000000000 + mi * 60000000000 + s * 1000000000 + ms * 1000000 + us * 1000 + n < 0 := by omega
    simp only [if_pos hneg, Dur.signedF64, ofInt_small (-n) (by omega), ofInt_small (-us) (by omega), ofInt_small (-ms) (by omega), ofInt_small (-s) (by omega), ofInt_small (-mi) (by omega), ofInt_small (-h) (by omega), ← hz, Int.mul_zero]
    have e : ∀ x : Int, -1 * -x = x := by intro x; omega
    simp only [e]
    rw [if_pos hv]

theorem tfn_depth6_nonpos (L : TUnit) (hL : balanceDepth L = some 6) (dd h mi s ms us n : Int) (n0 : n ≤ 0) (nb : -1000 < n) (us0 : us ≤ 0) (usb : -1000 < us) (ms0 : ms ≤ 0) (msb : -1000 < ms) (s0 : s ≤ 0) (sb : -60 < s) (mi0 : mi ≤ 0) (mib : -60 < mi) (h0 : h ≤ 0) (hb : -24 < h) (dd0 : dd ≤ 0) (dds : -9007199254740992 ≤ dd)
    (hv : (⟨0, 0, 0, dd, h, mi, s, ms, us, n⟩ : Dur).isValid = true) :
    timeFromNormalized (dd * 86400000000000 + h * 3600000000000 + mi * 60000000000 + s * 1000000000 + ms * 1000000 + us * 1000 + n) L = .ok ⟨0, 0, 0, dd, h, mi, s, ms, us, n⟩ := by
  unfold timeFromNormalized
  rw [hL]
  simp only
  have hna : ((((dd * 86400000000000 + h * 3600000000000 + mi * 60000000000 + s * 1000000000 + ms * 1000000 + us * 1000 + n) : Int).natAbs : Nat) : Int) = (-dd) * 86400000000000 + (-h) * 3600000000000 + (-mi) * 60000000000 + (-s) * 1000000000 + (-ms) * 1000000 + (-us) * 1000 + (-n) := by omega
  rw [hna, splitNs_depth6 (-dd) (-h) (-mi) (-s) (-ms) (-us) (-n) (by omega) (by omega) (by omega) (by omega) (by omega) (by omega) (by omega) (by omega) (by omega) (by omega) (by omega) (by omega)]
  have hz : (0 : Int) = F64.ofInt 0 := (ofInt_small 0 (by decide)).symm
  by_cases h0 : dd * 86400000000000 + h * 3600000000000 + mi * 60000000000 + s * 1000000000 + ms * 1000000 + us * 1000 + n = 0
  · have hall : n = 0 ∧ us = 0 ∧ ms = 0 ∧ s = 0 ∧ mi = 0 ∧ h = 0 ∧ dd = 0 := by omega
    obtain ⟨h_n, h_us, h_ms, h_s, h_mi, h_h, h_dd⟩ := hall
    subst h_n h_us h_ms h_s h_mi h_h h_dd
    simp only [Dur.signedF64, ← hz, Int.mul_zero, Int.zero_mul, Int.neg_zero]
    simp at hv ⊢
    first | exact hv | (intro; exact absurd rfl (by simpa using hv)) | skip
  · have hneg : dd * 86400000000000 + h * 3600000000000 + mi * 60000000000 + s * 1000000000 + ms * 1000000 + us * 1000 + n < 0 := by omega
    simp only [if_pos hneg, Dur.signedF64, ofInt_small (-n) (by omega), ofInt_small (-us) (by omega), ofInt_small (-ms) (by omega), ofInt_small (-s) (by omega), ofInt_small (-mi) (by omega), ofInt_small (-h) (by omega), ofInt_small (-dd) (by omega), ← hz, Int.mul_zero]
    have e : ∀ x : Int, -1 * -x = x := by intro x; omega
    simp only [e]
    rw [if_pos hv]

/-- **Balancing is the inverse of recombination.** A duration without calendar units whose fields below its largest
non-zero unit are already balanced (|hours| < 24, |minutes|, |seconds| < 60, sub-second fields < 1000), with fields a
double holds exactly, is returned unchanged when its exact total is balanced up to its own largest unit. -/
theorem timeFromNormalized_balanced (d : Dur) (hv : d.isValid = true)
    (hcal : d.years = 0 ∧ d.months = 0 ∧ d.weeks = 0)
    (hb : (d.hours.natAbs : Int) < 24 ∧ (d.minutes.natAbs : Int) < 60 ∧ (d.seconds.natAbs : Int) < 60 ∧
      (d.milliseconds.natAbs : Int) < 1000 ∧ (d.microseconds.natAbs : Int) < 1000 ∧ (d.nanoseconds.natAbs : Int) < 1000)
    (hs : ∀ f ∈ d.fields, (f.natAbs : Int) ≤ 9007199254740992) :
    timeFromNormalized d.totalNs d.defaultLargestUnit = .ok d := by
  obtain ⟨y, mo, w, dd, h, mi, s, ms, us, n⟩ := d
  obtain ⟨rfl, rfl, rfl⟩ := hcal
  have hsu := ((valid_iff _).mp hv).1
  simp only [Dur.fields, List.mem_cons, List.mem_nil_iff, or_false, forall_eq_or_imp, forall_eq] at hs
  obtain ⟨_, _, _, sdd, sh, smi, ss, sms, sus, sn⟩ := hs
  obtain ⟨bh, bmi, bs, bms, bus, bn⟩ := hb
  simp only at bh bmi bs bms bus bn
  unfold Dur.signUniform at hsu
  simp only [Dur.fields, List.mem_cons, List.mem_nil_iff, or_false, forall_eq_or_imp, forall_eq] at hsu
  have htot : (⟨0, 0, 0, dd, h, mi, s, ms, us, n⟩ : Dur).totalNs =
      dd * 86400000000000 + h * 3600000000000 + mi * 60000000000 + s * 1000000000 + ms * 1000000 + us * 1000 + n := by
    simp only [Dur.totalNs, Dur.timeNs]; omega
  rw [htot]
  unfold Dur.defaultLargestUnit
  simp only [ne_eq, not_true_eq_false, if_false]
  by_cases h_dd : dd = 0
  · subst h_dd
    simp only [not_true_eq_false, if_false]
    by_cases h_h : h = 0
    · subst h_h
      simp only [not_true_eq_false, if_false]
      by_cases h_mi : mi = 0
      · subst h_mi
        simp only [not_true_eq_false, if_false]
        by_cases h_s : s = 0
        · subst h_s
          simp only [not_true_eq_false, if_false]
          by_cases h_ms : ms = 0
          · subst h_ms
            simp only [not_true_eq_false, if_false]
            by_cases h_us : us = 0
            · subst h_us
              simp only [not_true_eq_false, if_false]
              have e : 0 * 86400000000000 + 0 * 3600000000000 + 0 * 60000000000 + 0 * 1000000000 + 0 * 1000000 + 0 * 1000 + n = n := by omega
              rw [e]
              rcases hsu with hp | hn
              · exact tfn_depth0_nonneg .nanosecond rfl n (by omega) (by omega) hv
              · exact tfn_depth0_nonpos .nanosecond rfl n (by omega) (by omega) hv
            · rw [if_pos h_us]
              have e : 0 * 86400000000000 + 0 * 3600000000000 + 0 * 60000000000 + 0 * 1000000000 + 0 * 1000000 + us * 1000 + n = us * 1000 + n := by omega
              rw [e]
              rcases hsu with hp | hn
              · exact tfn_depth1_nonneg .microsecond rfl us n (by omega) (by omega) (by omega) (by omega) hv
              · exact tfn_depth1_nonpos .microsecond rfl us n (by omega) (by omega) (by omega) (by omega) hv
          · rw [if_pos h_ms]
            have e : 0 * 86400000000000 + 0 * 3600000000000 + 0 * 60000000000 + 0 * 1000000000 + ms * 1000000 + us * 1000 + n = ms * 1000000 + us * 1000 + n := by omega
            rw [e]
            rcases hsu with hp | hn
            · exact tfn_depth2_nonneg .millisecond rfl ms us n (by omega) (by omega) (by omega) (by omega) (by omega) (by omega) hv
            · exact tfn_depth2_nonpos .millisecond rfl ms us n (by omega) (by omega) (by omega) (by omega) (by omega) (by omega) hv
        · rw [if_pos h_s]
          have e : 0 * 86400000000000 + 0 * 3600000000000 + 0 * 60000000000 + s * 1000000000 + ms * 1000000 + us * 1000 + n = s * 1000000000 + ms * 1000000 + us * 1000 + n := by omega
          rw [e]
          rcases hsu with hp | hn
          · exact tfn_depth3_nonneg .second rfl s ms us n (by omega) (by omega) (by omega) (by omega) (by omega) (by omega) (by omega) (by omega) hv
          · exact tfn_depth3_nonpos .second rfl s ms us n (by omega) (by omega) (by omega) (by omega) (by omega) (by omega) (by omega) (by omega) hv
      · rw [if_pos h_mi]
        have e : 0 * 86400000000000 + 0 * 3600000000000 + mi * 60000000000 + s * 1000000000 + ms * 1000000 + us * 1000 + n = mi * 60000000000 + s * 1000000000 + ms * 1000000 + us * 1000 + n := by omega
        rw [e]
        rcases hsu with hp | hn
        · exact tfn_depth4_nonneg .minute rfl mi s ms us n (by omega) (by omega) (by omega) (by omega) (by omega) (by omega) (by omega) (by omega) (by omega) (by omega) hv
        · exact tfn_depth4_nonpos .minute rfl mi s ms us n (by omega) (by omega) (by omega) (by omega) (by omega) (by omega) (by omega) (by omega) (by omega) (by omega) hv
    · rw [if_pos h_h]
      have e : 0 * 86400000000000 + h * 3600000000000 + mi * 60000000000 + s * 1000000000 + ms * 1000000 + us * 1000 + n = h * 3600000000000 + mi * 60000000000 + s * 1000000000 + ms * 1000000 + us * 1000 + n := by omega
      rw [e]
      rcases hsu with hp | hn
      · exact tfn_depth5_nonneg .hour rfl h mi s ms us n (by omega) (by omega) (by omega) (by omega) (by omega) (by omega) (by omega) (by omega) (by omega) (by omega) (by omega) (by omega) hv
      · exact tfn_depth5_nonpos .hour rfl h mi s ms us n (by omega) (by omega) (by omega) (by omega) (by omega) (by omega) (by omega) (by omega) (by omega) (by omega) (by omega) (by omega) hv
  · rw [if_pos h_dd]
    have e : dd * 86400000000000 + h * 3600000000000 + mi * 60000000000 + s * 1000000000 + ms * 1000000 + us * 1000 + n = dd * 86400000000000 + h * 3600000000000 + mi * 60000000000 + s * 1000000000 + ms * 1000000 + us * 1000 + n := by omega
    rw [e]
    rcases hsu with hp | hn
    · exact tfn_depth6_nonneg .day rfl dd h mi s ms us n (by omega) (by omega) (by omega) (by omega) (by omega) (by omega) (by omega) (by omega) (by omega) (by omega) (by omega) (by omega) (by omega) (by omega) hv
    · exact tfn_depth6_nonpos .day rfl dd h mi s ms us n (by omega) (by omega) (by omega) (by omega) (by omega) (by omega) (by omega) (by omega) (by omega) (by omega) (by omega) (by omega) (by omega) (by omega) hv

end TemporalModel
