/-
  Lemmas/CalFieldLemmas.lean — the reported fields of the modelled calendars satisfy the laws of Spec/CalLaws.lean
  (bounds; consecutive days), shown once for the ISO-based calendars and once for every lawful day-count calendar.
-/
import TemporalModel.Lemmas.CalLemmas
import TemporalModel.Lemmas.DateLemmas
import TemporalModel.Spec.CalLaws
namespace TemporalModel
namespace Cal
open Greg

/-! ### Era step on the (era, era year, year) triple -/

/-- `EraStep` on the triple `yearInfo` produces. -/
def EraStepRaw (a b : Option String × Option Int × Int) : Prop :=
  match a.1, a.2.1, b.1, b.2.1 with
  | some ea, some ya, some eb, some yb =>
    if ea = eb then (yb - ya = b.2.2 - a.2.2 ∨ ya - yb = b.2.2 - a.2.2) else (yb = 1 ∨ ya = 1)
  | none, none, none, none => True
  | _, _, _, _ => False

theorem eraStep_iff (a b : CalFields) :
    EraStep a b ↔ EraStepRaw (a.era, a.eraYear, a.year) (b.era, b.eraYear, b.year) := by
  unfold EraStep EraStepRaw; rfl

/-- Same internal year (and not `japanese`, whose eras change within a year): nothing moves. -/
theorem eraStep_same_year (cal : CalId) (hc : cal ≠ .japanese) (y m d m' d' : Int) :
    EraStepRaw (yearInfo cal y m d) (yearInfo cal y m' d') := by
  cases cal
  case japanese => exact absurd rfl hc
  case gregory => by_cases h : y > 0 <;> simp [yearInfo, EraStepRaw, h]
  case roc => by_cases h : y > 1911 <;> simp [yearInfo, EraStepRaw, h]
  case coptic => by_cases h : y > 0 <;> simp [yearInfo, EraStepRaw, h]
  case ethiopic => by_cases h : y > 0 <;> simp [yearInfo, EraStepRaw, h]
  all_goals simp [yearInfo, EraStepRaw]

/-- The next internal year: the era year follows, or a new era starts at 1, or a backward era ends at 1. -/
theorem eraStep_next_year (cal : CalId) (hc : cal ≠ .japanese) (y m d m' d' : Int) :
    EraStepRaw (yearInfo cal y m d) (yearInfo cal (y + 1) m' d') := by
  cases cal
  case japanese => exact absurd rfl hc
  case gregory => by_cases h : y > 0 <;> by_cases h' : y + 1 > 0 <;> simp [yearInfo, EraStepRaw, h, h'] <;> omega
  case roc => by_cases h : y > 1911 <;> by_cases h' : y + 1 > 1911 <;> simp [yearInfo, EraStepRaw, h, h'] <;> omega
  case coptic => by_cases h : y > 0 <;> by_cases h' : y + 1 > 0 <;> simp [yearInfo, EraStepRaw, h, h'] <;> omega
  case ethiopic => by_cases h : y > 0 <;> by_cases h' : y + 1 > 0 <;> simp [yearInfo, EraStepRaw, h, h'] <;> omega
  all_goals (simp [yearInfo, EraStepRaw] <;> omega)

/-! ### Japanese eras along consecutive days -/

theorem ymdLe_iff (a b : Int × Int × Int) :
    ymdLe a b = true ↔ (a.1 < b.1 ∨ (a.1 = b.1 ∧ (a.2.1 < b.2.1 ∨ (a.2.1 = b.2.1 ∧ a.2.2 ≤ b.2.2)))) := by
  simp [ymdLe]

/-- The era of a date, with what it says about the date's position relative to the era starts. -/
theorem japaneseEraYear_cases (y m d : Int) :
    (ymdLe (2019, 5, 1) (y, m, d) = true ∧ japaneseEraYear y m d = ("reiwa", y - 2018)) ∨
    (ymdLe (2019, 5, 1) (y, m, d) = false ∧ ymdLe (1989, 1, 8) (y, m, d) = true ∧
      japaneseEraYear y m d = ("heisei", y - 1988)) ∨
    (ymdLe (1989, 1, 8) (y, m, d) = false ∧ ymdLe (1926, 12, 25) (y, m, d) = true ∧
      japaneseEraYear y m d = ("showa", y - 1925)) ∨
    (ymdLe (1926, 12, 25) (y, m, d) = false ∧ ymdLe (1912, 7, 30) (y, m, d) = true ∧
      japaneseEraYear y m d = ("taisho", y - 1911)) ∨
    (ymdLe (1912, 7, 30) (y, m, d) = false ∧ ymdLe (1868, 9, 8) (y, m, d) = true ∧
      japaneseEraYear y m d = ("meiji", y - 1867)) ∨
    (ymdLe (1868, 9, 8) (y, m, d) = false ∧ y ≤ 0 ∧ japaneseEraYear y m d = ("bce", 1 - y)) ∨
    (ymdLe (1868, 9, 8) (y, m, d) = false ∧ 0 < y ∧ japaneseEraYear y m d = ("ce", y)) := by
  unfold japaneseEraYear
  cases h1 : ymdLe (2019, 5, 1) (y, m, d) <;> cases h2 : ymdLe (1989, 1, 8) (y, m, d) <;>
    cases h3 : ymdLe (1926, 12, 25) (y, m, d) <;> cases h4 : ymdLe (1912, 7, 30) (y, m, d) <;>
    cases h5 : ymdLe (1868, 9, 8) (y, m, d) <;> by_cases h6 : y ≤ 0 <;> simp [h6] <;> omega

theorem ymdLe_false_iff (a b : Int × Int × Int) :
    ymdLe a b = false ↔ ¬ (a.1 < b.1 ∨ (a.1 = b.1 ∧ (a.2.1 < b.2.1 ∨ (a.2.1 = b.2.1 ∧ a.2.2 ≤ b.2.2)))) := by
  rw [← ymdLe_iff]; simp

/-- Along consecutive days the Japanese era year follows the year, or a new era starts with year 1. -/
theorem japanese_eraStep (y m d : Int) (hv : Valid y m d) :
    EraStepRaw (yearInfo .japanese y m d)
      (yearInfo .japanese (nextDay y m d).1 (nextDay y m d).2.1 (nextDay y m d).2.2) := by
  obtain ⟨h1, h2, h3, h4⟩ := hv
  have hb := dim_bounds y m
  have hdec := dim_dec y
  have key : ∀ y' m' d' : Int,
      ((y' = y ∧ m' = m ∧ d' = d + 1) ∨ (y' = y ∧ m' = m + 1 ∧ d' = 1 ∧ d ≥ 28) ∨
       (y' = y + 1 ∧ m' = 1 ∧ d' = 1 ∧ m = 12 ∧ d = 31)) →
      EraStepRaw (yearInfo .japanese y m d) (yearInfo .japanese y' m' d') := by
    intro y' m' d' hn
    simp only [yearInfo, EraStepRaw]
    rcases japaneseEraYear_cases y m d with ⟨a1, ea⟩ | ⟨a1, a2, ea⟩ | ⟨a1, a2, ea⟩ | ⟨a1, a2, ea⟩ | ⟨a1, a2, ea⟩ |
        ⟨a1, a2, ea⟩ | ⟨a1, a2, ea⟩ <;>
      rcases japaneseEraYear_cases y' m' d' with ⟨b1, eb⟩ | ⟨b1, b2, eb⟩ | ⟨b1, b2, eb⟩ | ⟨b1, b2, eb⟩ |
        ⟨b1, b2, eb⟩ | ⟨b1, b2, eb⟩ | ⟨b1, b2, eb⟩ <;>
      rw [ea, eb] <;> simp only [ymdLe_iff, ymdLe_false_iff] at * <;> simp <;> omega
  unfold nextDay
  split
  · exact key _ _ _ (Or.inl ⟨rfl, rfl, rfl⟩)
  · split
    · exact key _ _ _ (Or.inr (Or.inl ⟨rfl, rfl, rfl, by omega⟩))
    · have hm : m = 12 := by omega
      subst hm
      exact key _ _ _ (Or.inr (Or.inr ⟨rfl, rfl, rfl, rfl, by omega⟩))

/-! ### Bounds and consecutive days, ISO-based calendars -/

theorem yearInfo_era_iff (cal : CalId) (y m d : Int) :
    (yearInfo cal y m d).1.isSome ↔ (yearInfo cal y m d).2.1.isSome := by
  cases cal <;> simp [yearInfo] <;> split <;> simp

theorem yearInfo_year (cal : CalId) (y m d : Int) :
    (yearInfo cal y m d).2.2 = y + (if cal = .buddhist then 543 else 0) := by
  cases cal <;> simp [yearInfo] <;> split <;> simp

theorem isoFields_ok (cal : CalId) (y m d : Int) (hv : Valid y m d) : FieldsOk (isoFields cal y m d) := by
  obtain ⟨h1, h2, h3, h4⟩ := hv
  have a := monthStart_nonneg y m
  have b := monthStart_lt y m h1 h2
  have e := yearInfo_era_iff cal y m d
  unfold FieldsOk isoFields
  simp only
  refine ⟨h3, h4, h1, h2, ?_, ?_, ?_, Or.inl ?_, ?_, e⟩
  · unfold dayOfYear; omega
  · unfold dayOfYear; omega
  · unfold dayOfYear; omega
  · omega
  · intro h; cases h

theorem isoFields_consecutive (cal : CalId) (y m d : Int) (hv : Valid y m d) :
    Consecutive (isoFields cal y m d)
      (isoFields cal (nextDay y m d).1 (nextDay y m d).2.1 (nextDay y m d).2.2) := by
  have hera : EraStep (isoFields cal y m d)
      (isoFields cal (nextDay y m d).1 (nextDay y m d).2.1 (nextDay y m d).2.2) := by
    rw [eraStep_iff]
    by_cases hj : cal = .japanese
    · subst hj; exact japanese_eraStep y m d hv
    · unfold nextDay
      split
      · exact eraStep_same_year cal hj y m d m (d + 1)
      · split
        · exact eraStep_same_year cal hj y m d (m + 1) 1
        · exact eraStep_next_year cal hj y m d 1 1
  refine ⟨hera, ?_⟩
  obtain ⟨h1, h2, h3, h4⟩ := hv
  unfold nextDay
  split
  · left
    simp only [isoFields, yearInfo_year, dayOfYear]
    refine ⟨?_, ?_, ?_, ?_, ?_, ?_, ?_, ?_, ?_⟩ <;>
      first | trivial | rfl | omega | (intro hh; injection hh with hh _; omega)
  · split
    · rename_i hd hm
      right; left
      have hs := monthStart_succ y m h1 hm
      simp only [isoFields, yearInfo_year, dayOfYear]
      refine ⟨?_, ?_, ?_, ?_, ?_, ?_, ?_, ?_, ?_⟩ <;>
      first | trivial | rfl | omega | (intro hh; injection hh with hh _; omega)
    · rename_i hd hm
      right; right
      have hm12 : m = 12 := by omega
      subst hm12
      have hdec := monthStart_dec y
      have hdd := dim_dec y
      have hj := monthStart_jan (y + 1)
      simp only [isoFields, yearInfo_year, dayOfYear]
      refine ⟨?_, ?_, ?_, ?_, ?_, ?_, ?_⟩ <;>
      first | trivial | rfl | omega | (intro hh; injection hh with hh _; omega)

/-! ### Bounds and consecutive days, day-count calendars -/

theorem arithFields_ok (cal : CalId) {c : ACal} {W : Int → Prop} (h : c.Lawful W) (n : Int) (hW : W n) :
    FieldsOk (arithFields cal c n) := by
  obtain ⟨⟨h1, h2, h3, h4⟩, _⟩ := ofDay_spec h n hW
  have hb := before_nonneg h (c.ofDay n).1 ((c.ofDay n).2.1 - 1) (by omega)
  have hp := before_pred c (c.ofDay n).1 (c.ofDay n).2.1 h1
  have hle := before_le h (c.ofDay n).1 (c.months (c.ofDay n).1) (c.ofDay n).2.1 h2 (Nat.le_refl _)
  have e := yearInfo_era_iff cal (c.ofDay n).1 (c.ofDay n).2.1 (c.ofDay n).2.2
  unfold FieldsOk arithFields
  simp only
  refine ⟨h3, h4, by omega, by omega, by omega, ?_, by omega, Or.inl ?_, ?_, e⟩
  · unfold ACal.diy; omega
  · trivial
  · intro hh; cases hh

theorem arithFields_consecutive (cal : CalId) (hj : cal ≠ .japanese) {c : ACal} {W : Int → Prop} (h : c.Lawful W)
    (n : Int) (hW : W n) (hW' : W (n + 1)) :
    Consecutive (arithFields cal c n) (arithFields cal c (n + 1)) := by
  obtain ⟨⟨h1, h2, h3, h4⟩, _⟩ := ofDay_spec h n hW
  have hs := ofDay_succ h n hW hW'
  have hp := before_pred c (c.ofDay n).1 (c.ofDay n).2.1 h1
  unfold Consecutive
  rw [eraStep_iff]
  unfold arithFields
  simp only [hs]
  generalize (c.ofDay n).1 = y at *
  generalize (c.ofDay n).2.1 = m at *
  generalize (c.ofDay n).2.2 = d at *
  unfold ACal.next
  split
  · refine ⟨eraStep_same_year cal hj y m d m (d + 1), Or.inl ?_⟩
    simp only [yearInfo_year]
    refine ⟨?_, ?_, ?_, ?_, ?_, ?_, ?_, ?_, ?_⟩ <;>
      first | trivial | rfl | omega | (intro hh; injection hh with hh _; omega)
  · split
    · refine ⟨eraStep_same_year cal hj y m d ((m + 1 : Nat) : Int) 1, Or.inr (Or.inl ?_)⟩
      simp only [yearInfo_year, Nat.add_sub_cancel]
      refine ⟨?_, ?_, ?_, ?_, ?_, ?_, ?_, ?_, ?_⟩ <;>
      first | trivial | rfl | omega | (intro hh; injection hh with hh _; omega)
    · refine ⟨eraStep_next_year cal hj y m d ((1 : Nat) : Int) 1, Or.inr (Or.inr ?_)⟩
      have hm : m = c.months y := by omega
      simp only [yearInfo_year, Nat.sub_self, ACal.before, ACal.diy]
      subst hm
      refine ⟨?_, ?_, ?_, ?_, ?_, ?_, ?_⟩ <;>
      first | trivial | rfl | omega | (intro hh; injection hh with hh _; omega)

end Cal
end TemporalModel
