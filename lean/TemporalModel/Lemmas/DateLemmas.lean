import TemporalModel.Props.C01
import TemporalModel.Model.DateArith
namespace TemporalModel
open NS Greg

/-- A date inside Temporal's range. -/
def InRange (d : IsoDate) : Prop :=
  Valid d.year d.month d.day ∧ -100000001 ≤ dayNumber d.year d.month d.day ∧ dayNumber d.year d.month d.day ≤ 100000000

theorem regulate_constrain (y m d : Int) :
    IsoDate.regulate y m d .constrain = .ok ⟨y, clamp m 1 12, clamp d 1 (dim y (clamp m 1 12))⟩ := by
  unfold IsoDate.regulate constrainIsoDay
  have hm : 1 ≤ clamp m 1 12 ∧ clamp m 1 12 ≤ 12 := by unfold clamp; split <;> (try split) <;> omega
  simp only [C01_days_in_month y _ hm.1 hm.2, Out.bind_ok, Out.pure_eq_ok]

theorem regulate_reject (y m d : Int) :
    IsoDate.regulate y m d .reject = if Valid y m d then .ok ⟨y, m, d⟩ else .err .range := by
  unfold IsoDate.regulate isValidDate
  by_cases hv : Valid y m d
  · rw [if_pos hv]
    obtain ⟨h1, h2, h3, h4⟩ := hv
    have hm : 1 ≤ m ∧ m ≤ 12 := ⟨h1, h2⟩
    simp only [hm, not_true_eq_false, if_false, C01_days_in_month y m h1 h2, Out.bind_ok, Out.pure_eq_ok]
    simp [h3, h4]
  · rw [if_neg hv]
    by_cases hm : 1 ≤ m ∧ m ≤ 12
    · simp only [hm, not_true_eq_false, if_false, C01_days_in_month y m hm.1 hm.2, Out.bind_ok, Out.pure_eq_ok]
      have hd : ¬ (1 ≤ d ∧ d ≤ dim y m) := fun h => hv ⟨hm.1, hm.2, h.1, h.2⟩
      simp [hd]
    · simp [hm]

theorem dim_bounds (y m : Int) : 28 ≤ dim y m ∧ dim y m ≤ 31 := by
  unfold dim; (repeat (any_goals split)) <;> omega

theorem dayNumber_year_bound (y m d : Int) (h : Valid y m d) :
    365 * (y - 1970) + (y - 1970) / 4 - (y - 1970) / 100 + (y - 1970) / 400 - 3 ≤ dayNumber y m d ∧
    dayNumber y m d ≤ 365 * (y - 1970) + (y - 1970) / 4 - (y - 1970) / 100 + (y - 1970) / 400 + 369 := by
  obtain ⟨hm1, hm12, hd1, hdm⟩ := h
  have h0 := monthStart_nonneg y m
  have h1 := monthStart_lt y m hm1 hm12
  have hdiy : diy y ≤ 366 := by unfold diy; split <;> omega
  unfold dayNumber yearStart
  omega


theorem noon_limits (d : IsoDate) (hv : Valid d.year d.month d.day) :
    isoDtWithinValidLimits d IsoTime.noon = true ↔
      (-100000001 ≤ dayNumber d.year d.month d.day ∧ dayNumber d.year d.month d.day ≤ 100000000) := by
  have hb := dayNumber_year_bound d.year d.month d.day hv
  unfold isoDtWithinValidLimits
  by_cases hy : -271821 ≤ d.year ∧ d.year ≤ 275760
  · have hw : InWin d.year := by unfold InWin; omega
    have ht : d.toEpochDays = dayNumber d.year d.month d.day := C01_toDays _ _ _ hw hv.1 hv.2.1
    simp only [hy, not_true_eq_false, if_false, ht, toUncheckedEpochNanoseconds, IsoTime.toEpochMs, IsoTime.noon,
      MAX_EPOCH_DAYS, NS_MAX_INSTANT, NS_PER_DAY, MS_PER_DAY]
    generalize dayNumber d.year d.month d.day = n at *
    by_cases h1 : (n.natAbs : Int) > 100000001
    · simp only [h1, if_true]; constructor
      · intro h; cases h
      · intro h; omega
    · simp only [h1, if_false, and_self, not_true_eq_false, Bool.and_eq_true, decide_eq_true_eq]
      omega
  · simp only [hy, not_false_eq_true, if_true]
    constructor
    · intro h; cases h
    · intro h; exfalso; apply hy; omega


theorem clamp_valid (y m d : Int) : Valid y (clamp m 1 12) (clamp d 1 (dim y (clamp m 1 12))) := by
  have hm : 1 ≤ clamp m 1 12 ∧ clamp m 1 12 ≤ 12 := by unfold clamp; split <;> (try split) <;> omega
  have hb := dim_bounds y (clamp m 1 12)
  unfold Valid
  generalize clamp m 1 12 = mm at *
  generalize dim y mm = dm at *
  refine ⟨hm.1, hm.2, ?_, ?_⟩ <;> (unfold clamp; split <;> (try split) <;> omega)

/-- A successfully constructed date is a valid calendar day inside Temporal's range. -/
theorem newWithOverflow_inRange (y m d : Int) (ov : Overflow) (c : IsoDate)
    (h : IsoDate.newWithOverflow y m d ov = .ok c) : InRange c := by
  unfold IsoDate.newWithOverflow at h
  cases ov with
  | constrain =>
    rw [regulate_constrain] at h
    simp only [Out.bind_ok] at h
    split at h
    · rename_i hl
      have hc : c = ⟨y, clamp m 1 12, clamp d 1 (dim y (clamp m 1 12))⟩ := by cases h; rfl
      subst hc
      have hv := clamp_valid y m d
      exact ⟨hv, (noon_limits _ hv).mp hl⟩
    · cases h
  | reject =>
    rw [regulate_reject] at h
    by_cases hv : Valid y m d
    · rw [if_pos hv] at h
      simp only [Out.bind_ok] at h
      split at h
      · rename_i hl
        have hc : c = ⟨y, m, d⟩ := by cases h; rfl
        subst hc
        exact ⟨hv, (noon_limits _ hv).mp hl⟩
      · cases h
    · rw [if_neg hv] at h; cases h

/-- Conversely a valid in-range date is accepted unchanged by both overflow modes. -/
theorem newWithOverflow_of_inRange (c : IsoDate) (ov : Overflow) (h : InRange c) :
    IsoDate.newWithOverflow c.year c.month c.day ov = .ok c := by
  obtain ⟨hv, hb⟩ := h
  have hl := (noon_limits c hv).mpr hb
  unfold IsoDate.newWithOverflow
  cases ov with
  | constrain =>
    rw [regulate_constrain]
    have e1 : clamp c.month 1 12 = c.month := by unfold clamp; have := hv.1; have := hv.2.1; split <;> (try split) <;> omega
    have e2 : clamp c.day 1 (dim c.year c.month) = c.day := by
      unfold clamp; have := hv.2.2.1; have := hv.2.2.2; split <;> (try split) <;> omega
    simp only [e1, e2, Out.bind_ok]
    rw [if_pos hl]; rfl
  | reject =>
    rw [regulate_reject, if_pos hv]
    simp only [Out.bind_ok]
    rw [if_pos hl]; rfl

theorem inRange_year (c : IsoDate) (h : InRange c) : -271821 ≤ c.year ∧ c.year ≤ 275760 := by
  obtain ⟨hv, h1, h2⟩ := h
  have hb := dayNumber_year_bound c.year c.month c.day hv
  omega



/-- `IsoDate::balance` from an in-range date by an offset of at most twice the range. -/
theorem balance_from_inRange (c : IsoDate) (k : Int) (hc : InRange c) (hk : (k.natAbs : Int) ≤ 2 * MAX_EPOCH_DAYS) :
    ∃ r : IsoDate, IsoDate.balance c.year c.month (c.day + k) = r ∧ Valid r.year r.month r.day ∧
      dayNumber r.year r.month r.day = dayNumber c.year c.month c.day + k := by
  obtain ⟨hv, h1, h2⟩ := hc
  have hy := inRange_year c ⟨hv, h1, h2⟩
  have hw : InWin c.year := by unfold InWin; omega
  unfold MAX_EPOCH_DAYS at hk
  have hn : InDayWin (dayNumber c.year c.month c.day + k) := by unfold InDayWin; omega
  obtain ⟨y', m', d', he, hv', hd'⟩ := C01_balance c.year c.month c.day k hv hw hn
  refine ⟨⟨y', m', d'⟩, ?_, hv', hd'⟩
  unfold IsoDate.balance; rw [he]

theorem newWithOverflow_year_out (y m d : Int) (ov : Overflow) (h : ¬ (-271821 ≤ y ∧ y ≤ 275760)) :
    IsoDate.newWithOverflow y m d ov = .err .range := by
  have lim : ∀ mm dd, isoDtWithinValidLimits ⟨y, mm, dd⟩ IsoTime.noon = false := by
    intro mm dd; unfold isoDtWithinValidLimits; simp only [h, not_false_eq_true, if_true]
  unfold IsoDate.newWithOverflow
  cases ov with
  | constrain => rw [regulate_constrain]; simp only [Out.bind_ok, lim]; rfl
  | reject =>
    rw [regulate_reject]
    by_cases hv : Valid y m d
    · rw [if_pos hv]; simp only [Out.bind_ok, lim]; rfl
    · rw [if_neg hv]; rfl

/-- **AddISODate specification**: years and months first (balanced, the day regulated per `overflow`), then weeks
    and days along the day line. -/
theorem addDateDuration_spec (a : IsoDate) (ys ms ws ds : Int) (ov : Overflow)
    (h1 : (ys.natAbs : Int) < 2147483648) (h2 : (ms.natAbs : Int) < 2147483648)
    (h3 : (ws.natAbs : Int) < 2147483648) (h4 : (ds.natAbs : Int) < 2147483648)
    (ha : -271821 ≤ a.year ∧ a.year ≤ 275760) (hm : 1 ≤ a.month ∧ a.month ≤ 12) :
    a.addDateDuration ys ms ws ds ov =
      (match IsoDate.newWithOverflow (balanceIsoYearMonth (a.year + ys) (a.month + ms)).1
              (balanceIsoYearMonth (a.year + ys) (a.month + ms)).2 a.day ov with
       | .ok inter =>
         if ((ds + ws * 7).natAbs : Int) > 2 * MAX_EPOCH_DAYS then .err .range
         else .ok (IsoDate.balance inter.year inter.month (inter.day + (ds + ws * 7)))
       | .err k => .err k
       | .panic => .panic) := by
  unfold IsoDate.addDateDuration asDateValue balanceIsoYearMonthChecked balanceIsoYearMonth
  rw [if_pos (by omega), if_pos (by omega)]
  simp only [Out.bind_ok]
  by_cases hfit : -2147483648 ≤ a.year + ys + (a.month + ms - 1) / 12 ∧ a.year + ys + (a.month + ms - 1) / 12 ≤ 2147483647
  case neg =>
    rw [if_neg hfit, newWithOverflow_year_out _ _ _ _ (by omega)]; rfl
  rw [if_pos hfit]
  simp only [Out.bind_ok]
  cases hnew : IsoDate.newWithOverflow (a.year + ys + (a.month + ms - 1) / 12) ((a.month + ms - 1) % 12 + 1) a.day ov with
  | ok inter =>
    simp only [Out.bind_ok]
    rw [if_pos (by omega), if_pos (by omega)]
    simp only [Out.bind_ok, Out.pure_eq_ok]
  | err k => rfl
  | panic => rfl

/-- **The inverse law at the ISO level**: whatever years/months a difference reports, as long as its day count is
    measured from the constrained intermediate date, adding it back lands exactly on the other date. -/
theorem add_diff_inverse (a b : IsoDate) (years months : Int) (c : IsoDate)
    (ha : InRange a) (hb : InRange b)
    (hy : (years.natAbs : Int) < 2147483648) (hmo : (months.natAbs : Int) < 2147483648)
    (hc : IsoDate.newWithOverflow (balanceIsoYearMonth (a.year + years) (a.month + months)).1
            (balanceIsoYearMonth (a.year + years) (a.month + months)).2 a.day .constrain = .ok c)
    (weeks days : Int) (hwd : days + weeks * 7 = b.toEpochDays - c.toEpochDays)
    (hw : (weeks.natAbs : Int) < 2147483648) (hd : (days.natAbs : Int) < 2147483648) :
    a.addDateDuration years months weeks days .constrain = .ok b := by
  have hay := inRange_year a ha
  rw [addDateDuration_spec a years months weeks days .constrain hy hmo hw hd hay ⟨ha.1.1, ha.1.2.1⟩, hc]
  have hcr := newWithOverflow_inRange _ _ _ _ _ hc
  have hcy := inRange_year c hcr
  have hby := inRange_year b hb
  have tc : c.toEpochDays = dayNumber c.year c.month c.day :=
    C01_toDays _ _ _ (by unfold InWin; omega) hcr.1.1 hcr.1.2.1
  have tb : b.toEpochDays = dayNumber b.year b.month b.day :=
    C01_toDays _ _ _ (by unfold InWin; omega) hb.1.1 hb.1.2.1
  have hk : ((days + weeks * 7).natAbs : Int) ≤ 2 * MAX_EPOCH_DAYS := by
    have := hcr.2; have := hb.2; unfold MAX_EPOCH_DAYS; omega
  simp only
  rw [if_neg (by omega)]
  obtain ⟨r, hr, hv, hdn⟩ := balance_from_inRange c (days + weeks * 7) hcr hk
  rw [hr]
  have : dayNumber r.year r.month r.day = dayNumber b.year b.month b.day := by omega
  have hinj := dayNumber_inj _ _ _ _ _ _ hv hb.1 this
  congr 1
  cases r with
  | mk ry rm rd =>
    cases b with
    | mk by' bm bd =>
      simp only [Prod.mk.injEq] at hinj
      obtain ⟨rfl, rfl, rfl⟩ := hinj
      rfl


theorem yearLoop_bound (self other : IsoDate) (sign : Int) (hs : sign = 1 ∨ sign = -1) :
    ∀ (fuel : Nat) (years cand r : Int), yearLoop self other sign fuel years cand = some r →
      r = years ∨ ((r - cand).natAbs : Int) < fuel := by
  intro fuel
  induction fuel with
  | zero => intro years cand r h; simp [yearLoop] at h
  | succ n ih =>
    intro years cand r h
    unfold yearLoop at h
    split at h
    · left; cases h; rfl
    · rcases ih cand (cand + sign) r h with h1 | h1
      · right; subst h1; omega
      · right; rcases hs with rfl | rfl <;> omega

theorem monthLoop_bound (self other : IsoDate) (sign : Int) (hs : sign = 1 ∨ sign = -1) :
    ∀ (fuel : Nat) (months cand r : Int) (inter : Int × Int),
      monthLoop self other sign fuel months cand inter = some r →
      r = months ∨ ((r - cand).natAbs : Int) < fuel := by
  intro fuel
  induction fuel with
  | zero => intro months cand r inter h; simp [monthLoop] at h
  | succ n ih =>
    intro months cand r inter h
    unfold monthLoop at h
    split at h
    · left; cases h; rfl
    · rcases ih cand (cand + sign) r _ h with h1 | h1
      · right; subst h1; omega
      · right; rcases hs with rfl | rfl <;> omega

theorem cmp_zero (a b : IsoDate) (h : a.cmp b = 0) : a = b := by
  unfold IsoDate.cmp at h
  cases a; cases b
  simp only at h
  (repeat (split at h)) <;> first | omega | (simp only [IsoDate.mk.injEq]; omega)

theorem cmp_sign (a b : IsoDate) : a.cmp b = 0 ∨ a.cmp b = 1 ∨ a.cmp b = -1 := by
  unfold IsoDate.cmp; (repeat (any_goals split)) <;> omega


theorem tmod7_bounds (x : Int) : -7 < Int.tmod x 7 ∧ Int.tmod x 7 < 7 := by
  have h1 := Int.tmod_lt_of_pos x (by decide : (0:Int) < 7)
  have h2 : -7 < Int.tmod x 7 := by
    rcases Int.le_total 0 x with h | h
    · have := Int.tmod_nonneg 7 h; omega
    · have e : x = -(-x) := by omega
      rw [e, Int.neg_tmod]
      have := Int.tmod_lt_of_pos (-x) (by decide : (0:Int) < 7)
      omega
  exact ⟨h2, h1⟩

theorem add_zero_self (a : IsoDate) (ha : InRange a) : a.addDateDuration 0 0 0 0 .constrain = .ok a := by
  have hb : balanceIsoYearMonth (a.year + 0) (a.month + 0) = (a.year, a.month) := by
    unfold balanceIsoYearMonth; have := ha.1.1; have := ha.1.2.1
    simp only [Int.add_zero, Prod.mk.injEq]; omega
  apply add_diff_inverse a a 0 0 a ha ha (by decide) (by decide)
  · rw [hb]; exact newWithOverflow_of_inRange a .constrain ha
  · omega
  · decide
  · decide

/-- **The inverse law** `start.add(start.until(end, U)) = end` at the ISO level, for every largest unit: whenever
    `diff_iso_date` returns a duration, `add_date_duration` maps the receiver exactly onto the other date. -/
theorem diff_add_inverse (a b : IsoDate) (U : TUnit) (D : Dur) (ha : InRange a) (hb : InRange b)
    (h : a.diffIsoDate b U = .ok D) :
    a.addDateDuration D.years D.months D.weeks D.days .constrain = .ok b := by
  unfold IsoDate.diffIsoDate at h
  simp only at h
  by_cases hs0 : -(a.cmp b) = 0
  · rw [if_pos hs0] at h
    have : D = Dur.zero := by cases h; rfl
    subst this
    have hab : a = b := cmp_zero a b (by omega)
    subst hab
    exact add_zero_self a ha
  · rw [if_neg hs0] at h
    have hsgn : -(a.cmp b) = 1 ∨ -(a.cmp b) = -1 := by rcases cmp_sign a b with h | h | h <;> omega
    generalize hsg : -(a.cmp b) = sign at *
    have hay := inRange_year a ha
    have hby := inRange_year b hb
    -- extract years/months with their bounds
    have key : ∀ years months : Int, (years.natAbs : Int) < 600000 → (months.natAbs : Int) < 8000000 →
        (do let inter := balanceIsoYearMonth (a.year + years) (a.month + months)
            let constrained ← IsoDate.newWithOverflow inter.1 inter.2 a.day .constrain
            let days := b.toEpochDays - constrained.toEpochDays
            let (weeks, days) := if U = .week then (Int.tdiv days 7, Int.tmod days 7) else (0, days)
            Dur.new ⟨years, months, weeks, days, 0, 0, 0, 0, 0, 0⟩ : Out Dur) = .ok D →
        a.addDateDuration D.years D.months D.weeks D.days .constrain = .ok b := by
      intro years months hy hmo hD
      simp only at hD
      cases hc : IsoDate.newWithOverflow (balanceIsoYearMonth (a.year + years) (a.month + months)).1
          (balanceIsoYearMonth (a.year + years) (a.month + months)).2 a.day .constrain with
      | err k => rw [hc] at hD; cases hD
      | panic => rw [hc] at hD; cases hD
      | ok c =>
        rw [hc] at hD
        simp only [Out.bind_ok] at hD
        have hcr := newWithOverflow_inRange _ _ _ _ _ hc
        have hcy := inRange_year c hcr
        have tc : c.toEpochDays = dayNumber c.year c.month c.day :=
          C01_toDays _ _ _ (by unfold InWin; omega) hcr.1.1 hcr.1.2.1
        have tb : b.toEpochDays = dayNumber b.year b.month b.day :=
          C01_toDays _ _ _ (by unfold InWin; omega) hb.1.1 hb.1.2.1
        have hdd : ((b.toEpochDays - c.toEpochDays).natAbs : Int) ≤ 200000002 := by
          have := hcr.2; have := hb.2; omega
        by_cases hU : U = .week
        · simp only [hU, if_true] at hD
          unfold Dur.new at hD
          split at hD
          · cases hD
            have hq := Int.mul_tdiv_add_tmod (b.toEpochDays - c.toEpochDays) 7
            have hq1 : ((Int.tdiv (b.toEpochDays - c.toEpochDays) 7).natAbs : Int) ≤ 200000002 := by
              have := Int.natAbs_tdiv_le_natAbs (b.toEpochDays - c.toEpochDays) 7; omega
            have hq2 := tmod7_bounds (b.toEpochDays - c.toEpochDays)
            exact add_diff_inverse a b years months c ha hb (by omega) (by omega) hc
              (Int.tdiv (b.toEpochDays - c.toEpochDays) 7) (Int.tmod (b.toEpochDays - c.toEpochDays) 7)
              (by omega) (by omega) (by omega)
          · cases hD
        · simp only [hU, if_false] at hD
          unfold Dur.new at hD
          split at hD
          · cases hD
            exact add_diff_inverse a b years months c ha hb (by omega) (by omega) hc 0
              (b.toEpochDays - c.toEpochDays) (by omega) (by decide) (by omega)
          · cases hD
    by_cases hU : U = .year ∨ U = .month
    · rw [if_pos hU] at h
      cases hyl : yearLoop a b sign 8 0 (if b.year - a.year ≠ 0 then b.year - a.year - sign else b.year - a.year) with
      | none => simp only [hyl] at h; cases h
      | some years =>
        simp only [hyl] at h
        have hyb := yearLoop_bound a b sign hsgn 8 0 _ years hyl
        have hyears : (years.natAbs : Int) < 600000 := by
          rcases hyb with h1 | h1
          · subst h1; decide
          · split at h1 <;> omega
        cases hml : monthLoop a b sign 16 0 sign (balanceIsoYearMonth (a.year + years) (a.month + sign)) with
        | none => simp only [hml] at h; cases h
        | some months =>
          simp only [hml] at h
          have hmb := monthLoop_bound a b sign hsgn 16 0 sign months _ hml
          have hmonths : (months.natAbs : Int) < 20 := by
            rcases hmb with h1 | h1
            · subst h1; decide
            · omega
          by_cases hmon : U = .month
          · rw [if_pos hmon] at h
            exact key 0 (months + years * 12) (by decide) (by omega) h
          · rw [if_neg hmon] at h
            exact key years months hyears (by omega) h
    · rw [if_neg hU] at h
      exact key 0 0 (by decide) (by decide) h

end TemporalModel
