/-
  Lemmas/RelZonedLemmas.lean — the zone-parametrised rounding functions of Model/RelativeZoned.lean coincide with the
  plain ones of Model/Relative.lean when no zone is given; small facts about the checked constructors.
-/
import TemporalModel.Model.RelativeZoned
import TemporalModel.Lemmas.SafeBase
namespace TemporalModel

theorem toNsIn_none (dt : IsoDateTime) : toNsIn none dt = dt.utcEpochNs := rfl

theorem nudgeCalendarUnitZ_none (sign destNs : Int) (dt : IsoDateTime) (date : Dur) (o : Resolved) :
    nudgeCalendarUnitZ none sign destNs dt date o = nudgeCalendarUnit sign destNs dt date o := rfl

theorem bubbleLoopZ_none (sign nudgeNs : Int) (dt : IsoDateTime) (largest : TUnit) (fuel : Nat) (u : TUnit) (d : Dur) :
    bubbleLoopZ none sign nudgeNs dt largest fuel u d = bubbleLoop sign nudgeNs dt largest fuel u d := by
  induction fuel generalizing u d with
  | zero => rfl
  | succ n ih =>
    unfold bubbleLoopZ bubbleLoop
    simp only [ih, toNsIn_none]
    rfl

theorem bubbleRelativeDurationZ_none (sign nudgeNs : Int) (dt : IsoDateTime) (date : Dur) (norm : Int)
    (largest smallest : TUnit) :
    bubbleRelativeDurationZ none sign nudgeNs dt date norm largest smallest =
      bubbleRelativeDuration sign nudgeNs dt date norm largest smallest := by
  unfold bubbleRelativeDurationZ bubbleRelativeDuration
  simp only [bubbleLoopZ_none]

theorem roundRelativeDurationZ_none (date : Dur) (norm destNs : Int) (dt : IsoDateTime) (o : Resolved) :
    roundRelativeDurationZ none date norm destNs dt o = roundRelativeDuration date norm destNs dt o := by
  unfold roundRelativeDurationZ roundRelativeDuration
  simp only [Option.isSome_none, Bool.false_and, Bool.or_false, nudgeCalendarUnitZ_none,
    bubbleRelativeDurationZ_none]

theorem totalRelativeDurationZ_none (date : Dur) (norm destNs : Int) (dt : IsoDateTime) (u : TUnit) :
    totalRelativeDurationZ none date norm destNs dt u = totalRelativeDuration date norm destNs dt u := by
  unfold totalRelativeDurationZ totalRelativeDuration
  simp only [Option.isSome_none, Bool.false_and, Bool.or_false, nudgeCalendarUnitZ_none]
  rfl

theorem normChecked_eq_ok {x y : Int} (h : normChecked x = .ok y) :
    y = x ∧ (x.natAbs : Int) ≤ Dur.MAX_TIME_DURATION := by
  unfold normChecked at h
  split at h
  · cases h
  · cases h; exact ⟨rfl, by omega⟩

theorem durNew_eq_ok {d r : Dur} (h : Dur.new d = .ok r) : r = d := by
  unfold Dur.new at h; split at h <;> cases h; rfl

end TemporalModel
