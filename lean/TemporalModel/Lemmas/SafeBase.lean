/-
  Lemmas/SafeBase.lean — `Out.Safe`: the outcome is a value or a Type/Range/Syntax/generic error — not a panic and
  not an internal-assertion error.  This is property C03 as a predicate on model outcomes.
-/
import Lean.Meta.Tactic.Simp.RegisterCommand
import TemporalModel.Model.Prim

/-- Safety lemmas `(f args).Safe` of model functions, used as rewrite rules to `True`. -/
register_simp_attr safe

namespace TemporalModel

/-- The outcome is neither a panic nor an internal assertion failure. -/
def Out.Safe {α} : Out α → Prop
  | .ok _ => True
  | .err k => k ≠ .assert
  | .panic => False

namespace Out
@[simp] theorem safe_ok {α} (a : α) : (Out.ok a).Safe := trivial
@[simp] theorem safe_pure {α} (a : α) : (pure a : Out α).Safe := trivial
@[simp] theorem safe_range {α} : (Out.err .range : Out α).Safe := by simp [Out.Safe]
@[simp] theorem safe_type {α} : (Out.err .type : Out α).Safe := by simp [Out.Safe]
@[simp] theorem safe_syntax {α} : (Out.err .syntax : Out α).Safe := by simp [Out.Safe]
@[simp] theorem safe_generic {α} : (Out.err .generic : Out α).Safe := by simp [Out.Safe]
@[simp] theorem not_safe_panic {α} : ¬ (Out.panic : Out α).Safe := by simp [Out.Safe]
@[simp] theorem not_safe_assert {α} : ¬ (Out.err .assert : Out α).Safe := by simp [Out.Safe]

theorem safe_iff {α} (o : Out α) : o.Safe ↔ o ≠ .panic ∧ o ≠ .err .assert := by
  cases o with
  | ok a => simp [Out.Safe]
  | err k => cases k <;> simp [Out.Safe]
  | panic => simp [Out.Safe]

/-- A bind is safe iff its head is and every continuation reached is. -/
theorem safe_bind_iff {α β} (x : Out α) (f : α → Out β) :
    (x >>= f).Safe ↔ x.Safe ∧ ∀ a, x = .ok a → (f a).Safe := by
  cases x with
  | ok a => simp [Out.Safe]
  | err k => simp [Out.Safe]
  | panic => simp [Out.Safe]

theorem safe_bind {α β} {x : Out α} {f : α → Out β} (hx : x.Safe) (hf : ∀ a, x = .ok a → (f a).Safe) :
    (x >>= f).Safe := (safe_bind_iff x f).mpr ⟨hx, hf⟩

/-- A successful bind: the head succeeded and the continuation produced the value. -/
theorem bind_eq_ok {α β} {x : Out α} {f : α → Out β} {r : β} (h : (x >>= f) = .ok r) :
    ∃ a, x = .ok a ∧ f a = .ok r := by
  cases x with
  | ok a => exact ⟨a, rfl, h⟩
  | err k => cases h
  | panic => cases h

theorem safe_ite {α} (c : Prop) [Decidable c] (a b : Out α) :
    (if c then a else b).Safe ↔ (c → a.Safe) ∧ (¬ c → b.Safe) := by
  by_cases h : c <;> simp [h]

theorem safe_map {α β} (f : α → β) (x : Out α) : (f <$> x).Safe ↔ x.Safe := by
  cases x <;> simp [Out.Safe, Functor.map, Out.bind]
end Out
end TemporalModel
