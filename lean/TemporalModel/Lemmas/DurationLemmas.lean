import TemporalModel.Spec.Duration
namespace TemporalModel
open Dur

theorem signOf_cases (l : List Int) :
    (signOf l = 0 ∧ ∀ v ∈ l, v = 0) ∨ (signOf l = 1 ∧ ∃ v ∈ l, 0 < v) ∨ (signOf l = -1 ∧ ∃ v ∈ l, v < 0) := by
  induction l with
  | nil => left; simp [signOf]
  | cons a t ih =>
    unfold signOf
    by_cases h1 : a < 0
    · right; right; simp [h1]
    · by_cases h2 : a > 0
      · right; left; simp [h1, h2]
      · have ha : a = 0 := by omega
        simp only [h1, h2, if_false]
        rcases ih with ⟨e, h⟩ | ⟨e, v, hv, hp⟩ | ⟨e, v, hv, hp⟩
        · left; refine ⟨e, ?_⟩; intro v hv; simp at hv; rcases hv with rfl | hv; exact ha; exact h v hv
        · right; left; exact ⟨e, v, by simp [hv], hp⟩
        · right; right; exact ⟨e, v, by simp [hv], hp⟩

theorem signsOk_iff (f : List Int) :
    (f.all (fun v => !(decide (v < 0) && decide (signOf f = 1)) && !(decide (v > 0) && decide (signOf f = -1)))) = true ↔
      ((∀ v ∈ f, 0 ≤ v) ∨ (∀ v ∈ f, v ≤ 0)) := by
  simp only [List.all_eq_true, Bool.and_eq_true, Bool.not_eq_true', Bool.and_eq_false_iff, decide_eq_false_iff_not,
    decide_eq_true_eq]
  rcases signOf_cases f with ⟨e, h⟩ | ⟨e, w, hw, hp⟩ | ⟨e, w, hw, hp⟩
  · rw [e]
    constructor
    · intro _; left; intro v hv; have := h v hv; omega
    · intro _ v hv; have := h v hv; constructor <;> left <;> omega
  · rw [e]
    constructor
    · intro h; left; intro v hv; have := (h v hv).1; omega
    · intro h v hv
      rcases h with h | h
      · have := h v hv; constructor
        · left; omega
        · right; omega
      · have := h w hw; omega
  · rw [e]
    constructor
    · intro h; right; intro v hv; have := (h v hv).2; omega
    · intro h v hv
      rcases h with h | h
      · have := h w hw; omega
      · have := h v hv; constructor
        · right; omega
        · left; omega
theorem valid_iff (d : Dur) : d.isValid = true ↔ d.ValidSpec := by
  unfold isValid isValidFields ValidSpec signUniform
  simp only [Bool.and_eq_true, decide_eq_true_eq]
  rw [signsOk_iff]
  constructor
  · rintro ⟨⟨⟨⟨⟨h1, h2⟩, h3⟩, h4⟩, _⟩, h6⟩
    exact ⟨h1, h2, h3, h4, h6⟩
  · rintro ⟨h1, h2, h3, h4, h6⟩
    refine ⟨⟨⟨⟨⟨h1, h2⟩, h3⟩, h4⟩, ?_⟩, h6⟩
    -- contributions are bounded by the total when the fields share a sign
    simp only [List.all_eq_true, decide_eq_true_eq, List.mem_cons, List.mem_nil_iff, or_false, forall_eq_or_imp,
      forall_eq]
    unfold totalNs timeNs TWO_POWER_FIFTY_THREE at *
    simp only [fields, List.mem_cons, List.mem_nil_iff, or_false, forall_eq_or_imp, forall_eq] at h1
    omega
theorem signOf_neg (l : List Int) : signOf (l.map (fun v => -v)) = - signOf l := by
  induction l with
  | nil => simp [signOf]
  | cons a t ih =>
    simp only [List.map, signOf]
    rw [ih]
    (repeat (any_goals split)) <;> omega

theorem negated_fields (d : Dur) : d.negated.fields = d.fields.map (fun v => -v) := by
  simp [negated, fields]

theorem ofInt_small (x : Int) (h : (x.natAbs : Int) ≤ 9007199254740992) : F64.ofInt x = x := by
  have key : ∀ n : Nat, n ≤ 9007199254740992 → (if n = 0 then 0 else Nat.log2 n + 1) ≤ 53 ∨ n = 9007199254740992 := by
    intro n hn
    by_cases h0 : n = 0
    · left; simp [h0]
    · by_cases he : n = 9007199254740992
      · right; exact he
      · left
        simp only [h0, if_false]
        have hlt : n < 2 ^ 53 := by omega
        have := (Nat.log2_lt h0).mpr hlt
        omega
  have rn : ∀ n : Nat, n ≤ 9007199254740992 → F64.roundNat n = n := by
    intro n hn
    rcases key n hn with h | h
    · unfold F64.roundNat F64.bitLen; simp only [h, if_true]
    · subst h; decide
  unfold F64.ofInt
  split
  · rw [rn _ (by omega)]; omega
  · rw [rn _ (by omega)]; omega


/-- The cascade recombines exactly and every lower field is below its modulus. -/
theorem splitNs_spec (ns : Int) (k : Nat) (h0 : 0 ≤ ns) (hk : k ≤ 6) :
    let r := splitNs ns k
    r.totalNs = ns ∧ r.years = 0 ∧ r.months = 0 ∧ r.weeks = 0 ∧
    0 ≤ r.days ∧ 0 ≤ r.hours ∧ 0 ≤ r.minutes ∧ 0 ≤ r.seconds ∧ 0 ≤ r.milliseconds ∧ 0 ≤ r.microseconds ∧
    0 ≤ r.nanoseconds ∧
    (k ≥ 1 → r.nanoseconds < 1000) ∧ (k ≥ 2 → r.microseconds < 1000) ∧ (k ≥ 3 → r.milliseconds < 1000) ∧
    (k ≥ 4 → r.seconds < 60) ∧ (k ≥ 5 → r.minutes < 60) ∧ (k ≥ 6 → r.hours < 24) ∧
    (k < 6 → r.days = 0) ∧ (k < 5 → r.hours = 0) ∧ (k < 4 → r.minutes = 0) ∧ (k < 3 → r.seconds = 0) ∧
    (k < 2 → r.milliseconds = 0) ∧ (k < 1 → r.microseconds = 0) := by
  have hk' : k = 0 ∨ k = 1 ∨ k = 2 ∨ k = 3 ∨ k = 4 ∨ k = 5 ∨ k = 6 := by omega
  rcases hk' with rfl | rfl | rfl | rfl | rfl | rfl | rfl <;>
    simp [splitNs, totalNs, timeNs] <;> omega



theorem scaled_spec (norm : Int) (k : Nat) (sp : Dur)
    (tot : sp.days * 86400000000000 + (sp.hours * 3600000000000 + sp.minutes * 60000000000 + sp.seconds * 1000000000 +
      sp.milliseconds * 1000000 + sp.microseconds * 1000 + sp.nanoseconds) = (norm.natAbs : Int))
    (d0 : 0 ≤ sp.days) (hh0 : 0 ≤ sp.hours) (mi0 : 0 ≤ sp.minutes) (s0 : 0 ≤ sp.seconds) (ms0 : 0 ≤ sp.milliseconds)
    (us0 : 0 ≤ sp.microseconds) (n0 : 0 ≤ sp.nanoseconds)
    (b1' : sp.nanoseconds < 1000) (b2' : sp.microseconds < 1000) (b3' : sp.milliseconds < 1000)
    (b4 : k ≥ 4 → sp.seconds < 60) (b5 : k ≥ 5 → sp.minutes < 60) (b6 : k ≥ 6 → sp.hours < 24) :
    ∀ sg : Int, (sg = -1 ∧ norm < 0) ∨ (sg = 1 ∧ norm > 0) ∨ (sg = 0 ∧ norm = 0) →
      ∀ r : Dur, r = ⟨0, 0, 0, sg * sp.days, sg * sp.hours, sg * sp.minutes, sg * sp.seconds, sg * sp.milliseconds,
        sg * sp.microseconds, sg * sp.nanoseconds⟩ →
      r.totalNs = norm ∧ r.signUniform ∧ (r.nanoseconds.natAbs : Int) < 1000 ∧ (r.microseconds.natAbs : Int) < 1000 ∧
      (r.milliseconds.natAbs : Int) < 1000 ∧ (k ≥ 4 → (r.seconds.natAbs : Int) < 60) ∧
      (k ≥ 5 → (r.minutes.natAbs : Int) < 60) ∧ (k ≥ 6 → (r.hours.natAbs : Int) < 24) := by
    intro sg hsg r hr
    subst hr
    unfold totalNs timeNs signUniform
    simp only [fields, List.mem_cons, List.mem_nil_iff, or_false, forall_eq_or_imp, forall_eq]
    rcases hsg with ⟨rfl, h⟩ | ⟨rfl, h⟩ | ⟨rfl, h⟩
    · refine ⟨by omega, Or.inr (by omega), by omega, by omega, by omega, ?_, ?_, ?_⟩ <;> intro hh
      · have := b4 hh; omega
      · have := b5 hh; omega
      · have := b6 hh; omega
    · refine ⟨by omega, Or.inl (by omega), by omega, by omega, by omega, ?_, ?_, ?_⟩ <;> intro hh
      · have := b4 hh; omega
      · have := b5 hh; omega
      · have := b6 hh; omega
    · refine ⟨by omega, Or.inl (by omega), by omega, by omega, by omega, ?_, ?_, ?_⟩ <;> intro hh
      · have := b4 hh; omega
      · have := b5 hh; omega
      · have := b6 hh; omega

theorem balanceDepth_le (L : TUnit) (k : Nat) (h : balanceDepth L = some k) : k ≤ 6 := by
  cases L <;> simp [balanceDepth] at h <;> omega

/-- Balancing a normalized time duration to a largest unit of seconds or above is exact: the fields recombine to
    the input, are sign-uniform, each lower field is below its modulus, and the result is a valid duration. -/
theorem timeFromNormalized_exact (norm : Int) (L : TUnit) (k : Nat) (hk : balanceDepth L = some k) (h3 : 3 ≤ k)
    (hn : (norm.natAbs : Int) ≤ MAX_TIME_DURATION) :
    ∃ r, timeFromNormalized norm L = .ok r ∧ r.totalNs = norm ∧ r.ValidSpec ∧
      r.years = 0 ∧ r.months = 0 ∧ r.weeks = 0 ∧
      (r.nanoseconds.natAbs : Int) < 1000 ∧ (r.microseconds.natAbs : Int) < 1000 ∧ (r.milliseconds.natAbs : Int) < 1000 ∧
      (k ≥ 4 → (r.seconds.natAbs : Int) < 60) ∧ (k ≥ 5 → (r.minutes.natAbs : Int) < 60) ∧
      (k ≥ 6 → (r.hours.natAbs : Int) < 24) := by
  have hk6 := balanceDepth_le L k hk
  have hs := splitNs_spec (norm.natAbs : Int) k (by omega) hk6
  simp only at hs
  obtain ⟨ht, hy, hmo, hw, d0, hh0, mi0, s0, ms0, us0, n0, b1, b2, b3, b4, b5, b6, z6, z5, z4, z3, z2, z1⟩ := hs
  unfold MAX_TIME_DURATION at hn
  generalize hsp : splitNs (↑norm.natAbs) k = sp at *
  -- every field is at most 2^53, so the conversion to a double is exact
  have tot : sp.days * 86400000000000 + (sp.hours * 3600000000000 + sp.minutes * 60000000000 + sp.seconds * 1000000000 +
      sp.milliseconds * 1000000 + sp.microseconds * 1000 + sp.nanoseconds) = (norm.natAbs : Int) := by
    unfold totalNs timeNs at ht; exact ht
  have e1 := ofInt_small sp.days (by omega)
  have e2 := ofInt_small sp.hours (by omega)
  have e3 := ofInt_small sp.minutes (by omega)
  have e4 := ofInt_small sp.seconds (by omega)
  have e5 := ofInt_small sp.milliseconds (by have := b3 (by omega); omega)
  have e6 := ofInt_small sp.microseconds (by have := b2 (by omega); omega)
  have e7 := ofInt_small sp.nanoseconds (by have := b1 (by omega); omega)
  have b1' := b1 (by omega); have b2' := b2 (by omega); have b3' := b3 (by omega)
  have hsf : ∀ sg : Int, sp.signedF64 sg = ⟨0, 0, 0, sg * sp.days, sg * sp.hours, sg * sp.minutes, sg * sp.seconds,
      sg * sp.milliseconds, sg * sp.microseconds, sg * sp.nanoseconds⟩ := by
    intro sg; unfold signedF64; simp only [e1, e2, e3, e4, e5, e6, e7]
  unfold timeFromNormalized
  simp only [hk, hsp, hsf]
  generalize hsg : (if norm < 0 then (-1:Int) else if norm > 0 then 1 else 0) = sg
  have hsg' : (sg = -1 ∧ norm < 0) ∨ (sg = 1 ∧ norm > 0) ∨ (sg = 0 ∧ norm = 0) := by
    rw [← hsg]; (repeat (any_goals split)) <;> omega
  have key := scaled_spec norm k sp tot d0 hh0 mi0 s0 ms0 us0 n0 b1' b2' b3' b4 b5 b6
  obtain ⟨k1, k2, k3, k4, k5, k6, k7, k8⟩ := key sg hsg' _ rfl
  have hvalid : Dur.ValidSpec ⟨0, 0, 0, sg * sp.days, sg * sp.hours, sg * sp.minutes, sg * sp.seconds,
      sg * sp.milliseconds, sg * sp.microseconds, sg * sp.nanoseconds⟩ :=
    ⟨k2, by show (0:Int).natAbs < 4294967296; decide, by show (0:Int).natAbs < 4294967296; decide,
      by show (0:Int).natAbs < 4294967296; decide, by rw [k1]; omega⟩
  have hv := (valid_iff _).mpr hvalid
  rw [if_pos hv]
  exact ⟨_, rfl, k1, hvalid, rfl, rfl, rfl, k3, k4, k5, k6, k7, k8⟩

end TemporalModel
