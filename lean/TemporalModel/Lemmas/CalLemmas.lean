/-
  Lemmas/CalLemmas.lean — one theorem for every calendar given by year starts and month lengths (`ACal`): if the
  year lengths add up and the year-of-day formula brackets the day, then day ↔ (year, month, day) are mutually
  inverse, every produced date exists, and the next day is the calendar successor.  Then the five day-count
  calendars are shown to satisfy the hypotheses.
-/
import TemporalModel.Model.Calendar
import TemporalModel.Lemmas.GregorianLemmas2
namespace TemporalModel
namespace Cal
open Greg

/-- What a calendar must satisfy (`W`: the days for which the year formula is claimed). -/
structure ACal.Lawful (c : ACal) (W : Int → Prop) : Prop where
  months_pos : ∀ y, 1 ≤ c.months y
  dim_pos : ∀ y m, 1 ≤ m → m ≤ c.months y → 1 ≤ c.dim y m
  year_len : ∀ y, c.yearStart (y + 1) = c.yearStart y + c.diy y
  yearOf_spec : ∀ n, W n → c.yearStart (c.yearOf n) ≤ n ∧ n < c.yearStart (c.yearOf n + 1)

variable {c : ACal} {W : Int → Prop}

theorem before_succ (c : ACal) (y : Int) (k : Nat) : c.before y (k + 1) = c.before y k + c.dim y (k + 1) := rfl

theorem before_pred (c : ACal) (y : Int) (m : Nat) (hm : 1 ≤ m) :
    c.before y m = c.before y (m - 1) + c.dim y m := by
  obtain ⟨k, rfl⟩ : ∃ k, m = k + 1 := ⟨m - 1, by omega⟩
  simp [before_succ]

theorem before_le (h : c.Lawful W) (y : Int) : ∀ k j : Nat, j ≤ k → k ≤ c.months y → c.before y j ≤ c.before y k := by
  intro k
  induction k with
  | zero => intro j hj _; have : j = 0 := by omega
            subst this; exact Int.le_refl _
  | succ k ih =>
    intro j hj hk
    by_cases hjk : j = k + 1
    · subst hjk; exact Int.le_refl _
    · have h1 := ih j (by omega) (by omega)
      have h2 := h.dim_pos y (k + 1) (by omega) hk
      rw [before_succ]; omega

theorem before_nonneg (h : c.Lawful W) (y : Int) (k : Nat) (hk : k ≤ c.months y) : 0 ≤ c.before y k := by
  have := before_le h y k 0 (by omega) hk
  simpa [ACal.before] using this

theorem diy_pos (h : c.Lawful W) (y : Int) : 1 ≤ c.diy y := by
  have h1 := h.months_pos y
  have h2 := before_le h y (c.months y) 1 h1 (Nat.le_refl _)
  have h3 := h.dim_pos y 1 (Nat.le_refl _) h1
  have h4 : c.before y 1 = c.dim y 1 := by simp [ACal.before]
  unfold ACal.diy; omega

theorem yearStart_lt_succ (h : c.Lawful W) (y : Int) : c.yearStart y < c.yearStart (y + 1) := by
  have := h.year_len y; have := diy_pos h y; omega

theorem yearStart_mono (h : c.Lawful W) (a : Int) : ∀ k : Nat, c.yearStart a ≤ c.yearStart (a + k) := by
  intro k
  induction k with
  | zero => simp
  | succ k ih =>
    have := yearStart_lt_succ h (a + k)
    have e : a + ((k + 1 : Nat) : Int) = a + (k : Int) + 1 := by omega
    rw [e]; omega

theorem yearStart_le (h : c.Lawful W) (a b : Int) (hab : a ≤ b) : c.yearStart a ≤ c.yearStart b := by
  have := yearStart_mono h a (b - a).toNat
  have e : a + ((b - a).toNat : Int) = b := by omega
  rwa [e] at this

/-- A year whose span contains the day is the year of the day. -/
theorem yearOf_unique (h : c.Lawful W) (n y : Int) (hW : W n) (h1 : c.yearStart y ≤ n) (h2 : n < c.yearStart (y + 1)) :
    c.yearOf n = y := by
  obtain ⟨s1, s2⟩ := h.yearOf_spec n hW
  by_cases hlt : c.yearOf n < y
  · have := yearStart_le h (c.yearOf n + 1) y (by omega); omega
  · by_cases hgt : y < c.yearOf n
    · have := yearStart_le h (y + 1) (c.yearOf n) (by omega); omega
    · omega

theorem findMonth_spec (h : c.Lawful W) (y : Int) (M : Nat) (hM : M ≤ c.months y) :
    ∀ fuel k (r : Int), k + fuel + 1 = M → 0 ≤ r → r < c.before y M - c.before y k →
      k + 1 ≤ (c.findMonth y fuel k r).1 ∧ (c.findMonth y fuel k r).1 ≤ M ∧ 1 ≤ (c.findMonth y fuel k r).2 ∧
      (c.findMonth y fuel k r).2 ≤ c.dim y (c.findMonth y fuel k r).1 ∧
      c.before y ((c.findMonth y fuel k r).1 - 1) + ((c.findMonth y fuel k r).2 - 1) = c.before y k + r := by
  intro fuel
  induction fuel with
  | zero =>
    intro k r hk h0 hr
    have e : M = k + 1 := by omega
    subst e
    rw [before_succ] at hr
    simp only [ACal.findMonth, Nat.add_sub_cancel]
    refine ⟨Nat.le_refl _, Nat.le_refl _, by omega, by omega, by omega⟩
  | succ fuel ih =>
    intro k r hk h0 hr
    unfold ACal.findMonth
    by_cases hlt : r < c.dim y (k + 1)
    · rw [if_pos hlt]
      simp only [Nat.add_sub_cancel]
      refine ⟨Nat.le_refl _, by omega, by omega, by omega, by omega⟩
    · rw [if_neg hlt]
      have hb := before_succ c y k
      obtain ⟨a1, a2, a3, a4, a5⟩ := ih (k + 1) (r - c.dim y (k + 1)) (by omega) (by omega) (by omega)
      exact ⟨by omega, a2, a3, a4, by omega⟩

theorem findMonth_unique (h : c.Lawful W) (y : Int) (M : Nat) (hM : M ≤ c.months y) :
    ∀ fuel k, k + fuel + 1 = M → ∀ (m : Nat) (d : Int), k + 1 ≤ m → m ≤ M → 1 ≤ d → d ≤ c.dim y m →
      c.findMonth y fuel k (c.before y (m - 1) - c.before y k + (d - 1)) = (m, d) := by
  intro fuel
  induction fuel with
  | zero =>
    intro k hk m d h1 h2 h3 _
    have e : m = k + 1 := by omega
    subst e
    simp only [ACal.findMonth, Nat.add_sub_cancel]
    congr 1; omega
  | succ fuel ih =>
    intro k hk m d h1 h2 h3 h4
    unfold ACal.findMonth
    by_cases e : m = k + 1
    · subst e
      simp only [Nat.add_sub_cancel]
      have hlt : c.before y k - c.before y k + (d - 1) < c.dim y (k + 1) := by omega
      rw [if_pos hlt]; congr 1; omega
    · have hle := before_le h y (m - 1) (k + 1) (by omega) (by omega)
      have hb := before_succ c y k
      have hge : ¬ (c.before y (m - 1) - c.before y k + (d - 1) < c.dim y (k + 1)) := by omega
      rw [if_neg hge]
      have := ih (k + 1) (by omega) m d (by omega) h2 h3 h4
      have e2 : c.before y (m - 1) - c.before y k + (d - 1) - c.dim y (k + 1) =
          c.before y (m - 1) - c.before y (k + 1) + (d - 1) := by omega
      rw [e2]; exact this

/-- **day → date**: the produced date exists and its day number is the day. -/
theorem ofDay_spec (h : c.Lawful W) (n : Int) (hW : W n) :
    c.Valid (c.ofDay n).1 (c.ofDay n).2.1 (c.ofDay n).2.2 ∧
    c.toDay (c.ofDay n).1 (c.ofDay n).2.1 (c.ofDay n).2.2 = n := by
  obtain ⟨s1, s2⟩ := h.yearOf_spec n hW
  have hl := h.year_len (c.yearOf n)
  have hm := h.months_pos (c.yearOf n)
  have hs := findMonth_spec h (c.yearOf n) (c.months (c.yearOf n)) (Nat.le_refl _) (c.months (c.yearOf n) - 1) 0
    (n - c.yearStart (c.yearOf n)) (by omega) (by omega) (by unfold ACal.diy at hl; simp only [ACal.before]; omega)
  obtain ⟨a1, a2, a3, a4, a5⟩ := hs
  simp only [ACal.before, Int.zero_add] at a5
  unfold ACal.Valid ACal.toDay ACal.ofDay
  simp only
  refine ⟨⟨by omega, a2, a3, a4⟩, by omega⟩

theorem toDay_bracket (h : c.Lawful W) (y : Int) (m : Nat) (d : Int) (hv : c.Valid y m d) :
    c.yearStart y ≤ c.toDay y m d ∧ c.toDay y m d < c.yearStart (y + 1) := by
  obtain ⟨h1, h2, h3, h4⟩ := hv
  have hb := before_nonneg h y (m - 1) (by omega)
  have hp := before_pred c y m h1
  have hle := before_le h y (c.months y) m h2 (Nat.le_refl _)
  have hl := h.year_len y
  unfold ACal.diy at hl
  unfold ACal.toDay
  constructor <;> omega

/-- **date → day → date** -/
theorem ofDay_toDay (h : c.Lawful W) (y : Int) (m : Nat) (d : Int) (hv : c.Valid y m d) (hW : W (c.toDay y m d)) :
    c.ofDay (c.toDay y m d) = (y, m, d) := by
  obtain ⟨b1, b2⟩ := toDay_bracket h y m d hv
  have hy := yearOf_unique h _ y hW b1 b2
  obtain ⟨h1, h2, h3, h4⟩ := hv
  have hm := h.months_pos y
  have hu := findMonth_unique h y (c.months y) (Nat.le_refl _) (c.months y - 1) 0 (by omega) m d (by omega) h2 h3 h4
  simp only [ACal.before, Int.sub_zero] at hu
  unfold ACal.ofDay
  simp only [hy]
  have e : c.toDay y m d - c.yearStart y = c.before y (m - 1) + (d - 1) := by unfold ACal.toDay; omega
  rw [e, hu]

theorem next_valid (h : c.Lawful W) (y : Int) (m : Nat) (d : Int) (hv : c.Valid y m d) :
    c.Valid (c.next y m d).1 (c.next y m d).2.1 (c.next y m d).2.2 := by
  obtain ⟨h1, h2, h3, h4⟩ := hv
  unfold ACal.next
  split
  · dsimp only; exact ⟨h1, h2, by omega, by omega⟩
  · split
    · dsimp only; exact ⟨by omega, by omega, by omega, h.dim_pos y (m + 1) (by omega) (by omega)⟩
    · dsimp only
      exact ⟨Nat.le_refl _, h.months_pos _, by omega, h.dim_pos (y + 1) 1 (Nat.le_refl _) (h.months_pos _)⟩

theorem toDay_next (h : c.Lawful W) (y : Int) (m : Nat) (d : Int) (hv : c.Valid y m d) :
    c.toDay (c.next y m d).1 (c.next y m d).2.1 (c.next y m d).2.2 = c.toDay y m d + 1 := by
  obtain ⟨h1, h2, h3, h4⟩ := hv
  have hp := before_pred c y m h1
  unfold ACal.next
  split
  · unfold ACal.toDay; simp only; omega
  · split
    · unfold ACal.toDay; simp only [Nat.add_sub_cancel]; omega
    · have hl := h.year_len y
      unfold ACal.diy at hl
      have e : m = c.months y := by omega
      subst e
      unfold ACal.toDay; simp only [Nat.sub_self, ACal.before]; omega

/-- **consecutive days are consecutive calendar days** -/
theorem ofDay_succ (h : c.Lawful W) (n : Int) (hW : W n) (hW' : W (n + 1)) :
    c.ofDay (n + 1) = c.next (c.ofDay n).1 (c.ofDay n).2.1 (c.ofDay n).2.2 := by
  obtain ⟨hv, ht⟩ := ofDay_spec h n hW
  have hn := next_valid h _ _ _ hv
  have hd := toDay_next h _ _ _ hv
  rw [ht] at hd
  have := ofDay_toDay h _ _ _ hn (by rw [hd]; exact hW')
  rw [hd] at this
  exact this

/-! ### The day-count calendars are lawful -/

theorem copticLike_diy (e y : Int) : (copticLike e).diy y = if y % 4 = 3 then 366 else 365 := by
  simp only [ACal.diy, copticLike, ACal.before, copticDim]
  split <;> simp <;> omega

theorem copticLike_lawful (e : Int) : (copticLike e).Lawful (fun _ => True) where
  months_pos := by intro y; simp [copticLike]
  dim_pos := by
    intro y m _ _
    simp only [copticLike, copticDim]
    split <;> (try split) <;> omega
  year_len := by
    intro y
    rw [copticLike_diy]
    simp only [copticLike]
    split <;> omega
  yearOf_spec := by
    intro n _
    simp only [copticLike]
    constructor <;> omega

theorem islamicLike_diy (e y : Int) : (islamicLike e).diy y = if islamicLeap y then 355 else 354 := by
  simp [ACal.diy, islamicLike, ACal.before, islamicDim]
  split <;> omega

theorem islamicLike_lawful (e : Int) : (islamicLike e).Lawful (fun _ => True) where
  months_pos := by intro y; simp [islamicLike]
  dim_pos := by
    intro y m _ _
    simp only [islamicLike, islamicDim]
    split <;> split <;> omega
  year_len := by
    intro y
    rw [islamicLike_diy]
    simp only [islamicLike, islamicLeap, decide_eq_true_eq]
    have e : 3 + 11 * (y + 1) = 14 + 11 * y := by omega
    rw [e]
    split <;> omega
  yearOf_spec := by
    intro n _
    simp only [islamicLike]
    constructor <;> omega

theorem indian_diy (y : Int) : indian.diy y = Greg.diy (y + 78) := by
  simp [ACal.diy, indian, ACal.before, indianDim, Greg.diy]
  split <;> omega

theorem greg_year_bracket (n : Int) (hn : InDayWin n) :
    Greg.yearStart (NS.ymdFromEpochDays n).1 ≤ n ∧ n < Greg.yearStart ((NS.ymdFromEpochDays n).1 + 1) := by
  obtain ⟨y, m, d, he, hv, _, hd⟩ := fromDays_valid n hn
  rw [he]
  simp only
  obtain ⟨h1, h2, h3, h4⟩ := hv
  have a := monthStart_nonneg y m
  have b := monthStart_lt y m h1 h2
  have s := yearStart_succ y
  unfold dayNumber at hd
  constructor <;> omega

theorem indian_lawful : indian.Lawful InDayWin where
  months_pos := by intro y; simp [indian]
  dim_pos := by
    intro y m _ _
    simp only [indian, indianDim]
    split <;> (try split) <;> (try split) <;> omega
  year_len := by
    intro y
    rw [indian_diy]
    simp only [indian]
    have := yearStart_succ (y + 78)
    have e : y + 1 + 78 = y + 78 + 1 := by omega
    rw [e]; omega
  yearOf_spec := by
    intro n hn
    obtain ⟨b1, b2⟩ := greg_year_bracket n hn
    simp only [indian]
    generalize (NS.ymdFromEpochDays n).1 = gy at *
    have s0 := yearStart_succ (gy - 1)
    have s1 := yearStart_succ gy
    have d0 : 365 ≤ Greg.diy (gy - 1) := by unfold Greg.diy; split <;> omega
    have d1 : 365 ≤ Greg.diy gy := by unfold Greg.diy; split <;> omega
    have e0 : gy - 1 + 1 = gy := by omega
    rw [e0] at s0
    split
    · have e1 : gy - 79 + 78 = gy - 1 := by omega
      have e2 : gy - 79 + 1 + 78 = gy := by omega
      rw [e1, e2]; constructor <;> omega
    · have e1 : gy - 78 + 78 = gy := by omega
      have e2 : gy - 78 + 1 + 78 = gy + 1 := by omega
      rw [e1, e2]; constructor <;> omega

/-! ### Persian: the 33-year rule with its table of corrections -/

theorem persian_diy (y : Int) : persian.diy y = if persianLeap y then 366 else 365 := by
  simp [ACal.diy, persian, ACal.before, persianDim]
  split <;> omega

/-- facts about the table, checked entry by entry -/
theorem table_facts : ∀ t ∈ persianTable,
    inTable (t - 1) = false ∧ inTable (t + 1) = false ∧ (8 * t + 21) % 33 ≥ 25 ∧ (8 * (t + 1) + 21) % 33 < 25 := by
  decide +kernel

theorem inTable_mem (y : Int) (h : inTable y = true) : y ∈ persianTable := by
  unfold inTable at h; simpa using h

theorem persian_year_len (y : Int) : persianStart33 (y + 1) - persianCorr (y + 1) =
    persianStart33 y - persianCorr y + (if persianLeap y then 366 else 365) := by
  unfold persianLeap persianCorr persianStart33
  by_cases h1 : inTable y = true
  · obtain ⟨a, _, c, _⟩ := table_facts y (inTable_mem y h1)
    have e : y + 1 - 1 = y := by omega
    simp only [h1, a, e, if_true, if_false, Bool.false_eq_true]
    omega
  · have h1' : inTable y = false := by simpa using h1
    by_cases h2 : inTable (y - 1) = true
    · obtain ⟨_, _, _, d⟩ := table_facts (y - 1) (inTable_mem _ h2)
      have e : y + 1 - 1 = y := by omega
      have e2 : y - 1 + 1 = y := by omega
      rw [e2] at d
      simp only [h1', h2, e, if_true, if_false, Bool.false_eq_true]
      omega
    · have h2' : inTable (y - 1) = false := by simpa using h2
      have e : y + 1 - 1 = y := by omega
      have k1 : (25 * y + 11) % 33 = 32 - (8 * y + 21) % 33 := by omega
      simp only [h1', h2', e, if_false, Bool.false_eq_true, decide_eq_true_eq]
      split <;> omega

theorem persian33_bracket (n : Int) :
    persianStart33 (1 + (33 * (n - PERSIAN_EPOCH) + 3) / 12053) ≤ n ∧
    n < persianStart33 (1 + (33 * (n - PERSIAN_EPOCH) + 3) / 12053 + 1) := by
  unfold persianStart33
  constructor <;> omega

theorem persian33_step (y : Int) : persianStart33 (y + 1) = persianStart33 y + 365 + (if (8 * y + 21) % 33 ≥ 25 then 1 else 0) := by
  unfold persianStart33; split <;> omega

theorem persian_lawful : persian.Lawful (fun _ => True) where
  months_pos := by intro y; simp [persian]
  dim_pos := by
    intro y m _ _
    simp only [persian, persianDim]
    split <;> (try split) <;> (try split) <;> omega
  year_len := by
    intro y
    rw [persian_diy]
    simp only [persian]
    exact persian_year_len y
  yearOf_spec := by
    intro n _
    simp only [persian]
    obtain ⟨b1, b2⟩ := persian33_bracket n
    generalize 1 + (33 * (n - PERSIAN_EPOCH) + 3) / 12053 = y0 at *
    have s1 := persian33_step y0
    have s2 := persian33_step (y0 + 1)
    by_cases hT : inTable y0 = true
    · obtain ⟨a, a', c, d⟩ := table_facts y0 (inTable_mem y0 hT)
      have c0 : persianCorr y0 = 0 := by simp [persianCorr, a]
      have c1 : persianCorr (y0 + 1) = 1 := by
        have e : y0 + 1 - 1 = y0 := by omega
        simp [persianCorr, e, hT]
      have c2 : persianCorr (y0 + 1 + 1) = 0 := by
        have e : y0 + 1 + 1 - 1 = y0 + 1 := by omega
        simp [persianCorr, e, a']
      rw [if_pos c] at s1
      by_cases h365 : n - (persianStart33 y0 - persianCorr y0) = 365
      · rw [if_pos ⟨h365, hT⟩]
        have : 0 ≤ (if (8 * (y0 + 1) + 21) % 33 ≥ 25 then (1 : Int) else 0) := by split <;> omega
        constructor <;> omega
      · rw [if_neg (fun h => h365 h.1)]
        constructor <;> omega
    · have hT' : inTable y0 = false := by simpa using hT
      rw [if_neg (fun h => hT h.2)]
      have c1 : persianCorr (y0 + 1) = 0 := by
        have e : y0 + 1 - 1 = y0 := by omega
        simp [persianCorr, e, hT']
      have c0 : 0 ≤ persianCorr y0 := by unfold persianCorr; split <;> omega
      constructor <;> omega

/-! ### Every reported year is small: inside Temporal's range no calendar year reaches ±290000 -/

/-- Days of Temporal's range. -/
def InTemporalDays (n : Int) : Prop := -100000001 ≤ n ∧ n ≤ 100000000

theorem copticLike_year_bound (e n : Int) (he : -720000 ≤ e ∧ e ≤ -490000) (hn : InTemporalDays n) :
    -290000 ≤ (copticLike e).yearOf n ∧ (copticLike e).yearOf n ≤ 290000 := by
  unfold InTemporalDays at hn
  simp only [copticLike]; constructor <;> omega

theorem islamicLike_year_bound (e n : Int) (he : -720000 ≤ e ∧ e ≤ -490000) (hn : InTemporalDays n) :
    -290000 ≤ (islamicLike e).yearOf n ∧ (islamicLike e).yearOf n ≤ 290000 := by
  unfold InTemporalDays at hn
  simp only [islamicLike]; constructor <;> omega

theorem ite_bounds (c : Prop) [Decidable c] (a b lo hi : Int) (h1 : lo ≤ a ∧ a ≤ hi) (h2 : lo ≤ b ∧ b ≤ hi) :
    lo ≤ (if c then a else b) ∧ (if c then a else b) ≤ hi := by
  by_cases h : c
  · rw [if_pos h]; exact h1
  · rw [if_neg h]; exact h2

theorem persian_year_bound (n : Int) (hn : InTemporalDays n) :
    -290000 ≤ persian.yearOf n ∧ persian.yearOf n ≤ 290000 := by
  unfold InTemporalDays at hn
  simp only [persian, PERSIAN_EPOCH]
  apply ite_bounds <;> omega

theorem indian_year_bound (n : Int) (hn : InTemporalDays n) :
    -290000 ≤ indian.yearOf n ∧ indian.yearOf n ≤ 290000 := by
  have hw : InDayWin n := by unfold InTemporalDays at hn; unfold InDayWin; omega
  obtain ⟨b1, b2⟩ := greg_year_bracket n hw
  unfold InTemporalDays at hn
  simp only [indian]
  generalize (NS.ymdFromEpochDays n).1 = gy at *
  unfold Greg.yearStart at b1 b2
  split <;> constructor <;> omega

end Cal
end TemporalModel
