import TemporalModel.Spec.Options
namespace TemporalModel

theorem TUnit.max_comm (a b : TUnit) : TUnit.max a b = TUnit.max b a := by
  cases a <;> cases b <;> rfl
theorem validate_auto (g : UnitGroup) (U : Option TUnit) :
    g.validateUnit U (some .auto) = if unitAllowed g true U then .ok () else .err .range := by
  cases g <;> rcases U with _ | u <;> (try cases u) <;> rfl
theorem validate_none (g : UnitGroup) (U : Option TUnit) :
    g.validateUnit U none = if unitAllowed g false U then .ok () else .err .range := by
  cases g <;> rcases U with _ | u <;> (try cases u) <;> rfl
theorem unwrapUnitOr_eq (L : Option TUnit) (d : TUnit) : unwrapUnitOr L d = largestOrDefault L d := by
  rcases L with _ | u <;> (try cases u) <;> rfl

theorem checkIncrement_eq (s : TUnit) (i : Int) (h : 1 ≤ i) :
    checkIncrement s i = if incrementAllowed i s then .ok () else .err .range := by
  unfold checkIncrement incrementAllowed incrementValidate
  cases s <;> simp [TUnit.maxRoundingIncrement, maxIncrementSpec, bind, Out.bind, pure] <;>
    (repeat (any_goals split)) <;> first | rfl | omega | (simp_all; try omega)

theorem incrementValidate_excl (i m : Int) :
    incrementValidate i m false = if decide (i < m) && decide (m % i = 0) then .ok () else .err .range := by
  unfold incrementValidate
  by_cases h1 : i < m <;> by_cases h2 : m % i = 0 <;> simp [h1, h2] <;> omega

theorem incrementValidate_incl (i m : Int) :
    incrementValidate i m true = if decide (i ≤ m) && decide (m % i = 0) then .ok () else .err .range := by
  unfold incrementValidate
  by_cases h1 : i ≤ m <;> by_cases h2 : m % i = 0 <;> simp [h1, h2] <;> omega

theorem guard_bind {β} (c : Bool) (f : Unit → Out β) :
    ((if c = true then Out.ok () else Out.err .range) >>= f) = if c = true then f () else .err .range := by
  cases c <;> rfl


end TemporalModel
