import TemporalModel.Spec.Merge
import TemporalModel.Lemmas.DateLemmas
namespace TemporalModel
open Greg


theorem validateIso_eq (c : MonthCode) :
    c.validateIso = if c.leap ∨ ¬ (1 ≤ c.num ∧ c.num ≤ 12) then .err .range else .ok () := by
  unfold MonthCode.validateIso
  cases c.leap <;> by_cases h : 1 ≤ c.num ∧ c.num ≤ 12 <;> simp [h]

/-- Day resolution of `ResolvedCalendarFields` followed by `new_with_overflow` = the spec's day rule. -/
theorem day_then_new (y m d : Int) (ov : Overflow) (hm : 1 ≤ m ∧ m ≤ 12) :
    ((if ov = .constrain then constrainIsoDay y m d
      else do let dim ← isoDaysInMonth y m; if 1 ≤ d ∧ d ≤ dim then pure d else Out.err .range) >>= fun d' =>
        IsoDate.newWithOverflow y m d' ov) =
    (mergeDaySpec y m d ov >>= fun d' => IsoDate.newWithOverflow y m d' ov) := by
  unfold mergeDaySpec constrainIsoDay
  rw [C01_days_in_month y m hm.1 hm.2]
  cases ov <;> simp

/-- The month resolution of the model (`resolve_iso_month` after the fallback merge) is the spec's month rule. -/
theorem month_resolution (fy fm fd : Int) (wd : Bool) (p : PartialDate) (ov : Overflow) (hr : 1 ≤ fm ∧ fm ≤ 12) :
    (do let merged ← p.withFallback fy fm fd wd
        let c ← resolveIsoMonth merged ov
        pure (c.num : Int) : Out Int) = mergeMonthSpec fm p.month p.monthCode ov := by
  obtain ⟨y, pm, pc, d, pera, pey⟩ := p
  simp only
  have mtc : ∀ k : Int, 1 ≤ k ∧ k ≤ 12 → monthToMonthCode k = .ok ⟨k.toNat, false⟩ := by
    intro k hk; unfold monthToMonthCode; rw [if_pos (by omega)]
  have nat : ∀ k : Int, 1 ≤ k ∧ k ≤ 12 → ((k.toNat : Nat) : Int) = k ∧ 1 ≤ k.toNat ∧ k.toNat ≤ 12 := by
    intro k hk; omega
  unfold PartialDate.withFallback resolveIsoMonth resolveIsoMonthCode mergeMonthSpec
  cases pm with
  | none =>
    cases pc with
    | none =>
      have n := nat fm hr
      have h12 : ¬ (12 < fm) := by omega
      simp [mtc fm hr, validateIso_eq, n.1, n.2.1, n.2.2, h12]
    | some c =>
      simp only [Out.bind_ok, Out.pure_eq_ok, validateIso_eq, ne_eq, not_true_eq_false, if_false]
      split <;> simp
  | some m =>
    cases pc with
    | none =>
      cases ov with
      | constrain =>
        have hc : 1 ≤ clamp m 1 12 ∧ clamp m 1 12 ≤ 12 := by unfold clamp; split <;> (try split) <;> omega
        have n := nat _ hc
        have h12 : ¬ (12 < clamp m 1 12) := by omega
        simp [mtc _ hc, validateIso_eq, n.1, n.2.1, n.2.2, h12]
      | reject =>
        by_cases hm : 1 ≤ m ∧ m ≤ 12
        · have n := nat _ hm
          have h12 : ¬ (12 < m) := by omega
          simp [hm, mtc _ hm, validateIso_eq, n.1, n.2.1, n.2.2, h12]
        · have hm' : 1 ≤ m → 12 < m := by intro h; omega
          simp only [Out.bind_ok, Out.pure_eq_ok, reduceCtorEq, if_false, not_and, Int.not_le]
          rw [if_pos hm', if_neg (by omega)]; rfl
    | some c =>
      by_cases hmc : m ≠ (c.num : Int)
      · simp [hmc]
      · have e : m = (c.num : Int) := by omega
        subst e
        simp only [ne_eq, not_true_eq_false, if_false, Out.pure_eq_ok, Out.bind_ok, validateIso_eq]
        by_cases hv : c.leap = true ∨ ¬(1 ≤ c.num ∧ c.num ≤ 12)
        · rw [if_pos hv, if_pos hv]; rfl
        · rw [if_neg hv, if_neg hv]; rfl


theorem withFallback_ok (p : PartialDate) (fy fm fd : Int) (hr : 1 ≤ fm ∧ fm ≤ 12) :
    ∃ mm cc, p.withFallback fy fm fd true =
      .ok ⟨(if p.year.isSome ∨ p.era ∨ p.eraYear.isSome then p.year else some fy), mm, cc, some (p.day.getD fd),
        p.era, p.eraYear⟩ := by
  obtain ⟨y, pm, pc, d, pera, pey⟩ := p
  unfold PartialDate.withFallback
  cases pm <;> cases pc <;> simp only [Out.bind_ok, Out.pure_eq_ok, if_true]
  · have : monthToMonthCode fm = .ok ⟨fm.toNat, false⟩ := by unfold monthToMonthCode; rw [if_pos (by omega)]
    simp only [this, Out.bind_ok, Out.pure_eq_ok]
    exact ⟨_, _, rfl⟩
  · exact ⟨_, _, rfl⟩
  · exact ⟨_, _, rfl⟩
  · exact ⟨_, _, rfl⟩

theorem resolveIsoMonth_valid (x : PartialDate) (ov : Overflow) (c : MonthCode)
    (h : resolveIsoMonth x ov = .ok c) : 1 ≤ (c.num : Int) ∧ (c.num : Int) ≤ 12 := by
  unfold resolveIsoMonth at h
  cases h1 : resolveIsoMonthCode x ov with
  | err k => rw [h1] at h; cases h
  | panic => rw [h1] at h; cases h
  | ok code =>
    rw [h1] at h
    simp only [Out.bind_ok, validateIso_eq, Out.pure_eq_ok] at h
    split at h
    · cases h
    · rename_i hv
      simp only [Out.bind_ok] at h
      cases h
      simp only [not_or, Decidable.not_not] at hv
      omega


end TemporalModel
